(* SliceFacts.v -- facts about Model/Slice.v (C06):
   strides, the mixed-radix slice numbering (enumeration, bijection, append /
   output-major law), the history invariant of remove_ind / restore_ind,
   gen_output_chunks, the stacking lemma of gather_slices. *)
From Coq Require Import Lia Permutation.
From Ctg Require Import Base Slice BaseFacts.

(* ------------------------------------------------------------------ *)
(* nprod *)
Lemma nprod_acc l : forall a, fold_left Nat.mul l a = a * fold_left Nat.mul l 1.
Proof.
  induction l as [|x l IH]; intros a; cbn [fold_left]; [lia|].
  rewrite (IH (a * x)), (IH (1 * x)). lia.
Qed.
Lemma nprod_nil : nprod [] = 1.
Proof. reflexivity. Qed.
Lemma nprod_cons x l : nprod (x :: l) = x * nprod l.
Proof. unfold nprod. cbn [fold_left]. rewrite nprod_acc. lia. Qed.
Lemma nprod_app l1 l2 : nprod (l1 ++ l2) = nprod l1 * nprod l2.
Proof. induction l1 as [|x l1 IH]; cbn [app]; rewrite ?nprod_cons, ?nprod_nil; [lia|]. rewrite IH. lia. Qed.
Lemma nprod_pos l : Forall (fun x => 1 <= x) l -> 1 <= nprod l.
Proof.
  induction 1 as [|x l Hx _ IH]; rewrite ?nprod_nil, ?nprod_cons; [lia|].
  apply (Nat.mul_le_mono 1 x 1 (nprod l)); assumption.
Qed.
Lemma nprod_perm l1 l2 : Permutation l1 l2 -> nprod l1 = nprod l2.
Proof. induction 1; rewrite ?nprod_cons in *; lia. Qed.

Definition sizes_of (sl : list sinfo) : list nat := map si_size sl.
Definition total (sl : list sinfo) : nat := nprod (sizes_of sl).

Lemma total_cons s sl : total (s :: sl) = si_size s * total sl.
Proof. unfold total, sizes_of. cbn [map]. apply nprod_cons. Qed.
Lemma total_app a b : total (a ++ b) = total a * total b.
Proof. unfold total, sizes_of. rewrite map_app. apply nprod_app. Qed.

(* ------------------------------------------------------------------ *)
(* strides *)
Fixpoint strides_rec (sl : list sinfo) : list nat :=
  match sl with [] => [] | _ :: sl' => total sl' :: strides_rec sl' end.

Definition stride_step (sl : list sinfo) (strides : list nat) (i : nat) : list nat :=
  set_nth i (nth (i + 1) strides 1 * si_size (nth (i + 1) sl dummy_si)) strides.

Lemma loop_shift s sl (js : list nat) : forall x T,
  fold_left (stride_step (s :: sl)) (map S js) (x :: T) = x :: fold_left (stride_step sl) js T.
Proof.
  induction js as [|i js IH]; intros x T; [reflexivity|].
  cbn [map fold_left]. unfold stride_step at 2. cbn [set_nth].
  change (S i + 1) with (S (i + 1)). cbn [nth]. rewrite IH. reflexivity.
Qed.

Lemma strides_fold sl :
  get_slice_strides sl = fold_left (stride_step sl) (rev (seq 0 (length sl - 1))) (repeat 1 (length sl)).
Proof. reflexivity. Qed.

Lemma strides_unfold s sl :
  get_slice_strides (s :: sl) =
  match sl with
  | [] => [1]
  | s' :: _ => (hd 1 (get_slice_strides sl) * si_size s') :: get_slice_strides sl
  end.
Proof.
  rewrite !strides_fold.
  destruct sl as [|s' sl']; [reflexivity|].
  cbn [length]. rewrite !Nat.sub_succ, !Nat.sub_0_r.
  set (m := length sl').
  change (seq 0 (S m)) with (0 :: seq 1 m).
  rewrite <- seq_shift. cbn [rev]. rewrite <- map_rev, fold_left_app.
  cbn [repeat]. rewrite loop_shift. cbn [fold_left].
  unfold stride_step at 1. cbn [set_nth Nat.add nth hd].
  destruct (fold_left (stride_step (s' :: sl')) (rev (seq 0 m)) (1 :: repeat 1 m)) as [|y T] eqn:E; cbn [nth hd]; reflexivity.
Qed.

Lemma strides_length sl : length (get_slice_strides sl) = length sl.
Proof.
  induction sl as [|s sl IH]; [reflexivity|].
  rewrite strides_unfold. destruct sl; [reflexivity|]. cbn [length]. rewrite IH. reflexivity.
Qed.

Lemma strides_is_rec sl : get_slice_strides sl = strides_rec sl.
Proof.
  induction sl as [|s sl IH]; [reflexivity|].
  rewrite strides_unfold. cbn [strides_rec]. destruct sl as [|s' sl'].
  - reflexivity.
  - rewrite IH. cbn [strides_rec hd]. rewrite total_cons. f_equal. lia.
Qed.

(* strides[i] = product of the sizes after position i *)
Lemma strides_spec sl i : i < length sl ->
  nth i (get_slice_strides sl) 1 = total (skipn (S i) sl).
Proof.
  rewrite strides_is_rec. revert i. induction sl as [|s sl IH]; intros i Hi; cbn [length] in Hi; [lia|].
  destruct i as [|i]; cbn [strides_rec nth skipn]; [reflexivity|]. apply IH. lia.
Qed.

(* ------------------------------------------------------------------ *)
(* slice_key as a structural recursion *)
Fixpoint decode (sl : list sinfo) (i : nat) : skey :=
  match sl with
  | [] => []
  | s :: sl' =>
      match si_proj s with
      | None => (si_ind s, i / total sl') :: decode sl' (i mod total sl')
      | Some p => (si_ind s, p) :: decode sl' i
      end
  end.

Lemma slice_key_decode sl i : slice_key sl i = decode sl i.
Proof.
  unfold slice_key. rewrite strides_is_rec. revert i.
  induction sl as [|s sl IH]; intros i; [reflexivity|].
  cbn [strides_rec slice_key_go decode]. destruct (si_proj s); rewrite IH; reflexivity.
Qed.

(* well-formed sliced_inds: sizes >= 1, projected entries have size 1 *)
Definition wf_si (s : sinfo) : Prop := 1 <= si_size s /\ (si_proj s <> None -> si_size s = 1).
Definition wf_sl (sl : list sinfo) : Prop := Forall wf_si sl.

Lemma total_pos sl : wf_sl sl -> 1 <= total sl.
Proof.
  intros H. apply nprod_pos. unfold sizes_of. apply Forall_map.
  eapply Forall_impl; [|exact H]. intros s [Hs _]. exact Hs.
Qed.

(* a key is valid: same indices in the same order, each value inside its sliced_range *)
Definition valid_entry (s : sinfo) (kv : ix * nat) : Prop :=
  fst kv = si_ind s /\ match si_proj s with None => snd kv < si_size s | Some p => snd kv = p end.
Definition valid_key (sl : list sinfo) (key : skey) : Prop := Forall2 valid_entry sl key.

(* the slice number of a key *)
Fixpoint encode (sl : list sinfo) (key : skey) : nat :=
  match sl, key with
  | s :: sl', kv :: key' =>
      (match si_proj s with None => snd kv * total sl' | Some _ => 0 end) + encode sl' key'
  | _, _ => 0
  end.

Lemma div_mod_facts i d m : 1 <= m -> i < d * m ->
  i / m < d /\ i mod m < m /\ (i / m) * m + i mod m = i.
Proof.
  intros Hm Hi. split; [|split].
  - apply Nat.div_lt_upper_bound; lia.
  - apply Nat.mod_upper_bound. lia.
  - pose proof (Nat.div_mod i m ltac:(lia)). lia.
Qed.

Lemma div_mod_unique v r m : r < m -> (v * m + r) / m = v /\ (v * m + r) mod m = r.
Proof.
  intros Hr. split.
  - rewrite Nat.div_add_l by lia. rewrite Nat.div_small by lia. lia.
  - rewrite Nat.add_comm, Nat.mod_add by lia. apply Nat.mod_small. lia.
Qed.

Lemma decode_valid sl : wf_sl sl -> forall i, i < total sl -> valid_key sl (decode sl i).
Proof.
  induction 1 as [|s sl [Hs Hp] Hwf IH]; intros i Hi; [constructor|].
  rewrite total_cons in Hi. pose proof (total_pos sl Hwf) as Hm.
  cbn [decode]. destruct (si_proj s) as [p|] eqn:E.
  - rewrite Hp in Hi by congruence. constructor; [|apply IH; lia].
    unfold valid_entry. rewrite E. cbn. auto.
  - destruct (div_mod_facts i (si_size s) (total sl) Hm Hi) as (H1 & H2 & _).
    constructor; [|apply IH; exact H2]. unfold valid_entry. rewrite E. cbn. auto.
Qed.

Lemma encode_decode sl : wf_sl sl -> forall i, i < total sl -> encode sl (decode sl i) = i.
Proof.
  induction 1 as [|s sl [Hs Hp] Hwf IH]; intros i Hi.
  - unfold total, sizes_of in Hi. cbn in Hi. cbn. lia.
  - rewrite total_cons in Hi. pose proof (total_pos sl Hwf) as Hm.
    cbn [decode]. destruct (si_proj s) as [p|] eqn:E; cbn [encode]; rewrite E.
    + rewrite Hp in Hi by congruence. rewrite IH by lia. lia.
    + destruct (div_mod_facts i (si_size s) (total sl) Hm Hi) as (H1 & H2 & H3).
      cbn [snd]. rewrite IH by exact H2. exact H3.
Qed.

Lemma decode_encode sl : wf_sl sl -> forall key, valid_key sl key ->
  encode sl key < total sl /\ decode sl (encode sl key) = key.
Proof.
  induction 1 as [|s sl [Hs Hp] Hwf IH]; intros key Hk.
  - inversion Hk; subst. cbn. unfold total, sizes_of. cbn. split; [lia|reflexivity].
  - inversion Hk as [|s0 kv sl0 key' [Hf Hv] Hk']; subst.
    destruct (IH key' Hk') as [IH1 IH2]. pose proof (total_pos sl Hwf) as Hm.
    rewrite total_cons. cbn [encode decode]. destruct kv as [j v]. cbn [fst snd] in *.
    destruct (si_proj s) as [p|] eqn:E.
    + rewrite Hp by congruence. split; [lia|]. cbn [Nat.add]. rewrite IH2. subst. reflexivity.
    + destruct (div_mod_unique v (encode sl key') (total sl) IH1) as [D M].
      split.
      * apply Nat.lt_le_trans with (v * total sl + total sl); [lia|].
        replace (v * total sl + total sl) with ((S v) * total sl) by lia.
        apply Nat.mul_le_mono_r. lia.
      * rewrite D, M, IH2. subst. reflexivity.
Qed.

Lemma slice_key_injective sl : wf_sl sl -> forall i j, i < total sl -> j < total sl ->
  slice_key sl i = slice_key sl j -> i = j.
Proof.
  intros Hwf i j Hi Hj E. rewrite !slice_key_decode in E.
  rewrite <- (encode_decode sl Hwf i Hi), <- (encode_decode sl Hwf j Hj), E. reflexivity.
Qed.

Lemma slice_key_surjective sl : wf_sl sl -> forall key, valid_key sl key ->
  exists i, i < total sl /\ slice_key sl i = key.
Proof.
  intros Hwf key Hk. destruct (decode_encode sl Hwf key Hk) as [H1 H2].
  exists (encode sl key). rewrite slice_key_decode. auto.
Qed.

(* ------------------------------------------------------------------ *)
(* enumeration: the slice numbers list the product of the sliced ranges in
   lexicographic order, each combination exactly once *)
Fixpoint all_keys (sl : list sinfo) : list skey :=
  match sl with
  | [] => [[]]
  | s :: sl' => flat_map (fun v => map (cons (si_ind s, v)) (all_keys sl')) (sliced_range s)
  end.

Lemma seq_from a m : seq a m = map (fun r => a + r) (seq 0 m).
Proof.
  revert a. induction m as [|m IH]; intros a; [reflexivity|].
  cbn [seq map]. f_equal; [lia|]. rewrite (IH (S a)), <- seq_shift, map_map.
  apply map_ext. intros; lia.
Qed.

Lemma seq_mixed d m :
  seq 0 (d * m) = flat_map (fun v => map (fun r => v * m + r) (seq 0 m)) (seq 0 d).
Proof.
  induction d as [|d IH]; [reflexivity|].
  replace (S d * m) with (d * m + m) by lia.
  rewrite seq_app, IH, seq_S, flat_map_app. cbn [flat_map Nat.add]. rewrite app_nil_r.
  f_equal. apply seq_from.
Qed.

Lemma flat_map_map {A B C} (f : A -> B) (g : B -> list C) l :
  flat_map g (map f l) = flat_map (fun x => g (f x)) l.
Proof. induction l as [|x l IH]; cbn; [reflexivity|]. rewrite IH. reflexivity. Qed.
Lemma map_flat_map {A B C} (f : B -> C) (g : A -> list B) l :
  map f (flat_map g l) = flat_map (fun x => map f (g x)) l.
Proof. induction l as [|x l IH]; cbn; [reflexivity|]. rewrite map_app, IH. reflexivity. Qed.
Lemma flat_map_ext_in {A B} (f g : A -> list B) l :
  (forall x, In x l -> f x = g x) -> flat_map f l = flat_map g l.
Proof.
  induction l as [|x l IH]; intros H; cbn; [reflexivity|].
  rewrite H by (left; reflexivity). rewrite IH; [reflexivity|]. intros y Hy. apply H. right; exact Hy.
Qed.

Lemma keys_enumeration sl : wf_sl sl -> map (decode sl) (seq 0 (total sl)) = all_keys sl.
Proof.
  induction 1 as [|s sl [Hs Hp] Hwf IH]; [reflexivity|].
  pose proof (total_pos sl Hwf) as Hm.
  rewrite total_cons. cbn [all_keys]. unfold sliced_range. destruct (si_proj s) as [p|] eqn:E.
  - rewrite Hp by congruence. rewrite Nat.mul_1_l. cbn [flat_map]. rewrite app_nil_r, <- IH, map_map.
    apply map_ext. intros i. cbn [decode]. rewrite E. reflexivity.
  - rewrite seq_mixed, map_flat_map. apply flat_map_ext_in. intros v _.
    rewrite <- IH, !map_map. apply map_ext_in. intros r Hr. apply in_seq in Hr.
    cbn [decode]. rewrite E.
    destruct (div_mod_unique v r (total sl) ltac:(lia)) as [D M]. rewrite D, M. reflexivity.
Qed.

Lemma slice_keys_enumeration sl : wf_sl sl -> map (slice_key sl) (seq 0 (total sl)) = all_keys sl.
Proof.
  intros H. rewrite <- (keys_enumeration sl H). apply map_ext. intros; apply slice_key_decode.
Qed.

(* ------------------------------------------------------------------ *)
(* append law: the key of a concatenation splits the slice number by div / mod *)
Lemma decode_app a b : wf_sl a -> wf_sl b -> forall i, i < total (a ++ b) ->
  decode (a ++ b) i = decode a (i / total b) ++ decode b (i mod total b).
Proof.
  intros Ha Hb. pose proof (total_pos b Hb) as HB.
  induction Ha as [|s a [Hs Hp] Ha IH]; intros i Hi.
  - cbn [app decode] in *. rewrite Nat.mod_small by exact Hi. reflexivity.
  - pose proof (total_pos a Ha) as HA.
    cbn [app] in Hi. rewrite total_cons in Hi.
    assert (HAB : 1 <= total (a ++ b)) by (rewrite total_app; apply (Nat.mul_le_mono 1 _ 1 _); assumption).
    cbn [app decode]. destruct (si_proj s) as [p|] eqn:E.
    + rewrite Hp in Hi by congruence. rewrite IH by lia. reflexivity.
    + rewrite IH by (apply Nat.mod_upper_bound; lia). rewrite total_app. cbn [app]. f_equal.
      * f_equal. rewrite (Nat.mul_comm (total a)). rewrite Nat.div_div by lia. reflexivity.
      * rewrite (Nat.mul_comm (total a)). rewrite Nat.mod_mul_r by lia.
        f_equal.
        -- f_equal. rewrite Nat.mul_comm, Nat.div_add by lia.
           rewrite (Nat.div_small (i mod total b)) by (apply Nat.mod_upper_bound; lia). reflexivity.
        -- f_equal. rewrite Nat.mul_comm, Nat.mod_add by lia. apply Nat.mod_mod. lia.
Qed.

(* outer-first order: all inner=false entries precede all inner=true entries *)
Definition outs (sl : list sinfo) := filter (fun s => negb (si_inner s)) sl.
Definition inns (sl : list sinfo) := filter si_inner sl.

Lemma filter_all {A} (f : A -> bool) l : forallb f l = true -> filter f l = l.
Proof.
  induction l as [|x l IH]; cbn; [reflexivity|]. intros H. apply andb_prop in H. destruct H as [H1 H2].
  rewrite H1, IH by exact H2. reflexivity.
Qed.
Lemma filter_none {A} (f : A -> bool) l : forallb f l = true -> filter (fun x => negb (f x)) l = [].
Proof.
  induction l as [|x l IH]; cbn; [reflexivity|]. intros H. apply andb_prop in H. destruct H as [H1 H2].
  rewrite H1. cbn. apply IH, H2.
Qed.

Lemma outer_first_split sl : outer_first_b sl = true -> sl = outs sl ++ inns sl.
Proof.
  unfold outs, inns. induction sl as [|s sl IH]; [reflexivity|]. cbn [outer_first_b filter].
  destruct (si_inner s) eqn:E; cbn [negb]; intros H.
  - rewrite filter_none, filter_all by exact H. reflexivity.
  - cbn [app]. f_equal. apply IH, H.
Qed.

Lemma wf_filter f sl : wf_sl sl -> wf_sl (filter f sl).
Proof.
  unfold wf_sl. rewrite !Forall_forall. intros H s Hs. apply filter_In in Hs. apply H, Hs.
Qed.

Lemma stepsize_total sl : stepsize sl = total (inns sl).
Proof. reflexivity. Qed.
Lemma nchunks_total sl : nchunks sl = total (outs sl).
Proof. reflexivity. Qed.

Lemma total_split sl : outer_first_b sl = true -> total sl = nchunks sl * stepsize sl.
Proof.
  intros H. rewrite (outer_first_split sl H) at 1. rewrite total_app. reflexivity.
Qed.

(* output-major: slice o*step + j has the output part of chunk o and the inner part j *)
Lemma slice_key_output_major sl : wf_sl sl -> outer_first_b sl = true ->
  forall o j, o < nchunks sl -> j < stepsize sl ->
  slice_key sl (o * stepsize sl + j) = slice_key (outs sl) o ++ slice_key (inns sl) j.
Proof.
  intros Hwf Hof o j Ho Hj. rewrite !slice_key_decode.
  assert (Hlt : o * stepsize sl + j < total (outs sl ++ inns sl)).
  { rewrite total_app. rewrite stepsize_total, nchunks_total in *.
    apply Nat.lt_le_trans with (S o * total (inns sl)); [lia|]. apply Nat.mul_le_mono_r. lia. }
  rewrite (outer_first_split sl Hof) at 1.
  rewrite decode_app by (try apply wf_filter; assumption).
  rewrite stepsize_total in *.
  destruct (div_mod_unique o j (total (inns sl)) Hj) as [D M]. rewrite D, M. reflexivity.
Qed.

(* ------------------------------------------------------------------ *)
(* the history invariant of remove_ind / restore_ind *)
Lemma insert_by_perm {A} (le : A -> A -> bool) (x : A) l : Permutation (insert_by le x l) (x :: l).
Proof.
  induction l as [|y l IH]; cbn [insert_by]; [reflexivity|].
  destruct (le y x); [|reflexivity]. rewrite IH. apply perm_swap.
Qed.
Lemma fold_insert_perm {A} (le : A -> A -> bool) (l : list A) : forall acc,
  Permutation (fold_left (fun acc x => insert_by le x acc) l acc) (l ++ acc).
Proof.
  induction l as [|x l IH]; intros acc; cbn [fold_left app]; [reflexivity|].
  rewrite IH, insert_by_perm. symmetry. apply Permutation_middle.
Qed.
Lemma sort_by_perm {A} (le : A -> A -> bool) (l : list A) : Permutation (sort_by le l) l.
Proof. unfold sort_by. rewrite fold_insert_perm, app_nil_r. reflexivity. Qed.

Lemma si_le_inner a b : si_le a b = true -> si_inner a = true -> si_inner b = true.
Proof. unfold si_le, si_cmp. destruct (si_inner a), (si_inner b); cbn; congruence. Qed.
Lemma si_nle_inner a b : si_le a b = false -> si_inner b = true -> si_inner a = true.
Proof. unfold si_le, si_cmp. destruct (si_inner a), (si_inner b); cbn; congruence. Qed.

Lemma forallb_insert x l : si_inner x = true -> forallb si_inner l = true ->
  forallb si_inner (insert_by si_le x l) = true.
Proof.
  intros Hx. induction l as [|y l IH]; cbn [insert_by forallb]; intros H.
  - rewrite Hx. reflexivity.
  - apply andb_prop in H. destruct H as [H1 H2].
    destruct (si_le y x); cbn [forallb]; rewrite ?H1, ?Hx, ?H2, ?IH by exact H2; reflexivity.
Qed.

Lemma outer_first_insert x l : outer_first_b l = true -> outer_first_b (insert_by si_le x l) = true.
Proof.
  induction l as [|y l IH]; cbn [insert_by outer_first_b]; intros H.
  - destruct (si_inner x); reflexivity.
  - destruct (si_le y x) eqn:E; cbn [outer_first_b].
    + destruct (si_inner y) eqn:Ey.
      * apply forallb_insert; [eapply si_le_inner; eassumption|exact H].
      * apply IH, H.
    + destruct (si_inner x) eqn:Ex.
      * cbn [forallb]. pose proof (si_nle_inner y x E Ex) as Ey. rewrite Ey in *. rewrite H. reflexivity.
      * exact H.
Qed.

Lemma outer_first_sort l : forall acc, outer_first_b acc = true ->
  outer_first_b (fold_left (fun acc x => insert_by si_le x acc) l acc) = true.
Proof.
  induction l as [|x l IH]; intros acc H; cbn [fold_left]; [exact H|]. apply IH, outer_first_insert, H.
Qed.

Lemma outer_first_filter f l : outer_first_b l = true -> outer_first_b (filter f l) = true.
Proof.
  induction l as [|y l IH]; cbn [filter outer_first_b]; intros H; [reflexivity|].
  assert (Hall : forall l', forallb si_inner l' = true -> outer_first_b (filter f l') = true).
  { clear. induction l' as [|z l' IH]; cbn; [reflexivity|]. intros H. apply andb_prop in H. destruct H as [H1 H2].
    destruct (f z); cbn; [rewrite H1|]; auto.
    clear IH. induction l' as [|w l' IH]; cbn in *; [reflexivity|]. apply andb_prop in H2. destruct H2 as [H3 H4].
    destruct (f w); cbn; rewrite ?H3; auto. }
  destruct (f y); cbn [outer_first_b]; destruct (si_inner y) eqn:Ey.
  - clear IH Hall. induction l as [|w l IH]; cbn in *; [reflexivity|]. apply andb_prop in H. destruct H as [H3 H4].
    destruct (f w); cbn; rewrite ?H3; auto.
  - apply IH, H.
  - apply Hall, H.
  - apply IH, H.
Qed.

(* the invariant *)
Definition flags_ok (output : list ix) (sl : list sinfo) : Prop :=
  Forall (fun s => si_inner s = negb (memb (si_ind s) output)) sl.
Definition inv (output : list ix) (st : sstate) : Prop :=
  wf_sl (ss_sliced st) /\ outer_first_b (ss_sliced st) = true /\ NoDup (map si_ind (ss_sliced st))
  /\ ss_mult st = total (ss_sliced st) /\ flags_ok output (ss_sliced st).

Definition sizes_ok (szd : list (ix * nat)) : Prop := Forall (fun kv => 1 <= snd kv) szd.
Lemma nget_pos szd j : sizes_ok szd -> 1 <= nget j szd.
Proof.
  induction 1 as [|[k v] d Hkv _ IH]; cbn [nget]; [lia|]. destruct (Nat.eqb k j); [exact Hkv|exact IH].
Qed.

Lemma inv_init output : inv output ss_init.
Proof. repeat split; try constructor. Qed.

Lemma total_perm a b : Permutation a b -> total a = total b.
Proof. intros H. unfold total, sizes_of. apply nprod_perm, Permutation_map, H. Qed.

Lemma add_si_inv output st si m sin : inv output st -> wf_si si ->
  ~ In (si_ind si) (map si_ind (ss_sliced st)) -> si_inner si = negb (memb (si_ind si) output) ->
  m = ss_mult st * si_size si ->
  inv output (mkSS (sort_by si_le (ss_sliced st ++ [si])) m sin).
Proof.
  intros (Hwf & Hof & Hnd & Hm & Hfl) Hwsi Hnin Hinn ->.
  assert (HP : Permutation (sort_by si_le (ss_sliced st ++ [si])) (si :: ss_sliced st)).
  { rewrite sort_by_perm. rewrite Permutation_app_comm. reflexivity. }
  unfold inv. cbn [ss_sliced ss_mult]. repeat split.
  - unfold wf_sl. eapply Permutation_Forall; [symmetry; exact HP|]. constructor; assumption.
  - unfold sort_by. apply outer_first_sort. reflexivity.
  - eapply Permutation_NoDup; [symmetry; apply Permutation_map; exact HP|].
    cbn [map]. constructor; [exact Hnin|exact Hnd].
  - rewrite (total_perm _ _ HP), total_cons, Hm. lia.
  - unfold flags_ok. eapply Permutation_Forall; [symmetry; exact HP|]. constructor; [exact Hinn|exact Hfl].
Qed.

Lemma remove_ind_inv inputs output szd st ind project st' : sizes_ok szd -> inv output st ->
  remove_ind inputs output szd st ind project = Some st' -> inv output st'.
Proof.
  intros Hsz Hinv. unfold remove_ind.
  destruct (memb ind (map si_ind (ss_sliced st))) eqn:Emem; [discriminate|].
  apply memb_false in Emem. pose proof (nget_pos szd ind Hsz) as Hd.
  destruct project as [v|]; intros E; inversion E; subst st'; clear E.
  - apply add_si_inv; cbn; try assumption; try reflexivity; try lia.
    split; cbn; [lia|reflexivity].
  - apply add_si_inv; cbn; try assumption; try reflexivity.
    split; cbn; [exact Hd|congruence].
Qed.

Lemma total_remove_one ind sl si : NoDup (map si_ind sl) ->
  find (fun s => Nat.eqb (si_ind s) ind) sl = Some si ->
  total sl = si_size si * total (filter (fun s => negb (Nat.eqb (si_ind s) ind)) sl).
Proof.
  induction sl as [|s sl IH]; cbn [find filter map]; intros Hnd E; [discriminate|].
  inversion Hnd as [|? ? Hnin Hnd']; subst.
  destruct (Nat.eqb_spec (si_ind s) ind) as [Heq|Hne]; cbn [negb].
  - inversion E; subst si. rewrite total_cons. f_equal.
    f_equal. symmetry. apply filter_all. apply forallb_forall. intros x Hx.
    apply negb_true_iff, Nat.eqb_neq. intros Hx'. apply Hnin. rewrite Heq, <- Hx'. apply in_map, Hx.
  - rewrite !total_cons, (IH Hnd' E). lia.
Qed.

Lemma NoDup_map_filter {A B} (g : A -> B) f l : NoDup (map g l) -> NoDup (map g (filter f l)).
Proof.
  induction l as [|x l IH]; cbn; intros H; [constructor|]. inversion H as [|? ? Hnin H']; subst.
  destruct (f x); cbn; [constructor|]; auto.
  intros Hin. apply Hnin. apply in_map_iff in Hin. destruct Hin as (y & Ey & Hy).
  apply in_map_iff. exists y. split; [exact Ey|]. apply filter_In in Hy. apply Hy.
Qed.

Lemma restore_ind_inv inputs output st ind st' : inv output st ->
  restore_ind inputs st ind = Some st' -> inv output st'.
Proof.
  intros (Hwf & Hof & Hnd & Hm & Hfl). unfold restore_ind.
  destruct (find (fun s => Nat.eqb (si_ind s) ind) (ss_sliced st)) as [si|] eqn:E; [|discriminate].
  intros E'. inversion E'; subst st'; clear E'. unfold inv. cbn [ss_sliced ss_mult]. repeat split.
  - apply wf_filter, Hwf.
  - apply outer_first_filter, Hof.
  - apply NoDup_map_filter, Hnd.
  - rewrite Hm, (total_remove_one ind _ si Hnd E).
    apply find_some in E. destruct E as [Hin _].
    unfold wf_sl in Hwf. rewrite Forall_forall in Hwf. destruct (Hwf si Hin) as [Hs _].
    rewrite Nat.mul_comm, Nat.div_mul by lia. reflexivity.
  - unfold flags_ok in *. rewrite Forall_forall in *. intros s Hs. apply filter_In in Hs. apply Hfl, Hs.
Qed.

Lemma run_ops_inv_gen inputs output szd ops : sizes_ok szd -> forall st, inv output st ->
  inv output (fold_left (fun st o => match run_op inputs output szd st o with Some st' => st' | None => st end) ops st).
Proof.
  intros Hsz. induction ops as [|o ops IH]; intros st Hst; cbn [fold_left]; [exact Hst|].
  apply IH. destruct (run_op inputs output szd st o) as [st'|] eqn:E; [|exact Hst].
  destruct o as [i p|i]; cbn [run_op] in E.
  - eapply remove_ind_inv; eassumption.
  - eapply restore_ind_inv; eassumption.
Qed.

Lemma run_ops_inv inputs output szd ops : sizes_ok szd -> inv output (run_ops inputs output szd ops).
Proof. intros H. apply run_ops_inv_gen; [exact H|apply inv_init]. Qed.

(* soundness of the checker run on the real state *)
Lemma nodup_b_sound l : nodup_b l = true -> NoDup l.
Proof.
  induction l as [|x l IH]; cbn; intros H; [constructor|]. apply andb_prop in H. destruct H as [H1 H2].
  constructor; [|apply IH, H2]. apply negb_true_iff, memb_false in H1. exact H1.
Qed.

Lemma sl_ok_b_sound output st : sl_ok_b output st = true -> inv output st.
Proof.
  unfold sl_ok_b. intros H.
  apply andb_prop in H. destruct H as [H H4]. apply andb_prop in H. destruct H as [H H3].
  apply andb_prop in H. destruct H as [H1 H2].
  rewrite forallb_forall in H1.
  unfold inv. repeat split.
  - unfold wf_sl. apply Forall_forall. intros s Hs. specialize (H1 s Hs). unfold si_ok_b in H1.
    apply andb_prop in H1. destruct H1 as [H1 _]. apply andb_prop in H1. destruct H1 as [Ha Hb].
    apply Nat.leb_le in Ha. split; [exact Ha|]. intros Hp. destruct (si_proj s); [apply Nat.eqb_eq, Hb|congruence].
  - exact H2.
  - apply nodup_b_sound, H3.
  - apply Nat.eqb_eq, H4.
  - unfold flags_ok. apply Forall_forall. intros s Hs. specialize (H1 s Hs). unfold si_ok_b in H1.
    apply andb_prop in H1. destruct H1 as [_ H1]. apply Bool.eqb_prop, H1.
Qed.

(* ------------------------------------------------------------------ *)
(* gen_output_chunks *)
Lemma decode_inds sl : forall i, map fst (decode sl i) = map si_ind sl.
Proof.
  induction sl as [|s sl IH]; intros i; [reflexivity|]. cbn [decode map].
  destruct (si_proj s); cbn [map fst]; rewrite IH; reflexivity.
Qed.

Lemma forallb_map {A B} (g : A -> B) (f : B -> bool) l : forallb f (map g l) = forallb (fun x => f (g x)) l.
Proof. induction l as [|x l IH]; cbn; [reflexivity|]. rewrite IH. reflexivity. Qed.

Lemma filter_by_fst_all (f : ix -> bool) (k : skey) :
  forallb f (map fst k) = true -> filter (fun kv => f (fst kv)) k = k.
Proof. intros H. apply filter_all. rewrite forallb_map in H. exact H. Qed.
Lemma filter_by_fst_none (f : ix -> bool) (k : skey) :
  forallb (fun j => negb (f j)) (map fst k) = true -> filter (fun kv => f (fst kv)) k = [].
Proof.
  induction k as [|kv k IH]; cbn; [reflexivity|]. intros H. apply andb_prop in H. destruct H as [H1 H2].
  apply negb_true_iff in H1. rewrite H1. apply IH, H2.
Qed.

Lemma outs_in_output output sl : flags_ok output sl ->
  forallb (fun j => memb j output) (map si_ind (outs sl)) = true.
Proof.
  unfold flags_ok, outs. rewrite Forall_forall. intros H. rewrite forallb_map. apply forallb_forall.
  intros s Hs. apply filter_In in Hs. destruct Hs as [Hin Hs]. rewrite (H s Hin) in Hs.
  rewrite negb_involutive in Hs. exact Hs.
Qed.
Lemma inns_not_in_output output sl : flags_ok output sl ->
  forallb (fun j => negb (memb j output)) (map si_ind (inns sl)) = true.
Proof.
  unfold flags_ok, inns. rewrite Forall_forall. intros H. rewrite forallb_map. apply forallb_forall.
  intros s Hs. apply filter_In in Hs. destruct Hs as [Hin Hs]. rewrite (H s Hin) in Hs. exact Hs.
Qed.

Lemma output_part_of_key output sl : wf_sl sl -> outer_first_b sl = true -> flags_ok output sl ->
  forall o j, o < nchunks sl -> j < stepsize sl ->
  filter (fun kv => memb (fst kv) output) (slice_key sl (o * stepsize sl + j)) = slice_key (outs sl) o.
Proof.
  intros Hwf Hof Hfl o j Ho Hj. rewrite (slice_key_output_major sl Hwf Hof o j Ho Hj), filter_app.
  rewrite (filter_by_fst_all (fun a => memb a output)), (filter_by_fst_none (fun a => memb a output)).
  - apply app_nil_r.
  - rewrite slice_key_decode, decode_inds. apply inns_not_in_output, Hfl.
  - rewrite slice_key_decode, decode_inds. apply outs_in_output, Hfl.
Qed.

Lemma tget_fold_tadd (f : nat -> tens) l : forall c idx,
  tget (fold_left (fun c j => tadd c (f j)) l c) idx = (tget c idx + zsum (map (fun j => tget (f j) idx) l))%Z.
Proof.
  induction l as [|j l IH]; intros c idx; cbn [fold_left map].
  - unfold zsum. cbn. lia.
  - rewrite IH, zsum_cons. cbn [tadd tget]. lia.
Qed.

Lemma stepsize_pos sl : wf_sl sl -> 1 <= stepsize sl.
Proof. intros H. rewrite stepsize_total. apply total_pos, wf_filter, H. Qed.

(* chunk o: key = the o-th combination of the sliced output indices, value = the sum of
   the stepsize consecutive slices o*step .. o*step+step-1 *)
Lemma gen_output_chunks_spec output st slice : inv output st ->
  length (gen_output_chunks st output slice) = nchunks (ss_sliced st) /\
  forall o, o < nchunks (ss_sliced st) ->
    exists chunk, nth_error (gen_output_chunks st output slice) o = Some (chunk, slice_key (outs (ss_sliced st)) o)
      /\ forall idx, tget chunk idx =
           zsum (map (fun j => tget (slice (o * stepsize (ss_sliced st) + j)) idx) (seq 0 (stepsize (ss_sliced st)))).
Proof.
  intros (Hwf & Hof & Hnd & Hm & Hfl). unfold gen_output_chunks. unfold nslices. rewrite Hm.
  pose proof (stepsize_pos _ Hwf) as Hstep.
  rewrite (total_split _ Hof), Nat.div_mul by lia.
  split; [rewrite map_length, seq_length; reflexivity|].
  intros o Ho. eexists. split.
  - rewrite nth_error_map. rewrite nth_error_nth' with (d := 0) by (rewrite seq_length; exact Ho).
    rewrite seq_nth by exact Ho. cbn [option_map Nat.add]. f_equal. f_equal.
    rewrite <- (Nat.add_0_r (o * stepsize (ss_sliced st))).
    apply (output_part_of_key output _ Hwf Hof Hfl o 0 Ho). lia.
  - intros idx. rewrite tget_fold_tadd.
    replace (stepsize (ss_sliced st)) with (S (stepsize (ss_sliced st) - 1)) at 3 by lia.
    cbn [seq map]. rewrite zsum_cons, Nat.add_0_r. reflexivity.
Qed.

(* the slice numbers visited by the chunks are 0 .. nslices-1, each exactly once, in order *)
Lemma chunks_tile_slices output st : inv output st ->
  flat_map (fun o => map (fun j => o * stepsize (ss_sliced st) + j) (seq 0 (stepsize (ss_sliced st))))
           (seq 0 (nchunks (ss_sliced st))) = seq 0 (nslices st).
Proof.
  intros (Hwf & Hof & Hnd & Hm & Hfl). unfold nslices. rewrite Hm, (total_split _ Hof).
  symmetry. apply seq_mixed.
Qed.

(* NoDup of the enumeration, hence "exactly once" *)
Lemma NoDup_app_intro {A} (a b : list A) :
  NoDup a -> NoDup b -> (forall x, In x a -> ~ In x b) -> NoDup (a ++ b).
Proof.
  induction a as [|x a IH]; cbn; intros Ha Hb Hd; [exact Hb|].
  inversion Ha as [|? ? Hnin Ha']; subst. constructor.
  - rewrite in_app_iff. intros [H|H]; [contradiction|]. apply (Hd x); [left; reflexivity|exact H].
  - apply IH; [exact Ha'|exact Hb|]. intros y Hy. apply Hd. right; exact Hy.
Qed.

Lemma NoDup_flat_map_cons {A} (l : list nat) (f : nat -> A) (L : list (list A)) :
  NoDup l -> NoDup L -> (forall x y, f x = f y -> x = y) ->
  NoDup (flat_map (fun v => map (cons (f v)) L) l).
Proof.
  intros Hl HL Hf. induction Hl as [|v l Hnin Hl IH]; cbn [flat_map]; [constructor|].
  apply NoDup_app_intro.
  - apply FinFun.Injective_map_NoDup; [|exact HL]. intros a b E. inversion E. reflexivity.
  - exact IH.
  - intros k Hk Hk'. apply in_map_iff in Hk. destruct Hk as (k0 & <- & _).
    apply in_flat_map in Hk'. destruct Hk' as (w & Hw & Hk'). apply in_map_iff in Hk'.
    destruct Hk' as (k1 & E & _). inversion E as [[E1 E2]]. apply Hf in E1. subst w. contradiction.
Qed.

Lemma all_keys_NoDup sl : NoDup (all_keys sl).
Proof.
  induction sl as [|s sl IH]; cbn [all_keys]; [repeat constructor; intros []|].
  apply (NoDup_flat_map_cons (sliced_range s) (fun v => (si_ind s, v)) (all_keys sl)).
  - unfold sliced_range. destruct (si_proj s); [repeat constructor; intros []|apply seq_NoDup].
  - exact IH.
  - intros x y E. inversion E. reflexivity.
Qed.

Lemma in_all_keys sl key : In key (all_keys sl) <-> valid_key sl key.
Proof.
  revert key. induction sl as [|s sl IH]; intros key; cbn [all_keys].
  - split; [intros [<-|[]]; constructor|intros H; inversion H; left; reflexivity].
  - rewrite in_flat_map. split.
    + intros (v & Hv & Hk). apply in_map_iff in Hk. destruct Hk as (k' & <- & Hk'). apply IH in Hk'.
      constructor; [|exact Hk']. unfold valid_entry, sliced_range in *. cbn [fst snd].
      destruct (si_proj s); [destruct Hv as [<-|[]]; auto|apply in_seq in Hv; split; [reflexivity|lia]].
    + intros H. inversion H as [|s0 [j v] sl0 k' [Hf Hv] Hk']; subst. cbn [fst snd] in *.
      exists v. split.
      * unfold sliced_range. destruct (si_proj s); [left; auto|apply in_seq; lia].
      * apply in_map_iff. exists k'. split; [subst; reflexivity|apply IH, Hk'].
Qed.

(* ------------------------------------------------------------------ *)
(* gather_slices, part 1: the dict of partial sums.  For ANY key function kf, after the
   loop  chunks[kf i] (+)= slices[i]  the entry at [key] is the sum, in slice order, of
   exactly the slices whose key is [key] (absent iff there is none). *)
Lemma keyeqb_spec (a b : list nat) : eqb a b = true <-> a = b.
Proof.
  unfold eqb, Eqb_list. revert b. induction a as [|x a IH]; intros [|y b]; cbn; try (split; congruence).
  rewrite andb_true_iff, IH. unfold eqb, Eqb_nat. rewrite Nat.eqb_eq. split; [intros [-> ->]; reflexivity|intros E; inversion E; auto].
Qed.
Lemma keyeqb_refl (a : list nat) : eqb a a = true.
Proof. apply keyeqb_spec. reflexivity. Qed.

Lemma cget_cset key k v d : cget key (cset k v d) = if eqb k key then Some v else cget key d.
Proof.
  induction d as [|[k0 w] d IH]; cbn [cset cget].
  - destruct (eqb k key); reflexivity.
  - destruct (eqb k0 k) eqn:E0; cbn [cget].
    + apply keyeqb_spec in E0. subst k0. destruct (eqb k key); reflexivity.
    + rewrite IH. destruct (eqb k key) eqn:E1; [|reflexivity].
      apply keyeqb_spec in E1. subst k. rewrite E0. reflexivity.
Qed.

Definition acc_add (acc : option tens) (s : tens) : option tens :=
  Some (match acc with Some c => tadd c s | None => s end).

Lemma cget_cadd key k s d : cget key (cadd k s d) = if eqb k key then acc_add (cget key d) s else cget key d.
Proof.
  unfold cadd, acc_add. destruct (cget k d) as [c|] eqn:E; rewrite cget_cset;
    destruct (eqb k key) eqn:E1; try reflexivity; apply keyeqb_spec in E1; subst k; rewrite E; reflexivity.
Qed.

Lemma chunks_fold_spec (kf : nat -> list nat) key (l : list (nat * tens)) : forall ch,
  cget key (fold_left (fun ch is_ => cadd (kf (fst is_)) (snd is_) ch) l ch) =
  fold_left acc_add (map snd (filter (fun is_ => eqb (kf (fst is_)) key) l)) (cget key ch).
Proof.
  induction l as [|[i s] l IH]; intros ch; cbn [fold_left filter map fst snd]; [reflexivity|].
  rewrite IH, cget_cadd. destruct (eqb (kf i) key); reflexivity.
Qed.

Lemma build_chunks_spec sl opos slices key :
  cget key (build_chunks sl opos slices) =
  fold_left acc_add
    (map snd (filter (fun is_ => eqb (map (fun p => kget0 (fst p) (slice_key sl (fst is_))) opos) key)
                     (combine (seq 0 (length slices)) slices))) None.
Proof. unfold build_chunks. apply (chunks_fold_spec (fun i => map (fun p => kget0 (fst p) (slice_key sl i)) opos)). Qed.

(* the value of such an accumulated entry is the pointwise sum *)
Lemma acc_add_value l : forall c idx,
  match fold_left acc_add l (Some c) with
  | Some r => tget r idx = (tget c idx + zsum (map (fun s => tget s idx) l))%Z
  | None => False
  end.
Proof.
  induction l as [|s l IH]; intros c idx; cbn [fold_left map].
  - unfold zsum. cbn. lia.
  - unfold acc_add at 2. specialize (IH (tadd c s) idx).
    destruct (fold_left acc_add l (Some (tadd c s))); [|exact IH]. rewrite IH, zsum_cons. cbn [tadd tget]. lia.
Qed.

(* ------------------------------------------------------------------ *)
(* gather_slices, part 2: recursively_stack_chunks.  Reading the stacked result at a
   multi-index peels the sliced output axes off one at a time: the axis used for the k-th
   sliced output index is (its position in the output) - k. *)
Definition range_val (s : sinfo) (v : nat) : nat :=
  match si_proj s with None => v | Some p => p end.

Fixpoint unstack (sl : list sinfo) (c : nat) (remaining : list (ix * nat)) (idx : list nat) : list nat * list nat :=
  match remaining with
  | [] => ([], idx)
  | (j, p) :: rest =>
      let a := p - c in
      let r := unstack sl (S c) rest (remove_nth a idx) in
      (range_val (si_of sl j) (nth a idx 0) :: fst r, snd r)
  end.

(* every stacked coordinate is inside its range *)
Fixpoint unstack_ok (sl : list sinfo) (c : nat) (remaining : list (ix * nat)) (idx : list nat) : Prop :=
  match remaining with
  | [] => True
  | (j, p) :: rest =>
      nth (p - c) idx 0 < length (sliced_range (si_of sl j)) /\ unstack_ok sl (S c) rest (remove_nth (p - c) idx)
  end.

Lemma nth_sliced_range {A} (g : nat -> A) s v d : v < length (sliced_range s) ->
  nth v (map g (sliced_range s)) d = g (range_val s v).
Proof.
  unfold sliced_range, range_val. destruct (si_proj s) as [p|]; cbn [length]; intros Hv.
  - replace v with 0 by lia. reflexivity.
  - rewrite seq_length in Hv. rewrite (nth_indep _ d (g 0)) by (rewrite map_length, seq_length; exact Hv).
    rewrite map_nth, seq_nth by exact Hv. reflexivity.
Qed.

Lemma rec_stack_get chunks sl remaining : forall loc idx,
  unstack_ok sl (length loc) remaining idx ->
  tget (rec_stack chunks sl loc remaining) idx =
  tget (match cget (loc ++ fst (unstack sl (length loc) remaining idx)) chunks with Some c => c | None => dummy_t end)
       (snd (unstack sl (length loc) remaining idx)).
Proof.
  induction remaining as [|[j p] rest IH]; intros loc idx Hok.
  - cbn [rec_stack unstack fst snd]. rewrite app_nil_r. reflexivity.
  - cbn [rec_stack unstack fst snd unstack_ok] in *. destruct Hok as [Hv Hok].
    cbn [stack tget]. rewrite (nth_sliced_range _ _ _ _ Hv).
    specialize (IH (loc ++ [range_val (si_of sl j) (nth (p - length loc) idx 0)]) (remove_nth (p - length loc) idx)).
    rewrite app_length in IH. cbn [length] in IH. rewrite Nat.add_1_r in IH.
    rewrite IH by exact Hok. rewrite <- app_assoc. reflexivity.
Qed.

(* with the positions strictly increasing (they are positions in the output, listed in
   output order) the k-th stacked coordinate is read at its DECLARED position in the
   full multi-index *)
Fixpoint increasing_from (c : nat) (ps : list nat) : Prop :=
  match ps with [] => True | p :: ps' => c <= p /\ increasing_from (S p) ps' end.

Lemma nth_remove_nth_ge {A} (a : nat) : forall (l : list A) k d, a <= k -> nth k (remove_nth a l) d = nth (S k) l d.
Proof.
  induction a as [|a IH]; intros l k d Hk; destruct l as [|x l]; cbn [remove_nth nth].
  - destruct k; reflexivity.
  - reflexivity.
  - destruct k; reflexivity.
  - destruct k as [|k]; [lia|]. cbn [nth]. apply IH. lia.
Qed.

Lemma increasing_weaken c c' ps : c' <= c -> increasing_from c ps -> increasing_from c' ps.
Proof. destruct ps; cbn; [auto|]. intros H [H1 H2]. split; [lia|exact H2]. Qed.

Lemma unstack_values sl remaining : forall c L idx0 idx,
  c <= L -> increasing_from L (map snd remaining) ->
  (forall q, L <= q -> nth (q - c) idx 0 = nth q idx0 0) ->
  fst (unstack sl c remaining idx) = map (fun jp => range_val (si_of sl (fst jp)) (nth (snd jp) idx0 0)) remaining.
Proof.
  induction remaining as [|[j p] rest IH]; intros c L idx0 idx HcL Hinc Hrel; [reflexivity|].
  cbn [map snd fst increasing_from] in *. destruct Hinc as [Hc Hinc].
  cbn [unstack fst snd]. rewrite (Hrel p Hc). f_equal.
  apply (IH (S c) (S p)); [lia|exact Hinc|].
  intros q Hq. rewrite nth_remove_nth_ge by lia.
  replace (S (q - S c)) with (q - c) by lia. apply Hrel. lia.
Qed.

(* top level (loc = (), nothing stacked yet): the coordinates handed to the chunk dict are
   the entries of the full multi-index at the output positions of the sliced output indices *)
Lemma gather_reads_declared_positions chunks sl opos idx :
  increasing_from 0 (map snd opos) -> unstack_ok sl 0 opos idx ->
  tget (rec_stack chunks sl [] opos) idx =
  tget (match cget (map (fun jp => range_val (si_of sl (fst jp)) (nth (snd jp) idx 0)) opos) chunks
        with Some c => c | None => dummy_t end)
       (snd (unstack sl 0 opos idx)).
Proof.
  intros Hinc Hok. rewrite (rec_stack_get chunks sl opos [] idx Hok). cbn [length app].
  rewrite (unstack_values sl opos 0 0 idx idx (le_n 0) Hinc); [reflexivity|].
  intros q _. rewrite Nat.sub_0_r. reflexivity.
Qed.

(* output_pos lists (index, position) with strictly increasing positions *)
Lemma increasing_filter_combine (f : ix * nat -> bool) (out : list ix) : forall c,
  increasing_from c (map snd (filter f (combine out (seq c (length out))))).
Proof.
  induction out as [|x out IH]; intros c; cbn [length seq combine filter map]; [exact I|].
  destruct (f (x, c)); cbn [map snd increasing_from].
  - split; [lia|apply IH].
  - eapply increasing_weaken; [|apply IH]. lia.
Qed.

Lemma output_pos_increasing output sl : increasing_from 0 (map snd (output_pos output sl)).
Proof. unfold output_pos. apply increasing_filter_combine. Qed.

(* gather_slices, no sliced output index: plain sum of all slices *)
Lemma fold_tadd_value l : forall c idx,
  tget (fold_left tadd l c) idx = (tget c idx + zsum (map (fun s => tget s idx) l))%Z.
Proof.
  induction l as [|s l IH]; intros c idx; cbn [fold_left map].
  - unfold zsum. cbn. lia.
  - rewrite IH, zsum_cons. cbn [tadd tget]. lia.
Qed.

Lemma gather_inner_only sl output s slices idx : output_pos output sl = [] ->
  tget (gather_slices sl output (s :: slices)) idx = zsum (map (fun t => tget t idx) (s :: slices)).
Proof.
  intros H. unfold gather_slices. rewrite H. rewrite fold_tadd_value. cbn [map]. rewrite zsum_cons. reflexivity.
Qed.

(* gather_slices with sliced output indices: the entry at the full multi-index idx is read
   from the partial sum whose key is (idx at the declared output positions of the sliced
   output indices), and that partial sum adds exactly the slices carrying this output key *)
Lemma gather_unfold sl output slices : output_pos output sl <> [] ->
  gather_slices sl output slices =
  rec_stack (build_chunks sl (output_pos output sl) slices) sl [] (output_pos output sl).
Proof. unfold gather_slices. destruct (output_pos output sl); [contradiction|reflexivity]. Qed.

Definition declared_key (sl : list sinfo) (output : list ix) (idx : list nat) : list nat :=
  map (fun jp => range_val (si_of sl (fst jp)) (nth (snd jp) idx 0)) (output_pos output sl).
Definition slice_output_key (sl : list sinfo) (output : list ix) (i : nat) : list nat :=
  map (fun p => kget0 (fst p) (slice_key sl i)) (output_pos output sl).

Lemma gather_stacks_at_declared_positions sl output slices idx :
  output_pos output sl <> [] -> unstack_ok sl 0 (output_pos output sl) idx ->
  tget (gather_slices sl output slices) idx =
  tget (match fold_left acc_add
                (map snd (filter (fun is_ => eqb (slice_output_key sl output (fst is_)) (declared_key sl output idx))
                                 (combine (seq 0 (length slices)) slices))) None
        with Some c => c | None => dummy_t end)
       (snd (unstack sl 0 (output_pos output sl) idx)).
Proof.
  intros Hne Hok. rewrite (gather_unfold sl output slices Hne).
  rewrite gather_reads_declared_positions; [|apply output_pos_increasing|exact Hok].
  rewrite build_chunks_spec. reflexivity.
Qed.

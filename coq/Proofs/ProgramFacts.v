(* ProgramFacts.v -- the positional program (einsum path) extracted from ANY tree
   computes, at every position, the denotational value of the tree, hence the
   mathematical einsum, with the axes of the result in the declared output order. *)
From Coq Require Import Lia Permutation.
From Ctg Require Import Base Net Einsum Program BaseFacts NetFacts SumOver TreeEval.
Open Scope Z_scope.

(* ---------- unique ---------- *)
Lemma unique_acc_spec l : forall seen,
  NoDup (unique_acc seen l) /\
  forall j, In j (unique_acc seen l) <-> In j l /\ ~ In j seen.
Proof.
  induction l as [|x l IH]; intros seen; cbn [unique_acc].
  - split; [constructor|]. intros j. cbn. tauto.
  - destruct (memb x seen) eqn:E.
    + destruct (IH seen) as [ND H]. split; [exact ND|].
      intros j. rewrite H. apply memb_In in E. cbn. split; [tauto|].
      intros [[<-|?] Hn]; [contradiction|tauto].
    + destruct (IH (x :: seen)) as [ND H]. apply memb_false in E. split.
      * constructor; [|exact ND]. rewrite H. cbn. tauto.
      * intros j. cbn [In]. rewrite H. cbn [In]. split.
        -- intros [<-|[? ?]]; [tauto|]. split; [tauto|]. tauto.
        -- intros [[<-|?] Hn]; [tauto|]. destruct (Nat.eq_dec x j); [tauto|]. right. split; [assumption|]. tauto.
Qed.
Lemma NoDup_unique l : NoDup (unique l).
Proof. apply unique_acc_spec. Qed.
Lemma in_unique l j : In j (unique l) <-> In j l.
Proof. unfold unique. rewrite (proj2 (unique_acc_spec l [])). cbn. tauto. Qed.

(* ---------- dependence of a function of assignments on a set of indices ---------- *)
Definition dep_on (G : env -> Z) (A : list ix) : Prop :=
  forall e1 e2, (forall j, In j A -> e1 j = e2 j) -> G e1 = G e2.

Section D.
Variable size : ix -> nat.

Lemma sum_over_dep js : forall (G : env -> Z) A, dep_on G A ->
  forall e1 e2, (forall j, In j A -> ~ In j js -> e1 j = e2 j) ->
  sum_over size js e1 G = sum_over size js e2 G.
Proof.
  induction js as [|x js IH]; intros G A HG e1 e2 H; cbn [sum_over].
  - apply HG. intros j Hj. apply H; [exact Hj|intros []].
  - apply sumn_ext. intros v _. apply (IH G A HG).
    intros j Hj Hn. unfold upd. destruct (Nat.eqb_spec j x) as [->|Hne]; [reflexivity|].
    apply H; [exact Hj|]. intros [E|Hin]; [congruence|contradiction].
Qed.

(* the summand may be replaced by one that agrees with it on every assignment
   that differs from e only on the summed indices *)
Lemma sum_over_ext_on js : forall e (G G' : env -> Z),
  (forall e', (forall j, ~ In j js -> e' j = e j) -> G e' = G' e') ->
  sum_over size js e G = sum_over size js e G'.
Proof.
  induction js as [|x js IH]; intros e G G' H; cbn [sum_over].
  - apply H. intros; reflexivity.
  - apply sumn_ext. intros v _. apply IH. intros e' He'. apply H.
    intros j Hn. rewrite He' by (intros Hin; apply Hn; right; exact Hin).
    unfold upd. destruct (Nat.eqb_spec j x) as [->|]; [exfalso; apply Hn; left; reflexivity|reflexivity].
Qed.
End D.

(* ---------- env_of ---------- *)
Lemma env_of_in bg is_ (e : env) j : In j is_ -> env_of bg is_ (map e is_) j = e j.
Proof.
  induction is_ as [|x is_ IH]; cbn [map env_of]; [intros []|].
  intros Hin. unfold upd. destruct (Nat.eqb_spec j x) as [->|Hne]; [reflexivity|].
  apply IH. destruct Hin as [E|H]; [congruence|exact H].
Qed.
Lemma env_of_notin bg is_ pos j : ~ In j is_ -> env_of bg is_ pos j = bg j.
Proof.
  revert pos. induction is_ as [|x is_ IH]; intros pos Hn; cbn [env_of]; [reflexivity|].
  destruct pos as [|v pos]; [reflexivity|]. unfold upd.
  destruct (Nat.eqb_spec j x) as [->|Hne]; [exfalso; apply Hn; left; reflexivity|].
  apply IH. intros H; apply Hn; right; exact H.
Qed.

(* ---------- legs_of_term on a duplicate-free term ---------- *)
Lemma fold_ladd1_length (t : list ix) : forall d, NoDup (lkeys d) ->
  (length (fold_left (fun d j => ladd j 1 d) t d) <= length d + length t)%nat /\
  (length (fold_left (fun d j => ladd j 1 d) t d) = length d + length t ->
   lkeys (fold_left (fun d j => ladd j 1 d) t d) = lkeys d ++ t)%nat.
Proof.
  induction t as [|x t IH]; intros d ND; cbn [fold_left length].
  - split; [lia|]. intros _. rewrite app_nil_r. reflexivity.
  - assert (ND' : NoDup (lkeys (ladd x 1 d))) by (unfold ladd; apply NoDup_lkeys_lset, ND).
    destruct (IH (ladd x 1 d) ND') as [Hle Heq].
    assert (Hlen : length (ladd x 1 d) = length (lkeys (ladd x 1 d))) by (unfold lkeys; rewrite map_length; reflexivity).
    assert (Hlend : length d = length (lkeys d)) by (unfold lkeys; rewrite map_length; reflexivity).
    destruct (in_dec Nat.eq_dec x (lkeys d)) as [Hin|Hn].
    + assert (E : lkeys (ladd x 1 d) = lkeys d) by (unfold ladd; apply lkeys_lset_in, Hin).
      rewrite E in Hlen. split; [lia|]. intros H. exfalso. lia.
    + assert (E : lkeys (ladd x 1 d) = lkeys d ++ [x]) by (unfold ladd; apply lkeys_lset_notin, Hn).
      rewrite E, app_length in Hlen. cbn in Hlen. split; [lia|].
      intros H. rewrite Heq by lia. rewrite E, <- app_assoc. reflexivity.
Qed.

Lemma legs_of_term_keys_nodup t : length t = length (legs_of_term t) -> lkeys (legs_of_term t) = t.
Proof.
  intros H. unfold legs_of_term in *.
  destruct (fold_ladd1_length t [] ltac:(constructor)) as [_ Heq].
  cbn [length lkeys map app] in Heq. apply Heq. lia.
Qed.

Section P.
Variable n : net.
Variable sl : list slinfo.

Notation T := (term_sl n sl).
Notation cnt := (cnt n sl).
Notation appear := (appear n).
Notation dim := (dim n).
Notation inrange := (inrange n).

(* ---------- axis orders are duplicate-free enumerations of the legs ---------- *)
Lemma inds_sub_spec t : inrange (leaves t) ->
  NoDup (inds_sub n sl t) /\ forall j, In j (inds_sub n sl t) <-> In j (lkeys (sub_legs n sl t)).
Proof.
  induction t as [k|l IHl r IHr]; intros HR.
  - cbn [inds_sub sub_legs]. split; [apply wfl_leaf_legs|tauto].
  - cbn [leaves] in HR.
    destruct (IHl (inrange_app_l n _ _ HR)) as [NDl Hl].
    destruct (IHr (inrange_app_r n _ _ HR)) as [NDr Hr].
    cbn [inds_sub]. split; [apply NoDup_unique|].
    intros j. rewrite in_unique, filter_In, in_app_iff, Hl, Hr, lmem_in_keys.
    split; [tauto|]. intros H. split; [|exact H].
    cbn [sub_legs] in H. unfold lkeys in H. apply in_map_iff in H. destruct H as (kv & <- & Hkv).
    apply filter_In in Hkv. destruct Hkv as [Hkv _].
    apply legs_union2_in. unfold lkeys. apply in_map_iff. exists kv. tauto.
Qed.

Lemma inds_not_removed t j : inrange (leaves t) -> In j (inds_sub n sl t) -> ~ In j (removed sl).
Proof.
  intros HR Hj. apply (inds_sub_spec t HR) in Hj. apply (sub_legs_keys n sl t j HR) in Hj.
  apply (cnt_pos_not_removed n sl (leaves t)). lia.
Qed.

Variable arr : nat -> ptensor.
Variable e0 : env.
Notation F := (F n arr).
Notation prodF := (prodF n arr).
Notation evalS := (evalS n sl arr).

Definition agree_removed (e : env) : Prop := forall j, In j (removed sl) -> e j = e0 j.

(* ---------- what the value of a subtree depends on ---------- *)
Lemma F_dep k : dep_on (F k) (nth k (inputs n) []).
Proof. intros e1 e2 H. unfold Einsum.F. f_equal. apply map_ext_in. exact H. Qed.

Lemma prodF_dep S : dep_on (prodF S) (concat (map (fun k => nth k (inputs n) []) S)).
Proof.
  induction S as [|k S IH]; intros e1 e2 H; cbn [Einsum.prodF]; [reflexivity|].
  cbn [map concat] in H. f_equal.
  - apply F_dep. intros j Hj. apply H, in_app_iff. left; exact Hj.
  - apply IH. intros j Hj. apply H, in_app_iff. right; exact Hj.
Qed.

Lemma in_fullterm_cnt S j : In j (concat (map (fun k => nth k (inputs n) []) S)) ->
  ~ In j (removed sl) -> (0 < cnt S j)%nat.
Proof.
  induction S as [|k S IH]; cbn [map concat NetFacts.cnt]; [intros []|].
  rewrite in_app_iff. intros [H|H] Hr.
  - assert (In j (T k)) by (unfold term_sl; apply filter_In; split; [exact H|apply negb_true_iff, memb_false, Hr]).
    apply occ_pos in H0. lia.
  - specialize (IH H Hr). lia.
Qed.

Lemma evalS_dep t : inrange (leaves t) ->
  forall e1 e2, (forall j, In j (lkeys (sub_legs n sl t)) -> e1 j = e2 j) ->
                (forall j, In j (removed sl) -> e1 j = e2 j) ->
  evalS t e1 = evalS t e2.
Proof.
  intros HR e1 e2 Hl Hr. rewrite !(evalS_is_sum n sl arr t HR).
  apply (sum_over_dep dim _ _ _ (prodF_dep (leaves t))).
  intros j Hj Hnd.
  destruct (in_dec Nat.eq_dec j (removed sl)) as [Hin|Hnr]; [apply Hr, Hin|].
  apply Hl. apply (sub_legs_keys n sl t j HR).
  pose proof (in_fullterm_cnt _ j Hj Hnr) as Hp.
  pose proof (cnt_le_appear n sl _ j HR) as Hle.
  split; [exact Hp|].
  destruct (Nat.eq_dec (cnt (leaves t) j) (appear j)) as [E|NE]; [|lia].
  exfalso. apply Hnd. apply in_dead. split; assumption.
Qed.

Lemma evalS_respects t : respects (evalS t).
Proof.
  induction t as [k|l IHl r IHr]; cbn [Einsum.evalS].
  - apply sum_over_respects, F_respects.
  - apply sum_over_respects. intros e1 e2 He. rewrite (IHl e1 e2 He), (IHr e1 e2 He). reflexivity.
Qed.

(* ---------- slicing an input array ---------- *)
Lemma fill_map (e : env) term : agree_removed e ->
  fill sl e0 term (map e (filter (fun j => negb (memb j (removed sl))) term)) = map e term.
Proof.
  intros Ha. induction term as [|j term IH]; cbn [fill filter map]; [reflexivity|].
  destruct (memb j (removed sl)) eqn:E; cbn [negb].
  - rewrite IH. f_equal. symmetry. apply Ha. apply memb_In, E.
  - cbn [map]. rewrite IH. reflexivity.
Qed.

Lemma sliced_arr_F k (e : env) : agree_removed e ->
  sliced_arr n sl arr e0 k (map e (T k)) = F k e.
Proof. intros Ha. unfold sliced_arr, Einsum.F, term_sl. rewrite fill_map by exact Ha. reflexivity. Qed.

(* ---------- leaves ---------- *)
Lemma leaf_correct k : (k < NN n)%nat -> forall e, agree_removed e ->
  run_sub n sl arr e0 (Leaf k) (map e (inds_sub n sl (Leaf k))) = evalS (Leaf k) e.
Proof.
  intros Hk e Ha. cbn [run_sub inds_sub Einsum.evalS]. unfold leaf_tensor, leaf_preproc, leaf_summed.
  assert (HR : inrange [k]) by (split; [repeat constructor; cbn; tauto|intros ? [<-|[]]; exact Hk]).
  destruct (leaf_simplifiable n sl k) eqn:Es.
  - (* a single-term einsum is performed first *)
    unfold einsum1.
    set (kept := lkeys (leaf_legs n sl k)).
    set (es := env_of e0 kept (map e kept)).
    assert (Hes_kept : forall j, In j kept -> es j = e j) by (intros j Hj; apply env_of_in, Hj).
    assert (Hkept_nr : forall j, In j kept -> ~ In j (removed sl)).
    { intros j Hj. apply (inds_not_removed (Leaf k) j HR). exact Hj. }
    assert (Hes_rm : forall j, In j (removed sl) -> es j = e j).
    { intros j Hj. unfold es. rewrite env_of_notin; [symmetry; apply Ha, Hj|].
      intros Hin. apply (Hkept_nr j Hin Hj). }
    (* replace the sliced array by F on every assignment reached by the sum *)
    rewrite (sum_over_ext_on dim _ es _ (F k)).
    2:{ intros e' He'. apply sliced_arr_F. intros j Hj. rewrite He'.
        - rewrite Hes_rm by exact Hj. apply Ha, Hj.
        - unfold esummed1. rewrite in_unique, filter_In. intros [Hin _].
          unfold term_sl in Hin. apply filter_In in Hin. destruct Hin as [_ Hin].
          apply negb_true_iff, memb_false in Hin. contradiction. }
    (* the summed indices are those of leaf_summed *)
    rewrite (sum_over_perm dim (esummed1 (T k) kept) (leaf_summed n sl k)).
    + change (sum_over dim (leaf_summed n sl k) es (F k)) with (evalS (Leaf k) es).
      apply (evalS_dep (Leaf k) HR); [intros j Hj; apply Hes_kept; exact Hj|exact Hes_rm].
    + apply NoDup_Permutation; [apply NoDup_unique|apply NoDup_leaf_summed|].
      intros j. unfold esummed1, leaf_summed. rewrite in_unique, !filter_In, legs_of_term_in.
      unfold kept.
      destruct (lmem j (leaf_legs n sl k)) eqn:El.
      * assert (M : memb j (lkeys (leaf_legs n sl k)) = true) by (apply memb_In, lmem_in_keys, El).
        rewrite M. cbn. intuition congruence.
      * assert (M : memb j (lkeys (leaf_legs n sl k)) = false).
        { apply memb_false. rewrite <- lmem_in_keys. congruence. }
        rewrite M. cbn. tauto.
    + apply NoDup_unique.
    + apply F_respects.
  - (* nothing to pre-process: the term has no repeated and no dying index *)
    unfold leaf_legs. rewrite Es.
    unfold leaf_simplifiable in Es. apply orb_false_iff in Es. destruct Es as [Elen Eex].
    apply negb_false_iff, Nat.eqb_eq in Elen.
    (* leaf_summed is empty *)
    assert (Hempty : filter (fun j => negb (lmem j (legs_of_term (T k)))) (lkeys (legs_of_term (T k))) = []).
    { assert (G : forall ys, incl ys (lkeys (legs_of_term (T k))) ->
                  filter (fun j => negb (lmem j (legs_of_term (T k)))) ys = []).
      { induction ys as [|y ys IHy]; intros Hincl; [reflexivity|]. cbn [filter].
        assert (M : lmem y (legs_of_term (T k)) = true) by (apply lmem_in_keys, Hincl; left; reflexivity).
        rewrite M. cbn [negb]. apply IHy. intros z Hz. apply Hincl. right; exact Hz. }
      apply G. intros z Hz; exact Hz. }
    rewrite Hempty. cbn [sum_over].
    rewrite (legs_of_term_keys_nodup (T k) Elen).
    rewrite sliced_arr_F by exact Ha. reflexivity.
Qed.

(* ---------- the main induction: every subtree ---------- *)
Theorem run_sub_correct t : inrange (leaves t) -> forall e, agree_removed e ->
  run_sub n sl arr e0 t (map e (inds_sub n sl t)) = evalS t e.
Proof.
  induction t as [k|l IHl r IHr]; intros HR e Ha.
  - apply leaf_correct; [apply HR; left; reflexivity|exact Ha].
  - cbn [leaves] in HR.
    pose proof (inrange_app_l n _ _ HR) as HL. pose proof (inrange_app_r n _ _ HR) as HRr.
    cbn [run_sub]. unfold einsum2.
    set (pi := inds_sub n sl (Node l r)).
    set (li := inds_sub n sl l). set (ri := inds_sub n sl r).
    set (es := env_of e0 pi (map e pi)).
    destruct (inds_sub_spec (Node l r) HR) as [NDp Hp].
    destruct (inds_sub_spec l HL) as [NDl Hl]. destruct (inds_sub_spec r HRr) as [NDr Hr].
    assert (Hes_pi : forall j, In j pi -> es j = e j) by (intros j Hj; apply env_of_in, Hj).
    assert (Hes_rm : forall j, In j (removed sl) -> es j = e j).
    { intros j Hj. unfold es. rewrite env_of_notin; [symmetry; apply Ha, Hj|].
      intros Hin. apply (inds_not_removed (Node l r) j HR Hin Hj). }
    (* operands: induction hypotheses, on every assignment reached by the sum *)
    rewrite (sum_over_ext_on dim _ es _ (fun e' => evalS l e' * evalS r e')).
    2:{ intros e' He'.
        assert (Ha' : agree_removed e').
        { intros j Hj. rewrite He'.
          - rewrite Hes_rm by exact Hj. apply Ha, Hj.
          - unfold esummed2. rewrite in_unique, filter_In, in_app_iff. intros [[Hin|Hin] _].
            + apply (inds_not_removed l j HL Hin Hj).
            + apply (inds_not_removed r j HRr Hin Hj). }
        unfold li, ri. rewrite (IHl HL e' Ha'), (IHr HRr e' Ha'). reflexivity. }
    (* the summed indices are those of `summed` *)
    rewrite (sum_over_perm dim (esummed2 li ri pi) (summed n sl false (Node l r))).
    + change (sum_over dim (summed n sl false (Node l r)) es (fun e' => evalS l e' * evalS r e'))
        with (evalS (Node l r) es).
      apply (evalS_dep (Node l r) HR); [|exact Hes_rm].
      intros j Hj. apply Hes_pi. apply Hp. exact Hj.
    + apply NoDup_Permutation; [apply NoDup_unique|apply NoDup_summed, NoDup_involved, HR|].
      intros j. unfold esummed2, summed. rewrite in_unique, !filter_In, in_app_iff.
      cbn [involved]. rewrite legs_union2_in. unfold li, ri. rewrite Hl, Hr.
      change (node_legs n sl false (Node l r)) with (sub_legs n sl (Node l r)).
      destruct (lmem j (sub_legs n sl (Node l r))) eqn:El.
      * assert (M : memb j pi = true) by (apply memb_In, Hp, lmem_in_keys, El). rewrite M. cbn. intuition congruence.
      * assert (M : memb j pi = false).
        { apply memb_false. intros Hin. apply Hp, lmem_in_keys in Hin. congruence. }
        rewrite M. cbn. tauto.
    + apply NoDup_unique.
    + intros e1 e2 He. rewrite (evalS_respects l e1 e2 He), (evalS_respects r e1 e2 He). reflexivity.
Qed.

(* ---------- the whole tree: value AND axis order ---------- *)
Definition out_inds : list ix := lkeys (root_legs n sl).

Lemma out_inds_eq : out_inds = filter (fun j => negb (memb j (removed sl))) (output n).
Proof. unfold out_inds, root_legs, lkeys. rewrite map_map. cbn [fst]. apply map_id. Qed.

Lemma einsum_spec_dep : forall e1 e2,
  (forall j, In j out_inds -> e1 j = e2 j) -> (forall j, In j (removed sl) -> e1 j = e2 j) ->
  einsum_spec n sl arr e1 = einsum_spec n sl arr e2.
Proof.
  intros e1 e2 Ho Hr. unfold einsum_spec.
  apply (sum_over_dep dim _ _ _ (prodF_dep (seq 0 (NN n)))).
  intros j Hj Hni.
  destruct (in_dec Nat.eq_dec j (removed sl)) as [Hin|Hnr]; [apply Hr, Hin|].
  apply Ho. rewrite out_inds_eq. apply filter_In.
  assert (Hall : In j (all_ix n)).
  { unfold all_ix. apply nodup_In. apply in_concat in Hj. destruct Hj as (t & Ht & Hjt).
    apply in_map_iff in Ht. destruct Ht as (k & <- & Hk). apply in_seq in Hk.
    apply in_concat. exists (nth k (inputs n) []). split; [apply nth_In; unfold NN in Hk; lia|exact Hjt]. }
  assert (Hm : memb j (removed sl) = false) by (apply memb_false, Hnr).
  split; [|rewrite Hm; reflexivity].
  destruct (memb j (output n)) eqn:Eo; [apply memb_In, Eo|].
  exfalso. apply Hni. unfold inner. apply filter_In. split; [exact Hall|]. rewrite Hm, Eo. reflexivity.
Qed.

Theorem run_root_correct l r : wf_net n -> full_tree n (Node l r) -> forall e, agree_removed e ->
  run_root n sl arr e0 (Node l r) (map e out_inds) = einsum_spec n sl arr e.
Proof.
  intros WF HF e Ha.
  pose proof (full_tree_inrange n _ HF) as HR. cbn [leaves] in HR.
  pose proof (inrange_app_l n _ _ HR) as HL. pose proof (inrange_app_r n _ _ HR) as HRr.
  cbn [run_root]. unfold einsum2. fold out_inds.
  set (li := inds_sub n sl l). set (ri := inds_sub n sl r).
  set (es := env_of e0 out_inds (map e out_inds)).
  destruct (inds_sub_spec l HL) as [NDl Hl]. destruct (inds_sub_spec r HRr) as [NDr Hr].
  assert (Hout_nr : forall j, In j out_inds -> ~ In j (removed sl)).
  { intros j Hj. rewrite out_inds_eq in Hj. apply filter_In in Hj. destruct Hj as [_ Hj].
    apply negb_true_iff, memb_false in Hj. exact Hj. }
  assert (Hes_o : forall j, In j out_inds -> es j = e j) by (intros j Hj; apply env_of_in, Hj).
  assert (Hes_rm : forall j, In j (removed sl) -> es j = e j).
  { intros j Hj. unfold es. rewrite env_of_notin; [symmetry; apply Ha, Hj|].
    intros Hin. apply (Hout_nr j Hin Hj). }
  rewrite (sum_over_ext_on dim _ es _ (fun e' => evalS l e' * evalS r e')).
  2:{ intros e' He'.
      assert (Ha' : agree_removed e').
      { intros j Hj. rewrite He'.
        - rewrite Hes_rm by exact Hj. apply Ha, Hj.
        - unfold esummed2. rewrite in_unique, filter_In, in_app_iff. intros [[Hin|Hin] _].
          + apply (inds_not_removed l j HL Hin Hj).
          + apply (inds_not_removed r j HRr Hin Hj). }
      unfold li, ri. rewrite (run_sub_correct l HL e' Ha'), (run_sub_correct r HRr e' Ha'). reflexivity. }
  rewrite (sum_over_perm dim (esummed2 li ri out_inds) (summed n sl true (Node l r))).
  - change (sum_over dim (summed n sl true (Node l r)) es (fun e' => evalS l e' * evalS r e'))
      with (eval_root n sl arr (Node l r) es).
    rewrite (eval_root_is_einsum n sl arr l r WF HF es).
    apply einsum_spec_dep; assumption.
  - apply NoDup_Permutation; [apply NoDup_unique|apply NoDup_summed, NoDup_involved, HR|].
    intros j. unfold esummed2, summed. rewrite in_unique, !filter_In, in_app_iff.
    cbn [involved]. rewrite legs_union2_in. unfold li, ri. rewrite Hl, Hr.
    change (node_legs n sl true (Node l r)) with (root_legs n sl).
    destruct (lmem j (root_legs n sl)) eqn:El.
    + assert (M : memb j out_inds = true) by (apply memb_In, lmem_in_keys, El). rewrite M. cbn. intuition congruence.
    + assert (M : memb j out_inds = false).
      { apply memb_false. intros Hin. apply lmem_in_keys in Hin. congruence. }
      rewrite M. cbn. tauto.
  - apply NoDup_unique.
  - intros e1 e2 He. rewrite (evalS_respects l e1 e2 He), (evalS_respects r e1 e2 He). reflexivity.
Qed.


(* ====== the same for ANY admissible assignment of axis orders (sort_contraction_indices) ====== *)
Section G.
Variable io : tree -> list ix.

Lemma inds_g_spec t : inrange (leaves t) -> admissible n sl io t ->
  NoDup (inds_g n sl io t) /\ forall j, In j (inds_g n sl io t) <-> In j (lkeys (sub_legs n sl t)).
Proof.
  destruct t as [k|l r]; intros HR Hadm.
  - cbn [inds_g sub_legs]. split; [apply wfl_leaf_legs|tauto].
  - cbn [admissible] in Hadm. cbn [inds_g]. tauto.
Qed.
Lemma inds_g_not_removed t j : inrange (leaves t) -> admissible n sl io t ->
  In j (inds_g n sl io t) -> ~ In j (removed sl).
Proof.
  intros HR Hadm Hj. apply (inds_g_spec t HR Hadm) in Hj. apply (sub_legs_keys n sl t j HR) in Hj.
  apply (cnt_pos_not_removed n sl (leaves t)). lia.
Qed.

(* ---------- the main induction: every subtree ---------- *)
Theorem run_sub_g_correct t : inrange (leaves t) -> admissible n sl io t -> forall e, agree_removed e ->
  run_sub_g n sl arr e0 io t (map e (inds_g n sl io t)) = evalS t e.
Proof.
  induction t as [k|l IHl r IHr]; intros HR Hadm e Ha.
  - apply (leaf_correct k); [apply HR; left; reflexivity|exact Ha].
  - cbn [leaves] in HR. cbn [admissible] in Hadm. destruct Hadm as (NDp & Hp & Hadl & Hadr).
    pose proof (inrange_app_l n _ _ HR) as HL. pose proof (inrange_app_r n _ _ HR) as HRr.
    cbn [run_sub_g]. unfold einsum2.
    set (pi := inds_g n sl io (Node l r)).
    set (li := inds_g n sl io l). set (ri := inds_g n sl io r).
    set (es := env_of e0 pi (map e pi)).
    destruct (inds_g_spec l HL Hadl) as [NDl Hl]. destruct (inds_g_spec r HRr Hadr) as [NDr Hr].
    assert (Hes_pi : forall j, In j pi -> es j = e j) by (intros j Hj; apply env_of_in, Hj).
    assert (Hes_rm : forall j, In j (removed sl) -> es j = e j).
    { intros j Hj. unfold es. rewrite env_of_notin; [symmetry; apply Ha, Hj|].
      intros Hin. apply (inds_g_not_removed (Node l r) j HR (conj NDp (conj Hp (conj Hadl Hadr))) Hin Hj). }
    (* operands: induction hypotheses, on every assignment reached by the sum *)
    rewrite (sum_over_ext_on dim _ es _ (fun e' => evalS l e' * evalS r e')).
    2:{ intros e' He'.
        assert (Ha' : agree_removed e').
        { intros j Hj. rewrite He'.
          - rewrite Hes_rm by exact Hj. apply Ha, Hj.
          - unfold esummed2. rewrite in_unique, filter_In, in_app_iff. intros [[Hin|Hin] _].
            + apply (inds_g_not_removed l j HL Hadl Hin Hj).
            + apply (inds_g_not_removed r j HRr Hadr Hin Hj). }
        unfold li, ri. rewrite (IHl HL Hadl e' Ha'), (IHr HRr Hadr e' Ha'). reflexivity. }
    (* the summed indices are those of `summed` *)
    rewrite (sum_over_perm dim (esummed2 li ri pi) (summed n sl false (Node l r))).
    + change (sum_over dim (summed n sl false (Node l r)) es (fun e' => evalS l e' * evalS r e'))
        with (evalS (Node l r) es).
      apply (evalS_dep (Node l r) HR); [|exact Hes_rm].
      intros j Hj. apply Hes_pi. apply Hp. exact Hj.
    + apply NoDup_Permutation; [apply NoDup_unique|apply NoDup_summed, NoDup_involved, HR|].
      intros j. unfold esummed2, summed. rewrite in_unique, !filter_In, in_app_iff.
      cbn [involved]. rewrite legs_union2_in. unfold li, ri. rewrite Hl, Hr.
      change (node_legs n sl false (Node l r)) with (sub_legs n sl (Node l r)).
      destruct (lmem j (sub_legs n sl (Node l r))) eqn:El.
      * assert (M : memb j pi = true) by (apply memb_In, Hp, lmem_in_keys, El). rewrite M. cbn. intuition congruence.
      * assert (M : memb j pi = false).
        { apply memb_false. intros Hin. apply Hp, lmem_in_keys in Hin. congruence. }
        rewrite M. cbn. tauto.
    + apply NoDup_unique.
    + intros e1 e2 He. rewrite (evalS_respects l e1 e2 He), (evalS_respects r e1 e2 He). reflexivity.
Qed.

Theorem run_root_g_correct l r : wf_net n -> full_tree n (Node l r) ->
  admissible n sl io l -> admissible n sl io r -> forall e, agree_removed e ->
  run_root_g n sl arr e0 io (Node l r) (map e out_inds) = einsum_spec n sl arr e.
Proof.
  intros WF HF Hadl Hadr e Ha.
  pose proof (full_tree_inrange n _ HF) as HR. cbn [leaves] in HR.
  pose proof (inrange_app_l n _ _ HR) as HL. pose proof (inrange_app_r n _ _ HR) as HRr.
  cbn [run_root_g]. unfold einsum2. fold out_inds.
  set (li := inds_g n sl io l). set (ri := inds_g n sl io r).
  set (es := env_of e0 out_inds (map e out_inds)).
  destruct (inds_g_spec l HL Hadl) as [NDl Hl]. destruct (inds_g_spec r HRr Hadr) as [NDr Hr].
  assert (Hout_nr : forall j, In j out_inds -> ~ In j (removed sl)).
  { intros j Hj. rewrite out_inds_eq in Hj. apply filter_In in Hj. destruct Hj as [_ Hj].
    apply negb_true_iff, memb_false in Hj. exact Hj. }
  assert (Hes_o : forall j, In j out_inds -> es j = e j) by (intros j Hj; apply env_of_in, Hj).
  assert (Hes_rm : forall j, In j (removed sl) -> es j = e j).
  { intros j Hj. unfold es. rewrite env_of_notin; [symmetry; apply Ha, Hj|].
    intros Hin. apply (Hout_nr j Hin Hj). }
  rewrite (sum_over_ext_on dim _ es _ (fun e' => evalS l e' * evalS r e')).
  2:{ intros e' He'.
      assert (Ha' : agree_removed e').
      { intros j Hj. rewrite He'.
        - rewrite Hes_rm by exact Hj. apply Ha, Hj.
        - unfold esummed2. rewrite in_unique, filter_In, in_app_iff. intros [[Hin|Hin] _].
          + apply (inds_g_not_removed l j HL Hadl Hin Hj).
          + apply (inds_g_not_removed r j HRr Hadr Hin Hj). }
      unfold li, ri. rewrite (run_sub_g_correct l HL Hadl e' Ha'), (run_sub_g_correct r HRr Hadr e' Ha'). reflexivity. }
  rewrite (sum_over_perm dim (esummed2 li ri out_inds) (summed n sl true (Node l r))).
  - change (sum_over dim (summed n sl true (Node l r)) es (fun e' => evalS l e' * evalS r e'))
      with (eval_root n sl arr (Node l r) es).
    rewrite (eval_root_is_einsum n sl arr l r WF HF es).
    apply einsum_spec_dep; assumption.
  - apply NoDup_Permutation; [apply NoDup_unique|apply NoDup_summed, NoDup_involved, HR|].
    intros j. unfold esummed2, summed. rewrite in_unique, !filter_In, in_app_iff.
    cbn [involved]. rewrite legs_union2_in. unfold li, ri. rewrite Hl, Hr.
    change (node_legs n sl true (Node l r)) with (root_legs n sl).
    destruct (lmem j (root_legs n sl)) eqn:El.
    + assert (M : memb j out_inds = true) by (apply memb_In, lmem_in_keys, El). rewrite M. cbn. intuition congruence.
    + assert (M : memb j out_inds = false).
      { apply memb_false. intros Hin. apply lmem_in_keys in Hin. congruence. }
      rewrite M. cbn. tauto.
  - apply NoDup_unique.
  - intros e1 e2 He. rewrite (evalS_respects l e1 e2 He), (evalS_respects r e1 e2 He). reflexivity.
Qed.

End G.

End P.

(* the default orders of get_inds are admissible *)
Lemma default_admissible (n : net) (sl : list slinfo) t : inrange n (leaves t) ->
  admissible n sl (inds_sub n sl) t.
Proof.
  induction t as [k|l IHl r IHr]; intros HR; cbn [admissible]; [exact I|].
  cbn [leaves] in HR.
  destruct (inds_sub_spec n sl (Node l r) HR) as [ND H].
  repeat split; try assumption; try apply H.
  - apply IHl, (inrange_app_l n _ _ HR).
  - apply IHr, (inrange_app_r n _ _ HR).
Qed.

Lemma nodup_b_sound l : nodup_b l = true -> NoDup l.
Proof.
  induction l as [|x l IH]; cbn [nodup_b]; intros H; [constructor|].
  apply andb_true_iff in H. destruct H as [H1 H2]. constructor; [|apply IH, H2].
  apply negb_true_iff, memb_false in H1. exact H1.
Qed.
Lemma set_eqb_sound a b : set_eqb a b = true -> forall j, In j a <-> In j b.
Proof.
  unfold set_eqb. intros H j. apply andb_true_iff in H. destruct H as [H1 H2].
  rewrite forallb_forall in H1, H2. split; intros Hj.
  - apply memb_In, H1, Hj.
  - apply memb_In, H2, Hj.
Qed.
Lemma admissible_b_sound n sl io t : admissible_b n sl io t = true -> admissible n sl io t.
Proof.
  induction t as [k|l IHl r IHr]; cbn [admissible_b admissible]; intros H; [exact I|].
  repeat (apply andb_true_iff in H; destruct H as [H ?]).
  repeat split; auto using nodup_b_sound.
  - apply (set_eqb_sound _ _ H2).
  - apply (set_eqb_sound _ _ H2).
Qed.

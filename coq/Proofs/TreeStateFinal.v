(* TreeStateFinal.v -- C02 / C04 with the structural facts derived: the boolean preconditions
   prim_pre2_b / primA_pre2_b (Model/TreeStatePre2.v) use complete_b instead of facts about the dfs
   traversal, cover total_flops / total_write / max_size also when they recompute, and are sound
   w.r.t. the preconditions of the preservation theorems IN STATES SATISFYING InvC. *)
From Coq Require Import Lia ZifyBool Permutation.
From Ctg Require Import Base Net Einsum Program BaseFacts NetFacts ProgramFacts TreeState TreeStateFacts TreeStateInv
                        TreeStatePre TreeStateMon TreeStateProg TreeStateValue TreeStateRec TreeStateRecipes
                        TreeStateReady TreeStatePreproc TreeStateReady2 TreeStateTotals TreeStateDfs TreeStatePre2 TdotFacts TreeStateTdot.
Open Scope nat_scope.

Section Final.
Variable n : net.
Notation N := (NN n).
Hypothesis HN : 2 <= N.
Hypothesis Hout : NoDup (output n).

Lemma full_b_sound s : InvC n s -> full_b n s = true ->
  exists nodes, traverse n s = Some nodes /\ Permutation (map fst nodes) (nkeys (children s)) /\ children_first [] nodes /\
                forall p, In p (nkeys (children s)) -> nget p (info s) <> None.
Proof.
  intros [(Hch&_) _] H. unfold full_b in H. apply andb_true_iff in H. destruct H as [H1 H2].
  destruct (complete_sound n HN s Hch H1) as (nodes & A & B & C). exists nodes. repeat split; try assumption.
  rewrite forallb_forall in H2. intros p Hp. unfold nkeys in Hp. apply in_map_iff in Hp. destruct Hp as (c & <- & Hc).
  apply nmem_true, H2, Hc.
Qed.
Lemma full_tot_pre s : InvC n s -> full_b n s = true -> tot_pre n s.
Proof. intros HI H. destruct (full_b_sound s HI H) as (nodes & A & B & _ & D). exists nodes. auto. Qed.
Lemma stats_pre2_sound f s : InvC n s -> stats_pre2_b n f s = true -> stats_pre n f s.
Proof.
  unfold stats_pre2_b, stats_pre. intros HI H Hc. rewrite Hc in H. apply (full_tot_pre s HI H).
Qed.
Lemma rm_pre2_sound ind s : InvC n s -> rm_pre2_b n ind s = true -> rm_pre n ind s.
Proof.
  unfold rm_pre2_b, rm_pre. intros HI H. do 3 (apply andb_true_iff in H; destruct H as [H ?]).
  rename H0 into Hall, H1 into Hpos, H2 into Hst.
  split; [apply memb_false, negb_true_iff, H|]. split; [apply stats_pre2_sound; assumption|]. split; [lia|].
  rewrite populate_m_eq in Hall. rewrite forallb_forall in Hall. intros nd i Hi.
  specialize (Hall (nd, i) (nget_In _ _ _ Hi)). cbn [fst snd] in Hall. apply andb_true_iff in Hall. destruct Hall as [A B].
  split.
  - apply orb_true_iff in A. destruct A as [A|A]; [left; apply Nat.eqb_eq, A|right; apply nget_in_keys, nmem_true, A].
  - intros E1. apply orb_true_iff in B. destruct B as [B|B]; [apply Nat.eqb_eq in B; contradiction|apply fullinfo_b_sound, B].
Qed.
Lemma rs_pre2_sound ind s : InvC n s -> rs_pre2_b n ind s = true -> rs_pre n ind s.
Proof.
  unfold rs_pre2_b, rs_pre. intros HI H. do 10 (apply andb_true_iff in H; destruct H as [H ?]).
  rename H0 into Hfull, H1 into Hki, H2 into Hu, H3 into Htr, H4 into Hinc, H5 into Hpos, H6 into Ts, H7 into Tw, H8 into Tf, H9 into Hnd.
  split; [apply memb_In, H|]. split; [apply nodupb_sound, Hnd|]. split; [exact Tf|]. split; [exact Tw|]. split; [exact Ts|].
  split; [lia|]. split.
  { rewrite forallb_forall in Hinc. intros j Hj. apply memb_In, Hinc, Hj. }
  split.
  { destruct HI as [(Hch&_) _]. destruct (complete_sound n HN s Hch Htr) as (nodes & A & B & C). exists nodes. auto. }
  split.
  { rewrite forallb_forall in Hu. intros p l r E. specialize (Hu (p, (l, r)) (nget_In _ _ _ E)). apply node_eqb_eq, Hu. }
  split.
  { rewrite forallb_forall in Hki. intros q Hq. unfold nkeys in Hq. apply in_map_iff in Hq. destruct Hq as (c & <- & Hc).
    apply nmem_true, Hki, Hc. }
  rewrite forallb_forall in Hfull. intros nd i Hi Hl. specialize (Hfull (nd, i) (nget_In _ _ _ Hi)). cbn [fst snd] in Hfull.
  apply orb_true_iff in Hfull. destruct Hfull as [E|E]; [apply Nat.eqb_eq in E; contradiction|].
  apply nget_in_keys, nmem_true, E.
Qed.

(* the precondition of the final preservation theorem *)
Definition prim_pre2 (p : prim) (s : tstate) : Prop :=
  match p with
  | PTotalFlops => trk_flops s = true \/ tot_pre n s
  | PTotalWrite => trk_write s = true \/ tot_pre n s
  | PMaxSize => trk_size s = true \/ tot_pre n s
  | _ => prim_pre n p s
  end.
Lemma prim_pre_pre2 p s : prim_pre n p s -> prim_pre2 p s.
Proof. destruct p; cbn [prim_pre2 prim_pre prim_preN]; auto. Qed.
Theorem step_preserves_InvC2 p s : InvC n s -> prim_pre2 p s -> InvC n (step n p s).
Proof.
  intros HI Hp. destruct p; try (apply step_preserves_InvC; assumption); cbn [step prim_pre2] in *.
  - apply total_flops_inv; assumption.
  - apply total_write_inv; assumption.
  - apply max_size_inv; assumption.
Qed.
Theorem prim_pre2_b_sound p s : InvC n s -> prim_pre2_b n p s = true -> prim_pre2 p s.
Proof.
  intros HI H. destruct p as [nd|nd|x y lg c z|g nd|f| | | | | |pr a b c|ind pj|ind| |k];
    cbn [prim_pre2_b prim_pre2] in *; try (apply (prim_pre_b_sound n Hout); exact H).
  - apply stats_pre2_sound; assumption.
  - apply orb_true_iff in H. destruct H as [H|H]; [left; exact H|right; apply full_tot_pre; assumption].
  - apply orb_true_iff in H. destruct H as [H|H]; [left; exact H|right; apply full_tot_pre; assumption].
  - apply orb_true_iff in H. destruct H as [H|H]; [left; exact H|right; apply full_tot_pre; assumption].
  - apply rm_pre2_sound; assumption.
  - apply rs_pre2_sound; assumption.
Qed.

Theorem run_preserves_InvC2 tr : forall s, InvC n s -> pre_trace n prim_pre2 tr s -> InvC n (run n tr s).
Proof. intros s HI Hp. apply (run_good n (InvC n) prim_pre2 step_preserves_InvC2 tr s HI Hp). Qed.
Theorem trace_from_fresh_InvC2 tr : pre_trace n prim_pre2 tr (init_state n) -> InvC n (run n tr (init_state n)).
Proof. apply run_preserves_InvC2, (init_state_InvC n HN). Qed.

(* C04: the checked-trace theorem over the FULL alphabet, structural facts derived *)
Fixpoint pre2c_trace_b (tr : list prim) (s : tstate) : bool :=
  match tr with [] => true | p :: tr' => prim_pre2_b n p s && pre2c_trace_b tr' (step n p s) end.
Theorem checked_trace2_InvC tr : forall s, InvC n s -> pre2c_trace_b tr s = true -> InvC n (run n tr s).
Proof.
  induction tr as [|p tr IH]; intros s HI H; [exact HI|]. cbn in H. apply andb_true_iff in H. destruct H as [H1 H2].
  cbn [run fold_left]. apply (IH (step n p s)); [|exact H2]. apply step_preserves_InvC2; [exact HI|apply prim_pre2_b_sound; assumption].
Qed.

(* C02: InvC /\ (A) /\ preprocessing *)
Theorem step_preserves_QP2 p s : QP n s -> primA_pre2_b n p s = true -> QP n (step n p s).
Proof.
  intros [[HI HA] HP] H. unfold primA_pre2_b in H. apply andb_true_iff in H. destruct H as [H1 H2].
  pose proof (prim_pre2_b_sound p s HI H1) as Hp. pose proof (InvC_chok n s HI) as Hc.
  assert (Htot : forall op, (chok (children s) -> crel n s (op s)) -> InvC n (op s) -> QP n (op s)).
  { intros op Hcr Hinv. split; [split; [exact Hinv|apply (PAe_crel' n s); assumption]|].
    apply (PP_prel n s); [exact HP|apply crel_prel, Hcr, Hc]. }
  destruct p as [nd|nd|x y lg c z|g nd|f| | | | | |pr a b c|ind pj|ind| |k];
    try (apply (step_preserves_QP n HN Hout); [split; [split|]; assumption|split; [exact Hp|try exact I]]).
  - apply pairA_pre_b_sound, H2.
  - cbn [step]. apply (Htot (total_flops_op n)); [apply total_flops_crel, HN|apply total_flops_inv; assumption].
  - cbn [step]. apply (Htot (total_write_op n)); [apply total_write_crel, HN|apply total_write_inv; assumption].
  - cbn [step]. apply (Htot (max_size_op n)); [apply max_size_crel, HN|apply max_size_inv; assumption].
Qed.
Theorem checked_trace2_QP tr : forall s, QP n s -> pre2_trace_b n tr s = true -> QP n (run n tr s).
Proof.
  induction tr as [|p tr IH]; intros s HQ H; [exact HQ|]. cbn in H. apply andb_true_iff in H. destruct H as [H1 H2].
  cbn [run fold_left]. apply (IH (step n p s)); [apply step_preserves_QP2; assumption|exact H2].
Qed.
Lemma pre2_trace_b_app tr1 : forall tr2 s, pre2_trace_b n (tr1 ++ tr2) s = pre2_trace_b n tr1 s && pre2_trace_b n tr2 (run n tr1 s).
Proof.
  induction tr1 as [|p tr1 IH]; intros tr2 s; cbn [app pre2_trace_b]; [reflexivity|].
  rewrite IH, andb_assoc. reflexivity.
Qed.
Theorem tail_PBe2 rtr : pre2_trace_b n (rev rtr) (init_state n) = true -> tail_ok_rev rtr = true ->
  PBe (run n (rev rtr) (init_state n)).
Proof.
  induction rtr as [|p r IH]; intros Hpre Htail; [intros _; apply PB_init|].
  cbn [rev] in *. rewrite run_app. rewrite pre2_trace_b_app in Hpre. apply andb_true_iff in Hpre. destruct Hpre as [Hpre Hp].
  cbn [pre2_trace_b] in Hp. rewrite andb_true_r in Hp. unfold primA_pre2_b in Hp. apply andb_true_iff in Hp. destruct Hp as [Hp _].
  set (s := run n (rev r) (init_state n)) in *. cbn [run fold_left].
  destruct (checked_trace2_QP (rev r) (init_state n) (init_state_QP n HN) Hpre) as [[HI HA] _]. fold s in HI, HA.
  pose proof (InvC_chok n s HI) as Hc.
  cbn [tail_ok_rev] in Htail. destruct (is_query_b p) eqn:Eq.
  - specialize (IH Hpre Htail).
    destruct p as [nd|nd|x y lg c z|g nd|f| | | | | |pr a b c|ind pj|ind| |k]; try discriminate; cbn [step].
    + cbn [prim_pre2_b] in Hp. apply (prim_pre_b_sound n Hout) in Hp. cbn [prim_pre prim_preN prim_pre1 prim_pre0] in Hp.
      apply (getter_preserves_PBe n HN Hout); try assumption. destruct g; try exact Hp. apply Hp.
    + apply (PBe_crel n s); [exact IH|apply contract_stats_crel; assumption].
    + apply (PBe_crel n s); [exact IH|apply total_flops_crel; assumption].
    + apply (PBe_crel n s); [exact IH|apply total_write_crel; assumption].
    + apply (PBe_crel n s); [exact IH|apply max_size_crel; assumption].
    + apply (PBe_same s); auto.
    + destruct (memb k (cores s)); [exact IH|apply (PBe_same s); auto].
  - destruct p as [nd|nd|x y lg c z|g nd|f| | | | | |pr a b c|ind pj|ind| |k]; try discriminate; cbn [step].
    + intros _. apply PB_reset_inds.
    + intros _. apply PB_reset_recipes.
    + apply PBe_sort_inds.
    + apply PBe_remove_ind.
    + apply PBe_restore_ind.
Qed.

Lemma complete_tree s : complete_b n s = true -> exists l r, tree_of (tfuel s) (children s) (seq 0 N) = Some (Node l r).
Proof.
  unfold complete_b. destruct (tree_of (tfuel s) (children s) (seq 0 N)) as [t|] eqn:E; [|discriminate]. intros _.
  destruct t as [k|l r]; [|eauto]. exfalso. unfold tfuel in E. replace (length (children s) + 2) with (S (length (children s) + 1)) in E by lia.
  cbn [tree_of] in E. rewrite seq_length in E. destruct (Nat.eqb_spec N 1); [lia|].
  destruct (nget (seq 0 N) (children s)) as [[a b]|]; [|discriminate].
  destruct (tree_of _ (children s) a); [|discriminate]. destruct (tree_of _ (children s) b); discriminate.
Qed.

Theorem final_history_ready tr pe nodes :
  wf_net_b n = true -> pre2_trace_b n tr (init_state n) = true -> tail_ok_b tr = true ->
  let s1 := run n tr (init_state n) in
  let s := extract_all n pe nodes s1 in
  nodes_ok_b s1 nodes = true -> sorted_keys_b s = true -> err s = false -> complete_b n s = true ->
  exists l r, tree_of (tfuel s) (children s) (seq 0 N) = Some (Node l r) /\
              contractible_b n s (Node l r) = true /\ PB s.
Proof.
  intros Hwf Hpre Htail s1 s Hnodes Hsorted He Hc. destruct (complete_tree s Hc) as (l & r & Ht). exists l, r. split; [exact Ht|].
  apply (ready_core n HN Hout s1 pe nodes l r Hwf); try assumption.
  - apply (checked_trace2_QP tr (init_state n) (init_state_QP n HN) Hpre).
  - unfold s1. rewrite <- (rev_involutive tr). apply tail_PBe2; [rewrite rev_involutive; exact Hpre|exact Htail].
Qed.

(* the program actually executed (tensordot + transpose where can_dot, einsum elsewhere) *)
Theorem final_history_exec tr pe nodes arr e0 :
  wf_net_b n = true -> pre2_trace_b n tr (init_state n) = true -> tail_ok_b tr = true ->
  let s1 := run n tr (init_state n) in
  let s := extract_all n pe nodes s1 in
  nodes_ok_b s1 nodes = true -> sorted_keys_b s = true -> err s = false -> complete_b n s = true ->
  exists l r, tree_of (tfuel s) (children s) (seq 0 N) = Some (Node l r) /\
    fst (srun_x n s arr e0 pe (Node l r)) = map (dim n) (filter (fun j => negb (memb j (removed (sliced s)))) (output n)) /\
    forall e, agree_removed (sliced s) e0 e ->
      snd (srun_x n s arr e0 pe (Node l r)) (map e (filter (fun j => negb (memb j (removed (sliced s)))) (output n)))
      = einsum_spec n (sliced s) arr e.
Proof.
  intros Hwf Hpre Htail s1 s Hnodes Hsorted He Hc. destruct (complete_tree s Hc) as (l & r & Ht). exists l, r. split; [exact Ht|].
  assert (HQ : QP n s1) by apply (checked_trace2_QP tr (init_state n) (init_state_QP n HN) Hpre).
  assert (HP : PBe s1) by (unfold s1; rewrite <- (rev_involutive tr); apply tail_PBe2; [rewrite rev_involutive; exact Hpre|exact Htail]).
  destruct (end_state_facts n HN Hout s1 pe nodes HQ HP Hnodes He) as (I3 & A3 & P3 & _ & Hpp & Hf).
  apply (srun_x_correct n HN s I3 A3 P3 Hsorted Hf arr e0 pe l r He Hwf Hpp Ht).
Qed.
End Final.

Theorem final_history_value n tr pe nodes arr e0 :
  2 <= NN n -> wf_net_b n = true ->
  pre2_trace_b n tr (init_state n) = true -> tail_ok_b tr = true ->
  let s := extract_all n pe nodes (run n tr (init_state n)) in
  nodes_ok_b (run n tr (init_state n)) nodes = true -> sorted_keys_b s = true -> err s = false -> complete_b n s = true ->
  exists l r, tree_of (tfuel s) (children s) (seq 0 (NN n)) = Some (Node l r) /\
  forall e, agree_removed (sliced s) e0 e ->
  srun_root n s arr e0 (Node l r) (map e (filter (fun j => negb (memb j (removed (sliced s)))) (output n)))
  = einsum_spec n (sliced s) arr e.
Proof.
  intros HN Hwf Hpre Htail s Hnodes Hsorted He Hc.
  assert (Hout : NoDup (output n)) by apply (wf_net_b_sound n Hwf).
  destruct (final_history_ready n HN Hout tr pe nodes Hwf Hpre Htail Hnodes Hsorted He Hc) as (l & r & Ht & Hready & _).
  exists l, r. split; [exact Ht|]. apply state_value, Hready.
Qed.

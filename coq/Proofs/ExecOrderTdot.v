(* Glue between Proofs/ExecOrderFacts.v (linear execution in any valid order, under the
   hypothesis tdot_step_ok_at) and Proofs/TdotFacts.v (tensordot + transpose = einsum at a
   node): the hypothesis holds for every tree over the network's tensors, so the linear
   execution theorem is unconditional for every prefer_einsum. *)
From Coq Require Import Lia Permutation.
From Ctg Require Import Base Net Einsum Program BaseFacts NetFacts SumOver TreeEval ProgramFacts.
From Ctg Require Import ExecOrderFacts TdotFacts.

Lemma NoDup_root_inds n sl : NoDup (output n) -> NoDup (lkeys (root_legs n sl)).
Proof.
  intros H. unfold root_legs, lkeys. rewrite map_map. cbn [fst]. rewrite map_id.
  apply NoDup_filter, H.
Qed.

Theorem tdot_step_ok_holds n sl e0 t : inrange n (leaves t) -> NoDup (output n) ->
  tdot_step_ok_at n sl e0 t.
Proof.
  intros HR HO b l r L R Hin Hb Hcd HsL HsR.
  destruct (post_sub_inrange n t HR _ Hin) as (l' & r' & E & HR2). injection E as <- <-.
  assert (NDp : NoDup (inds n sl b (Node l r))).
  { destruct b; cbn [inds]; [apply NoDup_root_inds, HO|apply (inds_sub_spec n sl (Node l r)), HR2]. }
  assert (Ev : node_exec n sl e0 false b l r L R = tdot_val n sl b l r L R).
  { unfold node_exec, tdot_val. rewrite Hcd. reflexivity. }
  pose proof (node_exec_is_einsum n sl e0 false b l r L R HR2 NDp HsL HsR) as [H1 H2].
  rewrite Ev in H1, H2. cbn [fst snd] in H1, H2.
  split; [exact H1|]. intros pos Hpos. apply H2.
  rewrite H1. rewrite Hpos. symmetry. apply map_length.
Qed.

Theorem exec_any_order_any_pref_is_einsum n sl arr e0 pe l r order :
  wf_net n -> full_tree n (Node l r) -> valid_order (Node l r) order ->
  forall e, agree_removed sl e0 e ->
  snd (exec_program n sl arr e0 (program n sl pe (Node l r) order) (Node l r)) (map e (out_inds n sl))
  = einsum_spec n sl arr e.
Proof.
  intros Hwf Hfull Hv. apply exec_order_any_pref_is_einsum; try assumption.
  apply tdot_step_ok_holds; [apply full_tree_inrange, Hfull|apply Hwf].
Qed.

(* CompressedExactFacts.v -- with a cap that never truncates, the compressed simulation computes
   the exact figures of the tree: a merged multi-edge stands for the set of original indices it
   absorbed, with the product of their sizes.  For networks without a repeated index inside a
   tensor and without an index that lives on one tensor only and is not an output.
   (owner: builder c18c20) *)
From Coq Require Import Lia Permutation.
From Ctg Require Import Base Net HGraph Compressed BaseFacts NetFacts HGraphFacts CompressedFacts
                        CompressedPeakFacts HGraphTreeFacts.

(* ---------- lists ---------- *)
Lemma size_of_app_x sz l1 l2 : size_of sz (l1 ++ l2) = (size_of sz l1 * size_of sz l2)%Z.
Proof. unfold size_of. rewrite map_app, zprod_app. reflexivity. Qed.

Lemma size_of_flat_map sz (rep : ix -> list ix) es :
  size_of sz (flat_map rep es) = zprod (map (fun e => size_of sz (rep e)) es).
Proof.
  induction es as [|e es IH]; cbn [flat_map map]; [reflexivity|].
  rewrite size_of_app_x, zprod_cons, IH. reflexivity.
Qed.

Lemma nodup_app_intro {A} (a b : list A) : NoDup a -> NoDup b -> (forall x, In x a -> ~ In x b) -> NoDup (a ++ b).
Proof.
  induction a as [|x a IH]; intros Na Nb Hd; [exact Nb|].
  inversion Na as [|? ? Hn Na']; subst. cbn. constructor.
  - rewrite in_app_iff. intros [H|H]; [contradiction|]. apply (Hd x); [left; reflexivity|exact H].
  - apply IH; [exact Na'|exact Nb|]. intros y Hy. apply Hd. right; exact Hy.
Qed.

Lemma nodup_flat_map (rep : ix -> list ix) es : NoDup es -> (forall e, In e es -> NoDup (rep e)) ->
  (forall e1 e2 x, In e1 es -> In e2 es -> In x (rep e1) -> In x (rep e2) -> e1 = e2) ->
  NoDup (flat_map rep es).
Proof.
  induction es as [|e es IH]; intros ND Hn Hd; cbn [flat_map]; [constructor|].
  inversion ND as [|? ? He ND']; subst. apply nodup_app_intro.
  - apply Hn. left; reflexivity.
  - apply IH; [exact ND'|intros; apply Hn; right; assumption|].
    intros e1 e2 x H1 H2. apply Hd; right; assumption.
  - intros x Hx Hf. apply in_flat_map in Hf. destruct Hf as (e' & He' & Hx').
    assert (e = e') by (apply (Hd e e' x); [left; reflexivity|right; exact He'|exact Hx|exact Hx']). subst. contradiction.
Qed.

Lemma size_of_incl_le sz l : forall U, NoDup l -> NoDup U -> incl l U -> (forall x, (1 <= zget x sz)%Z) ->
  (1 <= size_of sz l <= size_of sz U)%Z.
Proof.
  induction l as [|x l IH]; intros U Nl NU Hi Hp.
  - unfold size_of at 1 2. cbn. split; [lia|]. clear Hi NU. induction U as [|y U IHU]; [unfold size_of; cbn; lia|].
    rewrite size_of_cons. specialize (Hp y). nia.
  - inversion Nl as [|? ? Hx Nl']; subst.
    assert (HxU : In x U) by (apply Hi; left; reflexivity).
    destruct (in_split _ _ HxU) as (U1 & U2 & ->).
    assert (P : Permutation (U1 ++ x :: U2) (x :: U1 ++ U2)) by (symmetry; apply Permutation_middle).
    rewrite (size_of_perm sz _ _ P), !size_of_cons.
    assert (NU' : NoDup (U1 ++ U2)).
    { apply (Permutation_NoDup P) in NU. inversion NU; assumption. }
    assert (Hi' : incl l (U1 ++ U2)).
    { intros y Hy. assert (Hy' : In y (U1 ++ x :: U2)) by (apply Hi; right; exact Hy).
      apply in_app_iff in Hy'. apply in_app_iff. destruct Hy' as [H|[H|H]]; auto. subst. contradiction. }
    specialize (IH (U1 ++ U2) Nl' NU' Hi' Hp). specialize (Hp x). nia.
Qed.

Lemma concat_unique_group (GL : list (list ix)) : NoDup (concat GL) ->
  forall es es' x, In es GL -> In es' GL -> In x es -> In x es' -> es = es'.
Proof.
  induction GL as [|g0 GL IH]; intros ND es es' x H1 H2 X1 X2; [destruct H1|].
  cbn [concat] in ND. destruct (nodup_app_disj _ _ ND) as (N0 & NG & Hd).
  destruct H1 as [->|H1], H2 as [->|H2]; try reflexivity.
  - exfalso. apply (Hd x X1). apply in_concat. exists es'. split; assumption.
  - exfalso. apply (Hd x X2). apply in_concat. exists es. split; assumption.
  - apply (IH NG es es' x); assumption.
Qed.

Section Exact.
Variable n : net.
Hypothesis norep : forall t, In t (inputs n) -> NoDup t.

Notation cnt := (cnt n []).
Notation appear := (appear n).
Notation NN := (NN n).
Notation L := (fun t => lkeys (sub_legs n [] t)).

(* which indices survive a pairwise contraction, read off the forest alone *)
Lemma forest_sem F i j ti tj : NoDup (fkeys F) -> Permutation (forest_leaves F) (seq 0 NN) ->
  In (i, ti) F -> In (j, tj) F -> i <> j ->
  let rest := del_tree j (del_tree i F) in
  inrange n (leaves ti ++ leaves tj) /\
  (forall k' t', In (k', t') rest -> inrange n (leaves t')) /\
  Permutation (seq 0 NN) ((leaves ti ++ leaves tj) ++ forest_leaves rest) /\
  (forall k' t', In (k', t') rest <-> In (k', t') F /\ k' <> i /\ k' <> j) /\
  forall x, In x (L (Node ti tj)) <->
            (In x (L ti) \/ In x (L tj)) /\ ((exists k' t', In (k', t') rest /\ In x (L t')) \/ In x (output n)).
Proof.
  intros NDF PF Hi Hj Hij. cbn zeta.
  pose proof (find_del_perm i F ti (in_find_tree i F ti NDF Hi)) as P1.
  assert (Hj' : In (j, tj) (del_tree i F)) by (apply (in_del_tree i F j tj NDF); split; [exact Hj|congruence]).
  pose proof (nodup_del_tree i F NDF) as NDF1.
  pose proof (find_del_perm j (del_tree i F) tj (in_find_tree j _ tj NDF1 Hj')) as P2.
  set (rest := del_tree j (del_tree i F)) in *.
  assert (Pall : Permutation (seq 0 NN) ((leaves ti ++ leaves tj) ++ forest_leaves rest)).
  { rewrite <- PF, P1, P2, app_assoc. reflexivity. }
  assert (IRall : inrange n ((leaves ti ++ leaves tj) ++ forest_leaves rest)).
  { apply (inrange_perm n _ _ Pall). apply perm_inrange. reflexivity. }
  assert (IRS : inrange n (leaves ti ++ leaves tj)) by apply (inrange_app_l n _ _ IRall).
  assert (IRi : inrange n (leaves ti)) by apply (inrange_app_l n _ _ IRS).
  assert (IRj : inrange n (leaves tj)) by apply (inrange_app_r n _ _ IRS).
  assert (Hrest : forall k' t', In (k', t') rest <-> In (k', t') F /\ k' <> i /\ k' <> j).
  { intros k' t'. unfold rest. rewrite (in_del_tree j _ k' t' NDF1), (in_del_tree i F k' t' NDF). tauto. }
  assert (IRother : forall k' t', In (k', t') rest -> inrange n ((leaves ti ++ leaves tj) ++ leaves t')).
  { intros k' t' Hin. destruct (in_split _ _ Hin) as (F1 & F2 & EF).
    assert (Pr : Permutation (forest_leaves rest) (leaves t' ++ forest_leaves (F1 ++ F2))).
    { rewrite EF. unfold forest_leaves. rewrite !flat_map_app. cbn [flat_map snd].
      rewrite app_assoc, (Permutation_app_comm (flat_map _ F1) (leaves t')), <- app_assoc. reflexivity. }
    assert (IR2 : inrange n (((leaves ti ++ leaves tj) ++ leaves t') ++ forest_leaves (F1 ++ F2))).
    { apply (inrange_perm n ((leaves ti ++ leaves tj) ++ forest_leaves rest)); [|exact IRall].
      rewrite Pr, app_assoc. reflexivity. }
    apply (inrange_app_l n _ _ IR2). }
  assert (IRt : forall k' t', In (k', t') rest -> inrange n (leaves t')).
  { intros k' t' Hin. apply (inrange_app_r n _ _ (IRother k' t' Hin)). }
  split; [exact IRS|]. split; [exact IRt|]. split; [exact Pall|]. split; [exact Hrest|].
  intros x. cbn beta.
  rewrite (sub_legs_keys n [] (Node ti tj) x IRS), (sub_legs_keys n [] ti x IRi), (sub_legs_keys n [] tj x IRj).
  cbn [leaves]. rewrite (cnt_app n []).
  split.
  - intros [Hpos Hlt]. split.
    + destruct (Nat.eq_dec (cnt (leaves ti) x) 0) as [E0|E0]; [right|left]; lia.
    + destruct (in_dec Nat.eq_dec x (output n)) as [Ho|Ho]; [right; exact Ho|left].
      assert (Eo : occ (output n) x = 0).
      { destruct (Nat.eq_dec (occ (output n) x) 0) as [E|E]; [exact E|]. exfalso. apply Ho, occ_pos. lia. }
      rewrite (appear_occ n), Eo, Nat.add_0_r, <- (cnt_all n) in Hlt.
      rewrite (cnt_perm n _ _ x Pall), !(cnt_app n []) in Hlt.
      destruct (cnt_forest_pos n rest x) as (k' & t' & Hr & Hp); [lia|].
      exists k', t'. split; [exact Hr|]. rewrite (sub_legs_keys n [] t' x (IRt k' t' Hr)). split; [exact Hp|].
      pose proof (cnt_le_appear n [] _ x (IRother k' t' Hr)) as Hle. rewrite !(cnt_app n []) in Hle. lia.
  - intros [Hin Hsurv].
    assert (Hpos : 0 < cnt (leaves ti) x + cnt (leaves tj) x) by (destruct Hin as [[H _]|[H _]]; lia).
    split; [exact Hpos|].
    destruct Hsurv as [(k' & t' & Hr & Hx)|Hout].
    + rewrite (sub_legs_keys n [] t' x (IRt k' t' Hr)) in Hx.
      pose proof (cnt_le_appear n [] _ x (IRother k' t' Hr)) as Hle. rewrite !(cnt_app n []) in Hle. lia.
    + pose proof (cnt_le_inputs n _ x IRS) as Hle. rewrite (cnt_app n []) in Hle.
      rewrite (appear_occ n). apply occ_pos in Hout. lia.
Qed.

(* ---------- the simulation invariant ---------- *)
Definition alive (g : hg) (e : ix) : Prop := exists k, In e (get_node g k).

Record Sim (g : hg) (F : list (nat * tree)) (rep : ix -> list ix) : Prop := {
  sim_wf : wf_hg g;
  sim_out : hout g = output n;
  sim_keys : forall k, amem k (hnodes g) = true <-> In k (fkeys F);
  sim_nodup : NoDup (fkeys F);
  sim_part : Permutation (forest_leaves F) (seq 0 NN);
  sim_idx : forall k t, In (k, t) F -> forall x, In x (L t) <-> exists e, In e (get_node g k) /\ In x (rep e);
  sim_disj : forall e1 e2 x, alive g e1 -> alive g e2 -> In x (rep e1) -> In x (rep e2) -> e1 = e2;
  sim_nd : forall e, alive g e -> NoDup (rep e);
  sim_sz : forall e, alive g e -> zget e (hsz g) = size_of (szd n) (rep e);
  sim_outrep : forall e x, alive g e -> In x (rep e) -> In x (output n) -> x = e;
  sim_outedge : forall e, alive g e -> In e (output n) -> rep e = [e]
}.

Lemma alive_tree g F rep e : Sim g F rep -> alive g e -> exists k t, In (k, t) F /\ In e (get_node g k).
Proof.
  intros S (k & Hk). assert (Hl : In k (fkeys F)) by (apply (sim_keys g F rep S), (getL_in_mem _ _ _ Hk)).
  unfold fkeys in Hl. apply in_map_iff in Hl. destruct Hl as ([k' t] & E & Hin). cbn in E. subst k'.
  exists k, t. split; assumption.
Qed.

Lemma sim_prod g F rep l : Sim g F rep -> (forall e, In e l -> alive g e) ->
  size_of (hsz g) l = size_of (szd n) (flat_map rep l).
Proof.
  intros S Ha. rewrite size_of_flat_map. unfold size_of at 1. f_equal. apply map_ext_in.
  intros e He. apply (sim_sz g F rep S e (Ha e He)).
Qed.

Lemma sim_flat_nodup g F rep l : Sim g F rep -> NoDup l -> (forall e, In e l -> alive g e) -> NoDup (flat_map rep l).
Proof.
  intros S ND Ha. apply nodup_flat_map; [exact ND|intros e He; apply (sim_nd g F rep S e (Ha e He))|].
  intros e1 e2 x H1 H2. apply (sim_disj g F rep S); [apply Ha, H1|apply Ha, H2].
Qed.

(* contraction keeps the simulation (same rep) and costs / produces exactly the tree's figures *)
Theorem contract_sim g F rep i j ti tj : Sim g F rep -> i <> j -> In (i, ti) F -> In (j, tj) F ->
  let g' := fst (hg_contract i j g) in
  let k := snd (hg_contract i j g) in
  k = hnext g /\
  Sim g' ((k, Node ti tj) :: del_tree j (del_tree i F)) rep /\
  contract_pair_cost g i j = node_flops n [] (Node ti tj) /\
  hg_node_size g' k = node_size n [] false (Node ti tj).
Proof.
  intros S Hij Hi Hj.
  destruct (contract_spec i j g (sim_wf g F rep S) Hij) as (K & X & W' & S' & O' & N' & M' & ND' & I' & E').
  cbn zeta in *. set (g' := fst (hg_contract i j g)) in *. set (k := snd (hg_contract i j g)) in *.
  pose proof (sim_nodup g F rep S) as NDF.
  destruct (forest_sem F i j ti tj NDF (sim_part g F rep S) Hi Hj Hij) as (IRS & IRt & Pall & Hrest & Sem).
  cbn zeta in *. set (rest := del_tree j (del_tree i F)) in *.
  pose proof (nodup_del_tree i F NDF) as NDF1.
  assert (Hfr : forall k', In k' (fkeys rest) <-> In k' (fkeys F) /\ k' <> i /\ k' <> j).
  { intros k'. unfold rest. rewrite (fkeys_del_tree j _ k' NDF1), (fkeys_del_tree i F k' NDF). tauto. }
  assert (Hfresh : ~ In k (fkeys F)).
  { intros H. apply (sim_keys g F rep S) in H. apply (wf_next g (sim_wf g F rep S)) in H. lia. }
  assert (Hai : forall e, In e (get_node g i) -> alive g e) by (intros e He; exists i; exact He).
  assert (Haj : forall e, In e (get_node g j) -> alive g e) by (intros e He; exists j; exact He).
  (* the new node represents exactly the legs of the parent *)
  assert (Hnew : forall x, In x (L (Node ti tj)) <-> exists e, In e (get_node g' k) /\ In x (rep e)).
  { intros x. rewrite Sem. split.
    - intros [Hin Hsurv].
      assert (Hex : exists e, (In e (get_node g i) \/ In e (get_node g j)) /\ In x (rep e)).
      { destruct Hin as [H|H]; [apply (sim_idx g F rep S i ti Hi x) in H|apply (sim_idx g F rep S j tj Hj x) in H];
          destruct H as (e & He & Hx); exists e; tauto. }
      destruct Hex as (e & He & Hx). exists e. split; [|exact Hx]. apply I'. split; [exact He|].
      assert (Hae : alive g e) by (destruct He; [apply Hai|apply Haj]; assumption).
      destruct Hsurv as [(k' & t' & Hr & Hx')|Hout].
      + left. destruct (proj1 (Hrest k' t') Hr) as (HinF & Hki & Hkj).
        apply (sim_idx g F rep S k' t' HinF x) in Hx'. destruct Hx' as (e' & He' & Hxe').
        assert (e = e') by (apply (sim_disj g F rep S e e' x Hae); [exists k'; exact He'|exact Hx|exact Hxe']). subst e'.
        exists k'. split; [exact Hki|split; [exact Hkj|]]. apply (wf_inc g (sim_wf g F rep S)), He'.
      + right. rewrite (sim_out g F rep S). rewrite <- (sim_outrep g F rep S e x Hae Hx Hout). exact Hout.
    - intros (e & He & Hx). apply I' in He. destruct He as [He Hsurv]. split.
      + destruct He as [He|He]; [left; apply (sim_idx g F rep S i ti Hi x)|right; apply (sim_idx g F rep S j tj Hj x)];
          exists e; tauto.
      + destruct Hsurv as [(k' & Hki & Hkj & Hk')|Hout].
        * left. apply (wf_inc g (sim_wf g F rep S)) in Hk'.
          assert (Hlive : In k' (fkeys F)) by (apply (sim_keys g F rep S), (getL_in_mem _ _ _ Hk')).
          unfold fkeys in Hlive. apply in_map_iff in Hlive. destruct Hlive as ([k'' t'] & Ek & HinF). cbn in Ek. subst k''.
          exists k', t'. split; [apply Hrest; tauto|]. apply (sim_idx g F rep S k' t' HinF x). exists e. tauto.
        * right. rewrite (sim_out g F rep S) in Hout.
          assert (Hae : alive g e) by (destruct He; [apply Hai|apply Haj]; assumption).
          rewrite (sim_outedge g F rep S e Hae Hout) in Hx. destruct Hx as [<-|[]]. exact Hout. }
  assert (Halive' : forall e, alive g' e -> alive g e).
  { intros e (k' & Hk'). rewrite N' in Hk'. destruct (k' =? k).
    - apply I' in Hk'. destruct Hk' as [[H|H] _]; [apply Hai|apply Haj]; exact H.
    - destruct ((k' =? i) || (k' =? j)); [destruct Hk'|exists k'; exact Hk']. }
  split; [exact K|]. split; [|split].
  - constructor.
    + exact W'.
    + rewrite O'. apply (sim_out g F rep S).
    + intros k'. change (fkeys ((k, Node ti tj) :: rest)) with (k :: fkeys rest). cbn [In].
      rewrite Hfr, M', <- (sim_keys g F rep S k').
      rewrite orb_true_iff, !andb_true_iff, !negb_true_iff, Nat.eqb_eq, !Nat.eqb_neq.
      split; (intros [H|H]; [left; congruence|right; tauto]).
    + change (fkeys ((k, Node ti tj) :: rest)) with (k :: fkeys rest).
      constructor; [rewrite Hfr; tauto|]. unfold rest. apply nodup_del_tree, NDF1.
    + cbn [forest_leaves flat_map snd leaves]. fold (forest_leaves rest). symmetry. exact Pall.
    + intros k' t' [E|Hr] x.
      * inversion E; subst k' t'. apply Hnew.
      * destruct (proj1 (Hrest k' t') Hr) as (HinF & Hki & Hkj).
        rewrite N'. destruct (Nat.eqb_spec k' k) as [->|Hk].
        -- exfalso. apply Hfresh. unfold fkeys. apply in_map_iff. exists (k, t'). split; [reflexivity|exact HinF].
        -- destruct (Nat.eqb_spec k' i); [contradiction|]. destruct (Nat.eqb_spec k' j); [contradiction|].
           cbn [orb]. apply (sim_idx g F rep S k' t' HinF x).
    + intros e1 e2 x A1 A2. apply (sim_disj g F rep S); apply Halive'; assumption.
    + intros e A. apply (sim_nd g F rep S), Halive', A.
    + intros e A. rewrite S'. apply (sim_sz g F rep S), Halive', A.
    + intros e x A. apply (sim_outrep g F rep S), Halive', A.
    + intros e A. apply (sim_outedge g F rep S), Halive', A.
  - (* pair cost *)
    unfold contract_pair_cost, edges_size, node_flops. cbn [involved].
    set (U := unique (get_node g i ++ get_node g j)).
    assert (HU : forall e, In e U -> alive g e).
    { intros e He. unfold U in He. rewrite hu_unique_in, in_app_iff in He. destruct He; [apply Hai|apply Haj]; assumption. }
    rewrite (sim_prod g F rep U S HU).
    apply size_of_same_set.
    + apply (sim_flat_nodup g F rep U S (hu_unique_nodup _) HU).
    + apply legs_union2_nodup. apply (sub_legs_spec n [] ti (inrange_app_l n _ _ IRS)).
    + intros x. rewrite legs_union2_in, in_flat_map.
      rewrite (sim_idx g F rep S i ti Hi x), (sim_idx g F rep S j tj Hj x). unfold U. split.
      * intros (e & He & Hx). rewrite hu_unique_in, in_app_iff in He. destruct He; [left|right]; exists e; tauto.
      * intros [(e & He & Hx)|(e & He & Hx)]; exists e; rewrite hu_unique_in, in_app_iff; tauto.
  - (* size of the new tensor *)
    unfold hg_node_size, edges_size, node_size. cbn [node_legs].
    assert (HA : forall e, In e (get_node g' k) -> alive g e).
    { intros e He. apply Halive'. exists k. exact He. }
    rewrite S'. rewrite (sim_prod g F rep (get_node g' k) S HA).
    apply size_of_same_set.
    + apply (sim_flat_nodup g F rep _ S ND' HA).
    + apply (sub_legs_spec n [] (Node ti tj) IRS).
    + intros x. rewrite in_flat_map. symmetry. apply Hnew.
Qed.

(* ---------- compress with a cap that does not truncate ---------- *)
Definition rep_after (GL : list (list ix)) (rep : ix -> list ix) (e : ix) : list ix :=
  match find (fun es => Nat.leb 2 (length es) && Nat.eqb (hd 0 es) e) GL with
  | Some es => flat_map rep es
  | None => rep e
  end.

Lemma rep_after_head GL rep es : NoDup (concat GL) -> In es GL -> 2 <= length es ->
  rep_after GL rep (hd 0 es) = flat_map rep es.
Proof.
  intros ND Hin Hl. unfold rep_after.
  destruct (find (fun es0 => Nat.leb 2 (length es0) && Nat.eqb (hd 0 es0) (hd 0 es)) GL) as [es'|] eqn:Ef.
  - apply find_some in Ef. destruct Ef as [Hin' Hp]. apply andb_true_iff in Hp. destruct Hp as [Hl' Hh].
    apply Nat.leb_le in Hl'. apply Nat.eqb_eq in Hh.
    assert (es' = es); [|subst; reflexivity].
    apply (concat_unique_group GL ND es' es (hd 0 es)); try assumption.
    + rewrite <- Hh. destruct es'; [cbn in Hl'; lia|left; reflexivity].
    + destruct es; [cbn in Hl; lia|left; reflexivity].
  - exfalso. pose proof (find_none _ _ Ef es Hin) as Hn. cbn beta in Hn.
    rewrite Nat.eqb_refl, andb_true_r in Hn. apply Nat.leb_gt in Hn.
    exact (Nat.lt_irrefl _ (Nat.lt_le_trans _ _ _ Hn Hl)).
Qed.

Lemma rep_after_cases GL rep e :
  (exists es, In es GL /\ 2 <= length es /\ hd 0 es = e /\ rep_after GL rep e = flat_map rep es) \/
  (~ is_head GL e /\ rep_after GL rep e = rep e).
Proof.
  unfold rep_after. destruct (find (fun es0 => Nat.leb 2 (length es0) && Nat.eqb (hd 0 es0) e) GL) as [es|] eqn:Ef.
  - left. apply find_some in Ef. destruct Ef as [Hin Hp]. apply andb_true_iff in Hp. destruct Hp as [Hl Hh].
    exists es. split; [exact Hin|]. split; [apply Nat.leb_le, Hl|]. split; [apply Nat.eqb_eq, Hh|reflexivity].
  - right. split; [|reflexivity]. intros (es & Hin & Hl & Hh).
    pose proof (find_none _ _ Ef es Hin) as Hn. cbn beta in Hn. rewrite Hh, Nat.eqb_refl, andb_true_r in Hn.
    apply Nat.leb_gt in Hn. exact (Nat.lt_irrefl _ (Nat.lt_le_trans _ _ _ Hn Hl)).
Qed.

Lemma forest_inrange F k t : Permutation (forest_leaves F) (seq 0 NN) -> In (k, t) F -> inrange n (leaves t).
Proof.
  intros P Hin. destruct (in_split _ _ Hin) as (F1 & F2 & ->).
  assert (IR : inrange n (forest_leaves (F1 ++ (k, t) :: F2))) by (apply perm_inrange, P).
  unfold forest_leaves in IR. rewrite flat_map_app in IR. cbn [flat_map snd] in IR.
  apply (inrange_app_l n _ _ (inrange_app_r n _ _ IR)).
Qed.

Lemma nodup_concat_member (GL : list (list ix)) es : NoDup (concat GL) -> In es GL -> NoDup es.
Proof.
  induction GL as [|g0 GL IH]; intros ND Hin; [destruct Hin|]. cbn [concat] in ND.
  destruct (nodup_app_disj _ _ ND) as (N0 & NG & _). destruct Hin as [->|Hin]; [exact N0|apply IH; assumption].
Qed.

Lemma member_not_del_is_head (GL : list (list ix)) es a : In es GL -> In a es -> ~ In a (gdels GL) -> a = hd 0 es.
Proof.
  intros Hin Ha Hd. destruct es as [|h tl0]; [destruct Ha|]. destruct Ha as [<-|Ha]; [reflexivity|].
  exfalso. apply Hd. unfold gdels. apply in_flat_map. exists (h :: tl0). split; [exact Hin|exact Ha].
Qed.

Theorem compress_sim chi edges g F rep : Sim g F rep -> (forall e, In e edges -> alive g e) ->
  (forall x, (1 <= zget x (szd n))%Z) -> (size_of (szd n) (universe n) <= chi)%Z ->
  Sim (hg_compress chi edges g) F (rep_after (map snd (incidences g (unique edges))) rep).
Proof.
  intros S Hal Hpos Hchi.
  pose proof (sim_wf g F rep S) as W.
  destruct (compress_spec chi edges g W) as (A & N & E & O & Xn & W' & ND & Hmem & Hsame & Hother & Hhead).
  cbn zeta in *. set (GL := map snd (incidences g (unique edges))) in *. set (D := gdels GL) in *.
  set (g' := hg_compress chi edges g) in *. set (rep' := rep_after GL rep).
  assert (F1 : forall es e, In es GL -> In e es -> alive g e /\ ~ In e (output n)).
  { intros es e Hes He. destruct (Hmem es e Hes He) as [H1 H2]. split; [apply Hal, H1|rewrite <- (sim_out g F rep S); exact H2]. }
  assert (F2 : forall es e1 e2 k, In es GL -> In e1 es -> In e2 es -> (In e1 (get_node g k) <-> In e2 (get_node g k))).
  { intros es e1 e2 k Hes H1 H2. rewrite <- !(wf_inc g W). apply (Hsame es e1 e2 Hes H1 H2). }
  assert (F3 : forall e, alive g' e -> alive g e /\ ~ In e D).
  { intros e (k & Hk). rewrite N, in_remove_all in Hk. split; [exists k; tauto|tauto]. }
  assert (F4 : forall e k, In e (get_node g k) -> ~ In e D -> In e (get_node g' k)).
  { intros e k He Hd. rewrite N, in_remove_all. tauto. }
  assert (Hhd : forall es, In es GL -> 2 <= length es -> In (hd 0 es) es /\ ~ In (hd 0 es) D).
  { intros es Hes Hl. destruct es as [|h tl0]; [cbn in Hl; lia|]. split; [left; reflexivity|].
    apply (head_not_del GL ND (h :: tl0) Hes h eq_refl). }
  (* every index represented after the merge was represented before, by a member of the group *)
  assert (F6 : forall e x, In x (rep' e) ->
               exists a, In x (rep a) /\ (a = e \/ exists es, In es GL /\ 2 <= length es /\ hd 0 es = e /\ In a es)).
  { intros e x Hx. unfold rep' in Hx. destruct (rep_after_cases GL rep e) as [(es & Hes & Hl & Hh & Er)|[_ Er]]; rewrite Er in Hx.
    - apply in_flat_map in Hx. destruct Hx as (a & Ha & Hxa). exists a. split; [exact Hxa|right]. exists es. tauto.
    - exists e. split; [exact Hx|left; reflexivity]. }
  assert (Tin : forall k t, In (k, t) F -> inrange n (leaves t)) by (intros k t; apply forest_inrange, (sim_part g F rep S)).
  assert (Huniv : forall a x, alive g a -> In x (rep a) -> In x (universe n)).
  { intros a x Ha Hx. destruct (alive_tree g F rep a S Ha) as (k & t & HinF & Hk).
    assert (Hx' : In x (L t)) by (apply (sim_idx g F rep S k t HinF x); exists a; tauto).
    apply (sub_legs_keys n [] t x (Tin k t HinF)) in Hx'. apply (cnt_pos_in_universe n [] (leaves t)). lia. }
  assert (Hbound : forall es, In es GL -> (size_of (szd n) (flat_map rep es) <= chi)%Z).
  { intros es Hes.
    assert (Hae : forall e, In e es -> alive g e) by (intros e He; apply (F1 es e Hes He)).
    pose proof (sim_flat_nodup g F rep es S (nodup_concat_member GL es ND Hes) Hae) as NDf.
    assert (Hincl : incl (flat_map rep es) (universe n)).
    { intros x Hx. apply in_flat_map in Hx. destruct Hx as (a & Ha & Hxa). apply (Huniv a x (Hae a Ha) Hxa). }
    pose proof (size_of_incl_le (szd n) _ (universe n) NDf (NoDup_nodup _ _) Hincl Hpos). unfold universe in *. lia. }
  constructor.
  - exact W'.
  - rewrite O. apply (sim_out g F rep S).
  - intros k. rewrite (amem_keys_eq (hnodes g') (hnodes g) k A). apply (sim_keys g F rep S).
  - apply (sim_nodup g F rep S).
  - apply (sim_part g F rep S).
  - intros k t HinF x. rewrite (sim_idx g F rep S k t HinF x). split.
    + intros (e & He & Hx). destruct (in_dec Nat.eq_dec e D) as [HeD|HeD].
      * destruct (del_has_keeper GL e HeD) as (es & h & Hes & Hh & _ & Hees & Hhes & Hl).
        assert (Ehd : hd 0 es = h) by (destruct es; [discriminate|cbn in Hh; inversion Hh; reflexivity]).
        exists h. split.
        -- apply F4; [apply (F2 es e h k Hes Hees Hhes), He|]. rewrite <- Ehd. apply (Hhd es Hes Hl).
        -- unfold rep'. rewrite <- Ehd, (rep_after_head GL rep es ND Hes Hl). apply in_flat_map. exists e. tauto.
      * exists e. split; [apply F4; assumption|]. unfold rep'.
        destruct (rep_after_cases GL rep e) as [(es & Hes & Hl & Hh & Er)|[_ Er]]; rewrite Er; [|exact Hx].
        apply in_flat_map. exists e. split; [rewrite <- Hh; apply (Hhd es Hes Hl)|exact Hx].
    + intros (e & He & Hx). rewrite N, in_remove_all in He. destruct He as [He HeD].
      destruct (F6 e x Hx) as (a & Hxa & [->|(es & Hes & Hl & Hh & Ha)]).
      * exists e. tauto.
      * exists a. split; [|exact Hxa]. apply (F2 es e a k Hes); [rewrite <- Hh; apply (Hhd es Hes Hl)|exact Ha|exact He].
  - intros e1 e2 x A1 A2 H1 H2. destruct (F3 e1 A1) as [B1 D1]. destruct (F3 e2 A2) as [B2 D2].
    destruct (F6 e1 x H1) as (a1 & X1 & C1). destruct (F6 e2 x H2) as (a2 & X2 & C2).
    assert (Al1 : alive g a1) by (destruct C1 as [->|(es & Hes & _ & _ & Ha)]; [exact B1|apply (F1 es a1 Hes Ha)]).
    assert (Al2 : alive g a2) by (destruct C2 as [->|(es & Hes & _ & _ & Ha)]; [exact B2|apply (F1 es a2 Hes Ha)]).
    assert (a1 = a2) by (apply (sim_disj g F rep S a1 a2 x); assumption). subst a2.
    destruct C1 as [->|(es1 & Hes1 & Hl1 & Hh1 & Ha1)], C2 as [E2|(es2 & Hes2 & Hl2 & Hh2 & Ha2)].
    + exact E2.
    + rewrite <- Hh2. apply (member_not_del_is_head GL es2 e1 Hes2 Ha2 D1).
    + subst a1. rewrite <- Hh1. symmetry. apply (member_not_del_is_head GL es1 e2 Hes1 Ha1 D2).
    + assert (es1 = es2) by (apply (concat_unique_group GL ND es1 es2 a1); assumption). subst. congruence.
  - intros e Ae. destruct (F3 e Ae) as [Be De]. unfold rep'.
    destruct (rep_after_cases GL rep e) as [(es & Hes & Hl & Hh & Er)|[_ Er]]; rewrite Er.
    + apply (sim_flat_nodup g F rep es S (nodup_concat_member GL es ND Hes)). intros a Ha. apply (F1 es a Hes Ha).
    + apply (sim_nd g F rep S e Be).
  - intros e Ae. destruct (F3 e Ae) as [Be De]. unfold rep'.
    destruct (rep_after_cases GL rep e) as [(es & Hes & Hl & Hh & Er)|[Hnh Er]]; rewrite Er.
    + rewrite <- Hh, (Hhead es Hes Hl).
      rewrite (sim_prod g F rep es S) by (intros a Ha; apply (F1 es a Hes Ha)).
      pose proof (Hbound es Hes). lia.
    + rewrite (Hother e Hnh). apply (sim_sz g F rep S e Be).
  - intros e x Ae Hx Hout. destruct (F3 e Ae) as [Be De].
    destruct (F6 e x Hx) as (a & Hxa & [->|(es & Hes & Hl & Hh & Ha)]).
    + apply (sim_outrep g F rep S e x Be Hxa Hout).
    + exfalso. destruct (F1 es a Hes Ha) as [Ala Hna].
      rewrite (sim_outrep g F rep S a x Ala Hxa Hout) in Hout. contradiction.
  - intros e Ae Hout. destruct (F3 e Ae) as [Be De]. unfold rep'.
    destruct (rep_after_cases GL rep e) as [(es & Hes & Hl & Hh & Er)|[_ Er]]; rewrite Er.
    + exfalso. destruct (Hhd es Hes Hl) as [Hm _]. rewrite Hh in Hm. destruct (F1 es e Hes Hm) as [_ Hn]. contradiction.
    + apply (sim_outedge g F rep S e Be Hout).
Qed.

(* ---------- no compression cost when nothing is truncated ---------- *)
Lemma sim_bound chi g F rep es : Sim g F rep -> NoDup es -> (forall e, In e es -> alive g e) ->
  (forall x, (1 <= zget x (szd n))%Z) -> (size_of (szd n) (universe n) <= chi)%Z ->
  (size_of (hsz g) es <= chi)%Z.
Proof.
  intros S ND Hae Hpos Hchi. rewrite (sim_prod g F rep es S Hae).
  pose proof (sim_flat_nodup g F rep es S ND Hae) as NDf.
  assert (Hincl : incl (flat_map rep es) (universe n)).
  { intros x Hx. apply in_flat_map in Hx. destruct Hx as (a & Ha & Hxa).
    destruct (alive_tree g F rep a S (Hae a Ha)) as (k & t & HinF & Hk).
    assert (Hx' : In x (L t)) by (apply (sim_idx g F rep S k t HinF x); exists a; tauto).
    apply (sub_legs_keys n [] t x (forest_inrange F k t (sim_part g F rep S) HinF)) in Hx'.
    apply (cnt_pos_in_universe n [] (leaves t)). lia. }
  pose proof (size_of_incl_le (szd n) _ (universe n) NDf (NoDup_nodup _ _) Hincl Hpos). unfold universe in *. lia.
Qed.

Lemma ncc_zero chi g F rep X : Sim g F rep ->
  (forall x, (1 <= zget x (szd n))%Z) -> (size_of (szd n) (universe n) <= chi)%Z ->
  neighborhood_compress_cost g chi X = (0%Z, false).
Proof.
  intros S Hpos Hchi. unfold neighborhood_compress_cost.
  set (region := unique (flat_map (get_node g) X)).
  destruct (incidences_spec g region (hu_unique_nodup _)) as (ND & Hin & _). cbn zeta in *.
  set (gs := incidences g region) in *.
  assert (Hgs : forall kv, In kv gs -> (edges_size g (snd kv) <= chi)%Z).
  { intros kv Hkv. unfold edges_size. rewrite gflat_concat in ND.
    apply (sim_bound chi g F rep (snd kv) S).
    - apply (nodup_concat_member (map snd gs) (snd kv) ND). apply in_map, Hkv.
    - intros e He. assert (Hg : In e (gflat gs)) by (unfold gflat; apply in_flat_map; exists kv; tauto).
      apply Hin in Hg. destruct Hg as [Hg _]. unfold region in Hg. rewrite hu_unique_in in Hg.
      apply in_flat_map in Hg. destruct Hg as (k & _ & Hk). exists k. exact Hk.
    - exact Hpos.
    - exact Hchi. }
  set (inc := filter _ gs).
  assert (Hinc : forall kv, In kv inc -> (edges_size g (snd kv) <= chi)%Z).
  { intros kv Hkv. unfold inc in Hkv. apply filter_In in Hkv. apply Hgs, Hkv. }
  clearbody inc. clear Hgs. induction inc as [|kv inc IH]; cbn [fold_left]; [reflexivity|].
  assert (E : (chi <? edges_size g (snd kv))%Z = false).
  { apply Z.ltb_ge. apply Hinc. left; reflexivity. }
  cbn beta. rewrite E. apply IH. intros kv' Hkv'. apply Hinc. right; exact Hkv'.
Qed.

(* ---------- the initial graph ---------- *)
Lemma size_of_single sz e : size_of sz [e] = zget e sz.
Proof. rewrite size_of_cons. unfold size_of. cbn [map]. rewrite zprod_nil. lia. Qed.

Lemma rep_to_sim g F : nodangling n -> Rep n g F -> Sim g F (fun e => [e]).
Proof.
  intros Hd R. constructor.
  - apply (rep_wf n g F R).
  - apply (rep_out n g F R).
  - apply (rep_keys n g F R).
  - apply (rep_nodup n g F R).
  - apply (rep_part n g F R).
  - intros k t HinF x.
    rewrite <- (idx_eq_legs n norep t x Hd (forest_inrange F k t (rep_part n g F R) HinF)).
    rewrite <- (rep_idx n g F R k t HinF x). split.
    + intros H. exists x. split; [exact H|left; reflexivity].
    + intros (e & He & [<-|[]]). exact He.
  - intros e1 e2 x _ _ [<-|[]] [<-|[]]. reflexivity.
  - intros e _. repeat constructor. intros [].
  - intros e _. rewrite (rep_sz n g F R), size_of_single. reflexivity.
  - intros e x _ [<-|[]] _. reflexivity.
  - intros e _ _. reflexivity.
Qed.

(* ---------- one step of compressed_contract_stats ---------- *)
Lemma ccs_step_flops chi late s p l r :
  let g0 := cs_g s in let m := cs_map s in
  let li := tm_get l m in let ri := tm_get r m in
  let plr := (p, (l, r)) in
  let gp := pre_g chi late g0 m plr in
  let gc := fst (con_g chi late g0 m plr) in
  let pi := snd (con_g chi late g0 m plr) in
  t_flops (cs_tr (ccs_step chi late s plr)) =
  (t_flops (cs_tr s) + (if late then fst (neighborhood_compress_cost g0 chi [li; ri]) else 0)
   + contract_pair_cost gp li ri + (if late then 0 else fst (neighborhood_compress_cost gc chi [pi])))%Z.
Proof.
  cbn zeta. unfold ccs_step, con_g, pre_g. destruct late.
  - destruct (hg_contract _ _ _) as [g' pi] eqn:E.
    unfold tr_pre_compress. destruct (neighborhood_compress_cost _ _ _) as [c b].
    unfold tr_post_step, tr_post_contract, tr_pre_contract, tr_post_compress, tr_pre_step.
    cbn [cs_tr cs_g cs_map t_total t_total_post t_peak t_dsize t_contracted t_flops t_max t_write t_dflops t_sens fst snd]. lia.
  - destruct (hg_contract _ _ _) as [g' pi] eqn:E. cbn [fst snd].
    unfold tr_pre_compress. destruct (neighborhood_compress_cost _ _ _) as [c b].
    unfold tr_post_step, tr_post_contract, tr_pre_contract, tr_post_compress, tr_pre_step.
    cbn [cs_tr cs_g cs_map t_total t_total_post t_peak t_dsize t_contracted t_flops t_max t_write t_dflops t_sens fst snd]. lia.
Qed.

Theorem sim_step chi late s F rep p l r ti tj :
  (forall x, (1 <= zget x (szd n))%Z) -> (size_of (szd n) (universe n) <= chi)%Z ->
  let plr := (p, (l, r)) in
  let li := tm_get l (cs_map s) in let ri := tm_get r (cs_map s) in
  Sim (cs_g s) F rep -> li <> ri -> In (li, ti) F -> In (ri, tj) F ->
  let s' := ccs_step chi late s plr in
  let pi := snd (con_g chi late (cs_g s) (cs_map s) plr) in
  (exists rep', Sim (cs_g s') ((pi, Node ti tj) :: del_tree ri (del_tree li F)) rep') /\
  t_flops (cs_tr s') = (t_flops (cs_tr s) + node_flops n [] (Node ti tj))%Z /\
  csize chi late (cs_g s) (cs_map s) plr = node_size n [] false (Node ti tj).
Proof.
  intros Hpos Hchi. cbn zeta. intros S Hne Hi Hj.
  pose proof (ccs_step_flops chi late s p l r) as FL. cbn zeta in FL.
  pose proof (ccs_step_struct chi late s (p, (l, r))) as ES.
  assert (Eg : cs_g (ccs_step chi late s (p, (l, r))) = fst (step_g chi late (cs_g s) (cs_map s) (p, (l, r)))) by (rewrite <- ES; reflexivity).
  rewrite Eg, FL. clear FL ES Eg.
  set (g0 := cs_g s) in *. set (m := cs_map s) in *. set (li := tm_get l m) in *. set (ri := tm_get r m) in *.
  unfold csize, step_g, con_g, pre_g. fold li ri.
  destruct late.
  - assert (A1 : forall e, In e (get_node g0 li) -> alive g0 e) by (intros e He; exists li; exact He).
    pose proof (compress_sim chi (get_node g0 li) g0 F rep S A1 Hpos Hchi) as S1.
    set (g1 := hg_compress chi (get_node g0 li) g0) in *.
    set (rep1 := rep_after _ rep) in S1.
    assert (A2 : forall e, In e (get_node g1 ri) -> alive g1 e) by (intros e He; exists ri; exact He).
    pose proof (compress_sim chi (get_node g1 ri) g1 F rep1 S1 A2 Hpos Hchi) as S2.
    set (g2 := hg_compress chi (get_node g1 ri) g1) in *.
    set (rep2 := rep_after _ rep1) in S2.
    destruct (contract_sim g2 F rep2 li ri ti tj S2 Hne Hi Hj) as (_ & S3 & C3 & Z3). cbn zeta in *.
    rewrite (ncc_zero chi g0 F rep [li; ri] S Hpos Hchi). cbn [fst snd].
    split; [exists rep2; exact S3|]. split; [rewrite C3; lia|exact Z3].
  - destruct (contract_sim g0 F rep li ri ti tj S Hne Hi Hj) as (_ & S3 & C3 & Z3). cbn zeta in *.
    set (gc := fst (hg_contract li ri g0)) in *. set (pi := snd (hg_contract li ri g0)) in *.
    assert (A4 : forall e, In e (get_node gc pi) -> alive gc e) by (intros e He; exists pi; exact He).
    pose proof (compress_sim chi (get_node gc pi) gc _ rep S3 A4 Hpos Hchi) as S4.
    rewrite (ncc_zero chi gc _ rep [pi] S3 Hpos Hchi). cbn [fst snd].
    split; [eexists; exact S4|]. split; [rewrite C3; lia|exact Z3].
Qed.

(* ---------- the whole run ---------- *)
(* the trees the run creates, step by step, named by the identifiers the run itself uses *)
Fixpoint run_trees (chi : Z) (late : bool) (s : cstate) (F : list (nat * tree))
                   (order : list (list nat * (list nat * list nat))) : list tree :=
  match order with
  | [] => []
  | plr :: order' =>
      let li := tm_get (fst (snd plr)) (cs_map s) in
      let ri := tm_get (snd (snd plr)) (cs_map s) in
      match find_tree li F, find_tree ri F with
      | Some ti, Some tj =>
          Node ti tj :: run_trees chi late (ccs_step chi late s plr)
                                  ((snd (con_g chi late (cs_g s) (cs_map s) plr), Node ti tj) :: del_tree ri (del_tree li F)) order'
      | _, _ => []
      end
  end.

Definition sum_flops_of (ts : list tree) : Z := zsum (map (node_flops n []) ts).
Definition sum_sizes_of (ts : list tree) : Z := zsum (map (node_size n [] false) ts).
Definition max_sizes_of (ts : list tree) (d : Z) : Z := zmax_list (map (node_size n [] false) ts) d.

Theorem sim_run chi late : (forall x, (1 <= zget x (szd n))%Z) -> (size_of (szd n) (universe n) <= chi)%Z ->
  forall order s F rep, Sim (cs_g s) F rep -> ids_ok_from chi late s order = true ->
  let ts := run_trees chi late s F order in
  let s' := fold_left (ccs_step chi late) order s in
  length ts = length order /\
  t_flops (cs_tr s') = (t_flops (cs_tr s) + sum_flops_of ts)%Z /\
  t_write (cs_tr s') = (t_write (cs_tr s) + sum_sizes_of ts)%Z /\
  t_max (cs_tr s') = max_sizes_of ts (t_max (cs_tr s)).
Proof.
  intros Hpos Hchi. induction order as [|[p [l r]] order IH]; intros s F rep S Hok; cbn zeta.
  - cbn. unfold sum_flops_of, sum_sizes_of, max_sizes_of. cbn. repeat split; lia.
  - cbn [ids_ok_from] in Hok. apply andb_true_iff in Hok. destruct Hok as [Hs Hok]. apply step_ok_b_sound in Hs.
    destruct Hs as (Hne & Li & Lr). cbn [fold_left run_trees fst snd].
    set (li := tm_get l (cs_map s)) in *. set (ri := tm_get r (cs_map s)) in *.
    assert (Fi : exists ti, In (li, ti) F).
    { apply (sim_keys _ F rep S) in Li. unfold fkeys in Li. apply in_map_iff in Li. destruct Li as ([k t] & E & H). cbn in E. subst. exists t; exact H. }
    assert (Fj : exists tj, In (ri, tj) F).
    { apply (sim_keys _ F rep S) in Lr. unfold fkeys in Lr. apply in_map_iff in Lr. destruct Lr as ([k t] & E & H). cbn in E. subst. exists t; exact H. }
    destruct Fi as (ti & Hi). destruct Fj as (tj & Hj).
    rewrite (in_find_tree li F ti (sim_nodup _ F rep S) Hi), (in_find_tree ri F tj (sim_nodup _ F rep S) Hj).
    destruct (sim_step chi late s F rep p l r ti tj Hpos Hchi S Hne Hi Hj) as ((rep' & S') & FL & CZ). cbn zeta in *.
    destruct (ccs_step_tracker chi late s (p, (l, r))) as [MX WR].
    destruct (IH _ _ rep' S' Hok) as (A & B & C & D). cbn zeta in *. subst li ri.
    split; [cbn [length]; rewrite A; reflexivity|].
    unfold sum_flops_of, sum_sizes_of, max_sizes_of in *. cbn [map]. rewrite !zsum_cons.
    split; [rewrite B, FL; lia|]. split; [rewrite C, WR, CZ; lia|].
    rewrite D, MX, CZ. unfold zmax_list. cbn [fold_left]. reflexivity.
Qed.

Lemma map_snd_combine {A B} (f : A -> B) (l : list A) : forall s,
  map (fun kv : nat * A => f (snd kv)) (combine (seq s (length l)) l) = map f l.
Proof. induction l as [|x l IH]; intros s; cbn; [reflexivity|]. f_equal. apply IH. Qed.

Definition leaf_forest : list (nat * tree) := map (fun i => (i, Leaf i)) (seq 0 NN).
Definition input_sizes : list Z := map (size_of (szd n)) (inputs n).

(* uncapped_* : with a cap at least the product of all dimensions, on a network without repeated
   and without dangling indices, the tracker's flops / write / max are the exact figures of the
   contractions the run performs (ts = the trees it builds, one per step) *)
Theorem uncapped_exact chi late order : nodangling n ->
  (forall x, (1 <= zget x (szd n))%Z) -> (size_of (szd n) (universe n) <= chi)%Z ->
  ids_ok chi late n order = true ->
  let ts := run_trees chi late (ccs_init n) leaf_forest order in
  let t := cs_tr (ccs_run chi late n order) in
  length ts = length order /\
  t_flops t = sum_flops_of ts /\
  t_write t = (zsum input_sizes + sum_sizes_of ts)%Z /\
  t_max t = max_sizes_of ts (zmax_list input_sizes 0%Z).
Proof.
  intros Hd Hpos Hchi Hok. cbn zeta.
  pose proof (rep_to_sim _ _ Hd (init_rep n norep)) as S0.
  destruct (sim_run chi late Hpos Hchi order (ccs_init n) leaf_forest (fun e => [e]) S0 Hok) as (A & B & C & D).
  cbn zeta in *. unfold ccs_run.
  assert (Esz : map (fun kv : nat * list ix => edges_size (hg_init (inputs n) (output n) (szd n)) (snd kv))
                    (hnodes (hg_init (inputs n) (output n) (szd n))) = input_sizes).
  { unfold input_sizes. apply (map_snd_combine (size_of (szd n)) (inputs n) 0). }
  split; [exact A|]. split; [rewrite B; unfold ccs_init; cbn [cs_tr tr_init t_flops]; lia|].
  split.
  - rewrite C. unfold ccs_init. cbn [cs_tr cs_g]. unfold tr_init. cbn [t_write]. rewrite Esz. reflexivity.
  - rewrite D. unfold ccs_init. cbn [cs_tr cs_g]. unfold tr_init. cbn [t_max]. rewrite Esz. reflexivity.
Qed.

End Exact.

(* SliceEndToEnd.v -- C06 composed with C01: contracting every slice of a sliced tree with
   the contraction program of C01 (Program.run_root, slice = the assignment of the removed
   indices) and gathering the results gives the mathematical einsum of the unsliced network. *)
From Coq Require Import Lia Permutation.
From Ctg Require Import Base Net Slice BaseFacts SliceFacts SliceSum SliceGather.
From Ctg Require Einsum Program SumOver TreeEval ProgramFacts.

(* the removed-index list in C01's vocabulary *)
Definition slr_of (sl : list sinfo) : list slinfo := map (fun s => mkSl (si_ind s) (si_proj s)) sl.
Lemma removed_slr sl : removed (slr_of sl) = map si_ind sl.
Proof. unfold removed, slr_of. rewrite map_map. reflexivity. Qed.

(* the two copies of the iterated sum coincide *)
Lemma sumn_bridge m f : SliceSum.sumn m f = Einsum.sumn m f.
Proof. induction m as [|m IH]; cbn; [reflexivity|]. rewrite IH. reflexivity. Qed.
Lemma sum_over_bridge size js : forall e F, SliceSum.sum_over size js e F = Einsum.sum_over size js e F.
Proof.
  induction js as [|j js IH]; intros e F; cbn; [reflexivity|]. rewrite sumn_bridge.
  apply SumOver.sumn_ext. intros v _. apply IH.
Qed.

Section EE.
Variable n : net.
Variable st : sstate.
Variable arr : nat -> Einsum.ptensor.
Variable ebase : env.
Variable l r : tree.
Notation sl := (ss_sliced st).
Notation slr := (slr_of (ss_sliced st)).
Notation out := (output n).

Hypothesis WF : TreeEval.wf_net n.
Hypothesis FT : TreeEval.full_tree n (Node l r).
Hypothesis Hinv : inv out st.

(* slice i: the program of C01 run on the arrays sliced at slice_key i *)
Definition slice_t (i : nat) : tens :=
  mkT [] (Program.run_root n slr arr (apply_key ebase (slice_key sl i)) (Node l r)).
Definition all_slices : list tens := map slice_t (seq 0 (total sl)).

Lemma out_inds_is_out' : ProgramFacts.out_inds n slr = out' out st.
Proof.
  unfold ProgramFacts.out_inds, root_legs, out', sliced_b, lkeys. rewrite map_map. cbn [fst]. rewrite map_id, removed_slr. reflexivity.
Qed.

Lemma NoDup_out' : NoDup (out' out st).
Proof. unfold out'. apply NoDup_filter, WF. Qed.

Lemma map_epairs_combine (names : list ix) : NoDup names -> forall vals e0, length vals = length names ->
  map (epairs (combine names vals) e0) names = vals.
Proof.
  induction names as [|x names IH]; intros Hnd vals e0 Hl; destruct vals as [|v vals]; cbn [length] in Hl; try lia; [reflexivity|].
  inversion Hnd as [|? ? Hn Hnd']; subst. cbn [combine map]. f_equal.
  - unfold epairs. cbn [kget]. rewrite Nat.eqb_refl. reflexivity.
  - transitivity (map (epairs (combine names vals) e0) names); [|apply IH; [exact Hnd'|lia]]. apply map_ext_in. intros j Hj. unfold epairs. cbn [kget].
    destruct (Nat.eqb_spec x j) as [->|_]; [contradiction|reflexivity].
Qed.

Lemma slice_key_NoDup i : NoDup (map fst (slice_key sl i)).
Proof. rewrite slice_key_decode, decode_inds. apply Hinv. Qed.

(* every slice is the einsum of the sliced network at its key (C01's run_root_correct) *)
Lemma slice_is_einsum i idx' : i < total sl -> length idx' = length (out' out st) ->
  tget (nth i all_slices dummy_t) idx' =
  Einsum.einsum_spec n slr arr (apply_key (epairs (combine (out' out st) idx') ebase) (slice_key sl i)).
Proof.
  intros Hi Hl. unfold all_slices.
  rewrite (nth_indep _ dummy_t (slice_t 0)) by (rewrite map_length, seq_length; exact Hi).
  rewrite map_nth, seq_nth by exact Hi. cbn [Nat.add slice_t tget].
  set (e := apply_key (epairs (combine (out' out st) idx') ebase) (slice_key sl i)).
  assert (Hkeys : map fst (slice_key sl i) = map si_ind sl) by (rewrite slice_key_decode; apply decode_inds).
  assert (Hmap : map e (ProgramFacts.out_inds n slr) = idx').
  { rewrite out_inds_is_out'. transitivity (map (epairs (combine (out' out st) idx') ebase) (out' out st)); [|apply (map_epairs_combine (out' out st) NoDup_out' idx' ebase Hl)].
    apply map_ext_in. intros j Hj. unfold e. rewrite apply_key_kget by apply slice_key_NoDup.
    rewrite kget_none; [reflexivity|]. rewrite Hkeys. unfold out' in Hj. apply filter_In in Hj. destruct Hj as [_ Hj].
    apply negb_true_iff, memb_false in Hj. exact Hj. }
  rewrite <- Hmap. apply ProgramFacts.run_root_correct; [exact WF|exact FT|].
  intros j Hj. rewrite removed_slr, <- Hkeys in Hj. unfold e. rewrite !apply_key_kget by apply slice_key_NoDup.
  destruct (kget j (slice_key sl i)) eqn:Ek; [reflexivity|]. exfalso. apply (kget_in_some j _ Hj Ek).
Qed.

Lemma einsum_spec_respects : respects (Einsum.einsum_spec n slr arr).
Proof.
  intros e1 e2 He. unfold Einsum.einsum_spec. apply SumOver.sum_over_env; [apply TreeEval.prodF_respects|exact He].
Qed.

(* contract of a sliced tree, entry by entry: the sum over the inner sliced ranges of the
   einsum of the sliced network *)
Theorem contract_sliced idx : length idx = length out ->
  (forall jp, In jp (output_pos out sl) -> nth (snd jp) idx 0 < length (sliced_range (si_of sl (fst jp)))) ->
  tget (gather_slices sl out all_slices) idx =
  sum_keys (inns sl) (epairs (full_pairs out st idx) ebase) (Einsum.einsum_spec n slr arr).
Proof.
  intros Hidx Hrange.
  apply (gather_correct out st Hinv (proj1 WF) (Einsum.einsum_spec n slr arr) einsum_spec_respects ebase all_slices).
  - unfold all_slices. rewrite map_length, seq_length. reflexivity.
  - exact Hidx.
  - exact Hrange.
  - intros i idx' Hi Hl. apply slice_is_einsum; assumption.
Qed.

(* when the inner sliced indices are genuinely sliced (not projected), occur in the network and
   SliceInfo.size is the index dimension: the gathered tensor IS the einsum of the unsliced
   network (a projected output index taking its chosen value) *)
Hypothesis Hplain : plain (Einsum.dim n) (inns sl).
Hypothesis Hocc : forall s, In s (inns sl) -> In (si_ind s) (Einsum.all_ix n).

Lemma inner_split : Permutation (Einsum.inner n []) (map si_ind (inns sl) ++ Einsum.inner n slr).
Proof.
  destruct Hinv as (Hwf & Hof & Hnd & Hm & Hfl). unfold flags_ok in Hfl. rewrite Forall_forall in Hfl.
  assert (NDall : NoDup (Einsum.all_ix n)) by (unfold Einsum.all_ix; apply NoDup_nodup).
  apply NoDup_Permutation.
  - unfold Einsum.inner. apply NoDup_filter, NDall.
  - apply NoDup_app_intro.
    + apply NoDup_map_filter, Hnd.
    + unfold Einsum.inner. apply NoDup_filter, NDall.
    + intros j Hj Hj'. unfold Einsum.inner in Hj'. apply filter_In in Hj'. destruct Hj' as [_ Hb].
      apply andb_prop in Hb. destruct Hb as [Hb _]. apply negb_true_iff, memb_false in Hb. apply Hb.
      rewrite removed_slr. apply in_map_iff in Hj. destruct Hj as (s & <- & Hs). apply in_map. unfold inns in Hs. apply filter_In in Hs. apply Hs.
  - intros j. unfold Einsum.inner. rewrite in_app_iff, !filter_In, removed_slr. cbn [removed map memb existsb negb andb]. split.
    + intros [Hall Hout]. destruct (memb j (map si_ind sl)) eqn:Em.
      * left. apply memb_In in Em. apply in_map_iff in Em. destruct Em as (s & <- & Hs). apply in_map. unfold inns. apply filter_In.
        split; [exact Hs|]. rewrite (Hfl s Hs). exact Hout.
      * right. split; [exact Hall|]. rewrite Hout. reflexivity.
    + intros [Hj|[Hall Hb]].
      * apply in_map_iff in Hj. destruct Hj as (s & <- & Hs). split; [apply Hocc, Hs|].
        unfold inns in Hs. apply filter_In in Hs. destruct Hs as [Hs Hi]. rewrite (Hfl s Hs) in Hi. exact Hi.
      * split; [exact Hall|]. apply andb_prop in Hb. apply Hb.
Qed.

Theorem contract_sliced_is_einsum idx : length idx = length out ->
  (forall jp, In jp (output_pos out sl) -> nth (snd jp) idx 0 < length (sliced_range (si_of sl (fst jp)))) ->
  tget (gather_slices sl out all_slices) idx =
  Einsum.einsum_spec n [] arr (epairs (full_pairs out st idx) ebase).
Proof.
  intros Hidx Hrange. rewrite (contract_sliced idx Hidx Hrange).
  rewrite (sum_keys_plain (Einsum.dim n) _ Hplain), sum_over_bridge.
  unfold Einsum.einsum_spec. rewrite <- SumOver.sum_over_app.
  symmetry. apply SumOver.sum_over_perm; [apply inner_split| |apply TreeEval.prodF_respects].
  unfold Einsum.inner. apply NoDup_filter. unfold Einsum.all_ix. apply NoDup_nodup.
Qed.
End EE.

(* ------------------------------------------------------------------ *)
(* projected inner indices: the sum-over-ranges form IS einsum_spec of the network in which
   only the projected indices are removed, at the assignment that fixes them *)
Fixpoint apply_proj (L : list sinfo) (e : env) : env :=
  match L with
  | [] => e
  | s :: L' => match si_proj s with
               | Some p => apply_proj L' (upd e (si_ind s) p)
               | None => apply_proj L' e
               end
  end.
Definition nonproj_inds (L : list sinfo) : list ix :=
  map si_ind (filter (fun s => match si_proj s with None => true | Some _ => false end) L).
Definition proj_only (sl : list sinfo) : list sinfo :=
  filter (fun s => match si_proj s with None => false | Some _ => true end) sl.

Lemma apply_proj_upd_comm L : forall e j v, ~ In j (map si_ind L) ->
  SumOver.env_eq (upd (apply_proj L e) j v) (apply_proj L (upd e j v)).
Proof.
  induction L as [|s L IH]; intros e j v Hn; [intros k; reflexivity|]. cbn [map In apply_proj] in *.
  destruct (si_proj s) as [p|].
  - intros k. rewrite (IH (upd e (si_ind s) p) j v) by tauto.
    assert (Hcomm : SumOver.env_eq (upd (upd e (si_ind s) p) j v) (upd (upd e j v) (si_ind s) p)).
    { intros x. unfold upd. destruct (Nat.eqb_spec x j), (Nat.eqb_spec x (si_ind s)); subst; try reflexivity. exfalso. apply Hn. left; reflexivity. }
    revert k. change (SumOver.env_eq (apply_proj L (upd (upd e (si_ind s) p) j v)) (apply_proj L (upd (upd e j v) (si_ind s) p))).
    clear -Hcomm. revert Hcomm. generalize (upd (upd e (si_ind s) p) j v) (upd (upd e j v) (si_ind s) p).
    induction L as [|s' L IH]; intros e1 e2 He; [exact He|]. cbn [apply_proj]. destruct (si_proj s'); apply IH; [|exact He].
    intros x. unfold upd. destruct (Nat.eqb x (si_ind s')); [reflexivity|apply He].
  - apply IH. tauto.
Qed.

Section Proj.
Variable n : net.
Variable arr : nat -> Einsum.ptensor.
Notation out := (output n).
Notation dim := (Einsum.dim n).
Notation allix := (Einsum.all_ix n).
Notation PF := (Einsum.prodF n arr (seq 0 (NN n))).

Definition innerR (rm : list ix) : list ix :=
  filter (fun j => negb (memb j rm) && negb (memb j out)) allix.
Definition ER (rm : list ix) (e : env) : Z := Einsum.sum_over dim (innerR rm) e PF.

Lemma einsum_spec_ER sl e : Einsum.einsum_spec n sl arr e = ER (removed sl) e.
Proof. reflexivity. Qed.

Lemma NoDup_allix : NoDup allix.
Proof. unfold Einsum.all_ix. apply NoDup_nodup. Qed.

Lemma ER_respects rm : SumOver.respects (ER rm).
Proof. intros e1 e2 He. unfold ER. apply SumOver.sum_over_env; [apply TreeEval.prodF_respects|exact He]. Qed.

Definition drop (xs rm : list ix) : list ix := filter (fun j => negb (memb j xs)) rm.

Lemma sum_keys_ER L : forall rm e,
  NoDup (map si_ind L) ->
  (forall s, In s L -> ~ In (si_ind s) out /\ In (si_ind s) rm /\
                       (si_proj s = None -> si_size s = dim (si_ind s) /\ In (si_ind s) allix)) ->
  sum_keys L e (ER rm) = ER (drop (nonproj_inds L) rm) (apply_proj L e).
Proof.
  induction L as [|s L IH]; intros rm e Hnd HL.
  - cbn [sum_keys apply_proj]. unfold nonproj_inds. cbn [filter map].
    assert (Hd : drop [] rm = rm) by (unfold drop; apply filter_all, forallb_forall; intros; reflexivity).
    rewrite Hd. reflexivity.
  - cbn [map] in Hnd. inversion Hnd as [|? ? Hn Hnd']; subst.
    destruct (HL s (or_introl eq_refl)) as (Hout & Hrm & Hnp).
    assert (HL' : forall s', In s' L -> ~ In (si_ind s') out /\ In (si_ind s') rm /\
                   (si_proj s' = None -> si_size s' = dim (si_ind s') /\ In (si_ind s') allix))
      by (intros s' Hs'; apply HL; right; exact Hs').
    cbn [sum_keys apply_proj]. unfold sliced_range, nonproj_inds. cbn [filter].
    destruct (si_proj s) as [p|] eqn:Ep.
    + cbn [map]. rewrite zsum_cons. assert (Hz : zsum [] = 0%Z) by reflexivity. rewrite Hz, Z.add_0_r.
      apply (IH rm (upd e (si_ind s) p) Hnd' HL').
    + destruct (Hnp eq_refl) as [Hsz Hall]. cbn [map]. fold (nonproj_inds L).
      set (j := si_ind s) in *. set (rm' := drop (nonproj_inds L) rm).
      assert (Hjrm' : In j rm').
      { unfold rm', drop. apply filter_In. split; [exact Hrm|]. apply negb_true_iff, memb_false.
        intros H. apply Hn. unfold nonproj_inds in H. apply in_map_iff in H. destruct H as (s' & E0 & Hs'). apply filter_In in Hs'.
        rewrite <- E0. apply in_map, Hs'. }
      assert (HP : Permutation (innerR (drop (j :: nonproj_inds L) rm)) (j :: innerR rm')).
      { apply NoDup_Permutation.
        - unfold innerR. apply NoDup_filter, NoDup_allix.
        - constructor; [|unfold innerR; apply NoDup_filter, NoDup_allix].
          unfold innerR. rewrite filter_In. intros [_ Hb]. apply andb_prop in Hb. destruct Hb as [Hb _].
          apply negb_true_iff, memb_false in Hb. contradiction.
        - intros x. cbn [In]. unfold innerR. rewrite !filter_In, !andb_true_iff, !negb_true_iff, !memb_false.
          unfold rm', drop. rewrite !filter_In, !negb_true_iff, !memb_false. cbn [In]. split.
          + intros (Hx & Hnr & Hno). destruct (Nat.eq_dec j x) as [->|Hne]; [left; reflexivity|right].
            split; [exact Hx|]. split; [|exact Hno]. intros [Hxr Hxn]. apply Hnr. split; [exact Hxr|]. intros [E0|H']; [contradiction|apply Hxn, H'].
          + intros [<-|(Hx & Hnr & Hno)].
            * split; [exact Hall|]. split; [|exact Hout]. intros [_ H']. apply H'. left; reflexivity.
            * split; [exact Hx|]. split; [|exact Hno]. intros [Hxr Hxn]. apply Hnr. split; [exact Hxr|]. intros H'. apply Hxn. right; exact H'. }
      unfold ER at 2.
      rewrite (SumOver.sum_over_perm dim _ _ HP); [|unfold innerR; apply NoDup_filter, NoDup_allix|apply TreeEval.prodF_respects].
      cbn [Einsum.sum_over]. rewrite Hsz, <- sumn_bridge, sumn_zsum. fold j. f_equal. apply map_ext. intros v.
      rewrite (IH rm (upd e j v) Hnd' HL'). fold rm'. unfold ER.
      apply SumOver.sum_over_env; [apply TreeEval.prodF_respects|].
      intros k. symmetry. apply apply_proj_upd_comm. exact Hn.
Qed.
End Proj.

Lemma memb_iff j a b : (In j a <-> In j b) -> memb j a = memb j b.
Proof.
  intros H. destruct (memb j a) eqn:Ea, (memb j b) eqn:Eb; try reflexivity.
  - apply memb_In in Ea. apply H in Ea. apply memb_false in Eb. contradiction.
  - apply memb_In in Eb. apply H in Eb. apply memb_false in Ea. contradiction.
Qed.

Lemma NoDup_map_inj_in' {A B} (f : A -> B) l x y : NoDup (map f l) -> In x l -> In y l -> f x = f y -> x = y.
Proof.
  induction l as [|a l IH]; intros Hnd Hx Hy E0; [destruct Hx|]. cbn [map] in Hnd. inversion Hnd as [|? ? Hn Hnd']; subst.
  destruct Hx as [->|Hx], Hy as [->|Hy]; [reflexivity| | |apply IH; assumption].
  - exfalso. apply Hn. rewrite E0. apply in_map, Hy.
  - exfalso. apply Hn. rewrite <- E0. apply in_map, Hx.
Qed.

(* END TO END with projected inner indices: gathering the slices computed by C01's program
   equals einsum_spec of the network in which ONLY the projected indices are removed, at the
   assignment read off idx with every projected index fixed at its chosen value *)
Theorem contract_sliced_is_einsum_proj n st arr ebase l r :
  TreeEval.wf_net n -> TreeEval.full_tree n (Node l r) -> inv (output n) st ->
  (forall s, In s (inns (ss_sliced st)) -> si_proj s = None ->
     si_size s = Einsum.dim n (si_ind s) /\ In (si_ind s) (Einsum.all_ix n)) ->
  forall idx, length idx = length (output n) ->
  (forall jp, In jp (output_pos (output n) (ss_sliced st)) ->
     nth (snd jp) idx 0 < length (sliced_range (si_of (ss_sliced st) (fst jp)))) ->
  tget (gather_slices (ss_sliced st) (output n) (all_slices n st arr ebase l r)) idx =
  Einsum.einsum_spec n (slr_of (proj_only (ss_sliced st))) arr
    (apply_proj (inns (ss_sliced st)) (epairs (full_pairs (output n) st idx) ebase)).
Proof.
  intros WF FT Hinv Hnp idx Hidx Hrange.
  rewrite (contract_sliced n st arr ebase l r WF FT Hinv idx Hidx Hrange).
  destruct Hinv as (Hwf & Hof & Hnd & Hm & Hfl). unfold flags_ok in Hfl. rewrite Forall_forall in Hfl.
  set (sl := ss_sliced st) in *. set (e := epairs (full_pairs (output n) st idx) ebase).
  change (Einsum.einsum_spec n (slr_of sl) arr) with (ER n arr (removed (slr_of sl))).
  rewrite (sum_keys_ER n arr (inns sl) (removed (slr_of sl)) e).
  - rewrite einsum_spec_ER. unfold ER. f_equal. unfold innerR. apply filter_ext_in. intros j Hj.
    destruct (memb j (output n)) eqn:Eo; [rewrite !andb_false_r; reflexivity|]. rewrite !andb_true_r. f_equal.
    apply memb_false in Eo. apply memb_iff. rewrite !removed_slr. unfold drop. rewrite filter_In, negb_true_iff, memb_false. split.
    + intros [Hin Hnn]. apply in_map_iff in Hin. destruct Hin as (s & Es & Hs). apply in_map_iff. exists s. split; [exact Es|].
      unfold proj_only. apply filter_In. split; [exact Hs|]. destruct (si_proj s) eqn:Ep; [reflexivity|].
      exfalso. apply Hnn. unfold nonproj_inds. apply in_map_iff. exists s. split; [exact Es|]. apply filter_In. split; [|rewrite Ep; reflexivity].
      unfold inns. apply filter_In. split; [exact Hs|]. rewrite (Hfl s Hs), Es. apply negb_true_iff, memb_false, Eo.
    + intros Hin. apply in_map_iff in Hin. destruct Hin as (s & Es & Hs). unfold proj_only in Hs. apply filter_In in Hs. destruct Hs as [Hs Hp].
      split; [rewrite <- Es; apply in_map, Hs|]. intros H'. unfold nonproj_inds in H'. apply in_map_iff in H'. destruct H' as (s' & Es' & Hs').
      apply filter_In in Hs'. destruct Hs' as [Hs' Hp']. unfold inns in Hs'. apply filter_In in Hs'. destruct Hs' as [Hs' _].
      assert (s' = s) by (apply (NoDup_map_inj_in' si_ind sl s' s Hnd Hs' Hs); congruence). subst s'.
      destruct (si_proj s); discriminate.
  - apply NoDup_map_filter, Hnd.
  - intros s Hs. pose proof Hs as Hs0. unfold inns in Hs. apply filter_In in Hs. destruct Hs as [Hs Hi]. split; [|split].
    + rewrite (Hfl s Hs) in Hi. apply negb_true_iff, memb_false in Hi. exact Hi.
    + rewrite removed_slr. apply in_map, Hs.
    + intros Hp. apply (Hnp s Hs0 Hp).
Qed.

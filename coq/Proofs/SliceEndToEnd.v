(* SliceEndToEnd.v -- C06 composed with C01: contracting every slice of a sliced tree with
   the contraction program of C01 (Program.run_root, slice = the assignment of the removed
   indices) and gathering the results gives the mathematical einsum of the unsliced network. *)
From Coq Require Import Lia Permutation.
From Ctg Require Import Base Net Slice BaseFacts SliceFacts SliceSum SliceGather.
From Ctg Require Einsum Program SumOver TreeEval ProgramFacts.

(* the removed-index list in C01's vocabulary *)
Definition slr_of (sl : list sinfo) : list slinfo := map (fun s => mkSl (si_ind s) (si_proj s)) sl.
Lemma removed_slr sl : removed (slr_of sl) = map si_ind sl.
Proof. unfold removed, slr_of. rewrite map_map. reflexivity. Qed.

(* the two copies of the iterated sum coincide *)
Lemma sumn_bridge m f : SliceSum.sumn m f = Einsum.sumn m f.
Proof. induction m as [|m IH]; cbn; [reflexivity|]. rewrite IH. reflexivity. Qed.
Lemma sum_over_bridge size js : forall e F, SliceSum.sum_over size js e F = Einsum.sum_over size js e F.
Proof.
  induction js as [|j js IH]; intros e F; cbn; [reflexivity|]. rewrite sumn_bridge.
  apply SumOver.sumn_ext. intros v _. apply IH.
Qed.

Section EE.
Variable n : net.
Variable st : sstate.
Variable arr : nat -> Einsum.ptensor.
Variable ebase : env.
Variable l r : tree.
Notation sl := (ss_sliced st).
Notation slr := (slr_of (ss_sliced st)).
Notation out := (output n).

Hypothesis WF : TreeEval.wf_net n.
Hypothesis FT : TreeEval.full_tree n (Node l r).
Hypothesis Hinv : inv out st.

(* slice i: the program of C01 run on the arrays sliced at slice_key i *)
Definition slice_t (i : nat) : tens :=
  mkT [] (Program.run_root n slr arr (apply_key ebase (slice_key sl i)) (Node l r)).
Definition all_slices : list tens := map slice_t (seq 0 (total sl)).

Lemma out_inds_is_out' : ProgramFacts.out_inds n slr = out' out st.
Proof.
  unfold ProgramFacts.out_inds, root_legs, out', sliced_b, lkeys. rewrite map_map. cbn [fst]. rewrite map_id, removed_slr. reflexivity.
Qed.

Lemma NoDup_out' : NoDup (out' out st).
Proof. unfold out'. apply NoDup_filter, WF. Qed.

Lemma map_epairs_combine (names : list ix) : NoDup names -> forall vals e0, length vals = length names ->
  map (epairs (combine names vals) e0) names = vals.
Proof.
  induction names as [|x names IH]; intros Hnd vals e0 Hl; destruct vals as [|v vals]; cbn [length] in Hl; try lia; [reflexivity|].
  inversion Hnd as [|? ? Hn Hnd']; subst. cbn [combine map]. f_equal.
  - unfold epairs. cbn [kget]. rewrite Nat.eqb_refl. reflexivity.
  - transitivity (map (epairs (combine names vals) e0) names); [|apply IH; [exact Hnd'|lia]]. apply map_ext_in. intros j Hj. unfold epairs. cbn [kget].
    destruct (Nat.eqb_spec x j) as [->|_]; [contradiction|reflexivity].
Qed.

Lemma slice_key_NoDup i : NoDup (map fst (slice_key sl i)).
Proof. rewrite slice_key_decode, decode_inds. apply Hinv. Qed.

(* every slice is the einsum of the sliced network at its key (C01's run_root_correct) *)
Lemma slice_is_einsum i idx' : i < total sl -> length idx' = length (out' out st) ->
  tget (nth i all_slices dummy_t) idx' =
  Einsum.einsum_spec n slr arr (apply_key (epairs (combine (out' out st) idx') ebase) (slice_key sl i)).
Proof.
  intros Hi Hl. unfold all_slices.
  rewrite (nth_indep _ dummy_t (slice_t 0)) by (rewrite map_length, seq_length; exact Hi).
  rewrite map_nth, seq_nth by exact Hi. cbn [Nat.add slice_t tget].
  set (e := apply_key (epairs (combine (out' out st) idx') ebase) (slice_key sl i)).
  assert (Hkeys : map fst (slice_key sl i) = map si_ind sl) by (rewrite slice_key_decode; apply decode_inds).
  assert (Hmap : map e (ProgramFacts.out_inds n slr) = idx').
  { rewrite out_inds_is_out'. transitivity (map (epairs (combine (out' out st) idx') ebase) (out' out st)); [|apply (map_epairs_combine (out' out st) NoDup_out' idx' ebase Hl)].
    apply map_ext_in. intros j Hj. unfold e. rewrite apply_key_kget by apply slice_key_NoDup.
    rewrite kget_none; [reflexivity|]. rewrite Hkeys. unfold out' in Hj. apply filter_In in Hj. destruct Hj as [_ Hj].
    apply negb_true_iff, memb_false in Hj. exact Hj. }
  rewrite <- Hmap. apply ProgramFacts.run_root_correct; [exact WF|exact FT|].
  intros j Hj. rewrite removed_slr, <- Hkeys in Hj. unfold e. rewrite !apply_key_kget by apply slice_key_NoDup.
  destruct (kget j (slice_key sl i)) eqn:Ek; [reflexivity|]. exfalso. apply (kget_in_some j _ Hj Ek).
Qed.

Lemma einsum_spec_respects : respects (Einsum.einsum_spec n slr arr).
Proof.
  intros e1 e2 He. unfold Einsum.einsum_spec. apply SumOver.sum_over_env; [apply TreeEval.prodF_respects|exact He].
Qed.

(* contract of a sliced tree, entry by entry: the sum over the inner sliced ranges of the
   einsum of the sliced network *)
Theorem contract_sliced idx : length idx = length out ->
  (forall jp, In jp (output_pos out sl) -> nth (snd jp) idx 0 < length (sliced_range (si_of sl (fst jp)))) ->
  tget (gather_slices sl out all_slices) idx =
  sum_keys (inns sl) (epairs (full_pairs out st idx) ebase) (Einsum.einsum_spec n slr arr).
Proof.
  intros Hidx Hrange.
  apply (gather_correct out st Hinv (proj1 WF) (Einsum.einsum_spec n slr arr) einsum_spec_respects ebase all_slices).
  - unfold all_slices. rewrite map_length, seq_length. reflexivity.
  - exact Hidx.
  - exact Hrange.
  - intros i idx' Hi Hl. apply slice_is_einsum; assumption.
Qed.

(* when the inner sliced indices are genuinely sliced (not projected), occur in the network and
   SliceInfo.size is the index dimension: the gathered tensor IS the einsum of the unsliced
   network (a projected output index taking its chosen value) *)
Hypothesis Hplain : plain (Einsum.dim n) (inns sl).
Hypothesis Hocc : forall s, In s (inns sl) -> In (si_ind s) (Einsum.all_ix n).

Lemma inner_split : Permutation (Einsum.inner n []) (map si_ind (inns sl) ++ Einsum.inner n slr).
Proof.
  destruct Hinv as (Hwf & Hof & Hnd & Hm & Hfl). unfold flags_ok in Hfl. rewrite Forall_forall in Hfl.
  assert (NDall : NoDup (Einsum.all_ix n)) by (unfold Einsum.all_ix; apply NoDup_nodup).
  apply NoDup_Permutation.
  - unfold Einsum.inner. apply NoDup_filter, NDall.
  - apply NoDup_app_intro.
    + apply NoDup_map_filter, Hnd.
    + unfold Einsum.inner. apply NoDup_filter, NDall.
    + intros j Hj Hj'. unfold Einsum.inner in Hj'. apply filter_In in Hj'. destruct Hj' as [_ Hb].
      apply andb_prop in Hb. destruct Hb as [Hb _]. apply negb_true_iff, memb_false in Hb. apply Hb.
      rewrite removed_slr. apply in_map_iff in Hj. destruct Hj as (s & <- & Hs). apply in_map. unfold inns in Hs. apply filter_In in Hs. apply Hs.
  - intros j. unfold Einsum.inner. rewrite in_app_iff, !filter_In, removed_slr. cbn [removed map memb existsb negb andb]. split.
    + intros [Hall Hout]. destruct (memb j (map si_ind sl)) eqn:Em.
      * left. apply memb_In in Em. apply in_map_iff in Em. destruct Em as (s & <- & Hs). apply in_map. unfold inns. apply filter_In.
        split; [exact Hs|]. rewrite (Hfl s Hs). exact Hout.
      * right. split; [exact Hall|]. rewrite Hout. reflexivity.
    + intros [Hj|[Hall Hb]].
      * apply in_map_iff in Hj. destruct Hj as (s & <- & Hs). split; [apply Hocc, Hs|].
        unfold inns in Hs. apply filter_In in Hs. destruct Hs as [Hs Hi]. rewrite (Hfl s Hs) in Hi. exact Hi.
      * split; [exact Hall|]. apply andb_prop in Hb. apply Hb.
Qed.

Theorem contract_sliced_is_einsum idx : length idx = length out ->
  (forall jp, In jp (output_pos out sl) -> nth (snd jp) idx 0 < length (sliced_range (si_of sl (fst jp)))) ->
  tget (gather_slices sl out all_slices) idx =
  Einsum.einsum_spec n [] arr (epairs (full_pairs out st idx) ebase).
Proof.
  intros Hidx Hrange. rewrite (contract_sliced idx Hidx Hrange).
  rewrite (sum_keys_plain (Einsum.dim n) _ Hplain), sum_over_bridge.
  unfold Einsum.einsum_spec. rewrite <- SumOver.sum_over_app.
  symmetry. apply SumOver.sum_over_perm; [apply inner_split| |apply TreeEval.prodF_respects].
  unfold Einsum.inner. apply NoDup_filter. unfold Einsum.all_ix. apply NoDup_nodup.
Qed.
End EE.

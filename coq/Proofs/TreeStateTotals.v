(* TreeStateTotals.v -- total_flops / total_write / max_size when they have to RECOMPUTE preserve the
   cost invariant InvC (same argument as contract_stats, one accumulator each): C04 item (3). *)
From Coq Require Import Lia ZifyBool Permutation.
From Ctg Require Import Base Net BaseFacts NetFacts TreeState TreeStateFacts TreeStateInv.

Section Tot.
Variable n : net.
Notation N := (NN n).
Hypothesis HN : 2 <= N.
Hypothesis Hout : NoDup (output n).

Lemma zsum_perm' l1 l2 : Permutation l1 l2 -> zsum l1 = zsum l2.
Proof. induction 1; rewrite ?zsum_cons; try lia; congruence. Qed.
Lemma sumf_mono K s s' : flops_ s' = flops_ s -> (forall p z, rd i_flops s p = Some z -> rd i_flops s' p = Some z) ->
  sumf K s -> sumf K s'.
Proof.
  intros E M [Ta Tb]. assert (R : forall p, In p K -> rd i_flops s' p = rd i_flops s p).
  { intros p Hp. specialize (Tb p Hp). destruct (rd i_flops s p) as [z|] eqn:Ez; [|congruence]. apply M, Ez. }
  split; [|intros p Hp; rewrite R by exact Hp; apply Tb, Hp].
  rewrite E, Ta. f_equal. apply map_ext_in. intros p Hp. unfold cflops. rewrite R by exact Hp. reflexivity.
Qed.
Lemma sumw_mono K s s' : write_ s' = write_ s -> (forall p z, rd i_size s p = Some z -> rd i_size s' p = Some z) ->
  sumw K s -> sumw K s'.
Proof.
  intros E M [Ta Tb]. assert (R : forall p, In p K -> rd i_size s' p = rd i_size s p).
  { intros p Hp. specialize (Tb p Hp). destruct (rd i_size s p) as [z|] eqn:Ez; [|congruence]. apply M, Ez. }
  split; [|intros p Hp; rewrite R by exact Hp; apply Tb, Hp].
  rewrite E, Ta. f_equal. apply map_ext_in. intros p Hp. unfold csize. rewrite R by exact Hp. reflexivity.
Qed.
Lemma sums_mono K s s' : sizes_ s' = sizes_ s -> sizes_max s' = sizes_max s ->
  (forall p z, rd i_size s p = Some z -> rd i_size s' p = Some z) -> sums K s -> sums K s'.
Proof.
  intros E1 E2 M (Ta & Tb & Tc). assert (R : forall p, In p K -> rd i_size s' p = rd i_size s p).
  { intros p Hp. specialize (Tc p Hp). destruct (rd i_size s p) as [z|] eqn:Ez; [|congruence]. apply M, Ez. }
  unfold sums, sizes_mc. rewrite E1, E2. split; [exact Ta|]. split; [|intros p Hp; rewrite R by exact Hp; apply Tc, Hp].
  intros z. rewrite Tb. f_equal. apply map_ext_in. intros p Hp. unfold csize. rewrite R by exact Hp. reflexivity.
Qed.

(* what one accumulator loop leaves alone *)
Definition keepW (s s' : tstate) : Prop := write_ s' = write_ s.
Definition keepF (s s' : tstate) : Prop := flops_ s' = flops_ s.
Definition keepS (s s' : tstate) : Prop := sizes_ s' = sizes_ s /\ sizes_max s' = sizes_max s.

Definition tf_body (s : tstate) (plr : node * (node * node)) : tstate :=
  let '(s1, fl) := g_flops n s (fst plr) in set_flops (flops_ s1 + fl)%Z s1.
Definition tw_body (s : tstate) (plr : node * (node * node)) : tstate :=
  let '(s1, sz) := g_size n s (fst plr) in set_write (write_ s1 + sz)%Z s1.
Definition ms_body (s : tstate) (plr : node * (node * node)) : tstate :=
  let '(s1, sz) := g_size n s (fst plr) in set_sizes (mc_add sz (sizes_mc s1)) s1.

Lemma ExtI_set s s' : same_struct s s' -> trk_flops s' = trk_flops s -> trk_write s' = trk_write s -> trk_size s' = trk_size s ->
  ExtI s s'.
Proof. intros (E1&E2&E3&E4) F1 F2 F3. unfold ExtI, nkeys, rd. rewrite E2. repeat split; auto. Qed.

Definition stepok (s : tstate) (p : node) : Prop := In p (nkeys (children s)) /\ nget p (info s) <> None.
Lemma stepok_ExtI s s' p : ExtI s s' -> stepok s p -> stepok s' p.
Proof.
  intros (Ech&_&_&_&_&_&Ek&_) [H1 H2]. split; [rewrite Ech; exact H1|].
  apply nget_in_keys. unfold nkeys in *. rewrite Ek. apply nget_in_keys, H2.
Qed.
(* generic accumulator loop *)
Lemma acc_fold (body : tstate -> node * (node * node) -> tstate) (P : list node -> tstate -> Prop) (Keep : tstate -> tstate -> Prop) :
  (forall s, Keep s s) -> (forall s1 s2 s3, Keep s1 s2 -> Keep s2 s3 -> Keep s1 s3) ->
  (forall K plr s, InvS n s -> stepok s (fst plr) -> P K s ->
     InvS n (body s plr) /\ ExtI s (body s plr) /\ P (K ++ [fst plr]) (body s plr) /\ Keep s (body s plr)) ->
  forall nodes K s, InvS n s -> (forall plr, In plr nodes -> stepok s (fst plr)) -> P K s ->
  InvS n (fold_left body nodes s) /\ ExtI s (fold_left body nodes s) /\ P (K ++ map fst nodes) (fold_left body nodes s) /\
  Keep s (fold_left body nodes s).
Proof.
  intros Kr Kt Hstep. induction nodes as [|plr nodes IH]; intros K s HS Hn HR; cbn [fold_left map].
  { rewrite app_nil_r. split; [exact HS|]. split; [unfold ExtI; repeat split; auto|]. split; [exact HR|apply Kr]. }
  destruct (Hstep K plr s HS (Hn plr (or_introl eq_refl)) HR) as (A & B & C & D).
  destruct (IH (K ++ [fst plr]) (body s plr) A) as (A' & B' & C' & D'); [|exact C|].
  { intros q Hq. apply (stepok_ExtI s _ _ B), Hn. right. exact Hq. }
  split; [exact A'|]. split; [eapply ExtI_trans; eassumption|]. split; [rewrite <- app_assoc in C'; exact C'|eapply Kt; eassumption].
Qed.

Definition keepWS s s' := keepW s s' /\ keepS s s'.
Definition keepFS s s' := keepF s s' /\ keepS s s'.
Definition keepFW s s' := keepF s s' /\ keepW s s'.

Lemma tf_step K plr s : InvS n s -> stepok s (fst plr) -> sumf K s ->
  InvS n (tf_body s plr) /\ ExtI s (tf_body s plr) /\ sumf (K ++ [fst plr]) (tf_body s plr) /\ keepWS s (tf_body s plr).
Proof.
  intros HS [Hin Hk] HR. set (p := fst plr) in *.
  pose proof (child_key_good n s p HS Hin) as HG.
  assert (Hch : nget p (children s) <> None) by (apply nget_in_keys, Hin).
  destruct (g_flops_inv n HN Hout s p HS HG) as (A1 & B1 & C1); [right; left; exact Hch|]. specialize (C1 Hk).
  unfold tf_body. fold p. destruct (g_flops n s p) as [s1 fl]. cbn [fst snd] in *.
  set (s2 := set_flops (flops_ s1 + fl)%Z s1).
  assert (B1' := B1). destruct B1' as (F1&F2&F3&F4&F5&F6&F7&F8&F9&F10&F11&F12&F13&F14).
  split; [apply (InvS_struct n s1); [unfold same_struct; repeat split; reflexivity|exact A1]|].
  split; [apply (ExtI_trans _ s1); [apply Ext_ExtI, B1|apply ExtI_set; [unfold same_struct; repeat split; reflexivity|reflexivity..]]|].
  split; [|unfold keepWS, keepW, keepS; cbn [set_flops write_ sizes_ sizes_max]; auto].
  destruct (sumf_mono K s s1 F7 F14 HR) as [Ta Tb]. split.
  - change (flops_ s2) with (flops_ s1 + fl)%Z. change (cflops s2) with (cflops s1).
    rewrite map_app, zsum_app. cbn [map]. rewrite zsum_cons. change (zsum []) with 0%Z.
    unfold cflops at 2. rewrite C1, Ta. lia.
  - intros q Hq. change (rd i_flops s2 q) with (rd i_flops s1 q). apply in_app_iff in Hq.
    destruct Hq as [Hq|[<-|[]]]; [apply Tb, Hq|rewrite C1; discriminate].
Qed.
Lemma gsize_at s p : InvS n s -> stepok s p ->
  InvS n (fst (g_size n s p)) /\ Ext s (fst (g_size n s p)) /\ rd i_size (fst (g_size n s p)) p = Some (snd (g_size n s p)).
Proof.
  intros HS [Hin Hk]. pose proof (child_key_good n s p HS Hin) as HG.
  destruct (g_size_inv n HN Hout s p HS HG) as [(A & B & _ & C)|C]; [auto|congruence].
Qed.
Lemma tw_step K plr s : InvS n s -> stepok s (fst plr) -> sumw K s ->
  InvS n (tw_body s plr) /\ ExtI s (tw_body s plr) /\ sumw (K ++ [fst plr]) (tw_body s plr) /\ keepFS s (tw_body s plr).
Proof.
  intros HS Hok HR. set (p := fst plr) in *. destruct (gsize_at s p HS Hok) as (A1 & B1 & C1).
  unfold tw_body. fold p. destruct (g_size n s p) as [s1 sz]. cbn [fst snd] in *.
  set (s2 := set_write (write_ s1 + sz)%Z s1).
  assert (B1' := B1). destruct B1' as (F1&F2&F3&F4&F5&F6&F7&F8&F9&F10&F11&F12&F13&F14).
  split; [apply (InvS_struct n s1); [unfold same_struct; repeat split; reflexivity|exact A1]|].
  split; [apply (ExtI_trans _ s1); [apply Ext_ExtI, B1|apply ExtI_set; [unfold same_struct; repeat split; reflexivity|reflexivity..]]|].
  split; [|unfold keepFS, keepF, keepS; cbn [set_write flops_ sizes_ sizes_max]; auto].
  destruct (sumw_mono K s s1 F8 F13 HR) as [Ta Tb]. split.
  - change (write_ s2) with (write_ s1 + sz)%Z. change (csize s2) with (csize s1).
    rewrite map_app, zsum_app. cbn [map]. rewrite zsum_cons. change (zsum []) with 0%Z.
    unfold csize at 2. rewrite C1, Ta. lia.
  - intros q Hq. change (rd i_size s2 q) with (rd i_size s1 q). apply in_app_iff in Hq.
    destruct Hq as [Hq|[<-|[]]]; [apply Tb, Hq|rewrite C1; discriminate].
Qed.
Lemma ms_step K plr s : InvS n s -> stepok s (fst plr) -> sums K s ->
  InvS n (ms_body s plr) /\ ExtI s (ms_body s plr) /\ sums (K ++ [fst plr]) (ms_body s plr) /\ keepFW s (ms_body s plr).
Proof.
  intros HS Hok HR. set (p := fst plr) in *. destruct (gsize_at s p HS Hok) as (A1 & B1 & C1).
  unfold ms_body. fold p. destruct (g_size n s p) as [s1 sz]. cbn [fst snd] in *.
  set (s2 := set_sizes (mc_add sz (sizes_mc s1)) s1).
  assert (B1' := B1). destruct B1' as (F1&F2&F3&F4&F5&F6&F7&F8&F9&F10&F11&F12&F13&F14).
  split; [apply (InvS_struct n s1); [unfold same_struct; repeat split; reflexivity|exact A1]|].
  split; [apply (ExtI_trans _ s1); [apply Ext_ExtI, B1|apply ExtI_set; [unfold same_struct; repeat split; reflexivity|reflexivity..]]|].
  split; [|unfold keepFW, keepF, keepW; cbn [set_sizes flops_ write_]; auto].
  destruct (sums_mono K s s1 F9 F10 F13 HR) as (Ta & Tb & Tc). unfold sums.
  change (sizes_mc s2) with (mc_add sz (sizes_mc s1)). change (sizes_ s2) with (fst (mc_add sz (sizes_mc s1))).
  change (csize s2) with (csize s1). change (rd i_size s2) with (rd i_size s1).
  split; [apply mc_add_ok, Ta|]. split.
  - intros z. rewrite mc_add_count. cbn [fst sizes_mc]. rewrite Tb, map_app. cbn [map]. rewrite count_occ_snoc.
    replace (csize s1 p) with sz by (unfold csize; rewrite C1; reflexivity). reflexivity.
  - intros q Hq. apply in_app_iff in Hq. destruct Hq as [Hq|[<-|[]]]; [apply Tc, Hq|rewrite C1; discriminate].
Qed.

(* the traversal enumerates the keys of children, all of which have info entries (= stats_pre true) *)
Definition tot_pre (s : tstate) : Prop :=
  exists nodes, traverse n s = Some nodes /\ Permutation (map fst nodes) (nkeys (children s)) /\
                forall p, In p (nkeys (children s)) -> nget p (info s) <> None.

Lemma keep_refl_WS s : keepWS s s. Proof. unfold keepWS, keepW, keepS. auto. Qed.
Lemma keep_trans_WS s1 s2 s3 : keepWS s1 s2 -> keepWS s2 s3 -> keepWS s1 s3.
Proof. unfold keepWS, keepW, keepS. intros (A&B&C) (D&E&F). repeat split; congruence. Qed.
Lemma keep_refl_FS s : keepFS s s. Proof. unfold keepFS, keepF, keepS. auto. Qed.
Lemma keep_trans_FS s1 s2 s3 : keepFS s1 s2 -> keepFS s2 s3 -> keepFS s1 s3.
Proof. unfold keepFS, keepF, keepS. intros (A&B&C) (D&E&F). repeat split; congruence. Qed.
Lemma keep_refl_FW s : keepFW s s. Proof. unfold keepFW, keepF, keepW. auto. Qed.
Lemma keep_trans_FW s1 s2 s3 : keepFW s1 s2 -> keepFW s2 s3 -> keepFW s1 s3.
Proof. unfold keepFW, keepF, keepW. intros (A&B) (D&E). split; congruence. Qed.

Theorem total_flops_inv s : InvC n s -> (trk_flops s = true \/ tot_pre s) -> InvC n (total_flops_op n s).
Proof.
  intros [HS HT] Hpre. unfold total_flops_op. destruct (trk_flops s) eqn:Et; [split; assumption|].
  destruct Hpre as [H|(nodes & Htr & HP & Hinfo)]; [discriminate|].
  set (s0 := set_flops 0%Z s). change (traverse n s0) with (traverse n s). rewrite Htr.
  assert (HS0 : InvS n s0) by (apply (InvS_struct n s); [unfold same_struct; repeat split; reflexivity|exact HS]).
  assert (HR0 : sumf [] s0) by (split; [reflexivity|intros q []]).
  change (fold_left _ nodes s0) with (fold_left tf_body nodes s0).
  destruct (acc_fold tf_body sumf keepWS keep_refl_WS keep_trans_WS tf_step nodes [] s0 HS0) as (A & B & C & (D & E1 & E2)); [|exact HR0|].
  { intros plr Hp. assert (Hk : In (fst plr) (nkeys (children s))) by (apply (Permutation_in _ HP), in_map, Hp).
    split; [exact Hk|apply Hinfo, Hk]. }
  cbn [app] in C. set (sB := fold_left tf_body nodes s0) in *.
  destruct B as (Ech&Esl&Em&B4&B5&B6&Ek&Msz&Mfl). unfold keepW, keepS in *.
  split; [apply (InvS_struct n sB); [unfold same_struct; repeat split; reflexivity|exact A]|].
  apply totals_split in HT. destruct HT as (T1 & T2 & T3). apply totals_split.
  change (children (set_trk true (trk_write sB) (trk_size sB) sB)) with (children sB). rewrite Ech.
  change (children s0) with (children s).
  destruct C as [Fa Fb]. split; [|split].
  - intros _. split; [|intros q Hq; apply Fb, (Permutation_in _ (Permutation_sym HP)), Hq].
    change (flops_ sB = zsum (map (cflops sB) (nkeys (children s)))). rewrite Fa. apply zsum_perm', Permutation_map, HP.
  - apply (tot_write_mono (nkeys (children s)) s); [exact B5|exact D|exact Msz|exact T2].
  - apply (tot_size_mono (nkeys (children s)) s); [exact B6|exact E1|exact E2|exact Msz|exact T3].
Qed.
Theorem total_write_inv s : InvC n s -> (trk_write s = true \/ tot_pre s) -> InvC n (total_write_op n s).
Proof.
  intros [HS HT] Hpre. unfold total_write_op. destruct (trk_write s) eqn:Et; [split; assumption|].
  destruct Hpre as [H|(nodes & Htr & HP & Hinfo)]; [discriminate|].
  set (s0 := set_write 0%Z s). change (traverse n s0) with (traverse n s). rewrite Htr.
  assert (HS0 : InvS n s0) by (apply (InvS_struct n s); [unfold same_struct; repeat split; reflexivity|exact HS]).
  assert (HR0 : sumw [] s0) by (split; [reflexivity|intros q []]).
  change (fold_left _ nodes s0) with (fold_left tw_body nodes s0).
  destruct (acc_fold tw_body sumw keepFS keep_refl_FS keep_trans_FS tw_step nodes [] s0 HS0) as (A & B & C & (D & E1 & E2)); [|exact HR0|].
  { intros plr Hp. assert (Hk : In (fst plr) (nkeys (children s))) by (apply (Permutation_in _ HP), in_map, Hp).
    split; [exact Hk|apply Hinfo, Hk]. }
  cbn [app] in C. set (sB := fold_left tw_body nodes s0) in *.
  destruct B as (Ech&Esl&Em&B4&B5&B6&Ek&Msz&Mfl). unfold keepF, keepS in *.
  split; [apply (InvS_struct n sB); [unfold same_struct; repeat split; reflexivity|exact A]|].
  apply totals_split in HT. destruct HT as (T1 & T2 & T3). apply totals_split.
  change (children (set_trk (trk_flops sB) true (trk_size sB) sB)) with (children sB). rewrite Ech.
  change (children s0) with (children s).
  destruct C as [Fa Fb]. split; [|split].
  - apply (tot_flops_mono (nkeys (children s)) s); [exact B4|exact D|exact Mfl|exact T1].
  - intros _. split; [|intros q Hq; apply Fb, (Permutation_in _ (Permutation_sym HP)), Hq].
    change (write_ sB = zsum (map (csize sB) (nkeys (children s)))). rewrite Fa. apply zsum_perm', Permutation_map, HP.
  - apply (tot_size_mono (nkeys (children s)) s); [exact B6|exact E1|exact E2|exact Msz|exact T3].
Qed.
Theorem max_size_inv s : InvC n s -> (trk_size s = true \/ tot_pre s) -> InvC n (max_size_op n s).
Proof.
  intros [HS HT] Hpre. unfold max_size_op. destruct (Nat.eqb_spec N 1) as [E|_]; [lia|].
  destruct (trk_size s) eqn:Et; [split; assumption|].
  destruct Hpre as [H|(nodes & Htr & HP & Hinfo)]; [discriminate|].
  set (s0 := set_sizes mc_empty s). change (traverse n s0) with (traverse n s). rewrite Htr.
  assert (HS0 : InvS n s0) by (apply (InvS_struct n s); [unfold same_struct; repeat split; reflexivity|exact HS]).
  assert (HR0 : sums [] s0) by (split; [exact mc_ok_empty|split; [intros z; reflexivity|intros q []]]).
  change (fold_left _ nodes s0) with (fold_left ms_body nodes s0).
  destruct (acc_fold ms_body sums keepFW keep_refl_FW keep_trans_FW ms_step nodes [] s0 HS0) as (A & B & C & (D & E1)); [|exact HR0|].
  { intros plr Hp. assert (Hk : In (fst plr) (nkeys (children s))) by (apply (Permutation_in _ HP), in_map, Hp).
    split; [exact Hk|apply Hinfo, Hk]. }
  cbn [app] in C. set (sB := fold_left ms_body nodes s0) in *.
  destruct B as (Ech&Esl&Em&B4&B5&B6&Ek&Msz&Mfl). unfold keepF, keepW in *.
  split; [apply (InvS_struct n sB); [unfold same_struct; repeat split; reflexivity|exact A]|].
  apply totals_split in HT. destruct HT as (T1 & T2 & T3). apply totals_split.
  change (children (set_trk (trk_flops sB) (trk_write sB) true sB)) with (children sB). rewrite Ech.
  change (children s0) with (children s).
  destruct C as (Sa & Sb & Sc). split; [|split].
  - apply (tot_flops_mono (nkeys (children s)) s); [exact B4|exact D|exact Mfl|exact T1].
  - apply (tot_write_mono (nkeys (children s)) s); [exact B5|exact E1|exact Msz|exact T2].
  - intros _. split; [exact Sa|]. split; [|intros q Hq; apply Sc, (Permutation_in _ (Permutation_sym HP)), Hq].
    intros z. change (cget0 z (sizes_ sB) = count_occ Z.eq_dec (map (csize sB) (nkeys (children s))) z).
    rewrite Sb. apply Permutation_count_occ, Permutation_map, HP.
Qed.
End Tot.

(* HGraphTreeFacts.v -- hypergraph_rule_eq_tree_rule: replaying any valid SSA path through
   HyperGraph.contract (Model/HGraph.v) gives, at every step, a node whose index set is exactly
   the tree's legs (Model/Net.v: count < appearances) and whose size is the tree's size, for
   networks without a repeated index inside a tensor.  The invariant ties the hypergraph to a
   forest: every live node stands for a subtree, its indices are that subtree's legs (the raw
   term for a leaf), and the subtrees' leaves partition the inputs.
   (owner: builder c18c20) *)
From Coq Require Import Lia Permutation.
From Ctg Require Import Base Net HGraph Simulators Compressed BaseFacts NetFacts HGraphFacts CompressedFacts.

Section Forest.
Variable n : net.
Hypothesis norep : forall t, In t (inputs n) -> NoDup t.

Notation cnt := (cnt n []).
Notation appear := (appear n).
Notation NN := (NN n).

Definition idx (t : tree) : list ix :=
  match t with Leaf m => nth m (inputs n) [] | Node _ _ => lkeys (sub_legs n [] t) end.

Lemma term_sl_nil m : term_sl n [] m = nth m (inputs n) [].
Proof.
  unfold term_sl, removed. cbn. induction (nth m (inputs n) []) as [|x l IH]; cbn; [reflexivity|]. f_equal. exact IH.
Qed.

Lemma nth_nodup m : NoDup (nth m (inputs n) []).
Proof.
  destruct (Nat.lt_ge_cases m (length (inputs n))) as [H|H].
  - apply norep, nth_In, H.
  - rewrite nth_overflow by exact H. constructor.
Qed.

Lemma cnt_perm S1 S2 j : Permutation S1 S2 -> cnt S1 j = cnt S2 j.
Proof. induction 1; cbn; lia. Qed.

Lemma cnt_single m e : cnt [m] e = occ (nth m (inputs n) []) e.
Proof. cbn. rewrite term_sl_nil. lia. Qed.

Lemma cnt_le_inputs S e : inrange n S -> cnt S e <= occ (concat (inputs n)) e.
Proof.
  intros [ND HR]. rewrite <- (cnt_raw_all n).
  pose proof (cnt_le_raw n [] S e).
  assert (cnt_raw n S e <= cnt_raw n (seq 0 NN) e); [|lia].
  apply cnt_raw_incl_le; [exact ND|]. intros k Hk. apply in_seq. specialize (HR k Hk). lia.
Qed.

Lemma cnt_all e : cnt (seq 0 NN) e = occ (concat (inputs n)) e.
Proof.
  rewrite <- (cnt_raw_all n). generalize (seq 0 NN) as S. induction S as [|k S IH]; cbn; [reflexivity|].
  rewrite IH, term_sl_nil. reflexivity.
Qed.

(* what the indices of a live node say about counts *)
Lemma idx_spec t e : inrange n (leaves t) ->
  (In e (idx t) <-> 0 < cnt (leaves t) e /\ (match t with Leaf _ => True | Node _ _ => cnt (leaves t) e < appear e end)).
Proof.
  intros HR. destruct t as [m|l r].
  - cbn [idx leaves]. rewrite cnt_single. rewrite (occ_pos (nth m (inputs n) []) e). tauto.
  - unfold idx. rewrite (sub_legs_keys n [] (Node l r) e HR). tauto.
Qed.

(* forests *)
Definition fkeys (F : list (nat * tree)) : list nat := map fst F.

Lemma find_tree_in i F t : find_tree i F = Some t -> In (i, t) F.
Proof.
  induction F as [|[k t'] F IH]; cbn; [discriminate|].
  destruct (Nat.eqb_spec k i) as [->|]; [intros [= ->]; left; reflexivity|intros H; right; apply IH, H].
Qed.
Lemma in_find_tree i F t : NoDup (fkeys F) -> In (i, t) F -> find_tree i F = Some t.
Proof.
  unfold fkeys. induction F as [|[k t'] F IH]; cbn; intros ND; [tauto|].
  inversion ND as [|? ? Hn ND']; subst. intros [E|H].
  - inversion E; subst. rewrite Nat.eqb_refl. reflexivity.
  - destruct (Nat.eqb_spec k i) as [->|]; [|apply IH; assumption].
    exfalso. apply Hn. apply (in_map fst) in H. exact H.
Qed.
Lemma in_del_tree i F k t : NoDup (fkeys F) -> (In (k, t) (del_tree i F) <-> In (k, t) F /\ k <> i).
Proof.
  unfold fkeys. induction F as [|[k' t'] F IH]; cbn; intros ND; [tauto|].
  inversion ND as [|? ? Hn ND']; subst.
  destruct (Nat.eqb_spec k' i) as [->|Hne].
  - split.
    + intros H. split; [right; exact H|]. intros ->. apply Hn. apply (in_map fst) in H. exact H.
    + intros [[E|H] Hk]; [inversion E; congruence|exact H].
  - cbn. rewrite (IH ND'). split.
    + intros [E|[H Hk]]; [inversion E; subst; split; [left; reflexivity|exact Hne]|split; [right; exact H|exact Hk]].
    + intros [[E|H] Hk]; [left; exact E|right; split; assumption].
Qed.
Lemma fkeys_del_tree i F k : NoDup (fkeys F) -> (In k (fkeys (del_tree i F)) <-> In k (fkeys F) /\ k <> i).
Proof.
  intros ND. unfold fkeys. rewrite !in_map_iff. split.
  - intros ([k' t] & <- & H). apply (in_del_tree i F k' t ND) in H. split; [exists (k', t); tauto|tauto].
  - intros (([k' t] & <- & H) & Hk). exists (k', t). split; [reflexivity|]. apply (in_del_tree i F k' t ND). tauto.
Qed.
Lemma nodup_del_tree i F : NoDup (fkeys F) -> NoDup (fkeys (del_tree i F)).
Proof.
  unfold fkeys. induction F as [|[k' t'] F IH]; cbn; intros ND; [constructor|].
  inversion ND as [|? ? Hn ND']; subst. destruct (k' =? i); [exact ND'|].
  cbn. constructor; [|apply IH, ND']. intros H. apply Hn.
  apply (fkeys_del_tree i F k' ND') in H. apply H.
Qed.

Lemma cnt_forest_pos F e : 0 < cnt (forest_leaves F) e -> exists k t, In (k, t) F /\ 0 < cnt (leaves t) e.
Proof.
  induction F as [|[k t] F IH]; cbn; [lia|].
  fold (forest_leaves F). rewrite (cnt_app n []). intros H.
  destruct (Nat.eq_dec (cnt (leaves t) e) 0) as [E|E].
  - destruct IH as (k' & t' & Hin & Hp); [lia|]. exists k', t'. split; [right; exact Hin|exact Hp].
  - exists k, t. split; [left; reflexivity|lia].
Qed.

Record Rep (g : hg) (F : list (nat * tree)) : Prop := {
  rep_wf : wf_hg g;
  rep_out : hout g = output n;
  rep_sz : hsz g = szd n;
  rep_keys : forall k, amem k (hnodes g) = true <-> In k (fkeys F);
  rep_nodup : NoDup (fkeys F);
  rep_idx : forall k t, In (k, t) F -> forall e, In e (get_node g k) <-> In e (idx t);
  rep_part : Permutation (forest_leaves F) (seq 0 NN)
}.

Lemma perm_inrange S : Permutation S (seq 0 NN) -> inrange n S.
Proof.
  intros P. split.
  - apply (Permutation_NoDup (Permutation_sym P)), seq_NoDup.
  - intros k Hk. apply (Permutation_in _ P) in Hk. apply in_seq in Hk. lia.
Qed.
Lemma inrange_perm S1 S2 : Permutation S1 S2 -> inrange n S1 -> inrange n S2.
Proof.
  intros P [ND HR]. split; [apply (Permutation_NoDup P ND)|].
  intros k Hk. apply HR. apply (Permutation_in _ (Permutation_sym P) Hk).
Qed.

(* one contraction step keeps the representation and produces the tree's legs *)
Theorem contract_rep g F i j ti tj : Rep g F -> i <> j -> In (i, ti) F -> In (j, tj) F ->
  let g' := fst (hg_contract i j g) in
  let k := snd (hg_contract i j g) in
  k = hnext g /\
  Rep g' ((k, Node ti tj) :: del_tree j (del_tree i F)) /\
  NoDup (get_node g' k) /\
  (forall e, In e (get_node g' k) <-> In e (lkeys (sub_legs n [] (Node ti tj)))) /\
  inrange n (leaves ti ++ leaves tj).
Proof.
  intros R Hij Hi Hj.
  destruct (contract_spec i j g (rep_wf g F R) Hij) as (K & X & W' & S' & O' & N' & M' & ND' & I' & E').
  cbn zeta in *. set (g' := fst (hg_contract i j g)) in *. set (k := snd (hg_contract i j g)) in *.
  pose proof (rep_nodup g F R) as NDF.
  pose proof (find_del_perm i F ti (in_find_tree i F ti NDF Hi)) as P1.
  assert (Hj' : In (j, tj) (del_tree i F)) by (apply (in_del_tree i F j tj NDF); split; [exact Hj|congruence]).
  pose proof (nodup_del_tree i F NDF) as NDF1.
  pose proof (find_del_perm j (del_tree i F) tj (in_find_tree j _ tj NDF1 Hj')) as P2.
  set (rest := del_tree j (del_tree i F)) in *.
  assert (Pall : Permutation (seq 0 NN) ((leaves ti ++ leaves tj) ++ forest_leaves rest)).
  { rewrite <- (rep_part g F R), P1, P2, app_assoc. reflexivity. }
  assert (IRall : inrange n ((leaves ti ++ leaves tj) ++ forest_leaves rest)).
  { apply (inrange_perm _ _ Pall). apply perm_inrange. reflexivity. }
  assert (IRS : inrange n (leaves ti ++ leaves tj)) by apply (inrange_app_l n _ _ IRall).
  assert (IRi : inrange n (leaves ti)) by apply (inrange_app_l n _ _ IRS).
  assert (IRj : inrange n (leaves tj)) by apply (inrange_app_r n _ _ IRS).
  assert (Hrest : forall k' t', In (k', t') rest <-> In (k', t') F /\ k' <> i /\ k' <> j).
  { intros k' t'. unfold rest. rewrite (in_del_tree j _ k' t' NDF1), (in_del_tree i F k' t' NDF). tauto. }
  (* leaves of any other tree are disjoint from S and in range together with it *)
  assert (IRother : forall k' t', In (k', t') rest -> inrange n ((leaves ti ++ leaves tj) ++ leaves t')).
  { intros k' t' Hin.
    destruct (in_split _ _ Hin) as (F1 & F2 & EF).
    assert (Pr : Permutation (forest_leaves rest) (leaves t' ++ forest_leaves (F1 ++ F2))).
    { rewrite EF. unfold forest_leaves. rewrite !flat_map_app. cbn [flat_map snd].
      rewrite app_assoc, (Permutation_app_comm (flat_map _ F1) (leaves t')), <- app_assoc. reflexivity. }
    assert (IR2 : inrange n (((leaves ti ++ leaves tj) ++ leaves t') ++ forest_leaves (F1 ++ F2))).
    { apply (inrange_perm ((leaves ti ++ leaves tj) ++ forest_leaves rest)); [|exact IRall].
      rewrite Pr, app_assoc. reflexivity. }
    apply (inrange_app_l n _ _ IR2). }
  assert (IRt : forall k' t', In (k', t') rest -> inrange n (leaves t')).
  { intros k' t' Hin. apply (inrange_app_r n _ _ (IRother k' t' Hin)). }
  (* the semantic core *)
  assert (Sem : forall e, In e (get_node g' k) <-> 0 < cnt (leaves ti ++ leaves tj) e < appear e).
  { intros e. rewrite I', (rep_idx g F R i ti Hi e), (rep_idx g F R j tj Hj e), (rep_out g F R).
    rewrite (idx_spec ti e IRi), (idx_spec tj e IRj), (cnt_app n []).
    split.
    - intros [Hin Hsurv].
      assert (Hpos : 0 < cnt (leaves ti) e + cnt (leaves tj) e) by (destruct Hin as [[H _]|[H _]]; lia).
      split; [exact Hpos|].
      destruct Hsurv as [(k' & Hki & Hkj & Hk')|Hout].
      + apply (wf_inc g (rep_wf g F R)) in Hk'.
        assert (Hlive : In k' (fkeys F)) by (apply (rep_keys g F R), (getL_in_mem _ _ _ Hk')).
        unfold fkeys in Hlive. apply in_map_iff in Hlive. destruct Hlive as ([k'' t'] & Ek & Hin'). cbn in Ek. subst k''.
        assert (Hr : In (k', t') rest) by (apply Hrest; tauto).
        apply (rep_idx g F R k' t' Hin' e) in Hk'. apply (idx_spec t' e (IRt k' t' Hr)) in Hk'.
        pose proof (cnt_le_appear n [] _ e (IRother k' t' Hr)) as Hle. rewrite !(cnt_app n []) in Hle. lia.
      + pose proof (cnt_le_inputs _ e IRS) as Hle. rewrite (cnt_app n []) in Hle.
        rewrite (appear_occ n). apply occ_pos in Hout. lia.
    - intros [Hpos Hlt]. split.
      + destruct (Nat.eq_dec (cnt (leaves ti) e) 0) as [E0|E0]; [right|left]; (split; [lia|]).
        * destruct tj; [exact I|lia].
        * destruct ti; [exact I|lia].
      + destruct (in_dec Nat.eq_dec e (output n)) as [Ho|Ho]; [right; exact Ho|left].
        assert (Eo : occ (output n) e = 0).
        { destruct (Nat.eq_dec (occ (output n) e) 0) as [E|E]; [exact E|]. exfalso. apply Ho, occ_pos. lia. }
        rewrite (appear_occ n), Eo, Nat.add_0_r, <- cnt_all in Hlt.
        rewrite (cnt_perm _ _ e Pall), !(cnt_app n []) in Hlt.
        destruct (cnt_forest_pos rest e) as (k' & t' & Hr & Hp); [lia|].
        exists k'. destruct (proj1 (Hrest k' t') Hr) as (HinF & Hki & Hkj). split; [exact Hki|split; [exact Hkj|]].
        apply (wf_inc g (rep_wf g F R)), (rep_idx g F R k' t' HinF e), (idx_spec t' e (IRt k' t' Hr)).
        split; [exact Hp|]. destruct t'; [exact I|].
        pose proof (cnt_le_appear n [] _ e (IRother k' _ Hr)) as Hle. rewrite !(cnt_app n []) in Hle. lia. }
  assert (Hfresh : ~ In k (fkeys F)).
  { intros H. apply (rep_keys g F R) in H. apply (wf_next g (rep_wf g F R)) in H. lia. }
  assert (Hfr : forall k', In k' (fkeys rest) <-> In k' (fkeys F) /\ k' <> i /\ k' <> j).
  { intros k'. unfold rest. rewrite (fkeys_del_tree j _ k' NDF1), (fkeys_del_tree i F k' NDF). tauto. }
  split; [exact K|]. split; [|split; [exact ND'|split; [|exact IRS]]].
  - constructor.
    + exact W'.
    + rewrite O'. apply (rep_out g F R).
    + rewrite S'. apply (rep_sz g F R).
    + intros k'. change (fkeys ((k, Node ti tj) :: rest)) with (k :: fkeys rest). cbn [In].
      rewrite Hfr, M', <- (rep_keys g F R k').
      rewrite orb_true_iff, !andb_true_iff, !negb_true_iff, Nat.eqb_eq, !Nat.eqb_neq.
      split; (intros [H|H]; [left; congruence|right; tauto]).
    + change (fkeys ((k, Node ti tj) :: rest)) with (k :: fkeys rest).
      constructor; [rewrite Hfr; tauto|]. unfold rest. apply nodup_del_tree, NDF1.
    + intros k' t' [E|Hr] e.
      * inversion E; subst k' t'. rewrite Sem. unfold idx.
        rewrite (sub_legs_keys n [] (Node ti tj) e IRS). reflexivity.
      * destruct (proj1 (Hrest k' t') Hr) as (HinF & Hki & Hkj).
        rewrite N'. destruct (Nat.eqb_spec k' k) as [->|Hk].
        -- exfalso. apply Hfresh. unfold fkeys. apply in_map_iff. exists (k, t'). split; [reflexivity|exact HinF].
        -- destruct (Nat.eqb_spec k' i); [contradiction|]. destruct (Nat.eqb_spec k' j); [contradiction|].
           cbn [orb]. apply (rep_idx g F R k' t' HinF e).
    + cbn [forest_leaves flat_map snd leaves]. fold (forest_leaves rest). symmetry. exact Pall.
  - intros e. rewrite Sem. rewrite (sub_legs_keys n [] (Node ti tj) e IRS). reflexivity.
Qed.

(* sizes and (without dangling indices) pair costs *)
Lemma contract_rep_size g F i j ti tj : Rep g F -> i <> j -> In (i, ti) F -> In (j, tj) F ->
  let g' := fst (hg_contract i j g) in
  let k := snd (hg_contract i j g) in
  hg_node_size g' k = node_size n [] false (Node ti tj).
Proof.
  intros R Hij Hi Hj. cbn zeta.
  destruct (contract_rep g F i j ti tj R Hij Hi Hj) as (_ & R' & ND & Hset & IRS). cbn zeta in *.
  unfold hg_node_size, edges_size, node_size. cbn [node_legs]. rewrite (rep_sz _ _ R').
  apply size_of_same_set; [exact ND|apply (sub_legs_spec n [] (Node ti tj) IRS)|exact Hset].
Qed.

(* a leaf without dangling index: every index of the term also lives elsewhere *)
Definition nodangling : Prop := forall m e, In e (nth m (inputs n) []) -> 2 <= appear e.

Lemma idx_eq_legs t e : nodangling -> inrange n (leaves t) -> (In e (idx t) <-> In e (lkeys (sub_legs n [] t))).
Proof.
  intros Hd HR. rewrite (idx_spec t e HR), (sub_legs_keys n [] t e HR). destruct t as [m|l r]; [|tauto].
  cbn [leaves]. rewrite cnt_single. split; [|tauto]. intros [Hp _]. split; [exact Hp|].
  assert (Hin : In e (nth m (inputs n) [])) by (apply occ_pos; exact Hp).
  specialize (Hd m e Hin).
  assert (occ (nth m (inputs n) []) e <= 1); [|lia].
  unfold occ. apply NoDup_count_occ. apply nth_nodup.
Qed.

Lemma contract_rep_cost g F i j ti tj : nodangling -> Rep g F -> i <> j -> In (i, ti) F -> In (j, tj) F ->
  contract_pair_cost g i j = node_flops n [] (Node ti tj).
Proof.
  intros Hd R Hij Hi Hj.
  destruct (contract_rep g F i j ti tj R Hij Hi Hj) as (_ & _ & _ & _ & IRS). cbn zeta in *.
  pose proof (inrange_app_l n _ _ IRS) as IRi. pose proof (inrange_app_r n _ _ IRS) as IRj.
  unfold contract_pair_cost, edges_size, node_flops. cbn [involved]. rewrite (rep_sz g F R).
  apply size_of_same_set.
  - apply hu_unique_nodup.
  - apply legs_union2_nodup. apply (sub_legs_spec n [] ti IRi).
  - intros e. rewrite hu_unique_in, in_app_iff, legs_union2_in.
    rewrite (rep_idx g F R i ti Hi e), (rep_idx g F R j tj Hj e), (idx_eq_legs ti e Hd IRi), (idx_eq_legs tj e Hd IRj).
    reflexivity.
Qed.

(* ---------- the whole replay ---------- *)
(* the trees an SSA path creates, step by step (parallel to Compressed.ssa_replay) *)
Fixpoint replay_trees (nxt : nat) (f : list (nat * tree)) (path : list (nat * nat)) : list tree :=
  match path with
  | [] => []
  | (i, j) :: path' =>
      match find_tree i f, find_tree j f with
      | Some ti, Some tj => Node ti tj :: replay_trees (S nxt) ((nxt, Node ti tj) :: del_tree j (del_tree i f)) path'
      | _, _ => []
      end
  end.

Definition obs_ok (nd : bool) (o : hg_step_obs) (t : tree) : Prop :=
  NoDup (fst (snd o)) /\
  (forall e, In e (fst (snd o)) <-> In e (lkeys (sub_legs n [] t))) /\
  fst (snd (snd o)) = node_size n [] false t /\
  (nd = true -> snd (snd (snd o)) = node_flops n [] t).

Theorem replay_rep path : forall g F f', Rep g F ->
  ssa_replay (hnext g) F path = Some f' ->
  forall nd, (nd = true -> nodangling) ->
  Forall2 (obs_ok nd) (hg_replay g path) (replay_trees (hnext g) F path) /\
  length (hg_replay g path) = length path.
Proof.
  induction path as [|[i j] path IH]; intros g F f' R Hs nd Hnd.
  - cbn. split; [constructor|reflexivity].
  - cbn [ssa_replay] in Hs. destruct (Nat.eqb_spec i j) as [|Hij]; [discriminate|].
    destruct (find_tree i F) as [ti|] eqn:Ei; [|discriminate].
    destruct (find_tree j F) as [tj|] eqn:Ej; [|discriminate].
    pose proof (find_tree_in i F ti Ei) as Hi. pose proof (find_tree_in j F tj Ej) as Hj.
    destruct (contract_rep g F i j ti tj R Hij Hi Hj) as (K & R' & ND & Hset & IRS). cbn zeta in *.
    pose proof (contract_rep_size g F i j ti tj R Hij Hi Hj) as Hsize. cbn zeta in Hsize.
    cbn [hg_replay replay_trees]. rewrite Ei, Ej.
    destruct (hg_contract i j g) as [g' k] eqn:Ec. cbn [fst snd] in *.
    assert (X : hnext g' = S (hnext g)).
    { pose proof (contract_spec i j g (rep_wf g F R) Hij) as Sp. cbn zeta in Sp. rewrite Ec in Sp. cbn [fst snd] in Sp.
      destruct Sp as (K' & X' & _). rewrite X', K'. reflexivity. }
    subst k.
    destruct (IH g' _ f' R') with (nd := nd) as [A B]; [rewrite X; exact Hs|exact Hnd|].
    rewrite X in A. split; [|cbn [length]; rewrite B; reflexivity].
    constructor; [|exact A].
    unfold obs_ok. cbn [fst snd]. split; [exact ND|]. split; [exact Hset|]. split; [exact Hsize|].
    intros E. apply (contract_rep_cost g F i j ti tj (Hnd E) R Hij Hi Hj).
Qed.

(* the initial graph represents the forest of leaves *)
Lemma aget_combine_seq {A} (d : A) : forall (l : list A) s k,
  aget k (combine (seq s (length l)) l) =
  if (s <=? k) && (k <? s + length l) then Some (nth (k - s) l d) else None.
Proof.
  induction l as [|t l IH]; intros s k; cbn [length seq combine aget].
  - destruct (Nat.leb_spec s k); cbn [andb]; [|reflexivity]. destruct (Nat.ltb_spec k (s + 0)); [lia|reflexivity].
  - destruct (Nat.eqb_spec s k) as [->|Hne].
    + rewrite Nat.leb_refl. cbn [andb]. destruct (Nat.ltb_spec k (k + S (length l))); [|lia].
      rewrite Nat.sub_diag. reflexivity.
    + rewrite IH. destruct (Nat.leb_spec (S s) k), (Nat.leb_spec s k); cbn [andb]; try lia; try reflexivity.
      destruct (Nat.ltb_spec k (S s + length l)), (Nat.ltb_spec k (s + S (length l))); try lia; [|reflexivity].
      replace (k - s) with (S (k - S s)) by lia. reflexivity.
Qed.

Theorem init_rep : Rep (hg_init (inputs n) (output n) (szd n)) (map (fun i => (i, Leaf i)) (seq 0 NN)).
Proof.
  pose proof (hg_init_wf (inputs n) (output n) (szd n) norep) as W.
  assert (Hnodes : hnodes (hg_init (inputs n) (output n) (szd n)) = combine (seq 0 (length (inputs n))) (inputs n)) by reflexivity.
  assert (Haget : forall k, aget k (hnodes (hg_init (inputs n) (output n) (szd n))) =
                            if k <? NN then Some (nth k (inputs n) []) else None).
  { intros k. rewrite Hnodes, (aget_combine_seq (@nil ix)). cbn [Nat.leb andb Nat.add]. rewrite Nat.sub_0_r. reflexivity. }
  assert (Hfk : fkeys (map (fun i => (i, Leaf i)) (seq 0 NN)) = seq 0 NN).
  { unfold fkeys. rewrite map_map. cbn [fst]. apply map_id. }
  constructor.
  - exact W.
  - reflexivity.
  - reflexivity.
  - intros k. rewrite Hfk, in_seq. unfold amem. rewrite Haget. destruct (Nat.ltb_spec k NN); split; try lia; try discriminate; reflexivity.
  - rewrite Hfk. apply seq_NoDup.
  - intros k t Hin e. apply in_map_iff in Hin. destruct Hin as (m & E & Hm). inversion E; subst k t.
    apply in_seq in Hm. unfold get_node. rewrite Haget. destruct (Nat.ltb_spec m NN); [reflexivity|lia].
  - rewrite forest_leaves_init. reflexivity.
Qed.

Theorem hg_replay_is_tree_rule path f' nd : (nd = true -> nodangling) ->
  ssa_replay NN (map (fun i => (i, Leaf i)) (seq 0 NN)) path = Some f' ->
  Forall2 (obs_ok nd) (hg_replay (hg_init (inputs n) (output n) (szd n)) path)
                      (replay_trees NN (map (fun i => (i, Leaf i)) (seq 0 NN)) path) /\
  length (hg_replay (hg_init (inputs n) (output n) (szd n)) path) = length path.
Proof.
  intros Hnd Hs.
  exact (replay_rep path (hg_init (inputs n) (output n) (szd n)) _ f' init_rep Hs nd Hnd).
Qed.

End Forest.

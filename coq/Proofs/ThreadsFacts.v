(* ThreadsFacts.v -- lemmas about Model/Threads.v (C16). *)
From Coq Require Import Lia.
From Ctg Require Import Base Threads.

(* ------------------------------------------------------------------ *)
(* association lists, heaps                                            *)
Lemma aget_aset_same {A} k (v : A) d : aget k (aset k v d) = Some v.
Proof.
  induction d as [|[k' w] d IH]; cbn.
  - now rewrite Nat.eqb_refl.
  - destruct (Nat.eqb k' k) eqn:E; cbn; rewrite E; auto.
Qed.

Lemma aget_aset_other {A} k k2 (v : A) d : k2 <> k -> aget k2 (aset k v d) = aget k2 d.
Proof.
  intros Hne. induction d as [|[k' w] d IH]; cbn.
  - destruct (Nat.eqb k k2) eqn:E; auto. apply Nat.eqb_eq in E. congruence.
  - destruct (Nat.eqb k' k) eqn:E; cbn.
    + apply Nat.eqb_eq in E. subst k'.
      destruct (Nat.eqb k k2) eqn:E2; auto. apply Nat.eqb_eq in E2. congruence.
    + destruct (Nat.eqb k' k2); auto.
Qed.

Lemma aget_aset_inv {A} k k2 (v w : A) d :
  aget k2 (aset k v d) = Some w -> (k2 = k /\ w = v) \/ (k2 <> k /\ aget k2 d = Some w).
Proof.
  intros H. destruct (Nat.eq_dec k2 k) as [->|Hne].
  - rewrite aget_aset_same in H. left. split; congruence.
  - rewrite aget_aset_other in H by auto. right. auto.
Qed.

Lemma length_upd_nth {A} n (f : A -> A) l : length (upd_nth n f l) = length l.
Proof. revert n. induction l; intros [|n]; cbn; auto. Qed.

Lemma nth_error_upd_nth_same {A} n (f : A -> A) l :
  nth_error (upd_nth n f l) n = option_map f (nth_error l n).
Proof. revert n. induction l; intros [|n]; cbn; auto. Qed.

Lemma nth_error_upd_nth_other {A} n m (f : A -> A) l : n <> m ->
  nth_error (upd_nth n f l) m = nth_error l m.
Proof. revert n m. induction l; intros [|n] [|m] H; cbn; auto; try congruence. Qed.

Lemma nth_error_upd_nth_inv {A} n m (f : A -> A) l y :
  nth_error (upd_nth n f l) m = Some y ->
  exists x, nth_error l m = Some x /\ ((n = m /\ y = f x) \/ (n <> m /\ y = x)).
Proof.
  intros H. destruct (Nat.eq_dec n m) as [->|Hne].
  - rewrite nth_error_upd_nth_same in H. destruct (nth_error l m); cbn in H; try discriminate.
    eexists. split; eauto. left. split; congruence.
  - rewrite nth_error_upd_nth_other in H by auto. eexists. split; eauto.
Qed.

Lemma nth_error_snoc_inv {A} (l : list A) x n y :
  nth_error (l ++ [x]) n = Some y -> nth_error l n = Some y \/ (n = length l /\ y = x).
Proof.
  intros H. destruct (Nat.lt_ge_cases n (length l)) as [Hlt|Hge].
  - rewrite nth_error_app1 in H by auto. auto.
  - rewrite nth_error_app2 in H by auto. right.
    destruct (n - length l) as [|d] eqn:E; cbn in H.
    + split; [lia|congruence].
    + destruct d; discriminate.
Qed.

Lemma nth_error_app_keep {A} (l l2 : list A) n y :
  nth_error l n = Some y -> nth_error (l ++ l2) n = Some y.
Proof.
  intros H. rewrite nth_error_app1; auto. apply nth_error_Some. congruence.
Qed.

Lemma nth_error_snoc_new {A} (l : list A) x : nth_error (l ++ [x]) (length l) = Some x.
Proof. rewrite nth_error_app2 by lia. now rewrite Nat.sub_diag. Qed.

(* ------------------------------------------------------------------ *)
Section Facts.
Variable cfg : config.
Variable orc : oracle.

(* THE PROPERTY: the tree answers the query it was returned for *)
Definition own (q : qid) (t : tree) : Prop :=
  match t with
  | TSearch q' _ _ => q' = q
  | TDirect q' => q' = q
  | TRecon q' src => q' = q /\ o_fp orc src = o_fp orc q
  end.

Lemma own_b_spec q t : own_b orc q t = true <-> own q t.
Proof.
  destruct t; cbn; rewrite ?andb_true_iff, ?Nat.eqb_eq; tauto.
Qed.

Definition results_own (th : thread) : Prop :=
  forall q t, In (q, Some t) (t_done th) -> own q t.

Lemma all_own_b_spec ths : all_own_b orc ths = true <-> Forall results_own ths.
Proof.
  unfold all_own_b. rewrite forallb_forall, Forall_forall.
  split; intros H th Hin.
  - intros q t Hd. specialize (H th Hin). rewrite forallb_forall in H.
    specialize (H _ Hd). cbn in H. now apply own_b_spec.
  - apply forallb_forall. intros [q [t|]] Hd; cbn; auto. apply own_b_spec. now apply (H th Hin).
Qed.

(* ghost: ow lists, per HyperOptimizer object, the query it was created for *)
Definition heap_inv (st : state) (ow : list qid) : Prop :=
  length ow = length (hheap st) /\
  forall o h s t, nth_error (hheap st) o = Some h -> h_best h = Some (s, t) ->
    exists q o' k, t = TSearch q o' k /\ nth_error ow o = Some q.

(* every cache entry sits under the fingerprint of the query its path was found for *)
Definition cache_inv (st : state) : Prop :=
  forall ri r key e, nth_error (rheap st) ri = Some r -> aget key (r_cache r) = Some e ->
    o_fp orc (e_src e) = key.

(* whatever slot t of reusable object ri holds was created for q *)
Definition slot_ok (st : state) (ow : list qid) (t : tid) (q : qid) (ri : nat) : Prop :=
  forall r o, nth_error (rheap st) ri = Some r -> aget t (r_slots r) = Some o -> nth_error ow o = Some q.

Definition pc_inv (st : state) (ow : list qid) (t : tid) (p : pc) : Prop :=
  match p with
  | PALookup _ | PAStore _ _ => c_mode cfg = MAutoCached
  | PRTrial q _ _ o _ => nth_error ow o = Some q
  | PHTrial q o _ => nth_error ow o = Some q
  | PRPublish q _ _ o tr => nth_error ow o = Some q /\ exists o' k, tr = TSearch q o' k
  | PRCacheSet q ri con => e_src con = q /\ slot_ok st ow t q ri
  | PRCacheOld q ri con => e_src con = q /\ slot_ok st ow t q ri
  | PRFetch q ri => slot_ok st ow t q ri
  | _ => True
  end.

Definition thread_inv (st : state) (ow : list qid) (th : thread) : Prop :=
  results_own th /\ pc_inv st ow (t_id th) (t_pc th).

(* what a step of thread t leaves untouched: the slots of all other threads *)
Definition frame (t : tid) (st st' : state) : Prop :=
  forall ri r' t2 o, t2 <> t -> nth_error (rheap st') ri = Some r' -> aget t2 (r_slots r') = Some o ->
    exists r, nth_error (rheap st) ri = Some r /\ aget t2 (r_slots r) = Some o.

Lemma frame_refl t st : frame t st st.
Proof. intros ri r' t2 o _ H1 H2. eauto. Qed.

Lemma frame_rheap t st st' : rheap st' = rheap st -> frame t st st'.
Proof. intros E ri r' t2 o _ H1 H2. rewrite E in H1. eauto. Qed.

Lemma results_own_finish th q r :
  results_own th -> (forall t, r = Some t -> own q t) -> results_own (finish th q r).
Proof.
  intros H Hr q' t' [Heq|Hin]; [|eauto].
  inversion Heq; subst. auto.
Qed.

Lemma results_own_set_pc th p : results_own th -> results_own (set_pc th p).
Proof. auto. Qed.

Lemma heap_inv_tree_of st ow o q tr :
  heap_inv st ow -> nth_error ow o = Some q -> tree_of st o = Some tr -> exists o' k, tr = TSearch q o' k.
Proof.
  intros [_ H] Ho Ht. unfold tree_of in Ht.
  destruct (nth_error (hheap st) o) as [h|] eqn:Eh; try discriminate.
  destruct (h_best h) as [[s t]|] eqn:Eb; try discriminate. inversion Ht; subst.
  destruct (H _ _ _ _ Eh Eb) as (q' & o' & k & -> & Hq). rewrite Ho in Hq. inversion Hq; subst. eauto.
Qed.

Lemma heap_inv_alloc st ow q :
  heap_inv st ow -> heap_inv (fst (alloc_h st)) (ow ++ [q]) /\ nth_error (ow ++ [q]) (snd (alloc_h st)) = Some q.
Proof.
  intros [Hl H]. cbn. split; [split|].
  - cbn. rewrite !app_length. cbn. lia.
  - intros o h s t Hn Hb. cbn in Hn. apply nth_error_snoc_inv in Hn. destruct Hn as [Hn|[_ ->]].
    + destruct (H _ _ _ _ Hn Hb) as (q' & o' & k & -> & Hq). exists q', o', k. split; auto.
      now apply nth_error_app_keep.
    + cbn in Hb. discriminate.
  - rewrite <- Hl. apply nth_error_snoc_new.
Qed.

Lemma heap_inv_ext_r st ow f ri : heap_inv st ow -> heap_inv (upd_r st ri f) ow.
Proof. intros H. exact H. Qed.

Lemma heap_inv_trial st ow q o :
  heap_inv st ow -> nth_error ow o = Some q -> heap_inv (upd_h st o (trial_on orc q o)) ow.
Proof.
  intros [Hl H] Ho. split; cbn.
  - now rewrite length_upd_nth.
  - intros o2 h s t Hn Hb. apply nth_error_upd_nth_inv in Hn.
    destruct Hn as (h0 & Hn0 & [[-> ->]|[_ ->]]).
    + unfold trial_on in Hb. cbn in Hb.
      destruct (score_lt _ _).
      * inversion Hb; subst. eauto.
      * eauto.
    + eauto.
Qed.

Lemma cache_inv_h st o f : cache_inv st -> cache_inv (upd_h st o f).
Proof. intros H. exact H. Qed.

Lemma slot_ok_ext st ow l t q ri : slot_ok st ow t q ri -> slot_ok st (ow ++ l) t q ri.
Proof. intros H r o H1 H2. apply nth_error_app_keep. eauto. Qed.

Lemma pc_inv_other st st' ow l t1 t p :
  pc_inv st ow t p -> frame t1 st st' -> t <> t1 -> pc_inv st' (ow ++ l) t p.
Proof.
  intros H Hf Hne.
  assert (Hs : forall q ri, slot_ok st ow t q ri -> slot_ok st' (ow ++ l) t q ri).
  { intros q ri Hs r' o H1 H2. destruct (Hf _ _ _ _ Hne H1 H2) as (r & Hr & Ha).
    apply nth_error_app_keep. eauto. }
  destruct p; cbn in *; auto using nth_error_app_keep.
  - destruct H as [H1 H2]. split; auto using nth_error_app_keep.
  - destruct H; split; auto.
  - destruct H; split; auto.
Qed.

Ltac inv H := inversion H; subst; clear H.

(* goal shape: exists l, heap_inv /\ cache_inv /\ (results_own /\ pc_inv) /\ t_id = /\ frame *)
Ltac close_with L :=
  exists L; try rewrite app_nil_r;
  split; [try eassumption
  | split; [try eassumption
  | split; [split; [try eassumption | cbn]
  | split; [try reflexivity | try (apply frame_rheap; reflexivity)]]]].
Ltac close := close_with (@nil qid).
Ltac raise_case Hres :=
  try (apply results_own_finish; [exact Hres | intros ? ?; discriminate]).

(* a step of one thread preserves every invariant and touches no other thread's slot *)
Lemma step_inv : c_mode cfg <> MAutoUncached ->
  forall st ow th st' th',
  heap_inv st ow -> cache_inv st -> thread_inv st ow th ->
  step_pc cfg orc st th = (st', th') ->
  exists l, heap_inv st' (ow ++ l) /\ cache_inv st' /\ thread_inv st' (ow ++ l) th'
            /\ t_id th' = t_id th /\ frame (t_id th) st st'.
Proof.
  intros Hmode st ow th st' th' Hh Hc [Hres Hpc] Hstep.
  unfold step_pc in Hstep.
  destruct (t_pc th) eqn:Epc; cbn in Hpc.
  - (* PIdle *)
    destruct (t_todo th) as [|q rest] eqn:Etodo.
    + inv Hstep. close. rewrite Epc. exact I.
    + destruct (c_mode cfg) eqn:Em; try congruence.
      * (* preset *) inv Hstep. close; auto.
        apply results_own_finish; [exact Hres|]. intros t Ht. inv Ht. reflexivity.
      * (* reusable *) inv Hstep. close; auto.
      * (* auto cached *)
        destruct (o_hard orc q); inv Hstep; close; auto.
        apply results_own_finish; [exact Hres|]. intros t Ht. inv Ht. reflexivity.
      * (* fresh *)
        destruct (o_hard orc q).
        -- destruct (alloc_h st) as [st1 o] eqn:Ea. inv Hstep.
           destruct (heap_inv_alloc st ow q Hh) as [H1 H2]. rewrite Ea in H1, H2. cbn in H1, H2.
           unfold alloc_h in Ea. inv Ea.
           close_with [q]; auto.
        -- inv Hstep. close; auto.
           apply results_own_finish; [exact Hres|]. intros t Ht. inv Ht. reflexivity.
  - (* PALookup *)
    rewrite Hpc in Hstep.
    destruct (aget (t_id th) (bythread st)) as [x|].
    + inv Hstep. close; auto.
      unfold dispatch. rewrite Hpc. exact I.
    + unfold alloc_r in Hstep. inv Hstep. close; auto.
      * intros ri r key e Hn Ha. cbn in Hn. apply nth_error_snoc_inv in Hn.
        destruct Hn as [Hn|[_ ->]]; [eauto|]. cbn in Ha. discriminate.
      * intros ri r' t2 o Hne Hn Ha. cbn in Hn. apply nth_error_snoc_inv in Hn.
        destruct Hn as [Hn|[_ ->]]; [eauto|]. cbn in Ha. discriminate.
  - (* PAStore *)
    inv Hstep. close; auto.
    unfold dispatch. rewrite Hpc. exact I.
  - (* PRHash *)
    destruct (nth_error (rheap st) ri) as [r|] eqn:Er.
    + destruct (_ || _).
      * destruct (c_cache_only cfg); inv Hstep; close; auto; raise_case Hres.
      * inv Hstep. close; auto.
    + inv Hstep. close; auto; raise_case Hres.
  - (* PRAlloc *)
    destruct (alloc_h st) as [st1 o] eqn:Ea. inv Hstep.
    destruct (heap_inv_alloc st ow q Hh) as [H1 H2]. rewrite Ea in H1, H2. cbn in H1, H2.
    unfold alloc_h in Ea. inv Ea. close_with [q]; auto.
  - (* PRTrial *)
    pose proof (heap_inv_trial st ow q o Hh Hpc) as Hh1.
    destruct (loop_ends orc q o st n).
    + destruct (tree_of _ o) as [tr|] eqn:Et; inv Hstep; close; auto; raise_case Hres.
      split; auto. eapply heap_inv_tree_of; eauto.
    + inv Hstep. close; auto.
  - (* PRPublish *)
    destruct Hpc as [Ho (o' & k & ->)].
    assert (Hslot : slot_ok (upd_r st ri (fun r => mkR (aset (t_id th) o (r_slots r)) (r_cache r))) ow (t_id th) q ri).
    { intros r' o2 Hn Ha. cbn in Hn. apply nth_error_upd_nth_inv in Hn.
      destruct Hn as (r0 & Hn0 & [[_ ->]|[Hx _]]); [|congruence].
      cbn in Ha. rewrite aget_aset_same in Ha. inv Ha. exact Ho. }
    assert (Hci : cache_inv (upd_r st ri (fun r => mkR (aset (t_id th) o (r_slots r)) (r_cache r)))).
    { intros ri2 r' key e Hn Ha. cbn in Hn. apply nth_error_upd_nth_inv in Hn.
      destruct Hn as (r0 & Hn0 & [[_ ->]|[_ ->]]); eauto. }
    assert (Hfr : frame (t_id th) st (upd_r st ri (fun r => mkR (aset (t_id th) o (r_slots r)) (r_cache r)))).
    { intros ri2 r' t2 o2 Hne Hn Ha. cbn in Hn. apply nth_error_upd_nth_inv in Hn.
      destruct Hn as (r0 & Hn0 & [[_ ->]|[_ ->]]); eauto.
      cbn in Ha. rewrite aget_aset_other in Ha by auto. eauto. }
    destruct (c_ow cfg); [| |destruct m]; inv Hstep; close; auto.
  - (* PRCacheSet *)
    destruct Hpc as [Hsrc Hslot].
    set (st1 := upd_r st ri (fun r => mkR (r_slots r) (aset (o_fp orc q) con (r_cache r)))) in *.
    assert (Hci : cache_inv st1).
    { intros ri2 r' key e Hn Ha. cbn in Hn. apply nth_error_upd_nth_inv in Hn.
      destruct Hn as (r0 & Hn0 & [[_ ->]|[_ ->]]); eauto.
      cbn in Ha. apply aget_aset_inv in Ha. destruct Ha as [[-> ->]|[_ Ha]]; eauto. }
    assert (Hsl : slot_ok st1 ow (t_id th) q ri).
    { intros r' o Hn Ha. cbn in Hn. apply nth_error_upd_nth_inv in Hn.
      destruct Hn as (r0 & Hn0 & [[_ ->]|[_ ->]]); eauto. }
    assert (Hfr : frame (t_id th) st st1).
    { intros ri2 r' t2 o Hne Hn Ha. cbn in Hn. apply nth_error_upd_nth_inv in Hn.
      destruct Hn as (r0 & Hn0 & [[_ ->]|[_ ->]]); eauto. }
    destruct (c_call cfg); inv Hstep; close; auto.
    apply results_own_finish; [exact Hres|]. intros t Ht. inv Ht. cbn. split; congruence.
  - (* PRCacheOld *)
    destruct Hpc as [Hsrc Hslot].
    destruct (nth_error (rheap st) ri) as [r|] eqn:Er.
    + destruct (aget (o_fp orc q) (r_cache r)) as [old|] eqn:Eo.
      * destruct (score_lt _ _); inv Hstep; close; auto.
        apply results_own_finish; [exact Hres|]. intros t Ht. inv Ht. cbn. split; auto.
        eapply Hc; eauto.
      * inv Hstep. close; auto; raise_case Hres.
    + inv Hstep. close; auto; raise_case Hres.
  - (* PRFetch *)
    destruct (nth_error (rheap st) ri) as [r|] eqn:Er.
    + destruct (aget (t_id th) (r_slots r)) as [o|] eqn:Eo.
      * inv Hstep. close; auto.
        apply results_own_finish; [exact Hres|]. intros t Ht.
        destruct (heap_inv_tree_of st' ow o q t Hh (Hpc _ _ Er Eo) Ht) as (o' & k & ->). reflexivity.
      * inv Hstep. close; auto; raise_case Hres.
    + inv Hstep. close; auto; raise_case Hres.
  - (* PRCacheGet *)
    destruct (nth_error (rheap st) ri) as [r|] eqn:Er.
    + destruct (aget (o_fp orc q) (r_cache r)) as [con|] eqn:Eo.
      * inv Hstep. close; auto.
        apply results_own_finish; [exact Hres|]. intros t Ht. inv Ht. cbn. split; auto.
        eapply Hc; eauto.
      * inv Hstep. close; auto; raise_case Hres.
    + inv Hstep. close; auto; raise_case Hres.
  - (* PHTrial *)
    pose proof (heap_inv_trial st ow q o Hh Hpc) as Hh1.
    destruct (loop_ends orc q o st n); inv Hstep; close; auto.
    apply results_own_finish; [exact Hres|]. intros t Ht.
    destruct (heap_inv_tree_of _ ow o q t Hh1 Hpc Ht) as (o' & k & ->). reflexivity.
Qed.

(* ------------------------------------------------------------------ *)
(* the whole system                                                    *)
Definition sys_inv (st : state) (ths : list thread) : Prop :=
  exists ow, heap_inv st ow /\ cache_inv st /\ Forall (thread_inv st ow) ths.

Lemma upd_forall (P P' : thread -> Prop) ths i th th1 :
  nth_error ths i = Some th -> NoDup (map t_id ths) -> Forall P ths -> P' th1 ->
  (forall th2, P th2 -> t_id th2 <> t_id th -> P' th2) ->
  Forall P' (upd_nth i (fun _ => th1) ths).
Proof.
  revert i. induction ths as [|x ths IH]; intros [|i] Hn Hnd Hall H1 Hoth; cbn in *; try discriminate.
  - inv Hn. inv Hnd. inv Hall. constructor; auto.
    rewrite Forall_forall in *. intros th2 Hin. apply Hoth; auto.
    intros E. apply H2. rewrite <- E. now apply in_map.
  - inv Hnd. inv Hall. constructor.
    + apply Hoth; auto. intros E. apply H2. rewrite E. apply in_map. eapply nth_error_In; eauto.
    + eapply IH; eauto.
Qed.

Lemma map_tid_upd ths i th th1 :
  nth_error ths i = Some th -> t_id th1 = t_id th ->
  map t_id (upd_nth i (fun _ => th1) ths) = map t_id ths.
Proof.
  revert i. induction ths as [|x ths IH]; intros [|i] Hn E; cbn in *; try discriminate.
  - inv Hn. now rewrite E.
  - f_equal. eauto.
Qed.

Lemma run_inv : c_mode cfg <> MAutoUncached ->
  forall sched st ths st' ths' tr,
  NoDup (map t_id ths) -> sys_inv st ths ->
  run cfg orc sched st ths = (st', ths', tr) ->
  sys_inv st' ths' /\ map t_id ths' = map t_id ths.
Proof.
  intros Hmode. induction sched as [|i sched IH]; intros st ths st' ths' tr Hnd Hinv Hrun; cbn in Hrun.
  - inv Hrun. auto.
  - destruct (nth_error ths i) as [th|] eqn:En; [|eauto].
    destruct (finished th); [eauto|].
    destruct (step_pc cfg orc st th) as [st1 th1] eqn:Es.
    destruct (run cfg orc sched st1 (upd_nth i (fun _ => th1) ths)) as [[st2 ths2] tr2] eqn:Er.
    inv Hrun.
    destruct Hinv as (ow & Hh & Hc & Hall).
    assert (Hth : thread_inv st ow th).
    { rewrite Forall_forall in Hall. apply Hall. eapply nth_error_In; eauto. }
    destruct (step_inv Hmode _ _ _ _ _ Hh Hc Hth Es) as (l & Hh1 & Hc1 & Hth1 & Hid & Hfr).
    pose proof (map_tid_upd _ _ _ _ En Hid) as Hmap.
    destruct (IH st1 (upd_nth i (fun _ => th1) ths) st' ths' tr2) as [Hfin Hm]; auto.
    + rewrite Hmap. exact Hnd.
    + exists (ow ++ l). split; [exact Hh1|split; [exact Hc1|]].
      eapply upd_forall; eauto.
      intros th2 [Hr2 Hp2] Hne. split; auto. eapply pc_inv_other; eauto.
    + split; auto. congruence.
Qed.

Definition fresh_thread (th : thread) : Prop := t_pc th = PIdle /\ t_done th = [].

Lemma init_inv ths : Forall fresh_thread ths -> sys_inv (init_state cfg) ths.
Proof.
  intros Hall. exists []. repeat split.
  - unfold init_state. destruct (c_mode cfg); reflexivity.
  - intros o h s t Hn. unfold init_state in Hn. destruct (c_mode cfg); destruct o; discriminate.
  - intros ri r key e Hn Ha. unfold init_state in Hn.
    destruct (c_mode cfg); cbn in Hn; try (destruct ri; discriminate).
    destruct ri as [|[|ri]]; cbn in Hn; try discriminate. inv Hn. discriminate.
  - rewrite Forall_forall in *. intros th Hin. destruct (Hall th Hin) as [Hp Hd].
    split.
    + intros q t Hi. rewrite Hd in Hi. destruct Hi.
    + rewrite Hp. exact I.
Qed.

(* MAIN: in every mode except the non-caching AutoOptimizer as it stands, for every
   scheduler, every oracle, any number of threads with distinct ids and any programs,
   every tree that was returned answers the query it was returned for. *)
Theorem all_results_own : c_mode cfg <> MAutoUncached ->
  forall sched ths, NoDup (map t_id ths) -> Forall fresh_thread ths ->
  forall st' ths' tr, run cfg orc sched (init_state cfg) ths = (st', ths', tr) ->
  Forall results_own ths'.
Proof.
  intros Hmode sched ths Hnd Hfresh st' ths' tr Hrun.
  destruct (run_inv Hmode _ _ _ _ _ _ Hnd (init_inv _ Hfresh) Hrun) as [(ow & _ & _ & Hall) _].
  rewrite Forall_forall in *. intros th Hin. apply (Hall th Hin).
Qed.

End Facts.

(* ------------------------------------------------------------------ *)
(* the answers a thread collects are answers to ITS queries, in order  *)
Definition pc_query (p : pc) : list qid :=
  match p with
  | PIdle => []
  | PALookup q | PAStore q _ | PRHash q _ | PRAlloc q _ _ | PRTrial q _ _ _ _ | PRPublish q _ _ _ _
  | PRCacheSet q _ _ | PRCacheOld q _ _ | PRFetch q _ | PRCacheGet q _ | PHTrial q _ _ => [q]
  end.
(* queries answered so far (oldest first), the one in flight, the ones still to ask *)
Definition program (th : thread) : list qid :=
  rev (map fst (t_done th)) ++ pc_query (t_pc th) ++ t_todo th.

Lemma program_finish th q r : program (finish th q r) = rev (map fst (t_done th)) ++ [q] ++ t_todo th.
Proof. unfold program, finish. cbn. now rewrite <- app_assoc. Qed.

Lemma step_program cfg orc st th st' th' :
  step_pc cfg orc st th = (st', th') -> program th' = program th /\ t_id th' = t_id th.
Proof.
  intros H. unfold step_pc in H.
  destruct (t_pc th) eqn:Epc; unfold program at 2; rewrite Epc; cbn [pc_query].
  - destruct (t_todo th) as [|q rest] eqn:Et.
    + inversion H; subst. unfold program. rewrite Epc, Et. auto.
    + destruct (c_mode cfg); try destruct (o_hard orc q); try destruct (alloc_h st);
        inversion H; subst; clear H; rewrite ?program_finish; cbn; auto.
  - destruct (aget _ _); [|destruct (c_mode cfg); [destruct (alloc_h st)|destruct (alloc_h st)|destruct (alloc_r st)|destruct (alloc_h st)|destruct (alloc_h st)]];
      inversion H; subst; clear H; unfold program, dispatch; cbn; destruct (c_mode cfg); auto.
  - inversion H; subst; clear H; unfold program, dispatch; cbn; destruct (c_mode cfg); auto.
  - destruct (nth_error _ _); [destruct (_ || _); [destruct (c_cache_only cfg)|]|];
      inversion H; subst; clear H; rewrite ?program_finish; auto.
  - destruct (alloc_h st). inversion H; subst; clear H. auto.
  - destruct (loop_ends _ _ _ _ _); [destruct (tree_of _ _)|];
      inversion H; subst; clear H; rewrite ?program_finish; auto.
  - destruct (c_ow cfg); [| |destruct m]; inversion H; subst; clear H; auto.
  - destruct (c_call cfg); inversion H; subst; clear H; rewrite ?program_finish; auto.
  - destruct (nth_error _ _); [destruct (aget _ _); [destruct (score_lt _ _)|]|];
      inversion H; subst; clear H; rewrite ?program_finish; auto.
  - destruct (nth_error _ _); [destruct (aget _ _)|];
      inversion H; subst; clear H; rewrite ?program_finish; auto.
  - destruct (nth_error _ _); [destruct (aget _ _)|];
      inversion H; subst; clear H; rewrite ?program_finish; auto.
  - destruct (loop_ends _ _ _ _ _); inversion H; subst; clear H; rewrite ?program_finish; auto.
Qed.

Lemma Forall2_upd_nth {A} (R : A -> A -> Prop) l i x y :
  (forall a, R a a) -> nth_error l i = Some x -> R x y -> Forall2 R l (upd_nth i (fun _ => y) l).
Proof.
  intros Hr. revert i. induction l as [|a l IH]; intros [|i] Hn Hxy; cbn in *; try discriminate.
  - inversion Hn; subst. constructor; auto. clear - Hr. induction l; constructor; auto.
  - constructor; auto.
Qed.

Lemma Forall2_trans_eq {A B} (f : A -> B) l1 l2 l3 :
  Forall2 (fun a b => f a = f b) l1 l2 -> Forall2 (fun a b => f a = f b) l2 l3 ->
  Forall2 (fun a b => f a = f b) l1 l3.
Proof.
  intros H. revert l3. induction H; intros l3 H3; inversion H3; subst; constructor; eauto. congruence.
Qed.

(* for every schedule: same threads, same positions, and each thread's answered + in-flight
   + pending queries are exactly the program it started with *)
Theorem run_program cfg orc sched : forall st ths st' ths' tr,
  run cfg orc sched st ths = (st', ths', tr) ->
  Forall2 (fun a b => (program a, t_id a) = (program b, t_id b)) ths ths'.
Proof.
  induction sched as [|i sched IH]; intros st ths st' ths' tr H; cbn in H.
  - inversion H; subst. clear. induction ths'; constructor; auto.
  - destruct (nth_error ths i) as [th|] eqn:En; [|eauto].
    destruct (finished th); [eauto|].
    destruct (step_pc cfg orc st th) as [st1 th1] eqn:Es.
    destruct (run cfg orc sched st1 _) as [[st2 ths2] tr2] eqn:Er. inversion H; subst; clear H.
    apply IH in Er. eapply Forall2_trans_eq; [|exact Er].
    apply Forall2_upd_nth with (x := th); auto.
    destruct (step_program _ _ _ _ _ _ Es) as [-> ->]. reflexivity.
Qed.

(* ------------------------------------------------------------------ *)
(* refutations (concrete histories, evaluated)                         *)

(* finding 8: AutoOptimizer(cache=False) as it stands, ONE thread, two queries:
   every trial of the second query scores worse than the best trial of the first *)
Definition stale_cfg : config := mkC MAutoUncached OwFalse false 1 false.
Definition stale_orc : oracle :=
  mkO (fun q => q) (fun _ => true)
      (fun q o k => match q, k with
                    | 0, 0 => Some 5%Z | 0, _ => Some 7%Z
                    | _, 2 => Some 9%Z | _, _ => Some 8%Z end)
      (fun _ _ _ => false) (fun _ => None).
Definition stale_threads : list thread := [start_thread 7 [0; 1]].
Definition stale_sched : list nat := repeat 0 9.

Lemma stale_run_results :
  enc_results (snd (fst (run stale_cfg stale_orc stale_sched (init_state stale_cfg) stale_threads)))
  = [[[0; 0; 0; 0; 0]; [1; 0; 0; 0; 0]]].
Proof. vm_compute. reflexivity. Qed.

Theorem auto_uncached_refuted :
  exists cfg orc sched ths,
    c_mode cfg = MAutoUncached /\ NoDup (map t_id ths) /\ Forall fresh_thread ths /\
    length ths = 1 /\
    ~ Forall (results_own orc) (snd (fst (run cfg orc sched (init_state cfg) ths))).
Proof.
  exists stale_cfg, stale_orc, stale_sched, stale_threads.
  split; [reflexivity|]. split; [repeat constructor; cbn; tauto|].
  split; [repeat constructor|]. split; [reflexivity|].
  rewrite <- all_own_b_spec. vm_compute. discriminate.
Qed.

(* the hypothesis "distinct thread ids" is needed: two live threads with one id through one
   shared reusable optimizer can fetch each other's tree *)
Definition dup_cfg : config := mkC MReusable OwFalse false 0 false.
Definition dup_orc : oracle :=
  mkO (fun q => q) (fun _ => true) (fun _ _ _ => Some 1%Z) (fun _ _ _ => false) (fun _ => None).
Theorem reusable_shared_tid_refuted :
  exists sched ths, Forall fresh_thread ths /\
    ~ Forall (results_own dup_orc) (snd (fst (run dup_cfg dup_orc sched (init_state dup_cfg) ths))).
Proof.
  exists ([0;0;0;0;0;0] ++ [1;1;1;1;1] ++ [0] ++ [1;1]), [start_thread 3 [0]; start_thread 3 [1]].
  split; [repeat constructor|].
  rewrite <- all_own_b_spec. vm_compute. discriminate.
Qed.

(* ------------------------------------------------------------------ *)
(* the theorem per kind of optimizer object                            *)
Lemma results_own_in_mode (m : mode) : m <> MAutoUncached ->
  forall cfg orc sched ths st' ths' tr,
  c_mode cfg = m -> NoDup (map t_id ths) -> Forall fresh_thread ths ->
  run cfg orc sched (init_state cfg) ths = (st', ths', tr) ->
  Forall (results_own orc) ths'.
Proof.
  intros Hm cfg orc sched ths st' ths' tr E Hnd Hf Hrun.
  eapply all_results_own; eauto. congruence.
Qed.

Lemma reusable_returns_own_tree :
  forall cfg orc sched ths st' ths' tr,
  c_mode cfg = MReusable -> NoDup (map t_id ths) -> Forall fresh_thread ths ->
  run cfg orc sched (init_state cfg) ths = (st', ths', tr) ->
  Forall (results_own orc) ths'.
Proof. apply results_own_in_mode. discriminate. Qed.

Lemma auto_cached_returns_own_tree :
  forall cfg orc sched ths st' ths' tr,
  c_mode cfg = MAutoCached -> NoDup (map t_id ths) -> Forall fresh_thread ths ->
  run cfg orc sched (init_state cfg) ths = (st', ths', tr) ->
  Forall (results_own orc) ths'.
Proof. apply results_own_in_mode. discriminate. Qed.

Lemma presets_return_own_tree :
  forall cfg orc sched ths st' ths' tr,
  c_mode cfg = MPreset -> NoDup (map t_id ths) -> Forall fresh_thread ths ->
  run cfg orc sched (init_state cfg) ths = (st', ths', tr) ->
  Forall (results_own orc) ths'.
Proof. apply results_own_in_mode. discriminate. Qed.

Lemma auto_uncached_fresh_returns_own_tree :
  forall cfg orc sched ths st' ths' tr,
  c_mode cfg = MAutoUncachedFresh -> NoDup (map t_id ths) -> Forall fresh_thread ths ->
  run cfg orc sched (init_state cfg) ths = (st', ths', tr) ->
  Forall (results_own orc) ths'.
Proof. apply results_own_in_mode. discriminate. Qed.

(* verified checker for the results of an observed run *)
Lemma all_own_b_sound orc ths : all_own_b orc ths = true -> Forall (results_own orc) ths.
Proof. apply all_own_b_spec. Qed.

(* ================================================================== *)
(* No query ends in an exception: if no trial fails (every score is finite) and the optimizer
   is not cache_only, every step that reads shared state finds what it looks for.  Needs
   existence invariants (the safety theorem above only needs "if present then right"). *)
Section Live.
Variable cfg : config.
Variable orc : oracle.
Hypothesis Hco : c_cache_only cfg = false.
Hypothesis Hfin : forall q o k, o_score orc q o k <> None.

Definition valid_o (st : state) (o : oid) : Prop := o < length (hheap st).
Definition valid_r (st : state) (ri : nat) : Prop := ri < length (rheap st).
Definition has_best (st : state) (o : oid) : Prop :=
  exists h, nth_error (hheap st) o = Some h /\ h_best h <> None.
Definition has_key (st : state) (ri k : nat) : Prop :=
  exists r e, nth_error (rheap st) ri = Some r /\ aget k (r_cache r) = Some e.
Definition has_slot (st : state) (ri : nat) (t : tid) : Prop :=
  exists r o, nth_error (rheap st) ri = Some r /\ aget t (r_slots r) = Some o /\ has_best st o.

Definition valid_x (st : state) (x : nat) : Prop :=
  match c_mode cfg with MAutoCached => valid_r st x | _ => valid_o st x end.

Definition st_live (st : state) : Prop :=
  (forall t x, aget t (bythread st) = Some x -> valid_x st x) /\
  (c_mode cfg = MReusable -> valid_r st 0).

Definition live_pc (st : state) (t : tid) (p : pc) : Prop :=
  match p with
  | PIdle | PALookup _ => True
  | PAStore _ x => valid_x st x
  | PRHash _ ri => valid_r st ri
  | PRAlloc q ri m => valid_r st ri /\ (m = false -> has_key st ri (o_fp orc q))
  | PRTrial q ri m o _ => valid_r st ri /\ (m = false -> has_key st ri (o_fp orc q)) /\ valid_o st o
  | PRPublish q ri m o _ => valid_r st ri /\ (m = false -> has_key st ri (o_fp orc q)) /\ has_best st o
  | PRCacheSet _ ri _ => valid_r st ri /\ has_slot st ri t
  | PRCacheOld q ri _ => has_key st ri (o_fp orc q) /\ has_slot st ri t
  | PRFetch _ ri => has_slot st ri t
  | PRCacheGet q ri => has_key st ri (o_fp orc q)
  | PHTrial _ o _ => valid_o st o
  end.

Definition no_raise (th : thread) : Prop := forall q, ~ In (q, None) (t_done th).
Definition thread_live (st : state) (th : thread) : Prop :=
  no_raise th /\ live_pc st (t_id th) (t_pc th).

(* what a step of thread t may do to the facts other threads rely on: nothing *)
Definition mono (t : tid) (st st' : state) : Prop :=
  (forall o, valid_o st o -> valid_o st' o) /\
  (forall o, has_best st o -> has_best st' o) /\
  (forall ri, valid_r st ri -> valid_r st' ri) /\
  (forall ri k, has_key st ri k -> has_key st' ri k) /\
  (forall ri t2, t2 <> t -> has_slot st ri t2 -> has_slot st' ri t2).

Lemma mono_refl t st : mono t st st.
Proof. repeat split; auto. Qed.

Lemma valid_x_mono t st st' x : mono t st st' -> valid_x st x -> valid_x st' x.
Proof. intros (M1 & _ & M3 & _) H. unfold valid_x in *. destruct (c_mode cfg); auto. Qed.

Lemma live_pc_mono t1 st st' t p : mono t1 st st' -> t <> t1 -> live_pc st t p -> live_pc st' t p.
Proof.
  intros M Hne H. pose proof (fun x => valid_x_mono _ _ _ x M) as Mx.
  destruct M as (M1 & M2 & M3 & M4 & M5).
  destruct p; cbn in *; auto; intuition auto.
Qed.

Lemma live_pc_mono_self t st st' p :
  mono t st st' -> (forall ri, has_slot st ri t -> has_slot st' ri t) -> live_pc st t p -> live_pc st' t p.
Proof.
  intros M Hs H. pose proof (fun x => valid_x_mono _ _ _ x M) as Mx.
  destruct M as (M1 & M2 & M3 & M4 & M5).
  destruct p; cbn in *; auto; intuition auto.
Qed.

Lemma st_live_mono t st st' : mono t st st' -> bythread st' = bythread st -> st_live st -> st_live st'.
Proof.
  intros M E [H1 H2]. split.
  - intros t0 x Ha. rewrite E in Ha. eapply valid_x_mono; eauto.
  - intros Em. destruct M as (_ & _ & M3 & _). auto.
Qed.

(* --- the primitive state changes ----------------------------------- *)
Lemma has_best_app st o l :
  has_best st o -> has_best (mkS (hheap st ++ l) (rheap st) (bythread st)) o.
Proof. intros (h & Hn & Hb). exists h. split; auto. cbn. now apply nth_error_app_keep. Qed.

Lemma mono_alloc_h t st : mono t st (fst (alloc_h st)).
Proof.
  cbn. repeat split.
  - intros o H. unfold valid_o in *. cbn. rewrite app_length. lia.
  - intros o H. now apply has_best_app.
  - auto.
  - auto.
  - intros ri t2 _ (r & o & Hn & Ha & Hb). exists r, o. repeat split; auto. now apply has_best_app.
Qed.

Lemma valid_alloc_h st : valid_o (fst (alloc_h st)) (snd (alloc_h st)).
Proof. unfold valid_o. cbn. rewrite app_length. cbn. lia. Qed.

Lemma mono_alloc_r t st : mono t st (fst (alloc_r st)).
Proof.
  cbn. repeat split; auto.
  - intros ri H. unfold valid_r in *. cbn. rewrite app_length. lia.
  - intros ri k (r & e & Hn & Ha). exists r, e. split; auto. cbn. now apply nth_error_app_keep.
  - intros ri t2 _ (r & o & Hn & Ha & Hb). exists r, o. repeat split; auto. cbn. now apply nth_error_app_keep.
Qed.

Lemma valid_alloc_r st : valid_r (fst (alloc_r st)) (snd (alloc_r st)).
Proof. unfold valid_r. cbn. rewrite app_length. cbn. lia. Qed.

Lemma has_best_trial st o o2 q :
  has_best st o2 -> has_best (upd_h st o (trial_on orc q o)) o2.
Proof.
  intros (h & Hn & Hb). unfold has_best. cbn.
  destruct (Nat.eq_dec o o2) as [->|Hne].
  - rewrite nth_error_upd_nth_same, Hn. cbn. eexists. split; [reflexivity|].
    unfold trial_on. cbn. destruct (score_lt _ _); [discriminate|exact Hb].
  - rewrite nth_error_upd_nth_other by auto. eauto.
Qed.

Lemma mono_trial t st o q : mono t st (upd_h st o (trial_on orc q o)).
Proof.
  repeat split; auto.
  - intros o2 H. unfold valid_o in *. cbn. now rewrite length_upd_nth.
  - intros o2 H. now apply has_best_trial.
  - intros ri t2 _ (r & o2 & Hn & Ha & Hb). exists r, o2. repeat split; auto. now apply has_best_trial.
Qed.

Lemma slot_trial st o q ri t : has_slot st ri t -> has_slot (upd_h st o (trial_on orc q o)) ri t.
Proof. intros (r & o2 & Hn & Ha & Hb). exists r, o2. repeat split; auto. now apply has_best_trial. Qed.

(* after a trial (whose score is finite) the object has a best tree *)
Lemma trial_gives_best st o q : valid_o st o -> has_best (upd_h st o (trial_on orc q o)) o.
Proof.
  intros Hv. unfold has_best. cbn. rewrite nth_error_upd_nth_same.
  destruct (nth_error (hheap st) o) as [h|] eqn:E.
  - cbn. eexists. split; [reflexivity|]. unfold trial_on. cbn.
    destruct (score_lt _ _) eqn:El; [discriminate|].
    destruct (h_best h) as [[s t]|] eqn:Eb; [discriminate|].
    unfold best_score in El. rewrite Eb in El.
    destruct (o_score orc q o (h_n h)) eqn:Es; [discriminate|]. exfalso. eapply Hfin; eauto.
  - apply nth_error_None in E. unfold valid_o in Hv. lia.
Qed.

Lemma has_best_tree_of st o : has_best st o -> exists tr, tree_of st o = Some tr.
Proof.
  intros (h & Hn & Hb). unfold tree_of. rewrite Hn.
  destruct (h_best h) as [[s t]|]; [eauto|congruence].
Qed.

Lemma valid_r_nth st ri : valid_r st ri -> exists r, nth_error (rheap st) ri = Some r.
Proof.
  intros H. destruct (nth_error (rheap st) ri) eqn:E; [eauto|].
  apply nth_error_None in E. unfold valid_r in H. lia.
Qed.

Lemma mono_upd_slot t st ri o :
  mono t st (upd_r st ri (fun r => mkR (aset t o (r_slots r)) (r_cache r))).
Proof.
  repeat split; auto.
  - intros ri2 H. unfold valid_r in *. cbn. now rewrite length_upd_nth.
  - intros ri2 k (r & e & Hn & Ha). unfold has_key. cbn.
    destruct (Nat.eq_dec ri ri2) as [->|Hne].
    + rewrite nth_error_upd_nth_same, Hn. cbn. eauto.
    + rewrite nth_error_upd_nth_other by auto. eauto.
  - intros ri2 t2 Hne (r & o2 & Hn & Ha & Hb). unfold has_slot. cbn.
    destruct (Nat.eq_dec ri ri2) as [->|Hne2].
    + rewrite nth_error_upd_nth_same, Hn. cbn. eexists. exists o2. split; [reflexivity|]. cbn.
      rewrite aget_aset_other by auto. auto.
    + rewrite nth_error_upd_nth_other by auto. eauto.
Qed.

Lemma slot_after_publish t st ri o :
  valid_r st ri -> has_best st o ->
  has_slot (upd_r st ri (fun r => mkR (aset t o (r_slots r)) (r_cache r))) ri t.
Proof.
  intros Hv Hb. destruct (valid_r_nth _ _ Hv) as [r Hr]. unfold has_slot. cbn.
  rewrite nth_error_upd_nth_same, Hr. cbn. eexists. exists o. split; [reflexivity|]. cbn.
  rewrite aget_aset_same. auto.
Qed.

Lemma mono_upd_cache t st ri k e :
  mono t st (upd_r st ri (fun r => mkR (r_slots r) (aset k e (r_cache r)))) /\
  (forall ri2, has_slot st ri2 t -> has_slot (upd_r st ri (fun r => mkR (r_slots r) (aset k e (r_cache r)))) ri2 t).
Proof.
  assert (Hs : forall ri2 t2, has_slot st ri2 t2 ->
            has_slot (upd_r st ri (fun r => mkR (r_slots r) (aset k e (r_cache r)))) ri2 t2).
  { intros ri2 t2 (r & o2 & Hn & Ha & Hb). unfold has_slot. cbn.
    destruct (Nat.eq_dec ri ri2) as [->|Hne2].
    + rewrite nth_error_upd_nth_same, Hn. cbn. eexists. exists o2. split; [reflexivity|]. auto.
    + rewrite nth_error_upd_nth_other by auto. eauto. }
  split; [|auto]. repeat split; auto.
  - intros ri2 H. unfold valid_r in *. cbn. now rewrite length_upd_nth.
  - intros ri2 k2 (r & e2 & Hn & Ha). unfold has_key. cbn.
    destruct (Nat.eq_dec ri ri2) as [->|Hne].
    + rewrite nth_error_upd_nth_same, Hn. cbn. exists (mkR (r_slots r) (aset k e (r_cache r))).
      destruct (Nat.eq_dec k2 k) as [->|Hk].
      * exists e. split; [reflexivity|]. cbn. apply aget_aset_same.
      * exists e2. split; [reflexivity|]. cbn. rewrite aget_aset_other by auto. auto.
    + rewrite nth_error_upd_nth_other by auto. eauto.
Qed.

Lemma no_raise_finish th q t : no_raise th -> no_raise (finish th q (Some t)).
Proof. intros H q' [E|Hin]; [discriminate|]. eapply H; eauto. Qed.


Ltac inv H := inversion H; subst; clear H.

Lemma mono_same_heaps t st st' : hheap st' = hheap st -> rheap st' = rheap st -> mono t st st'.
Proof.
  intros E1 E2. unfold mono, valid_o, valid_r, has_best, has_key, has_slot, has_best.
  rewrite E1, E2. repeat split; auto.
Qed.

Lemma live_dispatch st t q x : valid_x st x -> live_pc st t (dispatch cfg q x).
Proof. unfold valid_x, dispatch. destruct (c_mode cfg); cbn; auto. Qed.

Lemma has_key_valid st ri k : has_key st ri k -> valid_r st ri.
Proof. intros (r & e & Hn & _). unfold valid_r. apply nth_error_Some. congruence. Qed.

Ltac live_goal := split; [|split; [split|split]].

Lemma step_live : forall st th st' th',
  st_live st -> thread_live st th -> step_pc cfg orc st th = (st', th') ->
  st_live st' /\ thread_live st' th' /\ t_id th' = t_id th /\ mono (t_id th) st st'.
Proof.
  intros st th st' th' Hst [Hnr Hpc] Hstep.
  unfold step_pc in Hstep.
  destruct (t_pc th) eqn:Epc; cbn in Hpc.
  - (* PIdle *)
    destruct (t_todo th) as [|q rest] eqn:Etodo.
    + inv Hstep. live_goal; auto using mono_refl. rewrite Epc. exact I.
    + destruct (c_mode cfg) eqn:Em.
      * inv Hstep. live_goal; auto using mono_refl; try (apply no_raise_finish; exact Hnr); try (cbn; exact I).
      * inv Hstep. live_goal; auto using mono_refl. cbn. apply Hst. exact Em.
      * destruct (o_hard orc q); inv Hstep; live_goal; auto using mono_refl; try (apply no_raise_finish; exact Hnr); try (cbn; exact I).
      * destruct (o_hard orc q); inv Hstep; live_goal; auto using mono_refl; try (apply no_raise_finish; exact Hnr); try (cbn; exact I).
      * destruct (o_hard orc q).
        -- pose proof (mono_alloc_h (t_id th) st) as M. pose proof (valid_alloc_h st) as V.
           destruct (alloc_h st) as [st1 o] eqn:Ea. cbn in M, V. inv Hstep.
           live_goal; auto.
           eapply st_live_mono; eauto. unfold alloc_h in Ea. inv Ea. reflexivity.
        -- inv Hstep. live_goal; auto using mono_refl; try (apply no_raise_finish; exact Hnr); try (cbn; exact I).
  - (* PALookup *)
    destruct (aget (t_id th) (bythread st)) as [x|] eqn:Eb.
    + inv Hstep. live_goal; auto using mono_refl. apply live_dispatch. eapply Hst; eauto.
    + destruct (c_mode cfg) eqn:Em.
      all: try (pose proof (mono_alloc_h (t_id th) st) as M; pose proof (valid_alloc_h st) as V;
                destruct (alloc_h st) as [st1 x] eqn:Ea; cbn in M, V; inv Hstep;
                live_goal; auto;
                [eapply st_live_mono; eauto; unfold alloc_h in Ea; inv Ea; reflexivity
                |cbn; unfold valid_x; rewrite Em; exact V]).
      pose proof (mono_alloc_r (t_id th) st) as M. pose proof (valid_alloc_r st) as V.
      destruct (alloc_r st) as [st1 x] eqn:Ea. cbn in M, V. inv Hstep.
      live_goal; auto.
      * eapply st_live_mono; eauto. unfold alloc_r in Ea. inv Ea. reflexivity.
      * cbn. unfold valid_x. rewrite Em. exact V.
  - (* PAStore *)
    inv Hstep.
    assert (M : mono (t_id th) st (mkS (hheap st) (rheap st) (aset (t_id th) x (bythread st)))).
    { apply mono_same_heaps; reflexivity. }
    live_goal; auto.
    + split.
      * intros t0 x0 Ha. cbn in Ha. apply aget_aset_inv in Ha.
        destruct Ha as [[_ ->]|[_ Ha]]; eapply valid_x_mono; eauto. eapply Hst; eauto.
      * intros Em. destruct M as (_ & _ & M3 & _). apply M3. apply Hst. exact Em.
    + apply live_dispatch. eapply valid_x_mono; eauto.
  - (* PRHash *)
    destruct (valid_r_nth _ _ Hpc) as [r Hr]. rewrite Hr in Hstep.
    destruct (aget (o_fp orc q) (r_cache r)) as [e|] eqn:Ea; cbn in Hstep.
    + destruct (c_ow cfg); cbn in Hstep; rewrite ?Hco in Hstep; inv Hstep; live_goal; auto using mono_refl;
        cbn; try split; auto; try (intros _); exists r, e; auto.
    + rewrite Hco in Hstep. inv Hstep. live_goal; auto using mono_refl. cbn. split; auto. discriminate.
  - (* PRAlloc *)
    destruct Hpc as [Hv Hk].
    pose proof (mono_alloc_h (t_id th) st) as M. pose proof (valid_alloc_h st) as V.
    destruct (alloc_h st) as [st1 o] eqn:Ea. cbn in M, V. inv Hstep.
    live_goal; auto.
    + eapply st_live_mono; eauto. unfold alloc_h in Ea. inv Ea. reflexivity.
    + cbn. destruct M as (M1 & M2 & M3 & M4 & M5). auto.
  - (* PRTrial *)
    destruct Hpc as (Hv & Hk & Ho).
    pose proof (mono_trial (t_id th) st o q) as M.
    pose proof (trial_gives_best st o q Ho) as Hb.
    assert (Hst1 : st_live (upd_h st o (trial_on orc q o))) by (eapply st_live_mono; eauto).
    destruct (loop_ends orc q o st n).
    + destruct (has_best_tree_of _ _ Hb) as [tr Ht]. rewrite Ht in Hstep. inv Hstep.
      live_goal; auto. cbn. destruct M as (M1 & M2 & M3 & M4 & M5). auto.
    + inv Hstep. live_goal; auto. cbn. destruct M as (M1 & M2 & M3 & M4 & M5). auto.
  - (* PRPublish *)
    destruct Hpc as (Hv & Hk & Hb).
    pose proof (mono_upd_slot (t_id th) st ri o) as M.
    pose proof (slot_after_publish (t_id th) st ri o Hv Hb) as Hs.
    assert (Hst1 : st_live (upd_r st ri (fun r => mkR (aset (t_id th) o (r_slots r)) (r_cache r))))
      by (eapply st_live_mono; eauto).
    destruct M as (M1 & M2 & M3 & M4 & M5).
    destruct (c_ow cfg); [| |destruct m]; inv Hstep; live_goal; auto; cbn; auto;
      repeat split; auto.
  - (* PRCacheSet *)
    destruct Hpc as (Hv & Hs).
    destruct (mono_upd_cache (t_id th) st ri (o_fp orc q) con) as [M Hs1].
    assert (Hst1 : st_live (upd_r st ri (fun r => mkR (r_slots r) (aset (o_fp orc q) con (r_cache r)))))
      by (eapply st_live_mono; eauto).
    destruct (c_call cfg); inv Hstep; live_goal; auto;
      try (apply no_raise_finish; exact Hnr); try (cbn; exact I).
    cbn. auto.
  - (* PRCacheOld *)
    destruct Hpc as (Hk & Hs). pose proof (has_key_valid _ _ _ Hk) as Hv.
    destruct Hk as (r & e & Hr & Ha). rewrite Hr, Ha in Hstep.
    destruct (score_lt _ _); inv Hstep; live_goal; auto using mono_refl;
      try (apply no_raise_finish; exact Hnr); try (cbn; exact I).
    cbn. auto.
  - (* PRFetch *)
    destruct Hpc as (r & o & Hr & Ha & Hb). rewrite Hr, Ha in Hstep.
    destruct (has_best_tree_of _ _ Hb) as [tr Ht]. rewrite Ht in Hstep. inv Hstep.
    live_goal; auto using mono_refl; try (apply no_raise_finish; exact Hnr); try (cbn; exact I).
  - (* PRCacheGet *)
    destruct Hpc as (r & e & Hr & Ha). rewrite Hr, Ha in Hstep. inv Hstep.
    live_goal; auto using mono_refl; try (apply no_raise_finish; exact Hnr); try (cbn; exact I).
  - (* PHTrial *)
    pose proof (mono_trial (t_id th) st o q) as M.
    pose proof (trial_gives_best st o q Hpc) as Hb.
    assert (Hst1 : st_live (upd_h st o (trial_on orc q o))) by (eapply st_live_mono; eauto).
    destruct (loop_ends orc q o st n).
    + destruct (has_best_tree_of _ _ Hb) as [tr Ht]. rewrite Ht in Hstep. inv Hstep.
      live_goal; auto; try (apply no_raise_finish; exact Hnr); try (cbn; exact I).
    + inv Hstep. live_goal; auto. cbn. destruct M as (M1 & _). auto.
Qed.

Lemma run_live : forall sched st ths st' ths' tr,
  NoDup (map t_id ths) -> st_live st -> Forall (thread_live st) ths ->
  run cfg orc sched st ths = (st', ths', tr) ->
  st_live st' /\ Forall (thread_live st') ths'.
Proof.
  induction sched as [|i sched IH]; intros st ths st' ths' tr Hnd Hst Hall Hrun; cbn in Hrun.
  - inv Hrun. auto.
  - destruct (nth_error ths i) as [th|] eqn:En; [|eauto].
    destruct (finished th); [eauto|].
    destruct (step_pc cfg orc st th) as [st1 th1] eqn:Es.
    destruct (run cfg orc sched st1 (upd_nth i (fun _ => th1) ths)) as [[st2 ths2] tr2] eqn:Er.
    inv Hrun.
    assert (Hth : thread_live st th).
    { rewrite Forall_forall in Hall. apply Hall. eapply nth_error_In; eauto. }
    destruct (step_live _ _ _ _ Hst Hth Es) as (Hst1 & Hth1 & Hid & M).
    eapply IH; [| exact Hst1 | | exact Er].
    + rewrite (map_tid_upd _ _ _ _ En Hid). exact Hnd.
    + eapply upd_forall; eauto.
      intros th2 [Hn2 Hp2] Hne. split; auto. eapply live_pc_mono; eauto.
Qed.

Theorem no_query_raises : forall sched ths, NoDup (map t_id ths) -> Forall fresh_thread ths ->
  forall st' ths' tr, run cfg orc sched (init_state cfg) ths = (st', ths', tr) ->
  Forall no_raise ths'.
Proof.
  intros sched ths Hnd Hfresh st' ths' tr Hrun.
  assert (Hst : st_live (init_state cfg)).
  { split.
    - intros t x Ha. unfold init_state in Ha. destruct (c_mode cfg); discriminate.
    - intros Em. unfold init_state, valid_r. rewrite Em. cbn. lia. }
  assert (Hall : Forall (thread_live (init_state cfg)) ths).
  { rewrite Forall_forall in *. intros th Hin. destruct (Hfresh th Hin) as [Hp Hd]. split.
    - intros q Hi. rewrite Hd in Hi. destruct Hi.
    - rewrite Hp. exact I. }
  destruct (run_live _ _ _ _ _ _ Hnd Hst Hall Hrun) as [_ H].
  rewrite Forall_forall in *. intros th Hin. apply (H th Hin).
Qed.

End Live.

(* ================================================================== *)
(* Wait-freedom: a thread that is scheduled often enough answers all its queries, whatever
   the other threads do (no step of one thread can block or undo the progress of another). *)
Definition pc_left (cfg : config) (p : pc) : nat :=
  match p with
  | PIdle => 0
  | PALookup _ => c_more cfg + 9
  | PAStore _ _ => c_more cfg + 8
  | PRHash _ _ => c_more cfg + 7
  | PRAlloc _ _ _ => c_more cfg + 6
  | PRTrial _ _ _ _ n => n + 5
  | PRPublish _ _ _ _ _ => 4
  | PRCacheOld _ _ _ => 3
  | PRCacheSet _ _ _ => 2
  | PRFetch _ _ => 1
  | PRCacheGet _ _ => 1
  | PHTrial _ _ n => n + 1
  end.

(* upper bound on the number of steps thread th still needs *)
Definition steps_left (cfg : config) (th : thread) : nat :=
  pc_left cfg (t_pc th) + length (t_todo th) * (c_more cfg + 10).

Lemma steps_left_finished cfg th : steps_left cfg th = 0 <-> finished th = true.
Proof.
  unfold steps_left, finished. destruct (t_pc th); cbn; destruct (t_todo th); cbn; split; intros H;
    try reflexivity; try discriminate; try lia.
Qed.

Lemma loop_ends_zero orc q o st : loop_ends orc q o st 0 = true.
Proof. reflexivity. Qed.

Lemma step_decreases cfg orc st th st' th' :
  finished th = false -> step_pc cfg orc st th = (st', th') ->
  steps_left cfg th' < steps_left cfg th.
Proof.
  intros Hf H. unfold step_pc in H. unfold steps_left at 2.
  destruct (t_pc th) eqn:Epc.
  - destruct (t_todo th) as [|q rest] eqn:Et.
    + unfold finished in Hf. rewrite Epc, Et in Hf. discriminate.
    + destruct (c_mode cfg); try destruct (o_hard orc q); try destruct (alloc_h st);
        inversion H; subst; clear H; unfold steps_left; cbn; lia.
  - destruct (aget _ _); [|destruct (c_mode cfg); [destruct (alloc_h st)|destruct (alloc_h st)|destruct (alloc_r st)|destruct (alloc_h st)|destruct (alloc_h st)]];
      inversion H; subst; clear H; unfold steps_left, dispatch; cbn; destruct (c_mode cfg); cbn; lia.
  - inversion H; subst; clear H; unfold steps_left, dispatch; cbn; destruct (c_mode cfg); cbn; lia.
  - destruct (nth_error _ _); [destruct (_ || _); [destruct (c_cache_only cfg)|]|];
      inversion H; subst; clear H; unfold steps_left; cbn; lia.
  - destruct (alloc_h st). inversion H; subst; clear H. unfold steps_left; cbn; lia.
  - destruct n as [|n].
    + rewrite loop_ends_zero in H. destruct (tree_of _ _); inversion H; subst; clear H; unfold steps_left; cbn; lia.
    + destruct (loop_ends _ _ _ _ _); [destruct (tree_of _ _)|];
        inversion H; subst; clear H; unfold steps_left; cbn; lia.
  - destruct (c_ow cfg); [| |destruct m]; inversion H; subst; clear H; unfold steps_left; cbn; lia.
  - destruct (c_call cfg); inversion H; subst; clear H; unfold steps_left; cbn; lia.
  - destruct (nth_error _ _); [destruct (aget _ _); [destruct (score_lt _ _)|]|];
      inversion H; subst; clear H; unfold steps_left; cbn; lia.
  - destruct (nth_error _ _); [destruct (aget _ _)|];
      inversion H; subst; clear H; unfold steps_left; cbn; lia.
  - destruct (nth_error _ _); [destruct (aget _ _)|];
      inversion H; subst; clear H; unfold steps_left; cbn; lia.
  - destruct n as [|n].
    + rewrite loop_ends_zero in H. inversion H; subst; clear H; unfold steps_left; cbn; lia.
    + destruct (loop_ends _ _ _ _ _); inversion H; subst; clear H; unfold steps_left; cbn; lia.
Qed.

Lemma nth_error_upd_nth_const {A} (l : list A) i j y :
  nth_error (upd_nth i (fun _ => y) l) j =
  if Nat.eqb i j then match nth_error l j with Some _ => Some y | None => None end else nth_error l j.
Proof.
  destruct (Nat.eqb i j) eqn:E.
  - apply Nat.eqb_eq in E. subst. rewrite nth_error_upd_nth_same. destruct (nth_error l j); reflexivity.
  - apply Nat.eqb_neq in E. now apply nth_error_upd_nth_other.
Qed.

Lemma run_progress cfg orc : forall sched st ths st' ths' tr i th,
  run cfg orc sched st ths = (st', ths', tr) -> nth_error ths i = Some th ->
  exists th', nth_error ths' i = Some th' /\
              steps_left cfg th' <= steps_left cfg th - count_occ Nat.eq_dec sched i.
Proof.
  induction sched as [|j sched IH]; intros st ths st' ths' tr i th Hrun Hi; cbn in Hrun.
  - inversion Hrun; subst. exists th. split; auto. cbn. lia.
  - cbn [count_occ].
    destruct (nth_error ths j) as [thj|] eqn:Ej.
    + destruct (finished thj) eqn:Ef.
      * destruct (IH _ _ _ _ _ _ _ Hrun Hi) as (th' & Hn & Hle). exists th'. split; auto.
        destruct (Nat.eq_dec j i) as [->|Hne]; [|exact Hle].
        rewrite Hi in Ej. inversion Ej; subst.
        apply (proj2 (steps_left_finished cfg _)) in Ef. lia.
      * destruct (step_pc cfg orc st thj) as [st1 th1] eqn:Es.
        destruct (run cfg orc sched st1 _) as [[st2 ths2] tr2] eqn:Er.
        inversion Hrun; subst; clear Hrun.
        destruct (Nat.eq_dec j i) as [->|Hne].
        -- rewrite Hi in Ej. inversion Ej; subst.
           assert (Hi1 : nth_error (upd_nth i (fun _ => th1) ths) i = Some th1).
           { rewrite nth_error_upd_nth_const, Nat.eqb_refl, Hi. reflexivity. }
           destruct (IH _ _ _ _ _ _ _ Er Hi1) as (th' & Hn & Hle). exists th'. split; auto.
           pose proof (step_decreases _ _ _ _ _ _ Ef Es). lia.
        -- assert (Hi1 : nth_error (upd_nth j (fun _ => th1) ths) i = Some th).
           { rewrite nth_error_upd_nth_other; auto. }
           destruct (IH _ _ _ _ _ _ _ Er Hi1) as (th' & Hn & Hle). exists th'. split; auto.
    + destruct (IH _ _ _ _ _ _ _ Hrun Hi) as (th' & Hn & Hle). exists th'. split; auto.
      destruct (Nat.eq_dec j i) as [->|Hne]; [congruence|exact Hle].
Qed.

(* a thread scheduled at least steps_left times has answered all its queries *)
Theorem wait_free cfg orc sched st ths st' ths' tr i th :
  run cfg orc sched st ths = (st', ths', tr) -> nth_error ths i = Some th ->
  steps_left cfg th <= count_occ Nat.eq_dec sched i ->
  exists th', nth_error ths' i = Some th' /\ finished th' = true /\ t_todo th' = [] /\
              rev (map fst (t_done th')) = program th.
Proof.
  intros Hrun Hi Hc.
  destruct (run_progress _ _ _ _ _ _ _ _ _ _ Hrun Hi) as (th' & Hn & Hle).
  exists th'. split; auto.
  assert (Hf : finished th' = true) by (apply (proj1 (steps_left_finished cfg _)); lia).
  split; auto.
  pose proof (run_program _ _ _ _ _ _ _ _ Hrun) as HP.
  assert (Hp : program th' = program th).
  { clear - HP Hi Hn. revert i Hi Hn. induction HP; intros [|i] Hi Hn; cbn in *; try discriminate.
    - inversion Hi; inversion Hn; subst. congruence.
    - eauto. }
  unfold finished in Hf. unfold program in Hp at 1.
  destruct (t_pc th'); try discriminate. destruct (t_todo th'); try discriminate.
  split; auto. cbn in Hp. now rewrite app_nil_r in Hp.
Qed.

(* ================================================================== *)
(* threads sharing an id (nested queries, recycled idents) under the discipline of Threads.disciplined *)
Section SharedIds.
Variable cfg : config.
Variable orc : oracle.

Lemma pc_inv_insensitive st st' ow l t p :
  slot_sensitive p = false -> pc_inv cfg st ow t p -> pc_inv cfg st' (ow ++ l) t p.
Proof.
  intros Hs H. destruct p; cbn in *; try discriminate; auto using nth_error_app_keep.
  destruct H as [H1 H2]. split; auto using nth_error_app_keep.
Qed.

Lemma others_ok_spec i t : forall ths j0, others_ok i t j0 ths = true ->
  forall k th2, nth_error ths k = Some th2 -> j0 + k <> i ->
  t_id th2 <> t \/ slot_sensitive (t_pc th2) = false.
Proof.
  induction ths as [|x ths IH]; intros j0 H k th2 Hn Hne; [destruct k; discriminate|].
  cbn in H. apply andb_true_iff in H. destruct H as [H1 H2].
  destruct k as [|k]; cbn in Hn.
  - inversion Hn; subst. apply orb_true_iff in H1. destruct H1 as [H1|H1].
    + apply orb_true_iff in H1. destruct H1 as [H1|H1].
      * apply Nat.eqb_eq in H1. lia.
      * left. apply negb_true_iff in H1. now apply Nat.eqb_neq in H1.
    + right. now apply negb_true_iff in H1.
  - apply (IH (S j0) H2 k th2 Hn). lia.
Qed.

Lemma upd_forall_idx (P P' : thread -> Prop) : forall ths i th th1 (j0 : nat),
  nth_error ths i = Some th -> Forall P ths -> P' th1 ->
  (forall k th2, nth_error ths k = Some th2 -> k <> i -> P th2 -> P' th2) ->
  Forall P' (upd_nth i (fun _ => th1) ths).
Proof.
  induction ths as [|x ths IH]; intros [|i] th th1 j0 Hn Hall H1 Hoth; cbn in *; try discriminate.
  - inversion Hall; subst. constructor; auto.
    rewrite Forall_forall in *. intros th2 Hin. apply In_nth_error in Hin. destruct Hin as [k Hk].
    apply (Hoth (S k) th2); auto. apply H3. eapply nth_error_In; eauto.
  - inversion Hall; subst. constructor.
    + apply (Hoth 0 x); auto.
    + eapply (IH i th th1 j0); eauto. intros k th2 Hk Hne. apply (Hoth (S k) th2); auto.
Qed.

Lemma run_inv_disciplined : c_mode cfg <> MAutoUncached ->
  forall sched st ths st' ths' tr,
  sys_inv cfg orc st ths -> disciplined cfg orc sched st ths = true ->
  run cfg orc sched st ths = (st', ths', tr) ->
  sys_inv cfg orc st' ths'.
Proof.
  intros Hmode. induction sched as [|i sched IH]; intros st ths st' ths' tr Hinv Hd Hrun; cbn in Hrun, Hd.
  - inversion Hrun; subst. auto.
  - destruct (nth_error ths i) as [th|] eqn:En; [|eauto].
    destruct (finished th); [eauto|].
    apply andb_true_iff in Hd. destruct Hd as [Hok Hd].
    destruct (step_pc cfg orc st th) as [st1 th1] eqn:Es.
    destruct (run cfg orc sched st1 (upd_nth i (fun _ => th1) ths)) as [[st2 ths2] tr2] eqn:Er.
    inversion Hrun; subst; clear Hrun.
    destruct Hinv as (ow & Hh & Hc & Hall).
    assert (Hth : thread_inv cfg orc st ow th).
    { rewrite Forall_forall in Hall. apply Hall. eapply nth_error_In; eauto. }
    destruct (step_inv cfg orc Hmode _ _ _ _ _ Hh Hc Hth Es) as (l & Hh1 & Hc1 & Hth1 & Hid & Hfr).
    eapply IH; [| exact Hd | exact Er].
    exists (ow ++ l). split; [exact Hh1|split; [exact Hc1|]].
    eapply (upd_forall_idx _ _ ths i th th1 0); eauto.
    intros k th2 Hk Hne [Hr2 Hp2]. split; auto.
    destruct (others_ok_spec _ _ _ _ Hok k th2 Hk) as [Ht|Hs]; [cbn; lia| |].
    + eapply pc_inv_other; eauto.
    + eapply pc_inv_insensitive; eauto.
Qed.

Theorem all_results_own_disciplined : c_mode cfg <> MAutoUncached ->
  forall sched ths, Forall fresh_thread ths ->
  disciplined cfg orc sched (init_state cfg) ths = true ->
  forall st' ths' tr, run cfg orc sched (init_state cfg) ths = (st', ths', tr) ->
  Forall (results_own orc) ths'.
Proof.
  intros Hmode sched ths Hfresh Hd st' ths' tr Hrun.
  destruct (run_inv_disciplined Hmode _ _ _ _ _ _ (init_inv cfg orc _ Hfresh) Hd Hrun) as (ow & _ & _ & Hall).
  rewrite Forall_forall in *. intros th Hin. apply (Hall th Hin).
Qed.

(* distinct ids are a special case *)
Lemma others_ok_nodup i th : forall ths j0, (forall k th2, nth_error ths k = Some th2 -> j0 + k <> i -> t_id th2 <> t_id th) ->
  others_ok i (t_id th) j0 ths = true.
Proof.
  induction ths as [|x ths IH]; intros j0 H; cbn; auto.
  apply andb_true_iff. split.
  - destruct (Nat.eqb j0 i) eqn:E; cbn; auto.
    apply Nat.eqb_neq in E. assert (Hx : t_id x <> t_id th) by (apply (H 0 x); cbn; auto; lia).
    apply Nat.eqb_neq in Hx. rewrite Hx. reflexivity.
  - apply IH. intros k th2 Hk Hne. apply (H (S k) th2); auto. lia.
Qed.

Lemma nodup_nth_tid (ths : list thread) : NoDup (map t_id ths) ->
  forall i k th th2, nth_error ths i = Some th -> nth_error ths k = Some th2 -> k <> i -> t_id th2 <> t_id th.
Proof.
  intros Hnd i k th th2 Hi Hk Hne E.
  apply Hne. eapply (proj1 (NoDup_nth_error (map t_id ths)) Hnd k i).
  - apply nth_error_Some. rewrite nth_error_map, Hk. discriminate.
  - rewrite !nth_error_map, Hi, Hk. cbn. congruence.
Qed.

Lemma nodup_disciplined : forall sched st ths, NoDup (map t_id ths) -> disciplined cfg orc sched st ths = true.
Proof.
  induction sched as [|i sched IH]; intros st ths Hnd; cbn; auto.
  destruct (nth_error ths i) as [th|] eqn:En; auto.
  destruct (finished th); auto.
  apply andb_true_iff. split.
  - apply others_ok_nodup. intros k th2 Hk Hne. eapply nodup_nth_tid; eauto.
  - destruct (step_pc cfg orc st th) as [st1 th1] eqn:Es. apply IH.
    destruct (step_program _ _ _ _ _ _ Es) as [_ Hid]. rewrite (map_tid_upd _ _ _ _ En Hid). exact Hnd.
Qed.

End SharedIds.

(* non-vacuity: a nested query.  Thread position 0 (id 7) asks query 0; while it is parked inside its first trial,
   position 1 -- same id 7: the nested call -- asks query 1 from beginning to end; then position 0 finishes.
   The schedule is disciplined and both get their own trees; had the slot been published BEFORE the search
   (position 0 parked at PRFetch instead), the discipline would be violated. *)
Definition nest_cfg : config := mkC MReusable OwFalse false 1 false.
Definition nest_orc : oracle :=
  mkO (fun q => q) (fun _ => true) (fun q o k => Some (Z.of_nat (q + k))) (fun _ _ _ => false) (fun _ => None).
Definition nest_threads : list thread := [start_thread 7 [0]; start_thread 7 [1]].
Definition nest_sched : list nat := [0; 0; 0; 0] ++ repeat 1 8 ++ repeat 0 4.
Lemma nested_example :
  disciplined nest_cfg nest_orc nest_sched (init_state nest_cfg) nest_threads = true /\
  enc_results (snd (fst (run nest_cfg nest_orc nest_sched (init_state nest_cfg) nest_threads)))
  = [[[0; 0; 0; 0; 0]]; [[1; 0; 1; 1; 0]]] /\
  disciplined nest_cfg nest_orc ([0;0;0;0;0;0;0] ++ repeat 1 8 ++ [0]) (init_state nest_cfg) nest_threads = false.
Proof. vm_compute. repeat split. Qed.

(* ================================================================== *)
(* option flips between / during queries: the invariant depends on the configuration only through its mode *)
Lemma pc_inv_mode c1 c2 st ow t p : c_mode c1 = c_mode c2 -> pc_inv c1 st ow t p -> pc_inv c2 st ow t p.
Proof. intros E H. destruct p; cbn in *; auto; congruence. Qed.

Lemma sys_inv_mode c1 c2 orc st ths : c_mode c1 = c_mode c2 -> sys_inv c1 orc st ths -> sys_inv c2 orc st ths.
Proof.
  intros E (ow & Hh & Hc & Hall). exists ow. split; [exact Hh|split; [exact Hc|]].
  rewrite Forall_forall in *. intros th Hin. destruct (Hall th Hin) as [H1 H2]. split; auto.
  eapply pc_inv_mode; eauto.
Qed.

Lemma run_segs_inv orc m : m <> MAutoUncached ->
  forall segs, Forall (fun s => c_mode (fst s) = m) segs ->
  forall cfg0 st ths st' ths' tr, c_mode cfg0 = m ->
  NoDup (map t_id ths) -> sys_inv cfg0 orc st ths ->
  run_segs orc segs st ths = (st', ths', tr) -> sys_inv cfg0 orc st' ths'.
Proof.
  intros Hm. induction segs as [|[cfg sched] segs IH]; intros Hall cfg0 st ths st' ths' tr E0 Hnd Hinv Hrun; cbn in Hrun.
  - inversion Hrun; subst. auto.
  - inversion Hall; subst. cbn in H1.
    destruct (run cfg orc sched st ths) as [[st1 ths1] tr1] eqn:Er.
    destruct (run_segs orc segs st1 ths1) as [[st2 ths2] tr2] eqn:Es. inversion Hrun; subst; clear Hrun.
    assert (Hcm : c_mode cfg <> MAutoUncached) by congruence.
    assert (Hinv1 : sys_inv cfg orc st ths) by (eapply sys_inv_mode; [|exact Hinv]; congruence).
    destruct (run_inv cfg orc Hcm _ _ _ _ _ _ Hnd Hinv1 Er) as [Hi1 Hmap].
    eapply (IH H2 cfg0 st1 ths1); eauto.
    + rewrite Hmap. exact Hnd.
    + eapply sys_inv_mode; [|exact Hi1]. congruence.
Qed.

(* every tree returned is the asker's, whatever options are flipped between or during the queries *)
Theorem results_own_reconfigured orc m : m <> MAutoUncached ->
  forall segs, Forall (fun s => c_mode (fst s) = m) segs ->
  forall cfg0, c_mode cfg0 = m ->
  forall ths, NoDup (map t_id ths) -> Forall fresh_thread ths ->
  forall st' ths' tr, run_segs orc segs (init_state cfg0) ths = (st', ths', tr) ->
  Forall (results_own orc) ths'.
Proof.
  intros Hm segs Hall cfg0 E0 ths Hnd Hfresh st' ths' tr Hrun.
  destruct (run_segs_inv orc m Hm segs Hall cfg0 _ _ _ _ _ E0 Hnd (init_inv cfg0 orc _ Hfresh) Hrun)
    as (ow & _ & _ & H).
  rewrite Forall_forall in *. intros th Hin. apply (H th Hin).
Qed.

(* the F16 history in the model of the code as it stands: overwrite=True; search A; search B; cache_only := True;
   search A  ->  the last query RAISES (KeyError), it does not hand out B's tree *)
Definition flip_orc : oracle :=
  mkO (fun q => q) (fun _ => true) (fun q o k => Some (Z.of_nat (q + k))) (fun _ _ _ => false) (fun _ => None).
Lemma flip_example :
  enc_results (snd (fst (run_segs flip_orc
     [(mkC MReusable OwTrue false 0 false, repeat 0 14); (mkC MReusable OwTrue true 0 false, repeat 0 4)]
     (init_state (mkC MReusable OwTrue false 0 false)) [start_thread 7 [0; 1; 0]])))
  = [[[0; 0; 0; 0; 0]; [1; 0; 1; 1; 0]; [0; 9]]].
Proof. vm_compute. reflexivity. Qed.

(* ================================================================== *)
(* the cache key of hash method 'a' determines the query up to what a positional path depends on *)
From Coq Require Import Permutation.

Lemma insert_by_perm {A} (le : A -> A -> bool) x l : Permutation (insert_by le x l) (x :: l).
Proof.
  induction l as [|y l IH]; cbn; auto.
  destruct (le y x); auto.
  eapply perm_trans; [apply perm_skip; exact IH|]. apply perm_swap.
Qed.

Lemma sort_by_perm_acc {A} (le : A -> A -> bool) l : forall acc,
  Permutation (fold_left (fun acc x => insert_by le x acc) l acc) (l ++ acc).
Proof.
  induction l as [|x l IH]; intros acc; cbn; auto.
  eapply perm_trans; [apply IH|].
  eapply perm_trans; [apply Permutation_app_head; apply insert_by_perm|].
  apply Permutation_sym. apply Permutation_middle.
Qed.

Lemma sort_by_perm {A} (le : A -> A -> bool) l : Permutation (sort_by le l) l.
Proof. unfold sort_by. eapply perm_trans; [apply sort_by_perm_acc|]. now rewrite app_nil_r. Qed.

(* equal keys => the same number of tensors and, POSITION BY POSITION, the same index multiset; the same output
   indices; the same size of every index *)
Theorem key_a_positional i1 o1 s1 i2 o2 s2 :
  key_a i1 o1 s1 = key_a i2 o2 s2 ->
  length i1 = length i2 /\
  (forall k, Permutation (nth k i1 []) (nth k i2 [])) /\
  Permutation o1 o2 /\ Permutation s1 s2.
Proof.
  unfold key_a. intros H. inversion H as [[Hi Ho Hs]]. clear H.
  split; [|split; [|split]].
  - rewrite <- (map_length sort_nat i1), <- (map_length sort_nat i2). now rewrite Hi.
  - intros k.
    assert (E : sort_nat (nth k i1 []) = sort_nat (nth k i2 [])).
    { assert (E0 : nth k (map sort_nat i1) (sort_nat []) = nth k (map sort_nat i2) (sort_nat [])) by now rewrite Hi.
      now rewrite !map_nth in E0. }
    eapply perm_trans; [apply Permutation_sym; apply (sort_by_perm Nat.leb)|].
    unfold sort_nat in E. rewrite E. apply sort_by_perm.
  - eapply perm_trans; [apply Permutation_sym; apply (sort_by_perm Nat.leb)|].
    unfold sort_nat in Ho. rewrite Ho. apply sort_by_perm.
  - eapply perm_trans; [apply Permutation_sym; apply (sort_by_perm (fun a b => Nat.leb (fst a) (fst b)))|].
    unfold sort_sizes in Hs. rewrite Hs. apply sort_by_perm.
Qed.

(* two orderings of one tensor list have different keys (the red-team key sorted the terms and made them equal) *)
Lemma key_a_sees_tensor_order :
  key_a_eqb [[0;1]; [1;2]; [2;3]] [0;3] [(0,2);(1,50);(2,3);(3,40)]
            [[1;2]; [0;1]; [2;3]] [0;3] [(0,2);(1,50);(2,3);(3,40)] = false /\
  key_a_eqb [[0;1]; [1;2]; [2;3]] [0;3] [(0,2);(1,50);(2,3);(3,40)]
            [[1;0]; [2;1]; [2;3]] [3;0] [(3,40);(1,50);(2,3);(0,2)] = true.
Proof. vm_compute. split; reflexivity. Qed.

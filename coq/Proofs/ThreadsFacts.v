(* ThreadsFacts.v -- lemmas about Model/Threads.v (C16). *)
From Coq Require Import Lia.
From Ctg Require Import Base Threads.

(* ------------------------------------------------------------------ *)
(* association lists, heaps                                            *)
Lemma aget_aset_same {A} k (v : A) d : aget k (aset k v d) = Some v.
Proof.
  induction d as [|[k' w] d IH]; cbn.
  - now rewrite Nat.eqb_refl.
  - destruct (Nat.eqb k' k) eqn:E; cbn; rewrite E; auto.
Qed.

Lemma aget_aset_other {A} k k2 (v : A) d : k2 <> k -> aget k2 (aset k v d) = aget k2 d.
Proof.
  intros Hne. induction d as [|[k' w] d IH]; cbn.
  - destruct (Nat.eqb k k2) eqn:E; auto. apply Nat.eqb_eq in E. congruence.
  - destruct (Nat.eqb k' k) eqn:E; cbn.
    + apply Nat.eqb_eq in E. subst k'.
      destruct (Nat.eqb k k2) eqn:E2; auto. apply Nat.eqb_eq in E2. congruence.
    + destruct (Nat.eqb k' k2); auto.
Qed.

Lemma aget_aset_inv {A} k k2 (v w : A) d :
  aget k2 (aset k v d) = Some w -> (k2 = k /\ w = v) \/ (k2 <> k /\ aget k2 d = Some w).
Proof.
  intros H. destruct (Nat.eq_dec k2 k) as [->|Hne].
  - rewrite aget_aset_same in H. left. split; congruence.
  - rewrite aget_aset_other in H by auto. right. auto.
Qed.

Lemma length_upd_nth {A} n (f : A -> A) l : length (upd_nth n f l) = length l.
Proof. revert n. induction l; intros [|n]; cbn; auto. Qed.

Lemma nth_error_upd_nth_same {A} n (f : A -> A) l :
  nth_error (upd_nth n f l) n = option_map f (nth_error l n).
Proof. revert n. induction l; intros [|n]; cbn; auto. Qed.

Lemma nth_error_upd_nth_other {A} n m (f : A -> A) l : n <> m ->
  nth_error (upd_nth n f l) m = nth_error l m.
Proof. revert n m. induction l; intros [|n] [|m] H; cbn; auto; try congruence. Qed.

Lemma nth_error_upd_nth_inv {A} n m (f : A -> A) l y :
  nth_error (upd_nth n f l) m = Some y ->
  exists x, nth_error l m = Some x /\ ((n = m /\ y = f x) \/ (n <> m /\ y = x)).
Proof.
  intros H. destruct (Nat.eq_dec n m) as [->|Hne].
  - rewrite nth_error_upd_nth_same in H. destruct (nth_error l m); cbn in H; try discriminate.
    eexists. split; eauto. left. split; congruence.
  - rewrite nth_error_upd_nth_other in H by auto. eexists. split; eauto.
Qed.

Lemma nth_error_snoc_inv {A} (l : list A) x n y :
  nth_error (l ++ [x]) n = Some y -> nth_error l n = Some y \/ (n = length l /\ y = x).
Proof.
  intros H. destruct (Nat.lt_ge_cases n (length l)) as [Hlt|Hge].
  - rewrite nth_error_app1 in H by auto. auto.
  - rewrite nth_error_app2 in H by auto. right.
    destruct (n - length l) as [|d] eqn:E; cbn in H.
    + split; [lia|congruence].
    + destruct d; discriminate.
Qed.

Lemma nth_error_app_keep {A} (l l2 : list A) n y :
  nth_error l n = Some y -> nth_error (l ++ l2) n = Some y.
Proof.
  intros H. rewrite nth_error_app1; auto. apply nth_error_Some. congruence.
Qed.

Lemma nth_error_snoc_new {A} (l : list A) x : nth_error (l ++ [x]) (length l) = Some x.
Proof. rewrite nth_error_app2 by lia. now rewrite Nat.sub_diag. Qed.

(* ------------------------------------------------------------------ *)
Section Facts.
Variable cfg : config.
Variable orc : oracle.

(* THE PROPERTY: the tree answers the query it was returned for *)
Definition own (q : qid) (t : tree) : Prop :=
  match t with
  | TSearch q' _ _ => q' = q
  | TDirect q' => q' = q
  | TRecon q' src => q' = q /\ o_fp orc src = o_fp orc q
  end.

Lemma own_b_spec q t : own_b orc q t = true <-> own q t.
Proof.
  destruct t; cbn; rewrite ?andb_true_iff, ?Nat.eqb_eq; tauto.
Qed.

Definition results_own (th : thread) : Prop :=
  forall q t, In (q, Some t) (t_done th) -> own q t.

Lemma all_own_b_spec ths : all_own_b orc ths = true <-> Forall results_own ths.
Proof.
  unfold all_own_b. rewrite forallb_forall, Forall_forall.
  split; intros H th Hin.
  - intros q t Hd. specialize (H th Hin). rewrite forallb_forall in H.
    specialize (H _ Hd). cbn in H. now apply own_b_spec.
  - apply forallb_forall. intros [q [t|]] Hd; cbn; auto. apply own_b_spec. now apply (H th Hin).
Qed.

(* ghost: ow lists, per HyperOptimizer object, the query it was created for *)
Definition heap_inv (st : state) (ow : list qid) : Prop :=
  length ow = length (hheap st) /\
  forall o h s t, nth_error (hheap st) o = Some h -> h_best h = Some (s, t) ->
    exists q o' k, t = TSearch q o' k /\ nth_error ow o = Some q.

(* every cache entry sits under the fingerprint of the query its path was found for *)
Definition cache_inv (st : state) : Prop :=
  forall ri r key e, nth_error (rheap st) ri = Some r -> aget key (r_cache r) = Some e ->
    o_fp orc (e_src e) = key.

(* whatever slot t of reusable object ri holds was created for q *)
Definition slot_ok (st : state) (ow : list qid) (t : tid) (q : qid) (ri : nat) : Prop :=
  forall r o, nth_error (rheap st) ri = Some r -> aget t (r_slots r) = Some o -> nth_error ow o = Some q.

Definition pc_inv (st : state) (ow : list qid) (t : tid) (p : pc) : Prop :=
  match p with
  | PALookup _ | PAStore _ _ => c_mode cfg = MAutoCached
  | PRTrial q _ _ o _ => nth_error ow o = Some q
  | PHTrial q o _ => nth_error ow o = Some q
  | PRPublish q _ _ o tr => nth_error ow o = Some q /\ exists o' k, tr = TSearch q o' k
  | PRCacheSet q ri con => e_src con = q /\ slot_ok st ow t q ri
  | PRCacheOld q ri con => e_src con = q /\ slot_ok st ow t q ri
  | PRFetch q ri => slot_ok st ow t q ri
  | _ => True
  end.

Definition thread_inv (st : state) (ow : list qid) (th : thread) : Prop :=
  results_own th /\ pc_inv st ow (t_id th) (t_pc th).

(* what a step of thread t leaves untouched: the slots of all other threads *)
Definition frame (t : tid) (st st' : state) : Prop :=
  forall ri r' t2 o, t2 <> t -> nth_error (rheap st') ri = Some r' -> aget t2 (r_slots r') = Some o ->
    exists r, nth_error (rheap st) ri = Some r /\ aget t2 (r_slots r) = Some o.

Lemma frame_refl t st : frame t st st.
Proof. intros ri r' t2 o _ H1 H2. eauto. Qed.

Lemma frame_rheap t st st' : rheap st' = rheap st -> frame t st st'.
Proof. intros E ri r' t2 o _ H1 H2. rewrite E in H1. eauto. Qed.

Lemma results_own_finish th q r :
  results_own th -> (forall t, r = Some t -> own q t) -> results_own (finish th q r).
Proof.
  intros H Hr q' t' [Heq|Hin]; [|eauto].
  inversion Heq; subst. auto.
Qed.

Lemma results_own_set_pc th p : results_own th -> results_own (set_pc th p).
Proof. auto. Qed.

Lemma heap_inv_tree_of st ow o q tr :
  heap_inv st ow -> nth_error ow o = Some q -> tree_of st o = Some tr -> exists o' k, tr = TSearch q o' k.
Proof.
  intros [_ H] Ho Ht. unfold tree_of in Ht.
  destruct (nth_error (hheap st) o) as [h|] eqn:Eh; try discriminate.
  destruct (h_best h) as [[s t]|] eqn:Eb; try discriminate. inversion Ht; subst.
  destruct (H _ _ _ _ Eh Eb) as (q' & o' & k & -> & Hq). rewrite Ho in Hq. inversion Hq; subst. eauto.
Qed.

Lemma heap_inv_alloc st ow q :
  heap_inv st ow -> heap_inv (fst (alloc_h st)) (ow ++ [q]) /\ nth_error (ow ++ [q]) (snd (alloc_h st)) = Some q.
Proof.
  intros [Hl H]. cbn. split; [split|].
  - cbn. rewrite !app_length. cbn. lia.
  - intros o h s t Hn Hb. cbn in Hn. apply nth_error_snoc_inv in Hn. destruct Hn as [Hn|[_ ->]].
    + destruct (H _ _ _ _ Hn Hb) as (q' & o' & k & -> & Hq). exists q', o', k. split; auto.
      now apply nth_error_app_keep.
    + cbn in Hb. discriminate.
  - rewrite <- Hl. apply nth_error_snoc_new.
Qed.

Lemma heap_inv_ext_r st ow f ri : heap_inv st ow -> heap_inv (upd_r st ri f) ow.
Proof. intros H. exact H. Qed.

Lemma heap_inv_trial st ow q o :
  heap_inv st ow -> nth_error ow o = Some q -> heap_inv (upd_h st o (trial_on orc q o)) ow.
Proof.
  intros [Hl H] Ho. split; cbn.
  - now rewrite length_upd_nth.
  - intros o2 h s t Hn Hb. apply nth_error_upd_nth_inv in Hn.
    destruct Hn as (h0 & Hn0 & [[-> ->]|[_ ->]]).
    + unfold trial_on in Hb. cbn in Hb.
      destruct (score_lt _ _).
      * inversion Hb; subst. eauto.
      * eauto.
    + eauto.
Qed.

Lemma cache_inv_h st o f : cache_inv st -> cache_inv (upd_h st o f).
Proof. intros H. exact H. Qed.

Lemma slot_ok_ext st ow l t q ri : slot_ok st ow t q ri -> slot_ok st (ow ++ l) t q ri.
Proof. intros H r o H1 H2. apply nth_error_app_keep. eauto. Qed.

Lemma pc_inv_other st st' ow l t1 t p :
  pc_inv st ow t p -> frame t1 st st' -> t <> t1 -> pc_inv st' (ow ++ l) t p.
Proof.
  intros H Hf Hne.
  assert (Hs : forall q ri, slot_ok st ow t q ri -> slot_ok st' (ow ++ l) t q ri).
  { intros q ri Hs r' o H1 H2. destruct (Hf _ _ _ _ Hne H1 H2) as (r & Hr & Ha).
    apply nth_error_app_keep. eauto. }
  destruct p; cbn in *; auto using nth_error_app_keep.
  - destruct H as [H1 H2]. split; auto using nth_error_app_keep.
  - destruct H; split; auto.
  - destruct H; split; auto.
Qed.

Ltac inv H := inversion H; subst; clear H.

(* goal shape: exists l, heap_inv /\ cache_inv /\ (results_own /\ pc_inv) /\ t_id = /\ frame *)
Ltac close_with L :=
  exists L; try rewrite app_nil_r;
  split; [try eassumption
  | split; [try eassumption
  | split; [split; [try eassumption | cbn]
  | split; [try reflexivity | try (apply frame_rheap; reflexivity)]]]].
Ltac close := close_with (@nil qid).
Ltac raise_case Hres :=
  try (apply results_own_finish; [exact Hres | intros ? ?; discriminate]).

(* a step of one thread preserves every invariant and touches no other thread's slot *)
Lemma step_inv : c_mode cfg <> MAutoUncached ->
  forall st ow th st' th',
  heap_inv st ow -> cache_inv st -> thread_inv st ow th ->
  step_pc cfg orc st th = (st', th') ->
  exists l, heap_inv st' (ow ++ l) /\ cache_inv st' /\ thread_inv st' (ow ++ l) th'
            /\ t_id th' = t_id th /\ frame (t_id th) st st'.
Proof.
  intros Hmode st ow th st' th' Hh Hc [Hres Hpc] Hstep.
  unfold step_pc in Hstep.
  destruct (t_pc th) eqn:Epc; cbn in Hpc.
  - (* PIdle *)
    destruct (t_todo th) as [|q rest] eqn:Etodo.
    + inv Hstep. close. rewrite Epc. exact I.
    + destruct (c_mode cfg) eqn:Em; try congruence.
      * (* preset *) inv Hstep. close; auto.
        apply results_own_finish; [exact Hres|]. intros t Ht. inv Ht. reflexivity.
      * (* reusable *) inv Hstep. close; auto.
      * (* auto cached *)
        destruct (o_hard orc q); inv Hstep; close; auto.
        apply results_own_finish; [exact Hres|]. intros t Ht. inv Ht. reflexivity.
      * (* fresh *)
        destruct (o_hard orc q).
        -- destruct (alloc_h st) as [st1 o] eqn:Ea. inv Hstep.
           destruct (heap_inv_alloc st ow q Hh) as [H1 H2]. rewrite Ea in H1, H2. cbn in H1, H2.
           unfold alloc_h in Ea. inv Ea.
           close_with [q]; auto.
        -- inv Hstep. close; auto.
           apply results_own_finish; [exact Hres|]. intros t Ht. inv Ht. reflexivity.
  - (* PALookup *)
    rewrite Hpc in Hstep.
    destruct (aget (t_id th) (bythread st)) as [x|].
    + inv Hstep. close; auto.
      unfold dispatch. rewrite Hpc. exact I.
    + unfold alloc_r in Hstep. inv Hstep. close; auto.
      * intros ri r key e Hn Ha. cbn in Hn. apply nth_error_snoc_inv in Hn.
        destruct Hn as [Hn|[_ ->]]; [eauto|]. cbn in Ha. discriminate.
      * intros ri r' t2 o Hne Hn Ha. cbn in Hn. apply nth_error_snoc_inv in Hn.
        destruct Hn as [Hn|[_ ->]]; [eauto|]. cbn in Ha. discriminate.
  - (* PAStore *)
    inv Hstep. close; auto.
    unfold dispatch. rewrite Hpc. exact I.
  - (* PRHash *)
    destruct (nth_error (rheap st) ri) as [r|] eqn:Er.
    + destruct (_ || _).
      * destruct (c_cache_only cfg); inv Hstep; close; auto; raise_case Hres.
      * inv Hstep. close; auto.
    + inv Hstep. close; auto; raise_case Hres.
  - (* PRAlloc *)
    destruct (alloc_h st) as [st1 o] eqn:Ea. inv Hstep.
    destruct (heap_inv_alloc st ow q Hh) as [H1 H2]. rewrite Ea in H1, H2. cbn in H1, H2.
    unfold alloc_h in Ea. inv Ea. close_with [q]; auto.
  - (* PRTrial *)
    pose proof (heap_inv_trial st ow q o Hh Hpc) as Hh1.
    destruct (loop_ends orc q o st n).
    + destruct (tree_of _ o) as [tr|] eqn:Et; inv Hstep; close; auto; raise_case Hres.
      split; auto. eapply heap_inv_tree_of; eauto.
    + inv Hstep. close; auto.
  - (* PRPublish *)
    destruct Hpc as [Ho (o' & k & ->)].
    assert (Hslot : slot_ok (upd_r st ri (fun r => mkR (aset (t_id th) o (r_slots r)) (r_cache r))) ow (t_id th) q ri).
    { intros r' o2 Hn Ha. cbn in Hn. apply nth_error_upd_nth_inv in Hn.
      destruct Hn as (r0 & Hn0 & [[_ ->]|[Hx _]]); [|congruence].
      cbn in Ha. rewrite aget_aset_same in Ha. inv Ha. exact Ho. }
    assert (Hci : cache_inv (upd_r st ri (fun r => mkR (aset (t_id th) o (r_slots r)) (r_cache r)))).
    { intros ri2 r' key e Hn Ha. cbn in Hn. apply nth_error_upd_nth_inv in Hn.
      destruct Hn as (r0 & Hn0 & [[_ ->]|[_ ->]]); eauto. }
    assert (Hfr : frame (t_id th) st (upd_r st ri (fun r => mkR (aset (t_id th) o (r_slots r)) (r_cache r)))).
    { intros ri2 r' t2 o2 Hne Hn Ha. cbn in Hn. apply nth_error_upd_nth_inv in Hn.
      destruct Hn as (r0 & Hn0 & [[_ ->]|[_ ->]]); eauto.
      cbn in Ha. rewrite aget_aset_other in Ha by auto. eauto. }
    destruct (c_ow cfg); [| |destruct m]; inv Hstep; close; auto.
  - (* PRCacheSet *)
    destruct Hpc as [Hsrc Hslot].
    set (st1 := upd_r st ri (fun r => mkR (r_slots r) (aset (o_fp orc q) con (r_cache r)))) in *.
    assert (Hci : cache_inv st1).
    { intros ri2 r' key e Hn Ha. cbn in Hn. apply nth_error_upd_nth_inv in Hn.
      destruct Hn as (r0 & Hn0 & [[_ ->]|[_ ->]]); eauto.
      cbn in Ha. apply aget_aset_inv in Ha. destruct Ha as [[-> ->]|[_ Ha]]; eauto. }
    assert (Hsl : slot_ok st1 ow (t_id th) q ri).
    { intros r' o Hn Ha. cbn in Hn. apply nth_error_upd_nth_inv in Hn.
      destruct Hn as (r0 & Hn0 & [[_ ->]|[_ ->]]); eauto. }
    assert (Hfr : frame (t_id th) st st1).
    { intros ri2 r' t2 o Hne Hn Ha. cbn in Hn. apply nth_error_upd_nth_inv in Hn.
      destruct Hn as (r0 & Hn0 & [[_ ->]|[_ ->]]); eauto. }
    destruct (c_call cfg); inv Hstep; close; auto.
    apply results_own_finish; [exact Hres|]. intros t Ht. inv Ht. cbn. split; congruence.
  - (* PRCacheOld *)
    destruct Hpc as [Hsrc Hslot].
    destruct (nth_error (rheap st) ri) as [r|] eqn:Er.
    + destruct (aget (o_fp orc q) (r_cache r)) as [old|] eqn:Eo.
      * destruct (score_lt _ _); inv Hstep; close; auto.
        apply results_own_finish; [exact Hres|]. intros t Ht. inv Ht. cbn. split; auto.
        eapply Hc; eauto.
      * inv Hstep. close; auto; raise_case Hres.
    + inv Hstep. close; auto; raise_case Hres.
  - (* PRFetch *)
    destruct (nth_error (rheap st) ri) as [r|] eqn:Er.
    + destruct (aget (t_id th) (r_slots r)) as [o|] eqn:Eo.
      * inv Hstep. close; auto.
        apply results_own_finish; [exact Hres|]. intros t Ht.
        destruct (heap_inv_tree_of st' ow o q t Hh (Hpc _ _ Er Eo) Ht) as (o' & k & ->). reflexivity.
      * inv Hstep. close; auto; raise_case Hres.
    + inv Hstep. close; auto; raise_case Hres.
  - (* PRCacheGet *)
    destruct (nth_error (rheap st) ri) as [r|] eqn:Er.
    + destruct (aget (o_fp orc q) (r_cache r)) as [con|] eqn:Eo.
      * inv Hstep. close; auto.
        apply results_own_finish; [exact Hres|]. intros t Ht. inv Ht. cbn. split; auto.
        eapply Hc; eauto.
      * inv Hstep. close; auto; raise_case Hres.
    + inv Hstep. close; auto; raise_case Hres.
  - (* PHTrial *)
    pose proof (heap_inv_trial st ow q o Hh Hpc) as Hh1.
    destruct (loop_ends orc q o st n); inv Hstep; close; auto.
    apply results_own_finish; [exact Hres|]. intros t Ht.
    destruct (heap_inv_tree_of _ ow o q t Hh1 Hpc Ht) as (o' & k & ->). reflexivity.
Qed.

(* ------------------------------------------------------------------ *)
(* the whole system                                                    *)
Definition sys_inv (st : state) (ths : list thread) : Prop :=
  exists ow, heap_inv st ow /\ cache_inv st /\ Forall (thread_inv st ow) ths.

Lemma upd_forall (P P' : thread -> Prop) ths i th th1 :
  nth_error ths i = Some th -> NoDup (map t_id ths) -> Forall P ths -> P' th1 ->
  (forall th2, P th2 -> t_id th2 <> t_id th -> P' th2) ->
  Forall P' (upd_nth i (fun _ => th1) ths).
Proof.
  revert i. induction ths as [|x ths IH]; intros [|i] Hn Hnd Hall H1 Hoth; cbn in *; try discriminate.
  - inv Hn. inv Hnd. inv Hall. constructor; auto.
    rewrite Forall_forall in *. intros th2 Hin. apply Hoth; auto.
    intros E. apply H2. rewrite <- E. now apply in_map.
  - inv Hnd. inv Hall. constructor.
    + apply Hoth; auto. intros E. apply H2. rewrite E. apply in_map. eapply nth_error_In; eauto.
    + eapply IH; eauto.
Qed.

Lemma map_tid_upd ths i th th1 :
  nth_error ths i = Some th -> t_id th1 = t_id th ->
  map t_id (upd_nth i (fun _ => th1) ths) = map t_id ths.
Proof.
  revert i. induction ths as [|x ths IH]; intros [|i] Hn E; cbn in *; try discriminate.
  - inv Hn. now rewrite E.
  - f_equal. eauto.
Qed.

Lemma run_inv : c_mode cfg <> MAutoUncached ->
  forall sched st ths st' ths' tr,
  NoDup (map t_id ths) -> sys_inv st ths ->
  run cfg orc sched st ths = (st', ths', tr) ->
  sys_inv st' ths' /\ map t_id ths' = map t_id ths.
Proof.
  intros Hmode. induction sched as [|i sched IH]; intros st ths st' ths' tr Hnd Hinv Hrun; cbn in Hrun.
  - inv Hrun. auto.
  - destruct (nth_error ths i) as [th|] eqn:En; [|eauto].
    destruct (finished th); [eauto|].
    destruct (step_pc cfg orc st th) as [st1 th1] eqn:Es.
    destruct (run cfg orc sched st1 (upd_nth i (fun _ => th1) ths)) as [[st2 ths2] tr2] eqn:Er.
    inv Hrun.
    destruct Hinv as (ow & Hh & Hc & Hall).
    assert (Hth : thread_inv st ow th).
    { rewrite Forall_forall in Hall. apply Hall. eapply nth_error_In; eauto. }
    destruct (step_inv Hmode _ _ _ _ _ Hh Hc Hth Es) as (l & Hh1 & Hc1 & Hth1 & Hid & Hfr).
    pose proof (map_tid_upd _ _ _ _ En Hid) as Hmap.
    destruct (IH st1 (upd_nth i (fun _ => th1) ths) st' ths' tr2) as [Hfin Hm]; auto.
    + rewrite Hmap. exact Hnd.
    + exists (ow ++ l). split; [exact Hh1|split; [exact Hc1|]].
      eapply upd_forall; eauto.
      intros th2 [Hr2 Hp2] Hne. split; auto. eapply pc_inv_other; eauto.
    + split; auto. congruence.
Qed.

Definition fresh_thread (th : thread) : Prop := t_pc th = PIdle /\ t_done th = [].

Lemma init_inv ths : Forall fresh_thread ths -> sys_inv (init_state cfg) ths.
Proof.
  intros Hall. exists []. repeat split.
  - unfold init_state. destruct (c_mode cfg); reflexivity.
  - intros o h s t Hn. unfold init_state in Hn. destruct (c_mode cfg); destruct o; discriminate.
  - intros ri r key e Hn Ha. unfold init_state in Hn.
    destruct (c_mode cfg); cbn in Hn; try (destruct ri; discriminate).
    destruct ri as [|[|ri]]; cbn in Hn; try discriminate. inv Hn. discriminate.
  - rewrite Forall_forall in *. intros th Hin. destruct (Hall th Hin) as [Hp Hd].
    split.
    + intros q t Hi. rewrite Hd in Hi. destruct Hi.
    + rewrite Hp. exact I.
Qed.

(* MAIN: in every mode except the non-caching AutoOptimizer as it stands, for every
   scheduler, every oracle, any number of threads with distinct ids and any programs,
   every tree that was returned answers the query it was returned for. *)
Theorem all_results_own : c_mode cfg <> MAutoUncached ->
  forall sched ths, NoDup (map t_id ths) -> Forall fresh_thread ths ->
  forall st' ths' tr, run cfg orc sched (init_state cfg) ths = (st', ths', tr) ->
  Forall results_own ths'.
Proof.
  intros Hmode sched ths Hnd Hfresh st' ths' tr Hrun.
  destruct (run_inv Hmode _ _ _ _ _ _ Hnd (init_inv _ Hfresh) Hrun) as [(ow & _ & _ & Hall) _].
  rewrite Forall_forall in *. intros th Hin. apply (Hall th Hin).
Qed.

End Facts.

(* ------------------------------------------------------------------ *)
(* the answers a thread collects are answers to ITS queries, in order  *)
Definition pc_query (p : pc) : list qid :=
  match p with
  | PIdle => []
  | PALookup q | PAStore q _ | PRHash q _ | PRAlloc q _ _ | PRTrial q _ _ _ _ | PRPublish q _ _ _ _
  | PRCacheSet q _ _ | PRCacheOld q _ _ | PRFetch q _ | PRCacheGet q _ | PHTrial q _ _ => [q]
  end.
(* queries answered so far (oldest first), the one in flight, the ones still to ask *)
Definition program (th : thread) : list qid :=
  rev (map fst (t_done th)) ++ pc_query (t_pc th) ++ t_todo th.

Lemma program_finish th q r : program (finish th q r) = rev (map fst (t_done th)) ++ [q] ++ t_todo th.
Proof. unfold program, finish. cbn. now rewrite <- app_assoc. Qed.

Lemma step_program cfg orc st th st' th' :
  step_pc cfg orc st th = (st', th') -> program th' = program th /\ t_id th' = t_id th.
Proof.
  intros H. unfold step_pc in H.
  destruct (t_pc th) eqn:Epc; unfold program at 2; rewrite Epc; cbn [pc_query].
  - destruct (t_todo th) as [|q rest] eqn:Et.
    + inversion H; subst. unfold program. rewrite Epc, Et. auto.
    + destruct (c_mode cfg); try destruct (o_hard orc q); try destruct (alloc_h st);
        inversion H; subst; clear H; rewrite ?program_finish; cbn; auto.
  - destruct (aget _ _); [|destruct (c_mode cfg); [destruct (alloc_h st)|destruct (alloc_h st)|destruct (alloc_r st)|destruct (alloc_h st)|destruct (alloc_h st)]];
      inversion H; subst; clear H; unfold program, dispatch; cbn; destruct (c_mode cfg); auto.
  - inversion H; subst; clear H; unfold program, dispatch; cbn; destruct (c_mode cfg); auto.
  - destruct (nth_error _ _); [destruct (_ || _); [destruct (c_cache_only cfg)|]|];
      inversion H; subst; clear H; rewrite ?program_finish; auto.
  - destruct (alloc_h st). inversion H; subst; clear H. auto.
  - destruct (loop_ends _ _ _ _ _); [destruct (tree_of _ _)|];
      inversion H; subst; clear H; rewrite ?program_finish; auto.
  - destruct (c_ow cfg); [| |destruct m]; inversion H; subst; clear H; auto.
  - destruct (c_call cfg); inversion H; subst; clear H; rewrite ?program_finish; auto.
  - destruct (nth_error _ _); [destruct (aget _ _); [destruct (score_lt _ _)|]|];
      inversion H; subst; clear H; rewrite ?program_finish; auto.
  - destruct (nth_error _ _); [destruct (aget _ _)|];
      inversion H; subst; clear H; rewrite ?program_finish; auto.
  - destruct (nth_error _ _); [destruct (aget _ _)|];
      inversion H; subst; clear H; rewrite ?program_finish; auto.
  - destruct (loop_ends _ _ _ _ _); inversion H; subst; clear H; rewrite ?program_finish; auto.
Qed.

Lemma Forall2_upd_nth {A} (R : A -> A -> Prop) l i x y :
  (forall a, R a a) -> nth_error l i = Some x -> R x y -> Forall2 R l (upd_nth i (fun _ => y) l).
Proof.
  intros Hr. revert i. induction l as [|a l IH]; intros [|i] Hn Hxy; cbn in *; try discriminate.
  - inversion Hn; subst. constructor; auto. clear - Hr. induction l; constructor; auto.
  - constructor; auto.
Qed.

Lemma Forall2_trans_eq {A B} (f : A -> B) l1 l2 l3 :
  Forall2 (fun a b => f a = f b) l1 l2 -> Forall2 (fun a b => f a = f b) l2 l3 ->
  Forall2 (fun a b => f a = f b) l1 l3.
Proof.
  intros H. revert l3. induction H; intros l3 H3; inversion H3; subst; constructor; eauto. congruence.
Qed.

(* for every schedule: same threads, same positions, and each thread's answered + in-flight
   + pending queries are exactly the program it started with *)
Theorem run_program cfg orc sched : forall st ths st' ths' tr,
  run cfg orc sched st ths = (st', ths', tr) ->
  Forall2 (fun a b => (program a, t_id a) = (program b, t_id b)) ths ths'.
Proof.
  induction sched as [|i sched IH]; intros st ths st' ths' tr H; cbn in H.
  - inversion H; subst. clear. induction ths'; constructor; auto.
  - destruct (nth_error ths i) as [th|] eqn:En; [|eauto].
    destruct (finished th); [eauto|].
    destruct (step_pc cfg orc st th) as [st1 th1] eqn:Es.
    destruct (run cfg orc sched st1 _) as [[st2 ths2] tr2] eqn:Er. inversion H; subst; clear H.
    apply IH in Er. eapply Forall2_trans_eq; [|exact Er].
    apply Forall2_upd_nth with (x := th); auto.
    destruct (step_program _ _ _ _ _ _ Es) as [-> ->]. reflexivity.
Qed.

(* ------------------------------------------------------------------ *)
(* refutations (concrete histories, evaluated)                         *)

(* finding 8: AutoOptimizer(cache=False) as it stands, ONE thread, two queries:
   every trial of the second query scores worse than the best trial of the first *)
Definition stale_cfg : config := mkC MAutoUncached OwFalse false 1 false.
Definition stale_orc : oracle :=
  mkO (fun q => q) (fun _ => true)
      (fun q o k => match q, k with
                    | 0, 0 => Some 5%Z | 0, _ => Some 7%Z
                    | _, 2 => Some 9%Z | _, _ => Some 8%Z end)
      (fun _ _ _ => false) (fun _ => None).
Definition stale_threads : list thread := [start_thread 7 [0; 1]].
Definition stale_sched : list nat := repeat 0 9.

Lemma stale_run_results :
  enc_results (snd (fst (run stale_cfg stale_orc stale_sched (init_state stale_cfg) stale_threads)))
  = [[[0; 0; 0; 0; 0]; [1; 0; 0; 0; 0]]].
Proof. vm_compute. reflexivity. Qed.

Theorem auto_uncached_refuted :
  exists cfg orc sched ths,
    c_mode cfg = MAutoUncached /\ NoDup (map t_id ths) /\ Forall fresh_thread ths /\
    length ths = 1 /\
    ~ Forall (results_own orc) (snd (fst (run cfg orc sched (init_state cfg) ths))).
Proof.
  exists stale_cfg, stale_orc, stale_sched, stale_threads.
  split; [reflexivity|]. split; [repeat constructor; cbn; tauto|].
  split; [repeat constructor|]. split; [reflexivity|].
  rewrite <- all_own_b_spec. vm_compute. discriminate.
Qed.

(* the hypothesis "distinct thread ids" is needed: two live threads with one id through one
   shared reusable optimizer can fetch each other's tree *)
Definition dup_cfg : config := mkC MReusable OwFalse false 0 false.
Definition dup_orc : oracle :=
  mkO (fun q => q) (fun _ => true) (fun _ _ _ => Some 1%Z) (fun _ _ _ => false) (fun _ => None).
Theorem reusable_shared_tid_refuted :
  exists sched ths, Forall fresh_thread ths /\
    ~ Forall (results_own dup_orc) (snd (fst (run dup_cfg dup_orc sched (init_state dup_cfg) ths))).
Proof.
  exists ([0;0;0;0;0;0] ++ [1;1;1;1;1] ++ [0] ++ [1;1]), [start_thread 3 [0]; start_thread 3 [1]].
  split; [repeat constructor|].
  rewrite <- all_own_b_spec. vm_compute. discriminate.
Qed.

(* ------------------------------------------------------------------ *)
(* the theorem per kind of optimizer object                            *)
Lemma results_own_in_mode (m : mode) : m <> MAutoUncached ->
  forall cfg orc sched ths st' ths' tr,
  c_mode cfg = m -> NoDup (map t_id ths) -> Forall fresh_thread ths ->
  run cfg orc sched (init_state cfg) ths = (st', ths', tr) ->
  Forall (results_own orc) ths'.
Proof.
  intros Hm cfg orc sched ths st' ths' tr E Hnd Hf Hrun.
  eapply all_results_own; eauto. congruence.
Qed.

Lemma reusable_returns_own_tree :
  forall cfg orc sched ths st' ths' tr,
  c_mode cfg = MReusable -> NoDup (map t_id ths) -> Forall fresh_thread ths ->
  run cfg orc sched (init_state cfg) ths = (st', ths', tr) ->
  Forall (results_own orc) ths'.
Proof. apply results_own_in_mode. discriminate. Qed.

Lemma auto_cached_returns_own_tree :
  forall cfg orc sched ths st' ths' tr,
  c_mode cfg = MAutoCached -> NoDup (map t_id ths) -> Forall fresh_thread ths ->
  run cfg orc sched (init_state cfg) ths = (st', ths', tr) ->
  Forall (results_own orc) ths'.
Proof. apply results_own_in_mode. discriminate. Qed.

Lemma presets_return_own_tree :
  forall cfg orc sched ths st' ths' tr,
  c_mode cfg = MPreset -> NoDup (map t_id ths) -> Forall fresh_thread ths ->
  run cfg orc sched (init_state cfg) ths = (st', ths', tr) ->
  Forall (results_own orc) ths'.
Proof. apply results_own_in_mode. discriminate. Qed.

Lemma auto_uncached_fresh_returns_own_tree :
  forall cfg orc sched ths st' ths' tr,
  c_mode cfg = MAutoUncachedFresh -> NoDup (map t_id ths) -> Forall fresh_thread ths ->
  run cfg orc sched (init_state cfg) ths = (st', ths', tr) ->
  Forall (results_own orc) ths'.
Proof. apply results_own_in_mode. discriminate. Qed.

(* verified checker for the results of an observed run *)
Lemma all_own_b_sound orc ths : all_own_b orc ths = true -> Forall (results_own orc) ths.
Proof. apply all_own_b_spec. Qed.

(* TreeStateDfs.v -- _traverse_dfs on a complete tree: if the children dict describes a complete tree
   (tree_of ... root = Some t) with exactly N-1 entries, then the iterative dfs of Model/TreeState.v
   terminates within its fuel, returns every key of `children` exactly once, children before parents.
   This turns the monitored preconditions of contract_stats / remove_ind / restore_ind (C04) and the
   tree premise of C02's corollary into consequences of ONE boolean: complete_b. *)
From Coq Require Import Lia ZifyBool Permutation.
From Ctg Require Import Base Net BaseFacts NetFacts TreeState TreeStateFacts TreeStateInv TreeStatePre TreeStateRec.

Section Dfs.
Variable n : net.
Notation N := (NN n).
Hypothesis HN : 2 <= N.
Variable ch : list (node * (node * node)).
Hypothesis Hch : children_ok n ch.

(* the entries below nd, in post-order (same recursion as tree_of) *)
Fixpoint ents (f : nat) (nd : node) : list (node * (node * node)) :=
  match f with
  | O => []
  | S f' =>
      if Nat.eqb (length nd) 1 then []
      else match nget nd ch with
           | None => []
           | Some (l, r) => ents f' l ++ ents f' r ++ [(nd, (l, r))]
           end
  end.
Definition defined (f : nat) (nd : node) : Prop := tree_of f ch nd <> None.

Lemma defined_S f nd : defined (S f) nd -> length nd <> 1 ->
  exists l r, nget nd ch = Some (l, r) /\ defined f l /\ defined f r.
Proof.
  unfold defined. cbn [tree_of]. intros H E1. apply Nat.eqb_neq in E1. rewrite E1 in H.
  destruct (nget nd ch) as [[l r]|]; [|congruence]. exists l, r. split; [reflexivity|].
  destruct (tree_of f ch l); [|congruence]. destruct (tree_of f ch r); [|congruence]. split; discriminate.
Qed.
Lemma ents_leaf f nd : length nd = 1 -> ents f nd = [].
Proof. intros E. destruct f; cbn [ents]; [reflexivity|]. apply Nat.eqb_eq in E. rewrite E. reflexivity. Qed.
Lemma defined_pos f nd : defined f nd -> exists f', f = S f'.
Proof. destruct f; [intros H; exfalso; apply H; reflexivity|eauto]. Qed.

(* every entry below nd is an entry of ch, is internal, and its leaves are among nd's *)
Lemma ents_facts f : forall nd e, In e (ents f nd) ->
  nget (fst e) ch = Some (snd e) /\ length (fst e) <> 1 /\ incl (fst e) nd /\ fst e <> [].
Proof.
  induction f as [|f IH]; intros nd e H; cbn [ents] in H; [contradiction|].
  destruct (Nat.eqb_spec (length nd) 1) as [E1|E1]; [contradiction|].
  destruct (nget nd ch) as [[l r]|] eqn:E; [|contradiction].
  destruct Hch as [_ Hc]. destruct (Hc nd l r E) as (Gl & Gr & HR & HP).
  apply in_app_iff in H. destruct H as [H|H]; [|apply in_app_iff in H; destruct H as [H|[<-|[]]]].
  - destruct (IH l e H) as (A&B&C&D). repeat split; auto. intros x Hx. apply (Permutation_in _ (Permutation_sym HP)), in_app_iff. left. apply C, Hx.
  - destruct (IH r e H) as (A&B&C&D). repeat split; auto. intros x Hx. apply (Permutation_in _ (Permutation_sym HP)), in_app_iff. right. apply C, Hx.
  - cbn [fst snd]. repeat split; auto; [intros x Hx; exact Hx|].
    intros ->. apply Permutation_nil in HP. destruct Gl as [_ Hl]. destruct l; [congruence|discriminate].
Qed.
Lemma ents_last f nd : defined f nd -> length nd <> 1 -> In nd (map fst (ents f nd)).
Proof.
  intros Hd E1. destruct (defined_pos f nd Hd) as (f' & ->). destruct (defined_S f' nd Hd E1) as (l & r & E & _).
  cbn [ents]. apply Nat.eqb_neq in E1. rewrite E1, E. rewrite !map_app, !in_app_iff. right. right. left. reflexivity.
Qed.
(* nodes in disjoint leaf sets are different *)
Lemma disjoint_nodes (x y a b : node) : incl x a -> incl y b -> x <> [] -> (forall k, In k a -> ~ In k b) -> x <> y.
Proof.
  intros Hx Hy Hne Hd ->. destruct y as [|k y]; [congruence|]. apply (Hd k); [apply Hx|apply Hy]; left; reflexivity.
Qed.
Lemma NoDup_ents f : forall nd, NoDup (map fst (ents f nd)).
Proof.
  induction f as [|f IH]; intros nd; cbn [ents]; [constructor|].
  destruct (Nat.eqb (length nd) 1); [constructor|]. destruct (nget nd ch) as [[l r]|] eqn:E; [|constructor].
  destruct Hch as [_ Hc]. destruct (Hc nd l r E) as (Gl & Gr & HR & HP).
  assert (Hdis : forall k, In k l -> ~ In k r) by (intros k Hkl Hkr; apply (NoDup_app_disjoint l r (proj1 HR) k Hkl Hkr)).
  rewrite !map_app. cbn [map fst]. apply NoDup_app_intro'; [apply IH| |].
  - apply NoDup_app_intro'; [apply IH|repeat constructor; cbn; tauto|].
    intros x Hx [<-|[]]. apply in_map_iff in Hx. destruct Hx as (e & <- & He). destruct (ents_facts f r e He) as (_&_&C&D).
    (* fst e ⊆ r but it is nd, which contains l *)
    destruct Gl as [_ Hl]. destruct l as [|k l]; [congruence|]. apply (Hdis k); [left; reflexivity|].
    apply C. apply (Permutation_in _ (Permutation_sym HP)), in_app_iff. left. left. reflexivity.
  - intros x Hx Hy. apply in_map_iff in Hx. destruct Hx as (e & <- & He). destruct (ents_facts f l e He) as (_&_&C&D).
    apply in_app_iff in Hy. destruct Hy as [Hy|[Hy|[]]].
    + apply in_map_iff in Hy. destruct Hy as (e' & Ee & He'). destruct (ents_facts f r e' He') as (_&_&C'&_).
      apply (disjoint_nodes (fst e) (fst e') l r C C' D Hdis). congruence.
    + destruct Gr as [_ Hr]. destruct r as [|k r]; [congruence|]. apply (Hdis k); [|left; reflexivity].
      apply C. rewrite <- Hy. apply (Permutation_in _ (Permutation_sym HP)), in_app_iff. right. left. reflexivity.
Qed.

Lemma is_ready_in done x : In x done -> is_ready done x = true.
Proof.
  intros H. unfold is_ready. apply orb_true_iff. right. apply existsb_exists. exists x. split; [exact H|apply node_eqb_refl].
Qed.
Lemma is_ready_leaf done x : length x = 1 -> is_ready done x = true.
Proof. intros H. unfold is_ready. apply Nat.eqb_eq in H. rewrite H. reflexivity. Qed.
Lemma is_ready_not done x : length x <> 1 -> ~ In x done -> is_ready done x = false.
Proof.
  intros H1 H2. unfold is_ready. apply Nat.eqb_neq in H1. rewrite H1. cbn [orb].
  destruct (existsb (node_eqb x) done) eqn:E; [|reflexivity]. apply existsb_exists in E. destruct E as (y & Hy & Ey).
  apply node_eqb_eq in Ey. subst. contradiction.
Qed.

(* the dfs loop, started on an internal node whose subtree is complete and untouched, emits exactly
   the post-order entries of the subtree *)
Lemma dfs_sub f : forall nd, defined f nd -> length nd <> 1 ->
  exists c, c <= 2 * length (ents f nd) /\
  forall q done acc F, (forall x, In x (map fst (ents f nd)) -> ~ In x done) ->
    dfs_loop (c + F) ch (nd :: q) done acc
    = dfs_loop F ch q (rev (map fst (ents f nd)) ++ done) (rev (ents f nd) ++ acc).
Proof.
  induction f as [|f IH]; intros nd Hd E1; [exfalso; apply Hd; reflexivity|].
  destruct (defined_S f nd Hd E1) as (l & r & E & Dl & Dr).
  assert (Ee : ents (S f) nd = ents f l ++ ents f r ++ [(nd, (l, r))]).
  { cbn [ents]. apply Nat.eqb_neq in E1. rewrite E1, E. reflexivity. }
  pose proof (NoDup_ents (S f) nd) as NDe. rewrite Ee in NDe. rewrite Ee.
  set (El := ents f l) in *. set (Er := ents f r) in *.
  assert (Hlr : forall x, In x (map fst El) -> ~ In x (map fst Er)).
  { intros x Hx Hy. rewrite !map_app in NDe. apply (NoDup_app_disjoint _ _ NDe x Hx). apply in_app_iff. left. exact Hy. }
  rewrite !app_length. cbn [length].
  destruct (Nat.eq_dec (length l) 1) as [Ll|Ll]; destruct (Nat.eq_dec (length r) 1) as [Lr|Lr].
  - (* both children are leaves *)
    exists 1. unfold El, Er. rewrite (ents_leaf f l Ll), (ents_leaf f r Lr). cbn [length app]. split; [lia|].
    intros q done acc F Hnd. cbn [plus dfs_loop]. rewrite E, (is_ready_leaf done l Ll), (is_ready_leaf done r Lr). reflexivity.
  - (* l leaf, r internal *)
    destruct (IH r Dr Lr) as (cr & Hcr & Hr). fold Er in Hcr, Hr.
    exists (1 + (cr + 1)). assert (Enl : El = []) by apply (ents_leaf f l Ll). rewrite Enl in *. cbn [length app map] in *.
    split; [lia|]. intros q done acc F Hnd.
    assert (Hrn : ~ In r done) by (apply Hnd; rewrite map_app, in_app_iff; left; apply (ents_last f r Dr Lr)).
    replace (1 + (cr + 1) + F) with (S (cr + (1 + F))) by lia. cbn [dfs_loop].
    rewrite E, (is_ready_leaf done l Ll), (is_ready_not done r Lr Hrn). cbn [andb].
    rewrite Hr by (intros x Hx; apply Hnd; rewrite map_app, in_app_iff; left; exact Hx).
    cbn [plus dfs_loop]. rewrite E. rewrite (is_ready_leaf _ l Ll).
    rewrite (is_ready_in _ r) by (apply in_app_iff; left; apply in_rev; rewrite rev_involutive; apply (ents_last f r Dr Lr)).
    cbn [andb]. rewrite !map_app, !rev_app_distr. cbn [map rev app]. reflexivity.
  - (* l internal, r leaf *)
    destruct (IH l Dl Ll) as (cl & Hcl & Hl). fold El in Hcl, Hl.
    exists (1 + (cl + 1)). assert (Enr : Er = []) by apply (ents_leaf f r Lr). rewrite Enr in *. cbn [length app map] in *.
    split; [lia|]. intros q done acc F Hnd.
    assert (Hln : ~ In l done) by (apply Hnd; rewrite map_app, in_app_iff; left; apply (ents_last f l Dl Ll)).
    replace (1 + (cl + 1) + F) with (S (cl + (1 + F))) by lia. cbn [dfs_loop].
    rewrite E, (is_ready_not done l Ll Hln), (is_ready_leaf done r Lr). cbn [andb].
    rewrite Hl by (intros x Hx; apply Hnd; rewrite map_app, in_app_iff; left; exact Hx).
    cbn [plus dfs_loop]. rewrite E. rewrite (is_ready_leaf _ r Lr).
    rewrite (is_ready_in _ l) by (apply in_app_iff; left; apply in_rev; rewrite rev_involutive; apply (ents_last f l Dl Ll)).
    cbn [andb]. rewrite !map_app, !rev_app_distr. cbn [map rev app]. reflexivity.
  - (* both internal *)
    destruct (IH l Dl Ll) as (cl & Hcl & Hl). destruct (IH r Dr Lr) as (cr & Hcr & Hr). fold El in Hcl, Hl. fold Er in Hcr, Hr.
    exists (1 + (cl + (cr + 1))). split; [lia|]. intros q done acc F Hnd.
    assert (Hln : ~ In l done) by (apply Hnd; rewrite map_app, in_app_iff; left; apply (ents_last f l Dl Ll)).
    assert (Hrn : ~ In r done) by (apply Hnd; rewrite !map_app, !in_app_iff; right; left; apply (ents_last f r Dr Lr)).
    replace (1 + (cl + (cr + 1)) + F) with (S (cl + (cr + (1 + F)))) by lia. cbn [dfs_loop].
    rewrite E, (is_ready_not done l Ll Hln), (is_ready_not done r Lr Hrn). cbn [andb].
    rewrite Hl by (intros x Hx; apply Hnd; rewrite map_app, in_app_iff; left; exact Hx).
    rewrite Hr.
    2:{ intros x Hx Hin. apply in_app_iff in Hin. destruct Hin as [Hin|Hin].
        - rewrite <- in_rev in Hin. apply (Hlr x Hin Hx).
        - revert Hin. apply Hnd. rewrite !map_app, !in_app_iff. right. left. exact Hx. }
    cbn [plus dfs_loop]. rewrite E.
    rewrite (is_ready_in _ l) by (apply in_app_iff; right; apply in_app_iff; left; apply in_rev; rewrite rev_involutive; apply (ents_last f l Dl Ll)).
    rewrite (is_ready_in _ r) by (apply in_app_iff; left; apply in_rev; rewrite rev_involutive; apply (ents_last f r Dr Lr)).
    cbn [andb]. rewrite !map_app, !rev_app_distr. cbn [map rev app]. rewrite <- !app_assoc. reflexivity.
Qed.

Lemma cf_ents f : forall nd, defined f nd -> forall P rest,
  children_first (rev (map fst (ents f nd)) ++ P) rest -> children_first P (ents f nd ++ rest).
Proof.
  induction f as [|f IH]; intros nd Hd P rest H; [exfalso; apply Hd; reflexivity|].
  destruct (Nat.eq_dec (length nd) 1) as [E1|E1].
  { rewrite (ents_leaf (S f) nd E1) in *. exact H. }
  destruct (defined_S f nd Hd E1) as (l & r & E & Dl & Dr).
  assert (Ee : ents (S f) nd = ents f l ++ ents f r ++ [(nd, (l, r))]).
  { cbn [ents]. apply Nat.eqb_neq in E1. rewrite E1, E. reflexivity. }
  rewrite Ee in *.
  assert (Ea : forall (a b c d : list (node * (node * node))), (a ++ b ++ c) ++ d = a ++ (b ++ (c ++ d))) by (intros; rewrite <- !app_assoc; reflexivity).
  rewrite Ea. apply (IH l Dl). apply (IH r Dr). cbn [app children_first].
  rewrite !map_app, !rev_app_distr in H. cbn [map rev app] in H. rewrite <- ?app_assoc in H. cbn [app] in H.
  split; [|split; [|rewrite <- ?app_assoc; cbn [app]; exact H]].
  - destruct (Nat.eq_dec (length l) 1) as [Ll|Ll]; [left; exact Ll|right].
    apply in_app_iff. right. apply in_app_iff. left. rewrite <- in_rev. apply (ents_last f l Dl Ll).
  - destruct (Nat.eq_dec (length r) 1) as [Lr|Lr]; [left; exact Lr|right].
    apply in_app_iff. left. rewrite <- in_rev. apply (ents_last f r Dr Lr).
Qed.
Lemma tree_of_perm' f : forall nd t, tree_of f ch nd = Some t -> Permutation (leaves t) nd.
Proof.
  induction f as [|f IH]; intros nd t H; [discriminate|]. cbn [tree_of] in H.
  destruct (Nat.eqb_spec (length nd) 1) as [E1|E1].
  - injection H as <-. cbn [leaves]. rewrite <- (len1 nd E1). reflexivity.
  - destruct (nget nd ch) as [[l r]|] eqn:E; [|discriminate].
    destruct (tree_of f ch l) as [a|] eqn:Ea; [|discriminate].
    destruct (tree_of f ch r) as [b|] eqn:Eb; [|discriminate]. injection H as <-. cbn [leaves].
    destruct Hch as [_ Hc]. destruct (Hc nd l r E) as (_&_&_&HP).
    rewrite HP. apply Permutation_app; [apply IH, Ea|apply IH, Eb].
Qed.
Lemma ents_length f : forall nd t, tree_of f ch nd = Some t -> S (length (ents f nd)) = nleaves t.
Proof.
  induction f as [|f IH]; intros nd t H; [discriminate|]. cbn [tree_of ents] in *.
  destruct (Nat.eqb (length nd) 1); [injection H as <-; reflexivity|].
  destruct (nget nd ch) as [[l r]|] eqn:E; [|discriminate].
  destruct (tree_of f ch l) as [a|] eqn:Ea; [|discriminate].
  destruct (tree_of f ch r) as [b|] eqn:Eb; [|discriminate]. injection H as <-. cbn [nleaves].
  rewrite !app_length. cbn [length]. pose proof (IH l a Ea). pose proof (IH r b Eb). lia.
Qed.
Lemma nleaves_length t : nleaves t = length (leaves t).
Proof. induction t; cbn; [reflexivity|rewrite app_length; lia]. Qed.
End Dfs.

Section Complete.
Variable n : net.
Notation N := (NN n).
Hypothesis HN : 2 <= N.

Theorem complete_sound s : children_ok n (children s) -> complete_b n s = true ->
  exists nodes, traverse n s = Some nodes /\ Permutation (map fst nodes) (nkeys (children s)) /\ children_first [] nodes.
Proof.
  intros Hch Hc. unfold complete_b in Hc. destruct (tree_of (tfuel s) (children s) (seq 0 N)) as [t|] eqn:Et; [|discriminate].
  apply Nat.eqb_eq in Hc. set (ch := children s) in *. set (f := tfuel s) in *.
  assert (Hd : defined ch f (seq 0 N)) by (unfold defined; rewrite Et; discriminate).
  assert (E1 : length (seq 0 N) <> 1) by (rewrite seq_length; lia).
  pose proof (ents_length n HN ch f _ t Et) as HL.
  pose proof (Permutation_length (tree_of_perm' n ch Hch f _ t Et)) as HPl. rewrite seq_length in HPl.
  assert (Enl : forall t0, nleaves t0 = length (leaves t0)) by (induction t0; cbn; [reflexivity|rewrite app_length; lia]).
  rewrite Enl, HPl in HL.
  destruct (dfs_sub n HN ch Hch f (seq 0 N) Hd E1) as (c & Hcb & Hrun).
  set (E := ents ch f (seq 0 N)) in *. exists E. split; [|split].
  - unfold traverse. destruct (Nat.eqb_spec N 1) as [H1|_]; [lia|]. fold ch. unfold root.
    replace (2 * length ch + 4) with (c + S (2 * length ch + 3 - c)) by lia.
    rewrite Hrun by (intros x _ []). cbn [dfs_loop]. rewrite !app_nil_r, rev_involutive. reflexivity.
  - apply NoDup_Permutation_bis; [apply (NoDup_ents n ch Hch)| |].
    + unfold nkeys. rewrite !map_length. fold ch. lia.
    + intros x Hx. apply in_map_iff in Hx. destruct Hx as (e & <- & He).
      destruct (ents_facts n ch Hch f _ e He) as (A&_). apply nget_in_keys. congruence.
  - rewrite <- (app_nil_r E). apply (cf_ents ch f _ Hd). exact I.
Qed.
End Complete.

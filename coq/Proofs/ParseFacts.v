(* ParseFacts.v -- lemmas about Model/Parse.v (C12). *)
From Coq Require Import ZArith List Bool Lia ZifyBool Arith Permutation Sorted.
From Ctg Require Import Base Parse BaseFacts.
Import ListNotations.
Open Scope nat_scope.

(* ------------------------------------------------------------------ *)
(* generic: insertion sort *)
Section SortBy.
Context {A : Type} (le : A -> A -> bool).
Hypothesis le_total : forall a b, le a b = true \/ le b a = true.
Hypothesis le_trans : forall a b c, le a b = true -> le b c = true -> le a c = true.

Lemma insert_by_perm x l : Permutation (insert_by le x l) (x :: l).
Proof.
  induction l as [|y l IH]; cbn; [reflexivity|].
  destruct (le y x); [|reflexivity].
  rewrite IH. apply perm_swap.
Qed.

Lemma insert_by_sorted x l :
  StronglySorted (fun a b => le a b = true) l -> StronglySorted (fun a b => le a b = true) (insert_by le x l).
Proof.
  induction l as [|y l IH]; intro Hs; cbn.
  - constructor; constructor.
  - inversion Hs as [|? ? Hs' Hall]; subst.
    destruct (le y x) eqn:E.
    + constructor; [apply IH; exact Hs'|].
      eapply Permutation_Forall; [symmetry; apply insert_by_perm|].
      constructor; assumption.
    + assert (Hxy : le x y = true) by (destruct (le_total x y) as [H|H]; [exact H|congruence]).
      constructor; [exact Hs|]. constructor; [exact Hxy|].
      eapply Forall_impl; [|exact Hall]. intros z Hz. eapply le_trans; eassumption.
Qed.

Lemma sort_by_fold_perm l : forall acc, Permutation (fold_left (fun acc x => insert_by le x acc) l acc) (l ++ acc).
Proof.
  induction l as [|x l IH]; intro acc; cbn; [reflexivity|].
  rewrite IH. rewrite insert_by_perm. symmetry. apply Permutation_middle.
Qed.
Lemma sort_by_perm l : Permutation (sort_by le l) l.
Proof. unfold sort_by. rewrite sort_by_fold_perm, app_nil_r. reflexivity. Qed.

Lemma sort_by_fold_sorted l : forall acc, StronglySorted (fun a b => le a b = true) acc ->
  StronglySorted (fun a b => le a b = true) (fold_left (fun acc x => insert_by le x acc) l acc).
Proof.
  induction l as [|x l IH]; intros acc Hs; cbn; [exact Hs|].
  apply IH, insert_by_sorted, Hs.
Qed.
Lemma sort_by_sorted l : StronglySorted (fun a b => le a b = true) (sort_by le l).
Proof. apply sort_by_fold_sorted. constructor. Qed.
End SortBy.

Lemma sort_nat_perm l : Permutation (sort_nat l) l.
Proof. apply sort_by_perm. Qed.
Lemma sort_nat_sorted l : StronglySorted le (sort_nat l).
Proof.
  assert (H : StronglySorted (fun a b => Nat.leb a b = true) (sort_nat l)).
  { apply sort_by_sorted; intros; lia. }
  induction H; constructor; auto. eapply Forall_impl; [|eassumption]. cbn; intros; lia.
Qed.
Lemma sort_nat_in x l : In x (sort_nat l) <-> In x l.
Proof. split; apply Permutation_in; [|symmetry]; apply sort_nat_perm. Qed.

(* ------------------------------------------------------------------ *)
(* count / unique *)
Lemma count_app x l1 l2 : count x (l1 ++ l2) = count x l1 + count x l2.
Proof. induction l1; cbn; lia. Qed.
Lemma count_zero x l : count x l = 0 <-> ~ In x l.
Proof.
  induction l as [|y l IH]; cbn; [tauto|].
  destruct (Nat.eqb y x) eqn:E.
  - apply Nat.eqb_eq in E. split; [intro H; lia|]. intros H; exfalso; apply H; left; exact E.
  - apply Nat.eqb_neq in E. cbn. rewrite IH. intuition.
Qed.
Lemma count_pos x l : 0 < count x l <-> In x l.
Proof.
  pose proof (count_zero x l) as H. destruct (in_dec Nat.eq_dec x l) as [Hi|Hn].
  - split; [auto|]. intros _. destruct (count x l) eqn:E; [|lia]. exfalso. exact (proj1 H eq_refl Hi).
  - split; [|contradiction]. intro Hp. apply H in Hn. lia.
Qed.
Lemma count_filter P x l : count x (filter P l) = if P x then count x l else 0.
Proof.
  induction l as [|y l IH]; cbn; [destruct (P x); reflexivity|].
  destruct (P y) eqn:Py; cbn; rewrite IH; destruct (Nat.eqb y x) eqn:E.
  - apply Nat.eqb_eq in E; subst. rewrite Py. reflexivity.
  - destruct (P x); reflexivity.
  - apply Nat.eqb_eq in E; subst. rewrite Py. reflexivity.
  - destruct (P x); reflexivity.
Qed.

Lemma unique_acc_spec l : forall seen x, In x (unique_acc seen l) <-> In x l /\ ~ In x seen.
Proof.
  induction l as [|y l IH]; intros seen x; cbn; [tauto|].
  destruct (memb y seen) eqn:E.
  - apply memb_In in E. rewrite IH. split; [intros [H1 H2]; auto|].
    intros [[->|H1] H2]; [contradiction|auto].
  - apply memb_false in E. cbn. rewrite IH. cbn. split.
    + intros [->|[H1 H2]]; [auto|]. split; [auto|]. intro; apply H2; auto.
    + intros [[->|H1] H2]; [auto|]. destruct (Nat.eq_dec y x); [auto|right; split; [auto|]].
      intros [?|?]; [congruence|contradiction].
Qed.
Lemma unique_acc_nodup l : forall seen, NoDup (unique_acc seen l).
Proof.
  induction l as [|y l IH]; intro seen; cbn; [constructor|].
  destruct (memb y seen); [apply IH|]. constructor; [|apply IH].
  rewrite unique_acc_spec. cbn. tauto.
Qed.
Lemma unique_in x l : In x (unique l) <-> In x l.
Proof. unfold unique. rewrite unique_acc_spec. cbn. tauto. Qed.
Lemma unique_nodup l : NoDup (unique l).
Proof. apply unique_acc_nodup. Qed.

(* ------------------------------------------------------------------ *)
(* find_output_from_inputs = the labels that occur exactly once, in order of appearance *)
Definition once_first_seen (flat : list nat) : list nat :=
  filter (fun x => Nat.eqb (count x flat) 1) flat.

Lemma remove_first_filter x l : count x l <= 1 ->
  remove_first x l = filter (fun y => negb (Nat.eqb y x)) l.
Proof.
  induction l as [|y l IH]; cbn; [reflexivity|].
  destruct (Nat.eqb y x) eqn:E; cbn; intro H.
  - assert (Hn : ~ In x l) by (apply count_zero; lia).
    clear IH H. induction l as [|z l IH]; cbn; [reflexivity|].
    destruct (Nat.eqb z x) eqn:E2; [apply Nat.eqb_eq in E2; subst; exfalso; apply Hn; left; reflexivity|].
    cbn. f_equal. apply IH. intro; apply Hn; right; assumption.
  - f_equal. apply IH. lia.
Qed.

Lemma fo_step_inv pre appeared once x :
  (forall y, memb y appeared = true <-> In y pre) -> once = once_first_seen pre ->
  (forall y, memb y (fst (fo_step (appeared, once) x)) = true <-> In y (pre ++ [x])) /\
  snd (fo_step (appeared, once) x) = once_first_seen (pre ++ [x]).
Proof.
  intros Happ Honce. unfold fo_step.
  destruct (memb x appeared) eqn:E; cbn [fst snd].
  - apply Happ in E. split.
    + intro y. rewrite Happ, in_app_iff. cbn. intuition. subst; assumption.
    + subst once. unfold once_first_seen. rewrite filter_app. cbn [filter].
      assert (Hc : 1 <= count x pre) by (apply count_pos; exact E).
      replace (Nat.eqb (count x (pre ++ [x])) 1) with false
        by (rewrite count_app; cbn; rewrite Nat.eqb_refl; symmetry; apply Nat.eqb_neq; lia).
      rewrite app_nil_r. rewrite remove_first_filter.
      2:{ rewrite count_filter. destruct (Nat.eqb (count x pre) 1) eqn:E1; [apply Nat.eqb_eq in E1|]; lia. }
      rewrite filter_filter_comm_and. apply filter_ext_in. intros y Hy.
      rewrite count_app. cbn. destruct (Nat.eqb x y) eqn:Exy.
      * apply Nat.eqb_eq in Exy; subst y. rewrite Nat.eqb_refl. cbn. rewrite andb_false_r.
        symmetry. apply Nat.eqb_neq. lia.
      * rewrite Nat.eqb_sym in Exy. rewrite Exy. cbn. rewrite Nat.add_0_r, andb_true_r. reflexivity.
  - assert (Hn : ~ In x pre) by (intro H; apply Happ in H; congruence).
    split.
    + intro y. change (memb y (x :: appeared)) with (Nat.eqb y x || memb y appeared).
      rewrite in_app_iff. cbn [In]. destruct (Nat.eqb y x) eqn:Eyx.
      * apply Nat.eqb_eq in Eyx. subst. cbn. intuition.
      * apply Nat.eqb_neq in Eyx. cbn. rewrite Happ. intuition. congruence.
    + subst once. unfold once_first_seen. rewrite filter_app. cbn [filter].
      assert (Hc : count x pre = 0) by (apply count_zero; exact Hn).
      replace (Nat.eqb (count x (pre ++ [x])) 1) with true
        by (rewrite count_app; cbn; rewrite Nat.eqb_refl, Hc; reflexivity).
      f_equal. apply filter_ext_in. intros y Hy. rewrite count_app. cbn.
      destruct (Nat.eqb x y) eqn:Exy; [apply Nat.eqb_eq in Exy; subst; contradiction|].
      rewrite Nat.add_0_r. reflexivity.
Qed.

Lemma fo_fold_inv l : forall pre appeared once,
  (forall y, memb y appeared = true <-> In y pre) -> once = once_first_seen pre ->
  (forall y, memb y (fst (fold_left fo_step l (appeared, once))) = true <-> In y (pre ++ l)) /\
  snd (fold_left fo_step l (appeared, once)) = once_first_seen (pre ++ l).
Proof.
  induction l as [|x l IH]; intros pre appeared once Ha Ho; cbn [fold_left].
  - rewrite app_nil_r. cbn. auto.
  - destruct (fo_step_inv pre appeared once x Ha Ho) as [Ha' Ho'].
    destruct (fo_step (appeared, once) x) as [a' o'] eqn:E. cbn [fst snd] in *.
    replace (pre ++ x :: l) with ((pre ++ [x]) ++ l) by (rewrite <- app_assoc; reflexivity).
    apply IH; assumption.
Qed.

Lemma fo_terms_inv ts : forall pre appeared once,
  (forall y, memb y appeared = true <-> In y pre) -> once = once_first_seen pre ->
  (forall y, memb y (fst (fold_left (fun st term => fold_left fo_step term st) ts (appeared, once))) = true
             <-> In y (pre ++ concat ts)) /\
  snd (fold_left (fun st term => fold_left fo_step term st) ts (appeared, once)) = once_first_seen (pre ++ concat ts).
Proof.
  induction ts as [|t ts IH]; intros pre appeared once Ha Ho; cbn [fold_left concat].
  - rewrite app_nil_r. cbn. auto.
  - destruct (fo_fold_inv t pre appeared once Ha Ho) as [Ha' Ho'].
    destruct (fold_left fo_step t (appeared, once)) as [a' o'] eqn:E. cbn [fst snd] in *.
    rewrite app_assoc. apply IH; assumption.
Qed.

Lemma find_output_from_inputs_spec inputs :
  find_output_from_inputs inputs = once_first_seen (concat inputs).
Proof.
  unfold find_output_from_inputs.
  destruct (fo_terms_inv inputs [] [] []) as [_ H]; [cbn; intuition discriminate|reflexivity|].
  exact H.
Qed.
(* ------------------------------------------------------------------ *)
(* ncon: the output is exactly the negative labels, each once, in the order -1, -2, ... *)
Lemma zmemb_In x l : zmemb x l = true <-> In x l.
Proof.
  unfold zmemb. rewrite existsb_exists. split.
  - intros [y [Hy E]]. apply Z.eqb_eq in E. subst. exact Hy.
  - intro H. exists x. split; [exact H|apply Z.eqb_refl].
Qed.
Lemma zunique_acc_spec l : forall seen x, In x (zunique_acc seen l) <-> In x l /\ ~ In x seen.
Proof.
  induction l as [|y l IH]; intros seen x; cbn; [tauto|].
  destruct (zmemb y seen) eqn:E.
  - apply zmemb_In in E. rewrite IH. split; [intros [H1 H2]; auto|].
    intros [[->|H1] H2]; [contradiction|auto].
  - assert (E' : ~ In y seen) by (intro H; apply zmemb_In in H; congruence).
    cbn. rewrite IH. cbn. split.
    + intros [->|[H1 H2]]; [auto|]. split; [auto|]. intro; apply H2; auto.
    + intros [[->|H1] H2]; [auto|]. destruct (Z.eq_dec y x); [auto|right; split; [auto|]].
      intros [?|?]; [congruence|contradiction].
Qed.
Lemma zunique_acc_nodup l : forall seen, NoDup (zunique_acc seen l).
Proof.
  induction l as [|y l IH]; intro seen; cbn; [constructor|].
  destruct (zmemb y seen); [apply IH|]. constructor; [|apply IH].
  rewrite zunique_acc_spec. cbn. tauto.
Qed.

Lemma sorted_ge_nodup_gt l : StronglySorted (fun a b => (b <=? a)%Z = true) l -> NoDup l -> StronglySorted Z.gt l.
Proof.
  induction 1 as [|a l Hs IH Hall]; intro Hnd; constructor.
  - apply IH. inversion Hnd; assumption.
  - inversion Hnd as [|? ? Hni _]; subst. rewrite Forall_forall in *. intros b Hb.
    specialize (Hall b Hb). assert (a <> b) by (intro; subst; contradiction). lia.
Qed.

Lemma ncon_output_spec indices :
  fst (ncon_parse indices) = indices /\
  NoDup (snd (ncon_parse indices)) /\
  StronglySorted Z.gt (snd (ncon_parse indices)) /\
  (forall x, In x (snd (ncon_parse indices)) <-> (x < 0)%Z /\ In x (concat indices)).
Proof.
  unfold ncon_parse. cbn [fst snd].
  set (negs := filter (fun x => (x <? 0)%Z) (concat indices)).
  set (le := fun a b : Z => (b <=? a)%Z).
  assert (Hp : Permutation (sort_by le (zunique_acc [] negs)) (zunique_acc [] negs)) by apply sort_by_perm.
  assert (Hnd : NoDup (sort_by le (zunique_acc [] negs))).
  { eapply Permutation_NoDup; [symmetry; exact Hp|apply zunique_acc_nodup]. }
  split; [reflexivity|]. split; [exact Hnd|]. split.
  - apply sorted_ge_nodup_gt; [|exact Hnd]. apply sort_by_sorted; unfold le; intros; lia.
  - intro x. split.
    + intro H. apply (Permutation_in _ Hp) in H. apply zunique_acc_spec in H. destruct H as [H _].
      unfold negs in H. apply filter_In in H. destruct H as [H1 H2]. split; [lia|exact H1].
    + intros [H1 H2]. apply (Permutation_in _ (Permutation_sym Hp)). apply zunique_acc_spec. split; [|tauto].
      unfold negs. apply filter_In. split; [exact H2|lia].
Qed.

(* a strictly descending list is determined by its elements: with labels -1..-k the output is [-1;...;-k] *)
Lemma sorted_gt_unique l1 : forall l2, StronglySorted Z.gt l1 -> StronglySorted Z.gt l2 ->
  (forall x, In x l1 <-> In x l2) -> l1 = l2.
Proof.
  induction l1 as [|a l1 IH]; intros l2 H1 H2 Hin.
  - destruct l2 as [|b l2]; [reflexivity|]. exfalso. apply (Hin b). left; reflexivity.
  - destruct l2 as [|b l2]; [exfalso; apply (Hin a); left; reflexivity|].
    inversion H1 as [|? ? H1' A1]; inversion H2 as [|? ? H2' A2]; subst.
    rewrite Forall_forall in A1, A2.
    assert (a = b).
    { destruct (proj1 (Hin a) (or_introl eq_refl)) as [E|Hb]; [auto|].
      destruct (proj2 (Hin b) (or_introl eq_refl)) as [E|Ha]; [auto|].
      specialize (A1 _ Ha). specialize (A2 _ Hb). lia. }
    subst b. f_equal. apply IH; auto. intro x. split; intro Hx.
    + destruct (proj1 (Hin x) (or_intror Hx)) as [E|]; [|assumption]. subst x. specialize (A1 _ Hx). lia.
    + destruct (proj2 (Hin x) (or_intror Hx)) as [E|]; [|assumption]. subst x. specialize (A2 _ Hx). lia.
Qed.

Definition neg_range (k : nat) : list Z := map (fun i => (- Z.of_nat (S i))%Z) (seq 0 k).
Lemma neg_range_sorted k : StronglySorted Z.gt (neg_range k).
Proof.
  unfold neg_range. generalize 0 as s. induction k as [|k IH]; intro s; cbn; constructor; [apply IH|].
  rewrite Forall_forall. intros x Hx. apply in_map_iff in Hx. destruct Hx as [i [<- Hi]].
  apply in_seq in Hi. lia.
Qed.
Lemma ncon_standard_output indices k :
  (forall x, (x < 0)%Z /\ In x (concat indices) <-> In x (neg_range k)) ->
  snd (ncon_parse indices) = neg_range k.
Proof.
  intro H. destruct (ncon_output_spec indices) as [_ [_ [Hs Hin]]].
  apply sorted_gt_unique; [exact Hs|apply neg_range_sorted|].
  intro x. rewrite Hin. apply H.
Qed.

(* ------------------------------------------------------------------ *)
(* single operand fast paths *)
Lemma find_pos_some j l p : find_pos j l = Some p -> p < length l /\ nth p l 0 = j.
Proof.
  revert p. induction l as [|x l IH]; intros p; cbn; [discriminate|].
  destruct (Nat.eqb x j) eqn:E.
  - intro H; inversion H; subst. apply Nat.eqb_eq in E. split; [lia|exact E].
  - destruct (find_pos j l) as [q|] eqn:F; [|discriminate]. intro H; inversion H; subst.
    destruct (IH q eq_refl). split; [lia|assumption].
Qed.
Lemma find_pos_in j l : In j l -> exists p, find_pos j l = Some p.
Proof.
  induction l as [|x l IH]; cbn; [tauto|]. intros [->|H].
  - rewrite Nat.eqb_refl. eauto.
  - destruct (Nat.eqb x j); [eauto|]. destruct (IH H) as [p ->]. eauto.
Qed.

Lemma index_all_spec term : forall out perm, index_all term out = Some perm ->
  length perm = length out /\
  forall k, k < length out -> nth k perm 0 < length term /\ nth (nth k perm 0) term 0 = nth k out 0.
Proof.
  induction out as [|o out IH]; intros perm; cbn.
  - intro H; inversion H; subst. split; [reflexivity|]. intros; lia.
  - destruct (find_pos o term) as [p|] eqn:F; [|discriminate].
    destruct (index_all term out) as [ps|] eqn:G; [|discriminate].
    intro H; inversion H; subst. destruct (IH ps eq_refl) as [L K]. split; [cbn; lia|].
    intros [|k] Hk; cbn.
    + apply find_pos_some. exact F.
    + apply K. lia.
Qed.
Lemma index_all_total term : forall out, incl out term -> exists perm, index_all term out = Some perm.
Proof.
  induction out as [|o out IH]; intro Hi; cbn; [eauto|].
  destruct (find_pos_in o term) as [p ->]; [apply Hi; left; reflexivity|].
  destruct IH as [ps ->]; [intros x Hx; apply Hi; right; exact Hx|]. eauto.
Qed.

Lemma list_eqb_nat_eq (a : list nat) : forall b, list_eqb Nat.eqb a b = true <-> a = b.
Proof.
  induction a as [|x a IH]; intros [|y b]; cbn.
  - tauto.
  - split; discriminate.
  - split; discriminate.
  - rewrite andb_true_iff, Nat.eqb_eq, IH. split; [intros [-> ->]; reflexivity|intro H; inversion H; auto].
Qed.

Lemma single_operand_paths term output :
  NoDup output -> incl output term ->
  match build_expression_path [term] output with
  | PIdentity => term = output
  | PTranspose perm =>
      length term = length output /\ length perm = length output /\ NoDup perm /\ NoDup term /\
      forall k, k < length output -> nth k perm 0 < length term /\ nth (nth k perm 0) term 0 = nth k output 0
  | PEinsum eq => length term <> length output /\ eq = term ++ [c_dash; c_gt] ++ output
  | PRaise => False
  | PTree => False
  end.
Proof.
  intros Hnd Hincl. unfold build_expression_path.
  destruct (list_eqb Nat.eqb term output) eqn:E; [apply list_eqb_nat_eq; exact E|].
  destruct (Nat.eqb (length term) (length output)) eqn:L.
  - apply Nat.eqb_eq in L. destruct (index_all_total term output Hincl) as [perm Hp]. rewrite Hp.
    destruct (index_all_spec term output perm Hp) as [Lp K].
    assert (Hndt : NoDup term) by (apply (@NoDup_incl_NoDup nat output term); [exact Hnd|lia|exact Hincl]).
    repeat split; auto; try (apply K; assumption).
    (* perm has no duplicates: two equal entries would name the same label of the output *)
    apply (proj2 (NoDup_nth perm 0)). intros i j Hi Hj Hij. rewrite Lp in Hi, Hj.
    destruct (K i Hi) as [_ Ki]. destruct (K j Hj) as [_ Kj]. rewrite Hij in Ki. rewrite Ki in Kj.
    apply (proj1 (NoDup_nth output 0) Hnd); assumption.
  - apply Nat.eqb_neq in L. split; [exact L|]. unfold inputs_output_to_eq. cbn. reflexivity.
Qed.
(* ------------------------------------------------------------------ *)
(* get_symbol is injective *)
Lemma base_table_ok :
  forallb (fun i => (65 <=? nth i symbols_base 0) && (nth i symbols_base 0 <=? 122) &&
                    forallb (fun j => Nat.eqb i j || negb (Nat.eqb (nth i symbols_base 0) (nth j symbols_base 0)))
                            (seq 0 52)) (seq 0 52) = true.
Proof. vm_compute. reflexivity. Qed.

Lemma base_range i : i < 52 -> 65 <= nth i symbols_base 0 <= 122.
Proof.
  intro H. pose proof base_table_ok as T. rewrite forallb_forall in T.
  specialize (T i). rewrite in_seq in T. specialize (T ltac:(lia)).
  apply andb_true_iff in T. destruct T as [T _]. apply andb_true_iff in T. lia.
Qed.
Lemma base_inj i j : i < 52 -> j < 52 -> nth i symbols_base 0 = nth j symbols_base 0 -> i = j.
Proof.
  intros Hi Hj E. pose proof base_table_ok as T. rewrite forallb_forall in T.
  specialize (T i). rewrite in_seq in T. specialize (T ltac:(lia)).
  apply andb_true_iff in T. destruct T as [_ T]. rewrite forallb_forall in T.
  specialize (T j). rewrite in_seq in T. specialize (T ltac:(lia)).
  apply orb_true_iff in T. destruct T as [T|T]; [apply Nat.eqb_eq; exact T|].
  rewrite E, Nat.eqb_refl in T. discriminate.
Qed.

Definition hi_symbol (i : nat) : nat := let j := i + 140 in if 216 <=? j / 256 then j + 2048 else j.
Lemma hi_symbol_mono i j : i < j -> hi_symbol i < hi_symbol j.
Proof.
  intro H. unfold hi_symbol. cbn zeta.
  assert (D : (i + 140) / 256 <= (j + 140) / 256) by (apply Nat.div_le_mono; lia).
  destruct (216 <=? (i + 140) / 256) eqn:A, (216 <=? (j + 140) / 256) eqn:B; lia.
Qed.
Lemma hi_symbol_ge i : i + 140 <= hi_symbol i.
Proof. unfold hi_symbol. cbn zeta. destruct (216 <=? (i + 140) / 256); lia. Qed.

Lemma get_symbol_inj i j : get_symbol i = get_symbol j -> i = j.
Proof.
  unfold get_symbol. fold (hi_symbol i). fold (hi_symbol j).
  destruct (i <? 52) eqn:A, (j <? 52) eqn:B; intro E.
  - apply base_inj; [lia|lia|exact E].
  - pose proof (base_range i ltac:(lia)). pose proof (hi_symbol_ge j). lia.
  - pose proof (base_range j ltac:(lia)). pose proof (hi_symbol_ge i). lia.
  - destruct (Nat.lt_trichotomy i j) as [H|[H|H]]; [|exact H|];
      apply hi_symbol_mono in H; lia.
Qed.

Lemma get_symbol_not_reserved i :
  get_symbol i <> c_comma /\ get_symbol i <> c_dot /\ get_symbol i <> c_dash /\ get_symbol i <> c_gt /\ get_symbol i <> c_space.
Proof.
  unfold get_symbol. fold (hi_symbol i). unfold c_comma, c_dot, c_dash, c_gt, c_space.
  destruct (i <? 52) eqn:A.
  - pose proof (base_range i ltac:(lia)). lia.
  - pose proof (hi_symbol_ge i). lia.
Qed.

(* ------------------------------------------------------------------ *)
(* the ellipsis symbols: exactly req of them, pairwise distinct, none of them used *)
Lemma filter_length_split {A} (f : A -> bool) l :
  length (filter f l) + length (filter (fun x => negb (f x)) l) = length l.
Proof. induction l as [|x l IH]; cbn; [reflexivity|]. destruct (f x); cbn; lia. Qed.

Lemma NoDup_filter {A} (f : A -> bool) l : NoDup l -> NoDup (filter f l).
Proof.
  induction 1 as [|x l Hn Hnd IH]; cbn; [constructor|].
  destruct (f x); [constructor; [rewrite filter_In; tauto|exact IH]|exact IH].
Qed.

Lemma NoDup_firstn {A} n : forall (l : list A), NoDup l -> NoDup (firstn n l).
Proof.
  induction n as [|n IH]; intros l H; cbn; [constructor|].
  destruct l as [|x l]; [constructor|]. inversion H; subst. constructor; [|apply IH; assumption].
  intro Hx. apply (In_nth _ _ x) in Hx. destruct Hx as [i [Hi Hn]].
  assert (In x l); [|contradiction]. rewrite <- (firstn_skipn n l). apply in_or_app. left.
  rewrite <- Hn. apply nth_In. exact Hi.
Qed.

Lemma candidates_nodup n : NoDup (map get_symbol (seq 0 n)).
Proof.
  apply FinFun.Injective_map_NoDup; [intros a b; apply get_symbol_inj|apply seq_NoDup].
Qed.

Lemma fresh_symbols_spec req used :
  length (fresh_symbols req used) = req /\ NoDup (fresh_symbols req used) /\
  (forall s, In s (fresh_symbols req used) -> ~ In s used /\ exists i, s = get_symbol i).
Proof.
  unfold fresh_symbols.
  set (cand := map get_symbol (seq 0 (req + length used))).
  set (P := fun s => negb (memb s used)).
  assert (Hc : NoDup cand) by apply candidates_nodup.
  assert (Hlen : req <= length (filter P cand)).
  { assert (S : length (filter (fun s => memb s used) cand) + length (filter P cand) = length cand)
      by apply filter_length_split.
    assert (length (filter (fun s => memb s used) cand) <= length used).
    { apply NoDup_incl_length; [apply NoDup_filter; exact Hc|].
      intros s Hs. apply filter_In in Hs. apply memb_In. tauto. }
    assert (length cand = req + length used) by (unfold cand; rewrite map_length, seq_length; reflexivity).
    lia. }
  split; [rewrite firstn_length; lia|]. split.
  - assert (Hf : NoDup (filter P cand)) by (apply NoDup_filter; exact Hc).
    apply NoDup_firstn. exact Hf.
  - intros s Hs.
    assert (Hs' : In s (filter P cand)).
    { rewrite <- (firstn_skipn req (filter P cand)). apply in_or_app. left. exact Hs. }
    apply filter_In in Hs'. destruct Hs' as [Hc' HP]. split.
    + unfold P in HP. apply negb_true_iff in HP. apply memb_false in HP. exact HP.
    + unfold cand in Hc'. apply in_map_iff in Hc'. destruct Hc' as [i [E _]]. eauto.
Qed.

(* ------------------------------------------------------------------ *)
(* canonicalize_inputs is an injective relabelling applied consistently *)
Definition im_wf (m : imap) : Prop :=
  NoDup (map fst m) /\ forall k, k < length m -> snd (nth k m (0, 0)) = get_symbol k.
Definition im_fun (m : imap) (x : nat) : nat := match im_look m x with Some s => s | None => 0 end.

Lemma im_look_in m x s : im_look m x = Some s -> In (x, s) m.
Proof.
  induction m as [|[k v] m IH]; cbn; [discriminate|].
  destruct (Nat.eqb k x) eqn:E.
  - intro H; inversion H; subst. apply Nat.eqb_eq in E. subst. left; reflexivity.
  - intro H. right. apply IH. exact H.
Qed.
Lemma im_look_none m x : im_look m x = None <-> ~ In x (map fst m).
Proof.
  induction m as [|[k v] m IH]; cbn; [tauto|].
  destruct (Nat.eqb k x) eqn:E.
  - apply Nat.eqb_eq in E. split; [discriminate|]. intro H; exfalso; apply H; left; exact E.
  - apply Nat.eqb_neq in E. rewrite IH. intuition.
Qed.
Lemma im_look_app m ext x s : im_look m x = Some s -> im_look (m ++ ext) x = Some s.
Proof.
  induction m as [|[k v] m IH]; cbn; [discriminate|]. destruct (Nat.eqb k x); auto.
Qed.
Lemma im_look_app_new m x s : im_look m x = None -> im_look (m ++ [(x, s)]) x = Some s.
Proof.
  induction m as [|[k v] m IH]; cbn; [rewrite Nat.eqb_refl; reflexivity|].
  destruct (Nat.eqb k x); [discriminate|auto].
Qed.

Lemma NoDup_snoc {A} (l : list A) x : NoDup l -> ~ In x l -> NoDup (l ++ [x]).
Proof.
  induction 1 as [|y l Hn Hnd IH]; intro Hx; cbn; [repeat constructor; tauto|].
  constructor.
  - rewrite in_app_iff. cbn. intros [H|[H|[]]]; [contradiction|]. subst. apply Hx. left; reflexivity.
  - apply IH. intro H. apply Hx. right; exact H.
Qed.

Lemma im_wf_nil : im_wf [].
Proof. split; [constructor|cbn; intros; lia]. Qed.

Lemma im_get_spec m x m' s : im_wf m -> im_get m x = (m', s) ->
  im_wf m' /\ (exists ext, m' = m ++ ext) /\ im_look m' x = Some s.
Proof.
  intros [Hnd Hsym]. unfold im_get. destruct (im_look m x) as [v|] eqn:E; intro H; inversion H; subst.
  - split; [split; assumption|]. split; [exists []; rewrite app_nil_r; reflexivity|exact E].
  - split; [split|].
    + rewrite map_app. cbn. apply im_look_none in E.
      apply NoDup_snoc; [exact Hnd|exact E].
    + intros k Hk. rewrite app_length in Hk. cbn in Hk.
      destruct (Nat.eq_dec k (length m)) as [->|Hne].
      * rewrite app_nth2, Nat.sub_diag; [reflexivity|lia].
      * rewrite app_nth1; [apply Hsym|]; lia.
    + split; [eexists; reflexivity|apply im_look_app_new; exact E].
Qed.

Lemma im_term_spec term : forall m m' ss, im_wf m -> im_term m term = (m', ss) ->
  im_wf m' /\ (exists ext, m' = m ++ ext) /\ ss = map (im_fun m') term /\
  (forall x, In x term -> In x (map fst m')).
Proof.
  induction term as [|x r IH]; intros m m' ss Hwf; cbn.
  - intro H; inversion H; subst. split; [exact Hwf|]. split; [exists []; rewrite app_nil_r; reflexivity|].
    split; [reflexivity|intros ? []].
  - destruct (im_get m x) as [m1 s] eqn:G. destruct (im_term m1 r) as [m2 ss2] eqn:T.
    intro H; inversion H; subst.
    destruct (im_get_spec _ _ _ _ Hwf G) as [W1 [[e1 E1] L1]].
    destruct (IH _ _ _ W1 T) as [W2 [[e2 E2] [S2 D2]]].
    split; [exact W2|]. split; [exists (e1 ++ e2); rewrite E2, E1, app_assoc; reflexivity|].
    assert (L2 : im_look m' x = Some s) by (rewrite E2; apply im_look_app; exact L1).
    split.
    + cbn. f_equal; [unfold im_fun; rewrite L2; reflexivity|exact S2].
    + intros y [->|Hy]; [|apply D2; exact Hy].
      apply im_look_in in L2. apply in_map_iff. exists (y, s). split; [reflexivity|exact L2].
Qed.

Lemma im_fun_ext m ext x : In x (map fst m) -> im_fun (m ++ ext) x = im_fun m x.
Proof.
  intro H. unfold im_fun. destruct (im_look m x) as [s|] eqn:E.
  - rewrite (im_look_app _ _ _ _ E). reflexivity.
  - apply im_look_none in E. contradiction.
Qed.

Lemma im_terms_spec terms : forall m m' sss, im_wf m -> im_terms m terms = (m', sss) ->
  im_wf m' /\ (exists ext, m' = m ++ ext) /\ sss = map (map (im_fun m')) terms /\
  (forall x, In x (concat terms) -> In x (map fst m')).
Proof.
  induction terms as [|t r IH]; intros m m' sss Hwf; cbn.
  - intro H; inversion H; subst. split; [exact Hwf|]. split; [exists []; rewrite app_nil_r; reflexivity|].
    split; [reflexivity|intros ? []].
  - destruct (im_term m t) as [m1 s] eqn:G. destruct (im_terms m1 r) as [m2 ss2] eqn:T.
    intro H; inversion H; subst.
    destruct (im_term_spec _ _ _ _ Hwf G) as [W1 [[e1 E1] [S1 D1]]].
    destruct (IH _ _ _ W1 T) as [W2 [[e2 E2] [S2 D2]]].
    split; [exact W2|]. split; [exists (e1 ++ e2); rewrite E2, E1, app_assoc; reflexivity|].
    split.
    + cbn. f_equal; [|exact S2]. rewrite S1. apply map_ext_in. intros y Hy.
      rewrite E2. symmetry. apply im_fun_ext. apply D1. exact Hy.
    + intros y Hy. apply in_app_or in Hy. destruct Hy as [Hy|Hy]; [|apply D2; exact Hy].
      rewrite E2, map_app. apply in_or_app. left. apply D1. exact Hy.
Qed.

Lemma im_wf_inj m x y : im_wf m -> In x (map fst m) -> In y (map fst m) -> im_fun m x = im_fun m y -> x = y.
Proof.
  intros [Hnd Hsym] Hx Hy E.
  destruct (im_look m x) as [sx|] eqn:Lx; [|apply im_look_none in Lx; contradiction].
  destruct (im_look m y) as [sy|] eqn:Ly; [|apply im_look_none in Ly; contradiction].
  unfold im_fun in E. rewrite Lx, Ly in E. subst sy.
  apply im_look_in in Lx. apply im_look_in in Ly.
  destruct (In_nth _ _ (0, 0) Lx) as [i [Hi Ni]]. destruct (In_nth _ _ (0, 0) Ly) as [j [Hj Nj]].
  pose proof (Hsym i Hi) as Si. pose proof (Hsym j Hj) as Sj. rewrite Ni in Si. rewrite Nj in Sj. cbn in Si, Sj.
  assert (i = j) by (apply get_symbol_inj; congruence). subst j. congruence.
Qed.

(* counting occurrences commutes with an injective relabelling *)
Lemma count_map_inj f l x : (forall y, In y l -> f y = f x -> y = x) -> count (f x) (map f l) = count x l.
Proof.
  induction l as [|y l IH]; intro H; cbn; [reflexivity|].
  rewrite IH by (intros; apply H; [right|]; assumption).
  destruct (Nat.eqb y x) eqn:E.
  - apply Nat.eqb_eq in E. subst. rewrite Nat.eqb_refl. reflexivity.
  - replace (Nat.eqb (f y) (f x)) with false; [reflexivity|].
    symmetry. apply Nat.eqb_neq. intro F. apply Nat.eqb_neq in E. apply E. apply H; [left; reflexivity|exact F].
Qed.
Lemma once_first_seen_map f l : (forall x y, In x l -> In y l -> f x = f y -> x = y) ->
  once_first_seen (map f l) = map f (once_first_seen l).
Proof.
  intro Hinj. unfold once_first_seen.
  assert (G : forall l0, incl l0 l ->
    filter (fun x => Nat.eqb (count x (map f l)) 1) (map f l0) = map f (filter (fun x => Nat.eqb (count x l) 1) l0)).
  { induction l0 as [|a l0 IH]; intro Hi; cbn; [reflexivity|].
    rewrite count_map_inj by (intros y Hy E; apply Hinj; [exact Hy|apply Hi; left; reflexivity|exact E]).
    rewrite IH by (intros z Hz; apply Hi; right; exact Hz).
    destruct (Nat.eqb (count a l) 1); reflexivity. }
  apply G. apply incl_refl.
Qed.

Lemma im_sizes_spec sd : forall m acc m' s, im_wf m -> im_sizes m sd acc = (m', s) ->
  im_wf m' /\ (exists ext, m' = m ++ ext) /\ (forall x, In x (map fst sd) -> In x (map fst m')).
Proof.
  induction sd as [|[k d] r IH]; intros m acc m' s Hwf; cbn.
  - intro H; inversion H; subst. split; [exact Hwf|]. split; [exists []; rewrite app_nil_r; reflexivity|intros ? []].
  - destruct (im_get m k) as [m1 s1] eqn:G. intro H.
    destruct (im_get_spec _ _ _ _ Hwf G) as [W1 [[e1 E1] L1]].
    destruct (IH _ _ _ _ W1 H) as [W2 [[e2 E2] D2]].
    split; [exact W2|]. split; [exists (e1 ++ e2); rewrite E2, E1, app_assoc; reflexivity|].
    intros x [<-|Hx]; [|apply D2; exact Hx].
    rewrite E2, map_app. apply in_or_app. left.
    apply im_look_in in L1. apply in_map_iff. exists (k, s1). split; [reflexivity|exact L1].
Qed.

Lemma map_im_fun_ext m ext l : (forall x, In x l -> In x (map fst m)) ->
  map (im_fun m) l = map (im_fun (m ++ ext)) l.
Proof. intro H. apply map_ext_in. intros x Hx. symmetry. apply im_fun_ext. apply H. exact Hx. Qed.

Lemma canonicalize_relabels inputs output shapes sd ni no nsd m :
  canonicalize_inputs inputs output shapes sd = (ni, no, nsd, m) ->
  im_wf m /\
  ni = map (map (im_fun m)) inputs /\
  (forall x, In x (concat inputs) -> In x (map fst m)) /\
  match output with
  | Some o => no = map (im_fun m) o /\ (forall x, In x o -> In x (map fst m))
  | None => no = map (im_fun m) (find_output_from_inputs inputs)
  end /\
  (match sd with Some sdv => forall x, In x (map fst sdv) -> In x (map fst m) | None => True end) /\
  (forall x y, In x (map fst m) -> In y (map fst m) -> im_fun m x = im_fun m y -> x = y).
Proof.
  unfold canonicalize_inputs.
  destruct (im_terms [] inputs) as [m1 ni1] eqn:T1.
  destruct (im_terms_spec _ _ _ _ im_wf_nil T1) as [W1 [_ [S1 D1]]].
  (* second stage: the output *)
  assert (R2 : exists m2 no2 e2,
    (match output with Some o => im_term m1 o | None => (m1, find_output_from_inputs ni1) end) = (m2, no2) /\
    im_wf m2 /\ m2 = m1 ++ e2 /\
    match output with
    | Some o => no2 = map (im_fun m2) o /\ (forall x, In x o -> In x (map fst m2))
    | None => no2 = map (im_fun m2) (find_output_from_inputs inputs)
    end).
  { destruct output as [o|].
    - destruct (im_term m1 o) as [m2 no2] eqn:T2.
      destruct (im_term_spec _ _ _ _ W1 T2) as [W2 [[e2 E2] [S2 D2]]].
      exists m2, no2, e2. auto.
    - exists m1, (find_output_from_inputs ni1), []. split; [reflexivity|]. split; [exact W1|].
      split; [rewrite app_nil_r; reflexivity|].
      rewrite S1. rewrite !find_output_from_inputs_spec. rewrite <- concat_map. apply once_first_seen_map.
      intros x y Hx Hy. apply (im_wf_inj m1); auto. }
  destruct R2 as [m2 [no2 [e2 [R2 [W2 [E2 O2]]]]]]. rewrite R2.
  (* third stage: the sizes *)
  assert (R3 : exists m3 nsd3 e3,
    (match sd with
     | Some sd0 => let '(m0, s) := im_sizes m2 sd0 [] in (m0, Some s)
     | None => match shapes with
               | Some shs => (m2, Some (sizes_from_shapes ni1 shs))
               | None => (m2, None)
               end
     end) = (m3, nsd3) /\ im_wf m3 /\ m3 = m2 ++ e3 /\
    match sd with Some sdv => forall x, In x (map fst sdv) -> In x (map fst m3) | None => True end).
  { destruct sd as [sdv|].
    - destruct (im_sizes m2 sdv []) as [m3 s3] eqn:T3.
      destruct (im_sizes_spec _ _ _ _ _ W2 T3) as [W3 [[e3 E3] D3]].
      exists m3, (Some s3), e3. auto.
    - destruct shapes as [shs|].
      + exists m2, (Some (sizes_from_shapes ni1 shs)), []. rewrite app_nil_r. auto.
      + exists m2, None, []. rewrite app_nil_r. auto. }
  destruct R3 as [m3 [nsd3 [e3 [R3 [W3 [E3 D3]]]]]]. rewrite R3.
  intro H. injection H as Hni Hno Hnsd Hm. subst ni no nsd m.
  assert (DI : forall x, In x (concat inputs) -> In x (map fst m2)).
  { intros x Hx. rewrite E2, map_app. apply in_or_app. left. apply D1. exact Hx. }
  split; [exact W3|]. split.
  - rewrite S1. apply map_ext_in. intros t Ht. rewrite E3, E2, <- app_assoc.
    apply map_im_fun_ext. intros x Hx. apply D1. apply in_concat. eauto.
  - split; [intros x Hx; rewrite E3, map_app; apply in_or_app; left; apply DI; exact Hx|].
    split.
    + destruct output as [o|].
      * destruct O2 as [O2 D2]. split.
        -- rewrite O2, E3. apply map_im_fun_ext. exact D2.
        -- intros x Hx. rewrite E3, map_app. apply in_or_app. left. apply D2. exact Hx.
      * rewrite O2, E3. apply map_im_fun_ext. intros x Hx.
        rewrite find_output_from_inputs_spec in Hx. unfold once_first_seen in Hx. apply filter_In in Hx.
        apply DI. tauto.
    + split; [exact D3|]. intros; eapply im_wf_inj; eassumption.
Qed.

(* ------------------------------------------------------------------ *)
(* refutations: inputs numpy.einsum accepts on which the faithful model differs *)

(* 12(a)  'ab, bc -> ac'  on shapes (2,3),(3,4) *)
Definition w_spaces : str := [97;98;44;32;98;99;32;45;62;32;97;99].
Lemma eq_spaces_refuted :
  exists eq shapes, agrees_with_numpy eq shapes = Some false /\ ~ In c_space (filter (fun c => negb (Nat.eqb c c_space)) eq)
                    /\ agrees_with_numpy (filter (fun c => negb (Nat.eqb c c_space)) eq) shapes = Some true.
Proof.
  exists w_spaces, [[2;3];[3;4]]%Z. split; [vm_compute; reflexivity|]. split; [|vm_compute; reflexivity].
  vm_compute. intuition discriminate.
Qed.

(* 12(b)  einsum(x, [5,1], y, [1,2])  on shapes (4,2),(2,3) *)
Lemma interleaved_implicit_order_refuted :
  exists ops, agrees_with_numpy_inter ops None = Some false
              /\ np_out_shape (AInter ops None) = Some [3;4]%Z
              /\ front_out_shape (AInter ops None) = Some [4;3]%Z.
Proof.
  exists [([4;2]%Z, [IL 5; IL 1]); ([2;3]%Z, [IL 1; IL 2])]. repeat split; vm_compute; reflexivity.
Qed.

(* 12(c)  '...a,...a->...'  on shapes (2,3),(1,3): the parse agrees, the network does not fit the operands *)
Lemma ellipsis_size1_broadcast_refuted :
  exists a, (exists eq shapes, a = AStr eq shapes /\ agrees_with_numpy eq shapes = Some true)
            /\ np_out_shape a = Some [2%Z]
            /\ front_consistent a = Some false
            /\ front_out_shape a = Some [1%Z].
Proof.
  exists (AStr [46;46;46;97;44;46;46;46;97;45;62;46;46;46] [[2;3];[1;3]]%Z).
  split; [eexists; eexists; split; [reflexivity|vm_compute; reflexivity]|].
  repeat split; vm_compute; reflexivity.
Qed.

(* 12(d)  'ab->...ab'  on shape (2,3): an output ellipsis that stands for no dimension *)
Lemma output_ellipsis_only_refuted :
  exists eq shapes, agrees_with_numpy eq shapes = Some false /\ np_out_shape (AStr eq shapes) = Some [2;3]%Z.
Proof.
  exists [97;98;45;62;46;46;46;97;98], [[2;3]]%Z. split; vm_compute; reflexivity.
Qed.

(* ================================================================== *)
(* general theorems: model parser = NumpySpec for ALL inputs           *)


Lemma unlex_cons t ts : unlex (t :: ts) = unlex1 t ++ unlex ts.
Proof. reflexivity. Qed.

Lemma is_letter_not_reserved c : is_letter c = true -> not_reserved c.
Proof. unfold not_reserved, is_letter, c_space, c_comma, c_dash, c_dot, c_gt. lia. Qed.

(* --- the lexer: numpy accepts  =>  the blank-free string is the rendering of the tokens --- *)
Lemma np_lex_sound n : forall s ts, length s <= n -> np_lex s = Some ts ->
  strip_spaces s = unlex ts /\ Forall tok_ok ts.
Proof.
  induction n as [|n IH]; intros s ts Hn.
  - destruct s; [|cbn in Hn; lia]. cbn. intro H; inversion H; subst. split; [reflexivity|constructor].
  - destruct s as [|x r]; [cbn; intro H; inversion H; subst; split; [reflexivity|constructor]|].
    cbn in Hn. cbn [np_lex]. unfold strip_spaces. cbn [filter]. fold (strip_spaces r).
    destruct (Nat.eqb x c_space) eqn:E1.
    + cbn. intro H. apply IH; [lia|exact H].
    + cbn [negb]. destruct (Nat.eqb x c_comma) eqn:E2.
      * destruct (np_lex r) as [ts'|] eqn:L; [|discriminate]. cbn. intro H; inversion H; subst.
        destruct (IH r ts' ltac:(lia) L) as [S1 S2]. apply Nat.eqb_eq in E2. subst x.
        split; [rewrite unlex_cons; cbn; f_equal; exact S1|constructor; [exact I|exact S2]].
      * destruct (is_letter x) eqn:E3.
        -- destruct (np_lex r) as [ts'|] eqn:L; [|discriminate]. cbn. intro H; inversion H; subst.
           destruct (IH r ts' ltac:(lia) L) as [S1 S2].
           split; [rewrite unlex_cons; cbn; f_equal; exact S1|constructor; [exact (is_letter_not_reserved x E3)|exact S2]].
        -- destruct r as [|y r']; [discriminate|].
           destruct (Nat.eqb x c_dash && Nat.eqb y c_gt) eqn:E4.
           ++ destruct (np_lex r') as [ts'|] eqn:L; [|discriminate]. cbn [ocons]. intro H; inversion H; subst.
              cbn in Hn. destruct (IH r' ts' ltac:(lia) L) as [S1 S2].
              apply andb_true_iff in E4. destruct E4 as [A B]. apply Nat.eqb_eq in A, B. subst x y.
              split; [|constructor; [exact I|exact S2]].
              rewrite unlex_cons. cbn. f_equal. f_equal. exact S1.
           ++ destruct r' as [|z r'']; [discriminate|].
              destruct (dots3 x y z) eqn:E5; [|discriminate].
              destruct (np_lex r'') as [ts'|] eqn:L; [|discriminate]. cbn [ocons]. intro H; inversion H; subst.
              cbn in Hn. destruct (IH r'' ts' ltac:(lia) L) as [S1 S2].
              unfold dots3 in E5. apply andb_true_iff in E5. destruct E5 as [E5 C].
              apply andb_true_iff in E5. destruct E5 as [A B]. apply Nat.eqb_eq in A, B, C. subst x y z.
              split; [|constructor; [exact I|exact S2]].
              rewrite unlex_cons. cbn. f_equal. f_equal. f_equal. exact S1.
Qed.

Lemma np_lex_sound_all eq ts : np_lex eq = Some ts -> strip_spaces eq = unlex ts /\ Forall tok_ok ts.
Proof. exact (np_lex_sound (length eq) eq ts (le_n _)). Qed.

(* --- splitting --- *)
Lemma tsplit_nonempty sep l : tsplit sep l <> [].
Proof. destruct l as [|t r]; cbn; [discriminate|]. destruct (sep t); [discriminate|]. destruct (tsplit sep r); discriminate. Qed.

Lemma split_arrow_cons x rest : x <> c_dash -> split_arrow (x :: rest) = cons_head x (split_arrow rest).
Proof.
  intro H. destruct rest as [|y r']; [reflexivity|].
  cbn [split_arrow]. replace (Nat.eqb x c_dash) with false by (symmetry; apply Nat.eqb_neq; exact H). reflexivity.
Qed.

Lemma map_unlex_cons_head c h tl : map unlex ((TL c :: h) :: tl) = cons_head c (map unlex (h :: tl)).
Proof. reflexivity. Qed.

Lemma split_arrow_unlex ts : Forall tok_ok ts ->
  split_arrow (unlex ts) = map unlex (tsplit is_arrow ts).
Proof.
  induction 1 as [|t ts Ht Hts IH]; [reflexivity|].
  rewrite unlex_cons. destruct t as [c| | |]; cbn [unlex1 tsplit is_arrow app].
  - destruct Ht as [_ [_ [D _]]].
    rewrite split_arrow_cons by exact D. rewrite IH.
    destruct (tsplit is_arrow ts) as [|h tl] eqn:E; [exfalso; eapply tsplit_nonempty; exact E|]. reflexivity.
  - rewrite !split_arrow_cons by (unfold c_dot, c_dash; lia). rewrite IH.
    destruct (tsplit is_arrow ts) as [|h tl] eqn:E; [exfalso; eapply tsplit_nonempty; exact E|]. reflexivity.
  - rewrite split_arrow_cons by (unfold c_comma, c_dash; lia). rewrite IH.
    destruct (tsplit is_arrow ts) as [|h tl] eqn:E; [exfalso; eapply tsplit_nonempty; exact E|]. reflexivity.
  - cbn [split_arrow]. rewrite !Nat.eqb_refl. cbn. rewrite IH. reflexivity.
Qed.

Definition no_arrow (t : tok) : Prop := is_arrow t = false.
Lemma tsplit_arrow_no_arrow ts : Forall (Forall no_arrow) (tsplit is_arrow ts).
Proof.
  induction ts as [|t ts IH]; cbn; [repeat constructor|].
  destruct (is_arrow t) eqn:E; [constructor; [constructor|exact IH]|].
  destruct (tsplit is_arrow ts) as [|h tl]; [repeat constructor; exact E|].
  inversion IH; subst. constructor; [constructor; assumption|assumption].
Qed.

Lemma split_comma_unlex ts : Forall tok_ok ts -> Forall no_arrow ts ->
  split_char c_comma (unlex ts) = map unlex (tsplit is_comma ts).
Proof.
  induction 1 as [|t ts Ht Hts IH]; intro Hna; [reflexivity|].
  inversion Hna as [|? ? Hn1 Hn2]; subst. specialize (IH Hn2).
  rewrite unlex_cons. destruct t as [c| | |]; cbn [unlex1 tsplit is_comma app split_char].
  - destruct Ht as [_ [D _]].
    replace (Nat.eqb c c_comma) with false by (symmetry; apply Nat.eqb_neq; exact D).
    rewrite IH. destruct (tsplit is_comma ts) as [|h tl] eqn:E; [exfalso; eapply tsplit_nonempty; exact E|]. reflexivity.
  - cbn. rewrite IH. destruct (tsplit is_comma ts) as [|h tl] eqn:E; [exfalso; eapply tsplit_nonempty; exact E|]. reflexivity.
  - rewrite Nat.eqb_refl. rewrite IH. reflexivity.
  - discriminate Hn1.
Qed.

(* --- one term (only letters and ellipses) --- *)
Definition subst_toks (rep : str) (t : list tok) : str :=
  concat (map (fun x => match x with TL c => [c] | TEll => rep | _ => [] end) t).

Lemma only_labels_cons x t : only_labels (x :: t) = true ->
  (match x with TL _ | TEll => True | _ => False end) /\ only_labels t = true.
Proof. unfold only_labels. cbn. destruct x; cbn; intro H; try discriminate; auto. Qed.

Lemma n_ell_cons x t : n_ell (x :: t) = (if is_ell x then 1 else 0) + n_ell t.
Proof. unfold n_ell. cbn. destruct (is_ell x); reflexivity. Qed.
Lemma letters_of_cons x t : letters_of (x :: t) = (match x with TL c => [c] | _ => [] end) ++ letters_of t.
Proof. reflexivity. Qed.

Lemma count_dot_unlex t : only_labels t = true -> Forall tok_ok t -> count c_dot (unlex t) = 3 * n_ell t.
Proof.
  induction t as [|x t IH]; intros Ho Hk; [reflexivity|].
  destruct (only_labels_cons _ _ Ho) as [Hx Ho']. inversion Hk as [|? ? K1 K2]; subst.
  rewrite unlex_cons, count_app, n_ell_cons, (IH Ho' K2). destruct x as [c| | |]; try contradiction; cbn.
  - destruct K1 as [_ [_ [_ [D _]]]].
    replace (Nat.eqb c c_dot) with false by (symmetry; apply Nat.eqb_neq; exact D). lia.
  - lia.
Qed.

Lemma has_ell_cons_other c rest : c <> c_dot -> has_ell (c :: rest) = has_ell rest.
Proof.
  intro H. cbn [has_ell]. destruct rest as [|y [|z r]]; try reflexivity.
  unfold dots3. replace (Nat.eqb c c_dot) with false by (symmetry; apply Nat.eqb_neq; exact H). reflexivity.
Qed.
Lemma has_ell_unlex t : only_labels t = true -> Forall tok_ok t -> 1 <= n_ell t -> has_ell (unlex t) = true.
Proof.
  induction t as [|x t IH]; intros Ho Hk Hn; [cbn in Hn; lia|].
  destruct (only_labels_cons _ _ Ho) as [Hx Ho']. inversion Hk as [|? ? K1 K2]; subst.
  rewrite unlex_cons. rewrite n_ell_cons in Hn. destruct x as [c| | |]; try contradiction; cbn [unlex1 app].
  - destruct K1 as [_ [_ [_ [D _]]]].
    rewrite has_ell_cons_other by exact D. apply IH; auto.
  - reflexivity.
Qed.

Lemma check_ellipsis_unlex t : only_labels t = true -> Forall tok_ok t ->
  check_ellipsis (unlex t) = match n_ell t with 0 => Some false | 1 => Some true | _ => None end.
Proof.
  intros Ho Hk. unfold check_ellipsis. rewrite (count_dot_unlex t Ho Hk).
  destruct (n_ell t) as [|[|k]] eqn:E; [reflexivity| |].
  - cbn. rewrite has_ell_unlex; auto. lia.
  - replace (Nat.eqb (3 * S (S k)) 0) with false by (symmetry; apply Nat.eqb_neq; lia).
    replace (Nat.eqb (3 * S (S k)) 3) with false by (symmetry; apply Nat.eqb_neq; lia). reflexivity.
Qed.

Lemma length_unlex t : only_labels t = true -> length (unlex t) = length (letters_of t) + 3 * n_ell t.
Proof.
  induction t as [|x t IH]; intros Ho; [reflexivity|].
  destruct (only_labels_cons _ _ Ho) as [Hx Ho'].
  rewrite unlex_cons, app_length, n_ell_cons, letters_of_cons, app_length, (IH Ho').
  destruct x; try contradiction; cbn; lia.
Qed.

Lemma replace_ell_cons_other rep c rest : c <> c_dot -> replace_ell rep (c :: rest) = c :: replace_ell rep rest.
Proof.
  intro H. cbn [replace_ell]. destruct rest as [|y [|z r]]; try reflexivity.
  unfold dots3. replace (Nat.eqb c c_dot) with false by (symmetry; apply Nat.eqb_neq; exact H). reflexivity.
Qed.
Lemma replace_ell_unlex rep t : only_labels t = true -> Forall tok_ok t ->
  replace_ell rep (unlex t) = subst_toks rep t.
Proof.
  induction t as [|x t IH]; intros Ho Hk; [reflexivity|].
  destruct (only_labels_cons _ _ Ho) as [Hx Ho']. inversion Hk as [|? ? K1 K2]; subst.
  rewrite unlex_cons. unfold subst_toks. cbn [map concat]. fold (subst_toks rep t).
  destruct x as [c| | |]; try contradiction; cbn [unlex1 app].
  - destruct K1 as [_ [_ [_ [D _]]]].
    rewrite replace_ell_cons_other by exact D. rewrite IH; auto.
  - cbn [replace_ell]. unfold dots3. rewrite !Nat.eqb_refl. cbn. rewrite IH; auto.
Qed.

Lemma unlex_no_ell t : only_labels t = true -> n_ell t = 0 -> forall rep, unlex t = subst_toks rep t.
Proof.
  induction t as [|x t IH]; intros Ho Hn rep; [reflexivity|].
  destruct (only_labels_cons _ _ Ho) as [Hx Ho']. rewrite n_ell_cons in Hn.
  rewrite unlex_cons. unfold subst_toks. cbn [map concat]. fold (subst_toks rep t).
  destruct x; try contradiction; cbn in *; [|lia]. f_equal. apply IH; auto.
Qed.

(* the specification's expansion of a term, renamed by rho, is the substitution of the symbols *)
Lemma skipn_nth_cons {A} (d : A) i l : i < length l -> skipn i l = nth i l d :: skipn (S i) l.
Proof.
  revert i. induction l as [|x l IH]; intros i H; cbn in H; [lia|].
  destruct i; [reflexivity|]. cbn. apply IH. lia.
Qed.
Lemma rho_bdims E nb : nb <= length E -> map (rho E) (bdims nb) = skipn (length E - nb) E.
Proof.
  unfold bdims. induction nb as [|nb IH]; intro H.
  - cbn. rewrite Nat.sub_0_r, skipn_all. reflexivity.
  - rewrite seq_S, rev_app_distr. cbn [rev app map plus]. rewrite IH by lia.
    rewrite (skipn_nth_cons 0 (length E - S nb)) by lia.
    replace (S (length E - S nb)) with (length E - nb) by lia.
    cbn [rho]. f_equal. f_equal. lia.
Qed.
Lemma rho_expand_toks E nb t : only_labels t = true -> nb <= length E ->
  map (rho E) (expand_toks nb t) = subst_toks (skipn (length E - nb) E) t.
Proof.
  intros Ho Hnb. unfold expand_toks, subst_toks. rewrite concat_map, map_map. f_equal.
  induction t as [|x t IH]; [reflexivity|].
  destruct (only_labels_cons _ _ Ho) as [Hx Ho']. cbn [map]. rewrite (IH Ho'). f_equal.
  destruct x; try contradiction; [reflexivity|]. apply rho_bdims. exact Hnb.
Qed.
(* a term without ellipsis does not depend on nb *)
Lemma expand_toks_no_ell nb t : n_ell t = 0 -> expand_toks nb t = expand_toks 0 t.
Proof.
  unfold expand_toks. induction t as [|x t IH]; intro H; [reflexivity|].
  rewrite n_ell_cons in H. cbn [map concat]. rewrite IH by lia. destruct x; cbn in *; try reflexivity. lia.
Qed.

(* --- all operands: the first pass (ell_needs), the number of ellipsis symbols, the second pass --- *)
Definition need_of (t : list tok) (nb : nat) : option Z :=
  if Nat.eqb (n_ell t) 0 then None else Some (Z.of_nat nb).
Definition needs_of (ops : list (list tok)) (nbs : list nat) : list (option Z) :=
  map (fun tn => need_of (fst tn) (snd tn)) (combine ops nbs).

Lemma np_operand_nb_spec t rank nb : np_operand_nb t rank = Some nb ->
  (n_ell t = 0 /\ nb = 0 /\ rank = length (letters_of t)) \/
  (n_ell t = 1 /\ length (letters_of t) <= rank /\ nb = rank - length (letters_of t)).
Proof.
  unfold np_operand_nb. destruct (n_ell t) as [|[|k]].
  - destruct (Nat.eqb rank (length (letters_of t))) eqn:E; [|discriminate].
    intro H; inversion H; subst. apply Nat.eqb_eq in E. left. auto.
  - destruct (length (letters_of t) <=? rank) eqn:E; [|discriminate].
    intro H; inversion H; subst. right. repeat split; lia.
  - discriminate.
Qed.

Lemma ell_needs_unlex ops : forall shapes nbs,
  forallb only_labels ops = true -> Forall (Forall tok_ok) ops ->
  np_operands_nb ops shapes = Some nbs ->
  ell_needs (map unlex ops) shapes = Some (needs_of ops nbs) /\
  length nbs = length ops /\ length shapes = length ops /\
  Forall (fun tn => n_ell (fst tn) = 0 -> snd tn = 0) (combine ops nbs).
Proof.
  induction ops as [|t ops IH]; intros shapes nbs Ho Hk; cbn [np_operands_nb].
  - destruct shapes; [|discriminate]. intro H; inversion H; subst. cbn. auto.
  - destruct shapes as [|sh shapes]; [discriminate|].
    destruct (np_operand_nb t (length sh)) as [nb|] eqn:E1; [|discriminate].
    destruct (np_operands_nb ops shapes) as [nbs'|] eqn:E2; [|discriminate].
    intro H; inversion H; subst. cbn in Ho. apply andb_true_iff in Ho. destruct Ho as [Ho1 Ho2].
    inversion Hk as [|? ? K1 K2]; subst.
    destruct (IH shapes nbs' Ho2 K2 E2) as [I1 [I2 [I3 I4]]].
    split; [|cbn; repeat split; try lia; constructor; [|exact I4]].
    + cbn [map ell_needs]. rewrite I1. unfold ell_need. rewrite (check_ellipsis_unlex t Ho1 K1).
      unfold needs_of. cbn [combine map fst snd].
      destruct (np_operand_nb_spec _ _ _ E1) as [[A [B C]]|[A [B C]]].
      * assert (Hn : need_of t nb = None) by (unfold need_of; rewrite A; reflexivity).
        rewrite Hn, A. reflexivity.
      * assert (Hn : need_of t nb = Some (Z.of_nat nb)) by (unfold need_of; rewrite A; reflexivity).
        rewrite Hn, A. rewrite (length_unlex t Ho1), A. do 3 f_equal.
        lia.
    + cbn [fst snd]. intro A. destruct (np_operand_nb_spec _ _ _ E1) as [[_ [B _]]|[A' _]]; [exact B|lia].
Qed.

Lemma fold_max_acc l : forall a, a <= fold_left Nat.max l a.
Proof. induction l as [|y l IH]; intro a; cbn; [lia|]. specialize (IH (Nat.max a y)). lia. Qed.
Lemma fold_max_ge l : forall a x, x = a \/ In x l -> x <= fold_left Nat.max l a.
Proof.
  induction l as [|y l IH]; intros a x; cbn; [intros [->|[]]; lia|].
  pose proof (fold_max_acc l (Nat.max a y)).
  intros [->|[->|H']]; [lia|lia|apply IH; right; exact H'].
Qed.
Lemma fold_max_attained l : forall a, fold_left Nat.max l a = a \/ In (fold_left Nat.max l a) l.
Proof.
  induction l as [|y l IH]; intro a; cbn; [left; reflexivity|].
  destruct (IH (Nat.max a y)) as [E|H]; [|right; right; exact H].
  rewrite E. destruct (Nat.max_spec a y) as [[_ ->]|[_ ->]]; [right; left; reflexivity|left; reflexivity].
Qed.

Lemma in_somes {A} (x : A) l : In x (somes l) <-> In (Some x) l.
Proof.
  induction l as [|[a|] l IH]; cbn; [tauto| |].
  - rewrite IH. split; [intros [->|H]; auto|intros [H|H]; [inversion H; auto|auto]].
  - rewrite IH. split; [auto|intros [H|H]; [discriminate|auto]].
Qed.

Lemma in_needs_of ops nbs z : In (Some z) (needs_of ops nbs) <->
  exists t nb, In (t, nb) (combine ops nbs) /\ n_ell t <> 0 /\ z = Z.of_nat nb.
Proof.
  unfold needs_of. rewrite in_map_iff. split.
  - intros [[t nb] [E H]]. cbn in E. unfold need_of in E. destruct (Nat.eqb (n_ell t) 0) eqn:N; [discriminate|].
    inversion E; subst. apply Nat.eqb_neq in N. eauto.
  - intros [t [nb [H [N ->]]]]. exists (t, nb). split; [|exact H]. cbn. unfold need_of.
    apply Nat.eqb_neq in N. rewrite N. reflexivity.
Qed.

Lemma req_is_max ops nbs :
  length nbs = length ops ->
  Forall (fun tn => n_ell (fst tn) = 0 -> snd tn = 0) (combine ops nbs) ->
  (exists t, In t ops /\ n_ell t <> 0) ->
  zmax_values (somes (needs_of ops nbs)) = Some (Z.of_nat (fold_left Nat.max nbs 0)).
Proof.
  intros HL H0 [t0 [Ht0 Hn0]].
  set (N := fold_left Nat.max nbs 0).
  (* the list is not empty *)
  destruct (In_nth _ _ [] Ht0) as [i [Hi Ei]].
  assert (Hin0 : In (t0, nth i nbs 0) (combine ops nbs)).
  { rewrite <- Ei. rewrite <- combine_nth by lia. apply nth_In. rewrite combine_length. lia. }
  assert (Hne : In (Z.of_nat (nth i nbs 0)) (somes (needs_of ops nbs))).
  { apply in_somes, in_needs_of. eauto. }
  destruct (somes (needs_of ops nbs)) as [|v vs] eqn:ES; [destruct Hne|].
  unfold zmax_values. f_equal. fold (zmax_list vs v).
  assert (Hall : forall z, In z (v :: vs) -> exists t nb, In (t, nb) (combine ops nbs) /\ n_ell t <> 0 /\ z = Z.of_nat nb).
  { intros z Hz. rewrite <- ES in Hz. apply in_somes, in_needs_of in Hz. exact Hz. }
  assert (Hge : forall z, In z (v :: vs) -> (z <= zmax_list vs v)%Z).
  { intros z [<-|Hz]; [rewrite (zmax_list_acc vs v); lia|apply zmax_list_ge; exact Hz]. }
  assert (Hatt : In (zmax_list vs v) (v :: vs)).
  { destruct (zmax_list_attained vs v) as [E|H]; [left; symmetry; exact E|right; exact H]. }
  apply Z.le_antisymm.
  - destruct (Hall _ Hatt) as [t [nb [Hc [_ ->]]]].
    apply in_combine_r in Hc. assert (nb <= N) by (apply fold_max_ge; right; exact Hc). lia.
  - pose proof (fold_max_attained nbs 0) as HA. fold N in HA. destruct HA as [E|Hin].
    + rewrite E. destruct (Hall _ Hatt) as [t [nb [_ [_ ->]]]]. lia.
    + destruct (In_nth _ _ 0 Hin) as [j [Hj Ej]].
      assert (Hcj : In (nth j ops [], N) (combine ops nbs)).
      { rewrite <- Ej. rewrite <- combine_nth by lia. apply nth_In. rewrite combine_length. lia. }
      destruct (Nat.eq_dec (n_ell (nth j ops [])) 0) as [Z0|NZ].
      * rewrite Forall_forall in H0. specialize (H0 _ Hcj Z0). cbn in H0. rewrite H0.
        destruct (Hall _ Hatt) as [t [nb [_ [_ ->]]]]. lia.
      * apply Hge. rewrite <- ES. apply in_somes, in_needs_of. eauto.
Qed.

Lemma slice_from_nat {A} (k : nat) (l : list A) : k <= length l -> slice_from (Z.of_nat k) l = skipn k l.
Proof.
  intro H. unfold slice_from. replace (Z.of_nat k <? 0)%Z with false by lia.
  rewrite Z.min_l by lia. rewrite Nat2Z.id. reflexivity.
Qed.

Lemma expand_term_spec E N t nb : only_labels t = true -> Forall tok_ok t -> length E = N -> nb <= N ->
  expand_term (Z.of_nat N) E (unlex t) (need_of t nb) = map (rho E) (expand_toks nb t).
Proof.
  intros Ho Hk HE Hnb. rewrite rho_expand_toks by (auto; lia). rewrite HE.
  unfold need_of, expand_term. destruct (Nat.eqb (n_ell t) 0) eqn:Z0.
  - apply Nat.eqb_eq in Z0. apply unlex_no_ell; assumption.
  - replace (Z.of_nat N - Z.of_nat nb)%Z with (Z.of_nat (N - nb)) by lia.
    rewrite slice_from_nat by lia. apply replace_ell_unlex; assumption.
Qed.

Lemma expand_terms_spec E N ops : forall nbs,
  forallb only_labels ops = true -> Forall (Forall tok_ok) ops -> length E = N ->
  Forall (fun nb => nb <= N) nbs ->
  expand_terms (Z.of_nat N) E (map unlex ops) (needs_of ops nbs) =
  map (map (rho E)) (map (fun tn => expand_toks (snd tn) (fst tn)) (combine ops nbs)).
Proof.
  unfold expand_terms, needs_of.
  induction ops as [|t ops IH]; intros nbs Ho Hk HE Hnb; [reflexivity|].
  destruct nbs as [|nb nbs]; [reflexivity|].
  cbn in Ho. apply andb_true_iff in Ho. destruct Ho as [Ho1 Ho2].
  inversion Hk as [|? ? K1 K2]; subst. inversion Hnb as [|? ? B1 B2]; subst.
  cbn [map combine fst snd]. f_equal; [apply expand_term_spec; auto|]. apply IH; auto.
Qed.

(* --- the left-hand side as a whole: dots, letters, implicit output --- *)
Definition lhs_tok (t : tok) : Prop := match t with TArrow => False | _ => True end.

Lemma memb_app x l1 l2 : memb x (l1 ++ l2) = memb x l1 || memb x l2.
Proof. unfold memb. apply existsb_app. Qed.

Lemma memb_dot_unlex l : Forall tok_ok l -> memb c_dot (unlex l) = existsb is_ell l.
Proof.
  induction 1 as [|t l Ht Hl IH]; [reflexivity|].
  rewrite unlex_cons, memb_app, IH. destruct t as [c| | |]; try reflexivity.
  change (memb c_dot (unlex1 (TL c))) with (Nat.eqb c_dot c || false).
  destruct Ht as [_ [_ [_ [D _]]]].
  replace (Nat.eqb c_dot c) with false by (symmetry; apply Nat.eqb_neq; intro; apply D; auto). reflexivity.
Qed.

Lemma tsplit_comma_flat {A} (f : tok -> list A) l : f TComma = [] ->
  concat (map (fun p => concat (map f p)) (tsplit is_comma l)) = concat (map f l).
Proof.
  intro Hf. induction l as [|t l IH]; [reflexivity|].
  cbn [tsplit]. destruct (is_comma t) eqn:E.
  - destruct t; try discriminate. cbn [map concat]. rewrite Hf, IH. reflexivity.
  - destruct (tsplit is_comma l) as [|h tl] eqn:S; [exfalso; eapply tsplit_nonempty; exact S|].
    cbn [map concat] in *. rewrite <- IH. rewrite app_assoc. reflexivity.
Qed.
Lemma letters_of_tsplit l : concat (map letters_of (tsplit is_comma l)) = letters_of l.
Proof. unfold letters_of. apply tsplit_comma_flat. reflexivity. Qed.
Lemma existsb_ell_tsplit l : existsb (existsb is_ell) (tsplit is_comma l) = existsb is_ell l.
Proof.
  induction l as [|t l IH]; [reflexivity|].
  cbn [tsplit]. destruct (is_comma t) eqn:E.
  - destruct t; try discriminate. cbn. exact IH.
  - destruct (tsplit is_comma l) as [|h tl] eqn:S; [exfalso; eapply tsplit_nonempty; exact S|].
    cbn in *. rewrite <- IH. rewrite orb_assoc. reflexivity.
Qed.
Lemma tsplit_comma_only_labels l : Forall lhs_tok l -> forallb only_labels (tsplit is_comma l) = true.
Proof.
  induction 1 as [|t l Ht Hl IH]; [reflexivity|].
  cbn [tsplit]. destruct (is_comma t) eqn:E; [cbn; exact IH|].
  destruct (tsplit is_comma l) as [|h tl] eqn:S; [exfalso; eapply tsplit_nonempty; exact S|].
  cbn in *. apply andb_true_iff in IH. destruct IH as [I1 I2]. rewrite I2, andb_true_r.
  unfold only_labels in *. cbn. rewrite I1. destruct t; try reflexivity; [discriminate|contradiction].
Qed.
Lemma tsplit_forall {P : tok -> Prop} sep l : Forall P l -> Forall (Forall P) (tsplit sep l).
Proof.
  induction 1 as [|t l Ht Hl IH]; cbn; [repeat constructor|].
  destruct (sep t); [constructor; [constructor|exact IH]|].
  destruct (tsplit sep l) as [|h tl]; [repeat constructor; exact Ht|].
  inversion IH; subst. constructor; [constructor; assumption|assumption].
Qed.

Lemma n_ell_zero_iff t : n_ell t = 0 <-> existsb is_ell t = false.
Proof.
  unfold n_ell. induction t as [|x t IH]; cbn; [tauto|].
  destruct (is_ell x); cbn; [split; [lia|discriminate]|exact IH].
Qed.

(* count of a character in the comma-free left-hand side *)
Lemma count_lhs x l : Forall tok_ok l -> Forall lhs_tok l ->
  count x (filter (fun c => negb (Nat.eqb c c_comma)) (unlex l)) =
  count x (letters_of l) + (if Nat.eqb x c_dot then 3 * n_ell l else 0).
Proof.
  induction 1 as [|t l Ht Hl IH]; intro Hlt; [cbn; destruct (Nat.eqb x c_dot); reflexivity|].
  inversion Hlt as [|? ? L1 L2]; subst. specialize (IH L2).
  rewrite unlex_cons, filter_app, count_app, IH, letters_of_cons, count_app, n_ell_cons.
  destruct t as [c| | |]; cbn [unlex1 is_ell]; try contradiction.
  - destruct Ht as [_ [D1 [_ [D2 _]]]].
    cbn [filter]. replace (Nat.eqb c c_comma) with false by (symmetry; apply Nat.eqb_neq; exact D1).
    cbn [negb count]. destruct (Nat.eqb x c_dot) eqn:E; lia.
  - change (filter (fun c => negb (Nat.eqb c c_comma)) [c_dot; c_dot; c_dot]) with [c_dot; c_dot; c_dot].
    change (count x [c_dot; c_dot; c_dot]) with
      ((if Nat.eqb c_dot x then 1 else 0) + ((if Nat.eqb c_dot x then 1 else 0) + ((if Nat.eqb c_dot x then 1 else 0) + 0))).
    change (count x []) with 0. rewrite (Nat.eqb_sym c_dot x).
    destruct (Nat.eqb x c_dot) eqn:E; lia.
  - change (filter (fun c => negb (Nat.eqb c c_comma)) [c_comma]) with (@nil nat).
    change (count x []) with 0. destruct (Nat.eqb x c_dot); lia.
Qed.

Lemma letters_are_letters l : Forall tok_ok l -> forall c, In c (letters_of l) -> not_reserved c.
Proof.
  induction 1 as [|t l Ht Hl IH]; intros c Hc; [destruct Hc|].
  rewrite letters_of_cons in Hc. apply in_app_or in Hc. destruct Hc as [Hc|Hc]; [|apply IH; exact Hc].
  destruct t; cbn in Hc; try contradiction. destruct Hc as [<-|[]]. exact Ht.
Qed.

(* strictly increasing lists are determined by their elements *)
Lemma sorted_lt_unique l1 : forall l2, StronglySorted lt l1 -> StronglySorted lt l2 ->
  (forall x, In x l1 <-> In x l2) -> l1 = l2.
Proof.
  induction l1 as [|a l1 IH]; intros l2 H1 H2 Hin.
  - destruct l2 as [|b l2]; [reflexivity|]. exfalso. apply (Hin b). left; reflexivity.
  - destruct l2 as [|b l2]; [exfalso; apply (Hin a); left; reflexivity|].
    inversion H1 as [|? ? H1' A1]; inversion H2 as [|? ? H2' A2]; subst.
    rewrite Forall_forall in A1, A2.
    assert (a = b).
    { destruct (proj1 (Hin a) (or_introl eq_refl)) as [E|Hb]; [auto|].
      destruct (proj2 (Hin b) (or_introl eq_refl)) as [E|Ha]; [auto|].
      specialize (A1 _ Ha). specialize (A2 _ Hb). lia. }
    subst b. f_equal. apply IH; auto. intro x. split; intro Hx.
    + destruct (proj1 (Hin x) (or_intror Hx)) as [E|]; [|assumption]. subst x. specialize (A1 _ Hx). lia.
    + destruct (proj2 (Hin x) (or_intror Hx)) as [E|]; [|assumption]. subst x. specialize (A2 _ Hx). lia.
Qed.
Lemma sorted_le_nodup_lt l : StronglySorted le l -> NoDup l -> StronglySorted lt l.
Proof.
  induction 1 as [|a l Hs IH Hall]; intro Hnd; constructor.
  - apply IH. inversion Hnd; assumption.
  - inversion Hnd as [|? ? Hni _]; subst. rewrite Forall_forall in *. intros b Hb.
    specialize (Hall b Hb). assert (a <> b) by (intro; subst; contradiction). lia.
Qed.
Lemma sorted_filter {A} (R : A -> A -> Prop) f l : StronglySorted R l -> StronglySorted R (filter f l).
Proof.
  induction 1 as [|a l Hs IH Hall]; cbn; [constructor|].
  destruct (f a); [|exact IH]. constructor; [exact IH|].
  rewrite Forall_forall in *. intros b Hb. apply filter_In in Hb. apply Hall. tauto.
Qed.
Lemma sort_unique_lt l : StronglySorted lt (sort_nat (unique l)).
Proof.
  apply sorted_le_nodup_lt; [apply sort_nat_sorted|].
  eapply Permutation_NoDup; [symmetry; apply sort_nat_perm|apply unique_nodup].
Qed.
Lemma once_sorted_in l x : In x (once_sorted l) <-> count x l = 1.
Proof.
  unfold once_sorted. rewrite filter_In, sort_nat_in, unique_in, Nat.eqb_eq. split; [tauto|].
  intro H. split; [apply count_pos; lia|exact H].
Qed.
Lemma once_sorted_sorted l : StronglySorted lt (once_sorted l).
Proof. apply sorted_filter, sort_unique_lt. Qed.

(* (1) implicit output: find_output_str of the rendered left-hand side is numpy's rule *)
Lemma find_output_str_unlex l : Forall tok_ok l -> Forall lhs_tok l ->
  find_output_str (unlex l) = once_sorted (letters_of l).
Proof.
  intros Hk Hl. unfold find_output_str. fold (once_sorted (filter (fun x => negb (Nat.eqb x c_comma)) (unlex l))).
  apply sorted_lt_unique; try apply once_sorted_sorted.
  intro x. rewrite !once_sorted_in, (count_lhs x l Hk Hl).
  destruct (Nat.eqb x c_dot) eqn:E; [|lia].
  apply Nat.eqb_eq in E. subst x.
  assert (count c_dot (letters_of l) = 0).
  { apply count_zero. intro H. apply (letters_are_letters l Hk) in H. destruct H as [_ [_ [_ [D _]]]]. apply D. reflexivity. }
  lia.
Qed.

(* --- the output --- *)
Lemma rho_LN E l : map (rho E) (map LN l) = l.
Proof. rewrite map_map. cbn. apply map_id. Qed.

Lemma output_explicit E N all o nout : only_labels o = true -> Forall tok_ok o -> length E = N ->
  np_output N all (Some o) = Some nout ->
  match check_ellipsis (unlex o) with
  | None => None
  | Some true => Some (replace_ell E (unlex o))
  | Some false => Some (unlex o)
  end = Some (map (rho E) nout).
Proof.
  intros Ho Hk HE. unfold np_output.
  destruct (negb (nodupb (letters_of o))); [discriminate|].
  destruct (negb (forallb (fun c => memb c all) (letters_of o))); [discriminate|].
  rewrite (check_ellipsis_unlex o Ho Hk).
  destruct (n_ell o) as [|[|k]] eqn:En.
  - destruct (Nat.eqb N 0) eqn:EN; [|discriminate]. intro H; inversion H; subst nout.
    f_equal. rewrite rho_expand_toks by (auto; lia). apply unlex_no_ell; auto.
  - intro H; inversion H; subst nout. f_equal.
    rewrite rho_expand_toks by (auto; lia). rewrite HE, Nat.sub_diag. cbn [skipn].
    apply replace_ell_unlex; auto.
  - discriminate.
Qed.

Lemma output_implicit E N lhs nout : Forall tok_ok lhs -> Forall lhs_tok lhs -> length E = N ->
  np_output N (letters_of lhs) None = Some nout ->
  E ++ find_output_str (unlex lhs) = map (rho E) nout.
Proof.
  intros Hk Hl HE. unfold np_output. intro H; inversion H; subst nout.
  rewrite map_app, rho_bdims by lia. rewrite HE, Nat.sub_diag. cbn [skipn].
  rewrite rho_LN. f_equal. apply find_output_str_unlex; auto.
Qed.

Lemma noell_terms E ops : forall nbs, length nbs = length ops ->
  forallb only_labels ops = true -> (forall t, In t ops -> n_ell t = 0) ->
  Forall (fun nb => nb <= length E) nbs ->
  map unlex ops = map (map (rho E)) (map (fun tn => expand_toks (snd tn) (fst tn)) (combine ops nbs)).
Proof.
  induction ops as [|t ops IH]; intros nbs HL Ho Hz Hnb; [reflexivity|].
  destruct nbs as [|nb nbs]; [discriminate|]. cbn in HL.
  cbn in Ho. apply andb_true_iff in Ho. destruct Ho as [Ho1 Ho2]. inversion Hnb as [|? ? B1 B2]; subst.
  cbn [map combine fst snd]. f_equal.
  - rewrite rho_expand_toks by auto. apply unlex_no_ell; [exact Ho1|apply Hz; left; reflexivity].
  - apply IH; auto. intros; apply Hz; right; assumption.
Qed.

Lemma fold_max_zero l : (forall x, In x l -> x = 0) -> fold_left Nat.max l 0 = 0.
Proof.
  intro H. destruct (fold_max_attained l 0) as [E|Hin]; [exact E|]. apply H. exact Hin.
Qed.

Lemma no_arrow_lhs_tok l : Forall no_arrow l -> Forall lhs_tok l.
Proof. apply Forall_impl. intros t H. destruct t; cbn; auto. discriminate H. Qed.

Lemma existsb_ell_ops ops : existsb (existsb is_ell) ops = true -> exists t, In t ops /\ n_ell t <> 0.
Proof.
  intro H. apply existsb_exists in H. destruct H as [t [Ht E]]. exists t. split; [exact Ht|].
  intro Z0. apply n_ell_zero_iff in Z0. congruence.
Qed.
Lemma existsb_ell_ops_false ops : existsb (existsb is_ell) ops = false -> forall t, In t ops -> n_ell t = 0.
Proof.
  intros H t Ht. apply n_ell_zero_iff. destruct (existsb is_ell t) eqn:E; [|reflexivity].
  assert (existsb (existsb is_ell) ops = true) by (apply existsb_exists; eauto). congruence.
Qed.

Lemma lhs_tok_no_arrow l : Forall lhs_tok l -> Forall no_arrow l.
Proof. apply Forall_impl. intros t H. destruct t; cbn in *; try reflexivity. contradiction. Qed.

(* THE token-level theorem: everything after lexing and splitting *)
Lemma core_matches_numpy lhs out shapes nops nout :
  Forall tok_ok lhs -> Forall lhs_tok lhs ->
  (match out with Some o => Forall tok_ok o | None => True end) ->
  np_core (tsplit is_comma lhs) out shapes = Some (nops, nout) ->
  let inputs := split_char c_comma (unlex lhs) in
  let E := match ell_needs inputs shapes with
           | Some needs => match ellipses_inds_of inputs needs with Some (_, E) => E | None => [] end
           | None => [] end in
  (if negb (Nat.eqb (length inputs) (length shapes)) then None
   else if memb c_dot (unlex lhs) then
     match ell_needs inputs shapes with
     | None => None
     | Some needs =>
       match ellipses_inds_of inputs needs with
       | None => None
       | Some (req, ellipses_inds) =>
         let inputs' := expand_terms req ellipses_inds inputs needs in
         match out with
         | Some o =>
           match check_ellipsis (unlex o) with
           | None => None
           | Some true => Some (inputs', replace_ell ellipses_inds (unlex o))
           | Some false => Some (inputs', unlex o)
           end
         | None => Some (inputs', ellipses_inds ++ find_output_str (unlex lhs))
         end
       end
     end
   else
     match out with
     | Some o =>
       match check_ellipsis (unlex o) with
       | None => None
       | Some true => Some (inputs, replace_ell [] (unlex o))
       | Some false => Some (inputs, unlex o)
       end
     | None => Some (inputs, find_output_str (unlex lhs))
     end) = Some (map (map (rho E)) nops, map (rho E) nout).
Proof.
  intros Hk Hl Hko. set (ops := tsplit is_comma lhs).
  assert (Hops_k : Forall (Forall tok_ok) ops) by (apply tsplit_forall; exact Hk).
  assert (Hops_o : forallb only_labels ops = true) by (apply tsplit_comma_only_labels; exact Hl).
  unfold np_core. rewrite Hops_o. cbn [negb].
  destruct (negb (match out with Some o => only_labels o | None => true end)) eqn:Eo; [discriminate|].
  destruct (np_operands_nb ops shapes) as [nbs|] eqn:Enb; [|discriminate].
  destruct (ell_needs_unlex ops shapes nbs Hops_o Hops_k Enb) as [N1 [N2 [N3 N4]]].
  set (N := fold_left Nat.max nbs 0).
  replace (concat (map letters_of ops)) with (letters_of lhs) by (symmetry; apply letters_of_tsplit).
  destruct (np_output N (letters_of lhs) out) as [o'|] eqn:Eout; [|discriminate].
  intro H; inversion H; subst nops nout. clear H.
  cbn zeta. rewrite (split_comma_unlex lhs Hk (lhs_tok_no_arrow lhs Hl)).
  fold ops. rewrite map_length, N3, Nat.eqb_refl. cbn [negb].
  rewrite (memb_dot_unlex lhs Hk), <- (existsb_ell_tsplit lhs). fold ops. rewrite N1.
  assert (Hnbs : Forall (fun nb => nb <= N) nbs).
  { rewrite Forall_forall. intros nb Hnb. apply fold_max_ge. right. exact Hnb. }
  destruct (existsb (existsb is_ell) ops) eqn:Eell.
  - (* some operand has an ellipsis *)
    unfold ellipses_inds_of.
    rewrite (req_is_max ops nbs N2 N4 (existsb_ell_ops ops Eell)). fold N. rewrite Nat2Z.id.
    set (E := fresh_symbols N (concat (map unlex ops))).
    assert (HE : length E = N) by apply fresh_symbols_spec.
    rewrite (expand_terms_spec E N ops nbs Hops_o Hops_k HE Hnbs).
    destruct out as [o|].
    + apply negb_false_iff in Eo.
      pose proof (output_explicit E N (letters_of lhs) o o' Eo Hko HE Eout) as HO.
      destruct (check_ellipsis (unlex o)) as [[|]|]; inversion HO; reflexivity.
    + rewrite (output_implicit E N lhs o' Hk Hl HE Eout). reflexivity.
  - (* no ellipsis on the left-hand side *)
    pose proof (existsb_ell_ops_false ops Eell) as Hz.
    assert (HN0 : N = 0).
    { apply fold_max_zero. intros nb Hnb. destruct (In_nth _ _ 0 Hnb) as [j [Hj Ej]].
      assert (Hc : In (nth j ops [], nb) (combine ops nbs)).
      { rewrite <- Ej. rewrite <- combine_nth by lia. apply nth_In. rewrite combine_length. lia. }
      rewrite Forall_forall in N4. apply (N4 _ Hc). cbn. apply Hz. apply nth_In. lia. }
    assert (HE0 : match ellipses_inds_of (map unlex ops) (needs_of ops nbs) with Some (_, E) => E | None => [] end = []).
    { unfold ellipses_inds_of. destruct (zmax_values (somes (needs_of ops nbs))) as [r|] eqn:Ez; [|reflexivity].
      exfalso. unfold zmax_values in Ez. destruct (somes (needs_of ops nbs)) as [|v vs] eqn:ES; [discriminate|].
      assert (Hv : In v (somes (needs_of ops nbs))) by (rewrite ES; left; reflexivity).
      apply in_somes, in_needs_of in Hv. destruct Hv as [t [nb [Hc [Hne _]]]].
      apply Hne, Hz. apply in_combine_l in Hc. exact Hc. }
    rewrite HE0.
    assert (Hnbs0 : Forall (fun nb => nb <= length (@nil nat)) nbs).
    { eapply Forall_impl; [|exact Hnbs]. cbn. intros; lia. }
    rewrite <- (noell_terms [] ops nbs N2 Hops_o Hz Hnbs0).
    destruct out as [o|].
    + apply negb_false_iff in Eo.
      pose proof (output_explicit [] N (letters_of lhs) o o' Eo Hko (eq_sym HN0) Eout) as HO.
      destruct (check_ellipsis (unlex o)) as [[|]|]; inversion HO; reflexivity.
    + rewrite <- (output_implicit [] N lhs o' Hk Hl (eq_sym HN0) Eout). reflexivity.
Qed.

(* --- (1)+(2): the string form, for ALL strings numpy accepts --- *)
Theorem string_matches_numpy eq shapes nops nout :
  np_parse eq shapes = Some (nops, nout) ->
  let E := model_ellipses_inds (strip_spaces eq) shapes in
  parse_equation_ellipses_v true (strip_spaces eq) shapes = Some (map (map (rho E)) nops, map (rho E) nout).
Proof.
  unfold np_parse. destruct (np_lex eq) as [ts|] eqn:L; [|discriminate].
  destruct (np_lex_sound (length eq) eq ts (le_n _) L) as [S1 K].
  pose proof (tsplit_forall is_arrow ts K) as KP.
  pose proof (tsplit_arrow_no_arrow ts) as NP.
  pose proof (split_arrow_unlex ts K) as SA.
  destruct (tsplit is_arrow ts) as [|lhs [|rhs [|x y]]] eqn:SP; try discriminate.
  - intro H. inversion KP as [|? ? K1 _]; subst. inversion NP as [|? ? A1 _]; subst.
    cbn zeta. unfold parse_equation_ellipses_v, model_ellipses_inds. rewrite S1, SA. cbn [map hd tl].
    exact (core_matches_numpy lhs None shapes nops nout K1 (no_arrow_lhs_tok lhs A1) I H).
  - intro H. inversion KP as [|? ? K1 KP']; subst. inversion KP' as [|? ? K2 _]; subst.
    inversion NP as [|? ? A1 _]; subst.
    cbn zeta. unfold parse_equation_ellipses_v, model_ellipses_inds. rewrite S1, SA. cbn [map hd tl].
    exact (core_matches_numpy lhs (Some rhs) shapes nops nout K1 (no_arrow_lhs_tok lhs A1) K2 H).
Qed.

Lemma list_eqb_nat_refl (l : list nat) : list_eqb Nat.eqb l l = true.
Proof. apply list_eqb_nat_eq. reflexivity. Qed.
Lemma ops_eqb_refl a : ops_eqb a a = true.
Proof.
  unfold ops_eqb. rewrite list_eqb_nat_refl, andb_true_r.
  induction (fst a) as [|x l IH]; cbn; [reflexivity|]. rewrite list_eqb_nat_refl, IH. reflexivity.
Qed.

(* in the vocabulary of the check: the verdict is never `Some false` *)
Theorem string_agrees_with_numpy fx eq shapes :
  fx_spaces fx = true -> fx_outell fx = true ->
  agrees_args_v fx (AStr eq shapes) = match np_parse eq shapes with Some _ => Some true | None => None end.
Proof.
  intros F1 F2. unfold agrees_args_v. cbn [np_parse_args einsum_eq_v eargs_shapes]. rewrite F1, F2.
  destruct (np_parse eq shapes) as [[nops nout]|] eqn:P; [|reflexivity].
  pose proof (string_matches_numpy eq shapes nops nout P) as H. cbn zeta in H.
  unfold rho_args. fold (rho (model_ellipses_inds (strip_spaces eq) shapes)).
  change (fun l : lab => match l with LN c => c | LB k => nth (length (model_ellipses_inds (strip_spaces eq) shapes) - 1 - k) (model_ellipses_inds (strip_spaces eq) shapes) 0 end)
    with (rho (model_ellipses_inds (strip_spaces eq) shapes)).
  rewrite H. rewrite ops_eqb_refl. reflexivity.
Qed.

(* the renaming is injective: the ellipsis symbols are pairwise distinct and occur in no input term *)
Lemma model_ellipses_inds_fresh eq shapes :
  let E := model_ellipses_inds eq shapes in
  NoDup E /\ forall s, In s E -> ~ In s (concat (split_char c_comma (hd [] (split_arrow eq)))).
Proof.
  unfold model_ellipses_inds.
  destruct (ell_needs _ shapes) as [needs|]; [|split; [constructor|intros ? []]].
  unfold ellipses_inds_of. destruct (zmax_values (somes needs)) as [req|]; [|split; [constructor|intros ? []]].
  destruct (fresh_symbols_spec (Z.to_nat req) (concat (split_char c_comma (hd [] (split_arrow eq))))) as [_ [H1 H2]].
  split; [exact H1|]. intros s Hs. apply H2. exact Hs.
Qed.

Theorem rho_injective used E : NoDup E -> (forall s, In s E -> ~ In s used) ->
  forall l1 l2, label_in used E l1 -> label_in used E l2 -> rho E l1 = rho E l2 -> l1 = l2.
Proof.
  intros Hnd Hfresh [c1|k1] [c2|k2] H1 H2; cbn in *; intro Heq.
  - congruence.
  - exfalso. apply (Hfresh c1); [|exact H1]. rewrite Heq. apply nth_In. lia.
  - exfalso. apply (Hfresh c2); [|exact H2]. rewrite <- Heq. apply nth_In. lia.
  - f_equal. assert (length E - 1 - k1 = length E - 1 - k2); [|lia].
    apply (proj1 (NoDup_nth E 0) Hnd); [lia|lia|exact Heq].
Qed.

(* ================================================================== *)
(* (3) the interleaved form                                            *)

(* --- NumpySpec commutes with an injective renaming of the letters (explicit output) --- *)
Definition tmap (tau : nat -> nat) (t : tok) : tok := match t with TL c => TL (tau c) | x => x end.
Definition lmap (tau : nat -> nat) (l : lab) : lab := match l with LN c => LN (tau c) | x => x end.

Lemma forallb_map' {A B} (f : B -> bool) (g : A -> B) l : forallb f (map g l) = forallb (fun x => f (g x)) l.
Proof. induction l as [|x l IH]; cbn; [reflexivity|]. rewrite IH. reflexivity. Qed.
Lemma forallb_ext' {A} (f g : A -> bool) l : (forall x, f x = g x) -> forallb f l = forallb g l.
Proof. intro H. induction l as [|x l IH]; cbn; [reflexivity|]. rewrite H, IH. reflexivity. Qed.

Lemma only_labels_tmap tau t : only_labels (map (tmap tau) t) = only_labels t.
Proof. unfold only_labels. rewrite forallb_map'. apply forallb_ext'. intros [ | | | ]; reflexivity. Qed.
Lemma n_ell_tmap tau t : n_ell (map (tmap tau) t) = n_ell t.
Proof. induction t as [|x t IH]; [reflexivity|]. rewrite map_cons, !n_ell_cons, IH. destruct x; reflexivity. Qed.
Lemma letters_of_tmap tau t : letters_of (map (tmap tau) t) = map tau (letters_of t).
Proof.
  induction t as [|x t IH]; [reflexivity|]. rewrite map_cons, !letters_of_cons, map_app, IH.
  destruct x; reflexivity.
Qed.
Lemma expand_toks_tmap tau nb t : expand_toks nb (map (tmap tau) t) = map (lmap tau) (expand_toks nb t).
Proof.
  unfold expand_toks. rewrite map_map, concat_map, map_map. f_equal. apply map_ext.
  intros [c| | |]; try reflexivity. cbn. unfold bdims. rewrite map_map. reflexivity.
Qed.
Lemma np_operands_nb_tmap tau ops : forall shapes,
  np_operands_nb (map (map (tmap tau)) ops) shapes = np_operands_nb ops shapes.
Proof.
  induction ops as [|t ops IH]; intros [|s shapes]; cbn; try reflexivity.
  rewrite IH. unfold np_operand_nb. rewrite n_ell_tmap, letters_of_tmap, map_length. reflexivity.
Qed.

Lemma memb_map_inj tau c l : (forall y, In y l -> tau y = tau c -> y = c) -> memb (tau c) (map tau l) = memb c l.
Proof.
  intro H. destruct (memb c l) eqn:E.
  - apply memb_In. apply in_map. apply memb_In. exact E.
  - apply memb_false. intro Hin. apply in_map_iff in Hin. destruct Hin as [y [E1 E2]].
    apply memb_false in E. apply E. rewrite <- (H y E2 E1). exact E2.
Qed.
Lemma nodupb_map_inj tau l : (forall x y, In x l -> In y l -> tau x = tau y -> x = y) ->
  nodupb (map tau l) = nodupb l.
Proof.
  induction l as [|a l IH]; intro H; [reflexivity|]. cbn [map nodupb].
  rewrite IH by (intros; apply H; auto; right; assumption).
  rewrite memb_map_inj; [reflexivity|]. intros y Hy E. apply H; [right; exact Hy|left; reflexivity|exact E].
Qed.

Lemma np_core_relabel tau ops o shapes nops nout :
  (forall x y, In x (concat (map letters_of ops)) -> In y (concat (map letters_of ops)) -> tau x = tau y -> x = y) ->
  np_core ops (Some o) shapes = Some (nops, nout) ->
  np_core (map (map (tmap tau)) ops) (Some (map (tmap tau) o)) shapes =
  Some (map (map (lmap tau)) nops, map (lmap tau) nout).
Proof.
  intro Hinj. unfold np_core.
  rewrite forallb_map'. rewrite (forallb_ext' (fun x => only_labels (map (tmap tau) x)) only_labels) by (intro; apply only_labels_tmap).
  destruct (negb (forallb only_labels ops)); [discriminate|].
  rewrite only_labels_tmap. destruct (negb (only_labels o)); [discriminate|].
  rewrite np_operands_nb_tmap. destruct (np_operands_nb ops shapes) as [nbs|]; [|discriminate].
  set (N := fold_left Nat.max nbs 0). set (all := concat (map letters_of ops)) in *.
  assert (Hall : concat (map letters_of (map (map (tmap tau)) ops)) = map tau all).
  { unfold all. rewrite map_map, concat_map, map_map. f_equal. apply map_ext. intro; apply letters_of_tmap. }
  rewrite Hall. unfold np_output. rewrite letters_of_tmap, n_ell_tmap.
  destruct (nodupb (letters_of o)) eqn:E1; [|discriminate]. cbn [negb].
  destruct (forallb (fun c => memb c all) (letters_of o)) eqn:E2; [|discriminate]. cbn [negb].
  assert (Hsub : forall c, In c (letters_of o) -> In c all).
  { intros c Hc. rewrite forallb_forall in E2. apply memb_In. apply E2. exact Hc. }
  rewrite nodupb_map_inj, E1 by (intros; apply Hinj; auto). cbn [negb].
  rewrite forallb_map'.
  assert (E2' : forallb (fun x => memb (tau x) (map tau all)) (letters_of o) = true).
  { apply forallb_forall. intros c Hc. apply memb_In. apply in_map. apply Hsub. exact Hc. }
  rewrite E2'. cbn [negb].
  assert (Hops : map (fun tn => expand_toks (snd tn) (fst tn)) (combine (map (map (tmap tau)) ops) nbs) =
                 map (map (lmap tau)) (map (fun tn => expand_toks (snd tn) (fst tn)) (combine ops nbs))).
  { clear. revert nbs. induction ops as [|t ops IH]; intros [|nb nbs]; cbn [map combine fst snd]; try reflexivity.
    rewrite expand_toks_tmap, IH. reflexivity. }
  rewrite Hops.
  destruct (n_ell o) as [|[|k]].
  - destruct (Nat.eqb N 0); [|discriminate]. intro H; inversion H; subst. rewrite expand_toks_tmap. reflexivity.
  - intro H; inversion H; subst. rewrite expand_toks_tmap. reflexivity.
  - discriminate.
Qed.

(* --- NumpySpec: the implicit output, made explicit --- *)
Definition explicit_of_implicit (ops : list (list tok)) : list tok :=
  (if existsb (existsb is_ell) ops then [TEll] else []) ++ map TL (once_sorted (concat (map letters_of ops))).

Lemma letters_of_map_TL l : letters_of (map TL l) = l.
Proof. induction l as [|x l IH]; [reflexivity|]. rewrite map_cons, letters_of_cons, IH. reflexivity. Qed.
Lemma n_ell_map_TL l : n_ell (map TL l) = 0.
Proof. induction l as [|x l IH]; [reflexivity|]. rewrite map_cons, n_ell_cons, IH. reflexivity. Qed.
Lemma only_labels_map_TL l : only_labels (map TL l) = true.
Proof. unfold only_labels. rewrite forallb_map'. apply forallb_forall. reflexivity. Qed.
Lemma expand_toks_map_TL nb l : expand_toks nb (map TL l) = map LN l.
Proof. unfold expand_toks. induction l as [|x l IH]; [reflexivity|]. cbn [map concat]. rewrite IH. reflexivity. Qed.

Lemma nodupb_NoDup l : NoDup l -> nodupb l = true.
Proof.
  induction 1 as [|x l Hn Hnd IH]; [reflexivity|]. cbn. rewrite IH, andb_true_r.
  apply negb_true_iff. apply memb_false. exact Hn.
Qed.
Lemma sorted_lt_nodup l : StronglySorted lt l -> NoDup l.
Proof.
  induction 1 as [|a l Hs IH Hall]; constructor; [|exact IH].
  intro H. rewrite Forall_forall in Hall. specialize (Hall a H). lia.
Qed.

Lemma np_operands_nb_noell ops : forall shapes nbs, np_operands_nb ops shapes = Some nbs ->
  (forall t, In t ops -> n_ell t = 0) -> forall nb, In nb nbs -> nb = 0.
Proof.
  induction ops as [|t ops IH]; intros [|s shapes] nbs; cbn [np_operands_nb]; try discriminate.
  - intro H; inversion H; subst. intros _ nb [].
  - destruct (np_operand_nb t (length s)) as [n|] eqn:E1; [|discriminate].
    destruct (np_operands_nb ops shapes) as [ns|] eqn:E2; [|discriminate].
    intro H; inversion H; subst. intros Hz nb [<-|Hin].
    + destruct (np_operand_nb_spec _ _ _ E1) as [[_ [B _]]|[A _]]; [exact B|].
      rewrite (Hz t (or_introl eq_refl)) in A. discriminate.
    + eapply IH; eauto. intros; apply Hz; right; assumption.
Qed.

Lemma np_core_implicit_explicit ops shapes nops nout :
  np_core ops None shapes = Some (nops, nout) ->
  np_core ops (Some (explicit_of_implicit ops)) shapes = Some (nops, nout).
Proof.
  unfold np_core. destruct (negb (forallb only_labels ops)); [discriminate|]. cbn [negb].
  set (all := concat (map letters_of ops)).
  set (has := existsb (existsb is_ell) ops).
  assert (Ho : only_labels (explicit_of_implicit ops) = true).
  { unfold explicit_of_implicit. fold all has. unfold only_labels. rewrite forallb_app.
    fold (only_labels (map TL (once_sorted all))). rewrite only_labels_map_TL. destruct has; reflexivity. }
  rewrite Ho. cbn [negb].
  destruct (np_operands_nb ops shapes) as [nbs|] eqn:Enb; [|discriminate].
  set (N := fold_left Nat.max nbs 0).
  unfold np_output. fold (once_sorted all).
  assert (HL : letters_of (explicit_of_implicit ops) = once_sorted all).
  { unfold explicit_of_implicit. fold all has. unfold letters_of. rewrite map_app, concat_app.
    fold (letters_of (map TL (once_sorted all))). rewrite letters_of_map_TL. destruct has; reflexivity. }
  assert (HE : n_ell (explicit_of_implicit ops) = if has then 1 else 0).
  { unfold explicit_of_implicit. fold all has. unfold n_ell. rewrite filter_app, app_length.
    fold (n_ell (map TL (once_sorted all))). rewrite n_ell_map_TL. destruct has; reflexivity. }
  rewrite HL, HE.
  rewrite nodupb_NoDup by (apply sorted_lt_nodup, once_sorted_sorted). cbn [negb].
  assert (Hm : forallb (fun c => memb c all) (once_sorted all) = true).
  { apply forallb_forall. intros c Hc. apply once_sorted_in in Hc. apply memb_In. apply count_pos. lia. }
  rewrite Hm. cbn [negb].
  intro H; inversion H; subst nops nout. clear H.
  unfold explicit_of_implicit. fold all has.
  destruct has eqn:Ehas.
  - do 2 f_equal. unfold expand_toks. cbn [map concat app].
    fold (expand_toks N (map TL (once_sorted all))). rewrite expand_toks_map_TL. reflexivity.
  - assert (HN : N = 0).
    { apply fold_max_zero. intros nb Hnb. eapply np_operands_nb_noell; eauto.
      apply existsb_ell_ops_false. exact Ehas. }
    rewrite HN. cbn [Nat.eqb app]. rewrite expand_toks_map_TL. reflexivity.
Qed.

(* --- the model side: get_symbol_map and convert_from_interleaved --- *)
Lemma ilab_eqb_eq a b : ilab_eqb a b = true <-> a = b.
Proof.
  destruct a, b; cbn; try (split; discriminate); [|tauto].
  rewrite Nat.eqb_eq. split; [intros ->; reflexivity|intro H; inversion H; reflexivity].
Qed.
Lemma sm_get_in m x v : sm_get m x = Some v -> In (x, v) m.
Proof.
  induction m as [|[k w] m IH]; cbn; [discriminate|].
  destruct (ilab_eqb k x) eqn:E.
  - intro H; inversion H; subst. apply ilab_eqb_eq in E. subst. left; reflexivity.
  - intro H. right. apply IH. exact H.
Qed.
Lemma sm_get_none m x : sm_get m x = None <-> ~ In x (map fst m).
Proof.
  induction m as [|[k w] m IH]; cbn; [tauto|].
  destruct (ilab_eqb k x) eqn:E.
  - apply ilab_eqb_eq in E. split; [discriminate|]. intro H; exfalso; apply H; left; exact E.
  - rewrite IH. split; [|tauto]. intros H [H1|H1]; [|auto]. subst. 
    assert (ilab_eqb x x = true) by (apply ilab_eqb_eq; reflexivity). congruence.
Qed.

Lemma sm_step_inv m c x m' c' : sm_wf m c -> sm_step (m, c) x = (m', c') ->
  sm_wf m' c' /\ (forall y, In y (map fst m') <-> In y (map fst m) \/ y = x).
Proof.
  intros [W1 [W2 W3]]. unfold sm_step. destruct (sm_get m x) as [v|] eqn:G.
  - intro H; inversion H; subst. split; [repeat split; assumption|].
    intro y. split; [auto|]. intros [Hy| ->]; [exact Hy|].
    apply sm_get_in in G. apply in_map_iff. exists (x, v). auto.
  - apply sm_get_none in G. destruct x as [k|].
    + intro H; inversion H; subst. split; [split; [|split]|].
      * rewrite map_app. apply NoDup_snoc; assumption.
      * intros y v Hin. apply in_app_or in Hin. destruct Hin as [Hin|[Hin|[]]].
        -- specialize (W2 y v Hin). destruct y; [|exact W2]. destruct W2 as [i [Hi E]]. exists i. split; [lia|exact E].
        -- inversion Hin; subst. exists c. split; [lia|reflexivity].
      * intros k1 k2 i H1 H2. apply in_app_or in H1. apply in_app_or in H2.
        destruct H1 as [H1|[H1|[]]], H2 as [H2|[H2|[]]].
        -- eapply W3; eassumption.
        -- injection H2 as Hk Hs. apply get_symbol_inj in Hs. destruct (W2 _ _ H1) as [j [Hj E]].
           injection E as E'. apply get_symbol_inj in E'. lia.
        -- injection H1 as Hk Hs. apply get_symbol_inj in Hs. destruct (W2 _ _ H2) as [j [Hj E]].
           injection E as E'. apply get_symbol_inj in E'. lia.
        -- injection H1 as Hk1 _. injection H2 as Hk2 _. congruence.
      * intro y. rewrite map_app, in_app_iff. cbn. intuition.
    + intro H; inversion H; subst. split; [split; [|split]|].
      * rewrite map_app. apply NoDup_snoc; assumption.
      * intros y v Hin. apply in_app_or in Hin. destruct Hin as [Hin|[Hin|[]]]; [apply W2; exact Hin|].
        inversion Hin; subst. reflexivity.
      * intros k1 k2 i H1 H2. apply in_app_or in H1. apply in_app_or in H2.
        destruct H1 as [H1|[H1|[]]]; [|discriminate H1]. destruct H2 as [H2|[H2|[]]]; [|discriminate H2].
        eapply W3; eassumption.
      * intro y. rewrite map_app, in_app_iff. cbn. intuition.
Qed.

Lemma sm_fold_inv flat : forall m c, sm_wf m c ->
  sm_wf (fst (fold_left sm_step flat (m, c))) (snd (fold_left sm_step flat (m, c))) /\
  (forall y, In y (map fst (fst (fold_left sm_step flat (m, c)))) <-> In y (map fst m) \/ In y flat).
Proof.
  induction flat as [|x flat IH]; intros m c W; cbn [fold_left].
  - split; [exact W|]. intro y. cbn. tauto.
  - destruct (sm_step (m, c) x) as [m1 c1] eqn:S.
    destruct (sm_step_inv _ _ _ _ _ W S) as [W1 K1].
    destruct (IH m1 c1 W1) as [W2 K2]. split; [exact W2|].
    intro y. rewrite K2, K1. cbn. intuition.
Qed.

Lemma fold_left_concat {A B} (f : A -> B -> A) (ls : list (list B)) : forall a,
  fold_left (fun st t => fold_left f t st) ls a = fold_left f (concat ls) a.
Proof. induction ls as [|l ls IH]; intro a; cbn; [reflexivity|]. rewrite fold_left_app. apply IH. Qed.

Lemma get_symbol_map_spec inputs :
  exists c, sm_wf (get_symbol_map inputs) c /\
  (forall y, In y (map fst (get_symbol_map inputs)) <-> In y (concat inputs)).
Proof.
  unfold get_symbol_map. rewrite fold_left_concat.
  assert (W0 : sm_wf [] 0) by (split; [constructor|split; [intros ? ? []|intros ? ? ? []]]).
  destruct (sm_fold_inv (concat inputs) [] 0 W0) as [W K].
  eexists. split; [exact W|]. intro y. rewrite K. cbn. tauto.
Qed.

Definition mtok (m : list (ilab * str)) (x : ilab) : tok :=
  match x with IL k => TL (sigma m k) | IE => TEll end.

Lemma sm_term_unlex m c term : sm_wf m c -> (forall x, In x term -> In x (map fst m)) ->
  sm_term m term = Some (unlex (map (mtok m) term)).
Proof.
  intros [W1 [W2 W3]]. induction term as [|x r IH]; intro Hin; [reflexivity|].
  cbn [sm_term map]. rewrite IH by (intros; apply Hin; right; assumption).
  destruct (sm_get m x) as [v|] eqn:G; [|apply sm_get_none in G; exfalso; apply G, Hin; left; reflexivity].
  rewrite unlex_cons. do 2 f_equal. pose proof (W2 _ _ (sm_get_in _ _ _ G)) as Hv.
  destruct x as [k|]; cbn [mtok unlex1].
  - destruct Hv as [i [_ ->]]. unfold sigma. rewrite G. reflexivity.
  - exact Hv.
Qed.
Lemma sm_terms_unlex m c terms : sm_wf m c -> (forall x, In x (concat terms) -> In x (map fst m)) ->
  sm_terms m terms = Some (map unlex (map (map (mtok m)) terms)).
Proof.
  intro W. induction terms as [|t r IH]; intro Hin; [reflexivity|].
  cbn [sm_terms map]. rewrite (sm_term_unlex m c t W) by (intros; apply Hin; cbn; apply in_or_app; left; assumption).
  rewrite IH by (intros; apply Hin; cbn; apply in_or_app; right; assumption). reflexivity.
Qed.

Lemma sm_term_out_unlex m c term : sm_wf m c -> (forall k, In (IL k) term -> In (IL k) (map fst m)) ->
  sm_term_out m term = Some (unlex (map (mtok m) term)).
Proof.
  intros [W1 [W2 W3]]. induction term as [|x r IH]; intro Hin; [reflexivity|].
  cbn [map]. rewrite unlex_cons. destruct x as [k|].
  - cbn [sm_term_out]. rewrite IH by (intros; apply Hin; right; assumption).
    destruct (sm_get m (IL k)) as [v|] eqn:G; [|apply sm_get_none in G; exfalso; apply G, Hin; left; reflexivity].
    destruct (W2 _ _ (sm_get_in _ _ _ G)) as [i [_ ->]]. cbn [mtok unlex1]. unfold sigma. rewrite G. reflexivity.
  - cbn [sm_term_out]. rewrite IH by (intros; apply Hin; right; assumption). reflexivity.
Qed.

Lemma mtok_ok m c x : sm_wf m c -> In x (map fst m) -> tok_ok (mtok m x).
Proof.
  intros [W1 [W2 W3]] Hin. destruct x as [k|]; [|exact I]. cbn. unfold sigma.
  destruct (sm_get m (IL k)) as [v|] eqn:G; [|apply sm_get_none in G; contradiction].
  destruct (W2 _ _ (sm_get_in _ _ _ G)) as [i [_ ->]].
  destruct (get_symbol_not_reserved i) as [A [B [C [D E]]]]. repeat split; assumption.
Qed.
Lemma sigma_inj m c k1 k2 : sm_wf m c -> In (IL k1) (map fst m) -> In (IL k2) (map fst m) ->
  sigma m k1 = sigma m k2 -> k1 = k2.
Proof.
  intros [W1 [W2 W3]] H1 H2. unfold sigma.
  destruct (sm_get m (IL k1)) as [v1|] eqn:G1; [|apply sm_get_none in G1; contradiction].
  destruct (sm_get m (IL k2)) as [v2|] eqn:G2; [|apply sm_get_none in G2; contradiction].
  apply sm_get_in in G1, G2.
  destruct (W2 _ _ G1) as [i1 [_ E1]]. destruct (W2 _ _ G2) as [i2 [_ E2]]. subst v1 v2.
  intro E. rewrite E in G1. eapply W3; eassumption.
Qed.

Lemma get_symbol_map_injective inputs : exists c,
  sm_wf (get_symbol_map inputs) c /\
  (forall y, In y (map fst (get_symbol_map inputs)) <-> In y (concat inputs)) /\
  (forall k1 k2, In (IL k1) (concat inputs) -> In (IL k2) (concat inputs) ->
     sigma (get_symbol_map inputs) k1 = sigma (get_symbol_map inputs) k2 -> k1 = k2).
Proof.
  destruct (get_symbol_map_spec inputs) as [c [W K]]. exists c. split; [exact W|]. split; [exact K|].
  intros k1 k2 H1 H2. apply (sigma_inj _ c); auto; apply K; assumption.
Qed.

(* token-level join *)
Fixpoint tjoin (ps : list (list tok)) : list tok :=
  match ps with
  | [] => []
  | [p] => p
  | p :: rest => p ++ TComma :: tjoin rest
  end.
Lemma unlex_app a b : unlex (a ++ b) = unlex a ++ unlex b.
Proof. unfold unlex. rewrite map_app, concat_app. reflexivity. Qed.
Lemma unlex_tjoin ps : unlex (tjoin ps) = join [c_comma] (map unlex ps).
Proof.
  induction ps as [|p [|q r] IH]; [reflexivity|reflexivity|].
  change (tjoin (p :: q :: r)) with (p ++ TComma :: tjoin (q :: r)).
  rewrite unlex_app, unlex_cons, IH. reflexivity.
Qed.
Lemma tsplit_app_sep sep p rest : (forall t, In t p -> sep t = false) -> forall s, sep s = true ->
  tsplit sep (p ++ s :: rest) = p :: tsplit sep rest.
Proof.
  intros Hp s Hs. induction p as [|x p IH]; cbn [app tsplit]; [rewrite Hs; reflexivity|].
  rewrite (Hp x (or_introl eq_refl)). rewrite IH by (intros; apply Hp; right; assumption). reflexivity.
Qed.
Lemma tsplit_nosep sep p : (forall t, In t p -> sep t = false) -> tsplit sep p = [p].
Proof.
  intro Hp. induction p as [|x p IH]; [reflexivity|]. cbn [tsplit].
  rewrite (Hp x (or_introl eq_refl)). rewrite IH by (intros; apply Hp; right; assumption). reflexivity.
Qed.
Lemma tsplit_tjoin ps : ps <> [] -> (forall p t, In p ps -> In t p -> is_comma t = false) ->
  tsplit is_comma (tjoin ps) = ps.
Proof.
  induction ps as [|p [|q r] IH]; intros Hne Hc; [contradiction| |].
  - cbn [tjoin]. apply tsplit_nosep. intros; eapply Hc; [left; reflexivity|assumption].
  - change (tjoin (p :: q :: r)) with (p ++ TComma :: tjoin (q :: r)).
    rewrite tsplit_app_sep; [|intros; eapply Hc; [left; reflexivity|assumption]|reflexivity].
    rewrite IH; [reflexivity|discriminate|]. intros; eapply Hc; [right; eassumption|assumption].
Qed.

(* --- numpy's tokens of a sublist; the computed output sublist is numpy's implicit output --- *)
Definition letter (k : nat) : nat := if k <? 26 then 65 + k else 97 + (k - 26).
Definition nt (x : ilab) : tok := match x with IE => TEll | IL k => TL (letter k) end.
Definition labels_ok (l : list ilab) : Prop := forall k, In (IL k) l -> k < 52.

Lemma np_sublist_spec l ts : np_sublist l = Some ts -> ts = map nt l /\ labels_ok l.
Proof.
  revert ts. induction l as [|x l IH]; intros ts; cbn [np_sublist].
  - intro H; inversion H; subst. split; [reflexivity|intros k []].
  - destruct (np_ilab x) as [t|] eqn:E1; [|discriminate]. destruct (np_sublist l) as [ts'|] eqn:E2; [|discriminate].
    intro H; inversion H; subst. destruct (IH ts' eq_refl) as [-> L].
    destruct x as [k|].
    + unfold np_ilab in E1. destruct (k <? 26) eqn:A.
      * injection E1 as <-. split; [cbn [map nt]; unfold letter; rewrite A; reflexivity|].
        intros j [Hj|Hj]; [injection Hj as <-; lia|apply L; exact Hj].
      * destruct (k <? 52) eqn:B; [|discriminate]. injection E1 as <-.
        split; [cbn [map nt]; unfold letter; rewrite A; reflexivity|].
        intros j [Hj|Hj]; [injection Hj as <-; lia|apply L; exact Hj].
    + injection E1 as <-. split; [reflexivity|]. intros j [Hj|Hj]; [discriminate|apply L; exact Hj].
Qed.
Lemma np_sublist_complete l : labels_ok l -> np_sublist l = Some (map nt l).
Proof.
  induction l as [|x l IH]; intro L; [reflexivity|]. cbn [np_sublist map].
  rewrite IH by (intros k Hk; apply L; right; exact Hk).
  destruct x as [k|]; [|reflexivity]. assert (k < 52) by (apply L; left; reflexivity).
  unfold np_ilab, nt, letter. destruct (k <? 26); [reflexivity|]. replace (k <? 52) with true by lia. reflexivity.
Qed.
Lemma np_sublists_spec ls tss : np_sublists ls = Some tss -> tss = map (map nt) ls /\ labels_ok (concat ls).
Proof.
  revert tss. induction ls as [|l ls IH]; intros tss; cbn [np_sublists].
  - intro H; inversion H; subst. split; [reflexivity|intros k []].
  - destruct (np_sublist l) as [t|] eqn:E1; [|discriminate]. destruct (np_sublists ls) as [ts'|] eqn:E2; [|discriminate].
    intro H; inversion H; subst. destruct (IH ts' eq_refl) as [-> L]. destruct (np_sublist_spec _ _ E1) as [-> L1].
    split; [reflexivity|]. intros k Hk. cbn in Hk. apply in_app_or in Hk. destruct Hk; [apply L1|apply L]; assumption.
Qed.

Lemma letter_mono k1 k2 : k1 < k2 -> k2 < 52 -> letter k1 < letter k2.
Proof. unfold letter. intros. destruct (k1 <? 26) eqn:A, (k2 <? 26) eqn:B; lia. Qed.
Lemma letter_inj k1 k2 : k1 < 52 -> k2 < 52 -> letter k1 = letter k2 -> k1 = k2.
Proof.
  intros H1 H2 E. destruct (Nat.lt_trichotomy k1 k2) as [H|[H|H]]; [|exact H|].
  - pose proof (letter_mono k1 k2 H H2). lia.
  - pose proof (letter_mono k2 k1 H H1). lia.
Qed.

Lemma letters_of_app a b : letters_of (a ++ b) = letters_of a ++ letters_of b.
Proof. unfold letters_of. rewrite map_app, concat_app. reflexivity. Qed.
Lemma letters_of_concat ls : concat (map letters_of ls) = letters_of (concat ls).
Proof. induction ls as [|l ls IH]; [reflexivity|]. cbn [map concat]. rewrite letters_of_app, IH. reflexivity. Qed.

(* occurrences of a label = occurrences of its letter *)
Lemma count_letter_enc l k : labels_ok l -> k < 52 ->
  count (letter k) (letters_of (map nt l)) = count (S k) (map ilab_enc l).
Proof.
  intros L Hk. induction l as [|x l IH]; [reflexivity|].
  cbn [map]. rewrite letters_of_cons. rewrite count_app.
  rewrite IH by (intros j Hj; apply L; right; exact Hj).
  destruct x as [j|]; cbn [nt ilab_enc count app].
  - assert (j < 52) by (apply L; left; reflexivity).
    destruct (Nat.eqb j k) eqn:E.
    + apply Nat.eqb_eq in E. subst. rewrite !Nat.eqb_refl. reflexivity.
    + apply Nat.eqb_neq in E.
      replace (Nat.eqb (letter j) (letter k)) with false
        by (symmetry; apply Nat.eqb_neq; intro F; apply E; apply letter_inj; auto).
      replace (Nat.eqb (S j) (S k)) with false by (symmetry; apply Nat.eqb_neq; lia). reflexivity.
  - reflexivity.
Qed.
Lemma in_letters_nt l c : In c (letters_of (map nt l)) -> exists k, c = letter k /\ In (IL k) l.
Proof.
  induction l as [|x l IH]; [intros []|]. cbn [map]. rewrite letters_of_cons. intro H.
  apply in_app_or in H. destruct H as [H|H].
  - destruct x as [k|]; cbn in H; [|contradiction]. destruct H as [<-|[]]. exists k. split; [reflexivity|left; reflexivity].
  - destruct (IH H) as [k [E Hk]]. exists k. split; [exact E|right; exact Hk].
Qed.
Lemma in_enc l n : In n (map ilab_enc l) -> n <> 0 -> exists k, n = S k /\ In (IL k) l.
Proof.
  intros H Hn. apply in_map_iff in H. destruct H as [x [E Hx]]. destruct x as [k|]; cbn in E; [|lia].
  exists k. split; [lia|exact Hx].
Qed.

Lemma nodup_count l : (forall x, count x l <= 1) -> NoDup l.
Proof.
  induction l as [|a l IH]; intro H; constructor.
  - intro Hin. apply count_pos in Hin. specialize (H a). cbn in H. rewrite Nat.eqb_refl in H. lia.
  - apply IH. intro x. specialize (H x). cbn in H. lia.
Qed.
Lemma once_first_seen_nodup l : NoDup (once_first_seen l).
Proof.
  apply nodup_count. intro x. unfold once_first_seen. rewrite count_filter.
  destruct (Nat.eqb (count x l) 1) eqn:E; [apply Nat.eqb_eq in E|]; lia.
Qed.

Lemma sorted_map_mono (g : nat -> nat) l : StronglySorted lt l ->
  (forall a b, In a l -> In b l -> a < b -> g a < g b) -> StronglySorted lt (map g l).
Proof.
  induction 1 as [|a l Hs IH Hall]; intro Hg; cbn; constructor.
  - apply IH. intros; apply Hg; auto; right; assumption.
  - rewrite Forall_forall in *. intros y Hy. apply in_map_iff in Hy. destruct Hy as [b [<- Hb]].
    apply Hg; [left; reflexivity|right; exact Hb|apply Hall; exact Hb].
Qed.

Lemma existsb_ell_nt inputs :
  existsb (existsb is_ell) (map (map nt) inputs) = existsb (existsb (ilab_eqb IE)) inputs.
Proof.
  induction inputs as [|t r IH]; [reflexivity|]. cbn [map existsb]. rewrite IH. f_equal.
  induction t as [|x t IHt]; [reflexivity|]. cbn [map existsb]. rewrite IHt. destruct x; reflexivity.
Qed.

Lemma computed_output_is_numpys inputs : labels_ok (concat inputs) ->
  map nt (interleaved_sorted_output inputs) = explicit_of_implicit (map (map nt) inputs).
Proof.
  intro L. unfold interleaved_sorted_output, explicit_of_implicit.
  rewrite existsb_ell_nt, !map_app. f_equal; [destruct (existsb _ inputs); reflexivity|].
  rewrite find_output_from_inputs_spec, <- concat_map.
  set (l := concat inputs) in *. set (flat := map ilab_enc l).
  set (named := sort_nat (filter (fun n => negb (Nat.eqb n 0)) (once_first_seen flat))).
  rewrite letters_of_concat, <- concat_map. fold l.
  set (all := letters_of (map nt l)).
  assert (Hin : forall n, In n named <-> n <> 0 /\ count n flat = 1).
  { intro n. unfold named. rewrite sort_nat_in, filter_In. unfold once_first_seen. rewrite filter_In.
    rewrite negb_true_iff, Nat.eqb_neq, Nat.eqb_eq. split; [tauto|]. intros [A B]. repeat split; auto.
    apply count_pos. lia. }
  assert (Hk : forall n, In n named -> exists k, n = S k /\ In (IL k) l /\ k < 52).
  { intros n Hn. apply Hin in Hn. destruct Hn as [A B].
    destruct (in_enc l n) as [k [E Hk]]; [apply count_pos; fold flat; lia|exact A|].
    exists k. repeat split; auto. }
  assert (Hs : StronglySorted lt named).
  { unfold named. apply sorted_le_nodup_lt; [apply sort_nat_sorted|].
    eapply Permutation_NoDup; [symmetry; apply sort_nat_perm|]. apply NoDup_filter, once_first_seen_nodup. }
  (* the two lists of tokens are TL of the same strictly increasing list of letters *)
  assert (E : map (fun n => letter (n - 1)) named = once_sorted all).
  { apply sorted_lt_unique.
    - apply sorted_map_mono; [exact Hs|]. intros a b Ha Hb Hab.
      destruct (Hk a Ha) as [ka [-> [_ Hka]]]. destruct (Hk b Hb) as [kb [-> [_ Hkb]]].
      cbn. rewrite !Nat.sub_0_r. apply letter_mono; lia.
    - apply once_sorted_sorted.
    - intro c. rewrite once_sorted_in, in_map_iff. split.
      + intros [n [<- Hn]]. destruct (Hk n Hn) as [k [-> [Hkl Hk52]]]. cbn. rewrite Nat.sub_0_r.
        unfold all. rewrite (count_letter_enc l k L Hk52). apply Hin in Hn. fold flat. tauto.
      + intro Hc. assert (Hca : In c all) by (apply count_pos; lia).
        destruct (in_letters_nt l c Hca) as [k [-> Hkl]]. assert (Hk52 : k < 52) by (apply L; exact Hkl).
        exists (S k). split; [cbn; rewrite Nat.sub_0_r; reflexivity|]. apply Hin. split; [lia|].
        unfold all in Hc. rewrite (count_letter_enc l k L Hk52) in Hc. exact Hc. }
  rewrite <- E. rewrite !map_map. apply map_ext_in. intros n Hn.
  destruct (Hk n Hn) as [k [-> _]]. cbn. rewrite Nat.sub_0_r. reflexivity.
Qed.

(* --- assembling the interleaved theorem --- *)
Definition decode_letter (c : nat) : nat := if c <? 97 then c - 65 else c - 97 + 26.
Lemma decode_letter_letter k : k < 52 -> decode_letter (letter k) = k.
Proof. unfold decode_letter, letter. intro H. destruct (k <? 26) eqn:A; [replace (65 + k <? 97) with true by lia|replace (97 + (k - 26) <? 97) with false by lia]; lia. Qed.
Lemma letter_eq_bounded k k' : k' < 52 -> letter k = letter k' -> k = k'.
Proof.
  intros H' E. destruct (Nat.lt_ge_cases k 52) as [H|H]; [apply letter_inj; assumption|].
  exfalso. unfold letter in E. destruct (k <? 26) eqn:A; [lia|]. destruct (k' <? 26) eqn:B; lia.
Qed.

Lemma tau_is_sigma inputs k : k < 52 ->
  inter_letter_to_sym inputs (letter k) = sigma (get_symbol_map inputs) k.
Proof.
  intro H. unfold inter_letter_to_sym, sigma. fold (decode_letter (letter k)).
  rewrite decode_letter_letter by exact H. reflexivity.
Qed.
Lemma mtok_is_tmap inputs l : labels_ok l ->
  map (mtok (get_symbol_map inputs)) l = map (tmap (inter_letter_to_sym inputs)) (map nt l).
Proof.
  intro L. rewrite map_map. apply map_ext_in. intros [k|] Hx; [|reflexivity].
  cbn [nt tmap mtok]. rewrite tau_is_sigma by (apply L; exact Hx). reflexivity.
Qed.

Lemma np_core_output_letters ops o shapes r : np_core ops (Some o) shapes = Some r ->
  forall c, In c (letters_of o) -> In c (concat (map letters_of ops)).
Proof.
  unfold np_core. destruct (negb (forallb only_labels ops)); [discriminate|].
  destruct (negb (only_labels o)); [discriminate|].
  destruct (np_operands_nb ops shapes); [|discriminate].
  unfold np_output. destruct (negb (nodupb (letters_of o))); [discriminate|].
  destruct (forallb (fun c => memb c (concat (map letters_of ops))) (letters_of o)) eqn:E; [|discriminate].
  intros _ c Hc. rewrite forallb_forall in E. apply memb_In. apply E. exact Hc.
Qed.

Lemma in_letters_of_nt l k : In (IL k) l -> In (letter k) (letters_of (map nt l)).
Proof.
  induction l as [|x l IH]; [intros []|]. cbn [map]. rewrite letters_of_cons. intros [->|H]; apply in_or_app.
  - left. left. reflexivity.
  - right. apply IH. exact H.
Qed.

Lemma existsb_IE_in inputs : existsb (existsb (ilab_eqb IE)) inputs = true -> In IE (concat inputs).
Proof.
  intro H. apply existsb_exists in H. destruct H as [t [Ht H]]. apply existsb_exists in H.
  destruct H as [x [Hx E]]. apply ilab_eqb_eq in E. subst x. apply in_concat. eauto.
Qed.
Lemma IE_in_computed_output inputs : In IE (interleaved_sorted_output inputs) -> In IE (concat inputs).
Proof.
  unfold interleaved_sorted_output. intro H. apply in_map_iff in H. destruct H as [n [E Hn]].
  destruct n; [|discriminate]. apply in_app_or in Hn. destruct Hn as [Hn|Hn].
  - destruct (existsb (existsb (ilab_eqb IE)) inputs) eqn:B; [apply existsb_IE_in; exact B|destruct Hn].
  - apply (proj1 (sort_nat_in _ _)) in Hn. apply filter_In in Hn. destruct Hn as [_ Hn]. discriminate.
Qed.

Lemma rho_args_inter ops out E l :
  rho_args (AInter ops out) E l = rho E (lmap (inter_letter_to_sym (map snd ops)) l).
Proof. destruct l; reflexivity. Qed.

Lemma mtok_not_sep m x : is_arrow (mtok m x) = false /\ is_comma (mtok m x) = false.
Proof. destruct x; split; reflexivity. Qed.

Theorem inter_matches_numpy ops out nops nout :
  np_parse_inter ops out = Some (nops, nout) ->
  exists eq, convert_from_interleaved_v true true (map snd ops) out = Some eq /\
    let E := model_ellipses_inds eq (map fst ops) in
    let r := rho_args (AInter ops out) E in
    parse_equation_ellipses_v true eq (map fst ops) = Some (map (map r) nops, map r nout).
Proof.
  unfold np_parse_inter. destruct (Nat.eqb (length ops) 0) eqn:Elen; [discriminate|].
  apply Nat.eqb_neq in Elen.
  set (inputs := map snd ops). set (shapes := map fst ops).
  destruct (np_sublists inputs) as [nts|] eqn:Ens; [|discriminate].
  destruct (np_sublists_spec _ _ Ens) as [-> L].
  (* the effective output sublist and numpy's verdict on it *)
  intros Hnp.
  assert (Heff : exists o_eff,
    (match out with Some o => Some o | None => Some (interleaved_sorted_output inputs) end) = Some o_eff /\
    np_core (map (map nt) inputs) (Some (map nt o_eff)) shapes = Some (nops, nout)).
  { destruct out as [o|].
    - destruct (np_sublist o) as [ot|] eqn:Eo; [|discriminate].
      destruct (np_sublist_spec _ _ Eo) as [-> _]. exists o. auto.
    - exists (interleaved_sorted_output inputs). split; [reflexivity|].
      rewrite (computed_output_is_numpys inputs L). apply np_core_implicit_explicit. exact Hnp. }
  destruct Heff as [o_eff [Eeff Hcore]]. clear Hnp.
  set (sm := get_symbol_map inputs).
  destruct (get_symbol_map_spec inputs) as [c [W K]]. fold sm in W, K.
  (* every label of the output is known to the symbol map, and is below 52 *)
  assert (Hout : forall k, In (IL k) o_eff -> In (IL k) (map fst sm) /\ k < 52).
  { intros k Hx.
    - pose proof (np_core_output_letters _ _ _ _ Hcore (letter k) (in_letters_of_nt o_eff k Hx)) as Hc.
      rewrite letters_of_concat, <- concat_map in Hc.
      destruct (in_letters_nt _ _ Hc) as [k' [E Hk']].
      assert (k' < 52) by (apply L; exact Hk'). apply letter_eq_bounded in E; [|assumption]. subst k'.
      split; [apply K; exact Hk'|assumption]. }
  assert (Lo : labels_ok o_eff) by (intros k Hk; apply (Hout k Hk)).
  (* the equation string the model builds *)
  set (mops := map (map (mtok sm)) inputs). set (mo := map (mtok sm) o_eff).
  assert (Econv : convert_from_interleaved_v true true inputs out = Some (unlex (tjoin mops ++ TArrow :: mo))).
  { unfold convert_from_interleaved_v. fold sm.
    rewrite (sm_terms_unlex sm c inputs W) by (intros x Hx; apply K; exact Hx). fold mops.
    rewrite Eeff. rewrite (sm_term_out_unlex sm c o_eff W) by (intros k Hx; apply Hout; exact Hx). fold mo.
    rewrite unlex_app, unlex_cons, unlex_tjoin. reflexivity. }
  exists (unlex (tjoin mops ++ TArrow :: mo)). split; [exact Econv|].
  (* token facts *)
  assert (Kops : forall p t, In p mops -> In t p -> tok_ok t /\ is_arrow t = false /\ is_comma t = false).
  { intros p t Hp Ht. unfold mops in Hp. apply in_map_iff in Hp. destruct Hp as [term [<- Hterm]].
    apply in_map_iff in Ht. destruct Ht as [x [<- Hx]]. split; [|apply mtok_not_sep].
    apply (mtok_ok sm c x W). apply K. apply in_concat. eauto. }
  assert (Kmo : Forall tok_ok mo /\ forall t, In t mo -> is_arrow t = false).
  { split; [apply Forall_forall|]; intros t Ht; unfold mo in Ht; apply in_map_iff in Ht;
      destruct Ht as [x [<- Hx]]; [destruct x as [k|]; [apply (mtok_ok sm c (IL k) W), Hout, Hx|exact I]|apply mtok_not_sep]. }
  assert (Klhs : Forall tok_ok (tjoin mops) /\ Forall lhs_tok (tjoin mops)).
  { clear - Kops. induction mops as [|p [|q r] IH].
    - split; constructor.
    - cbn [tjoin]. split; apply Forall_forall; intros t Ht; destruct (Kops p t (or_introl eq_refl) Ht) as [A [B _]]; [exact A|].
      destruct t; try exact I. discriminate B.
    - change (tjoin (p :: q :: r)) with (p ++ TComma :: tjoin (q :: r)).
      destruct IH as [I1 I2]; [intros; apply (Kops p0 t); [right|]; assumption|].
      split; apply Forall_app; split; try (constructor; [exact I|assumption]);
        apply Forall_forall; intros t Ht; destruct (Kops p t (or_introl eq_refl) Ht) as [A [B _]]; [exact A|].
      destruct t; try exact I. discriminate B. }
  destruct Klhs as [Klhs1 Klhs2]. destruct Kmo as [Kmo1 Kmo2].
  assert (Hne : mops <> []).
  { unfold mops, inputs. destruct ops; [cbn in Elen; lia|discriminate]. }
  assert (Hsplit : tsplit is_comma (tjoin mops) = mops).
  { apply tsplit_tjoin; [exact Hne|]. intros p t Hp Ht. apply (Kops p t Hp Ht). }
  (* numpy's verdict on the model's tokens *)
  set (tau := inter_letter_to_sym inputs).
  assert (Hmops : mops = map (map (tmap tau)) (map (map nt) inputs)).
  { unfold mops. rewrite map_map. apply map_ext_in. intros term Hterm.
    apply mtok_is_tmap. intros k Hk. apply L. apply in_concat. eauto. }
  assert (Hmo : mo = map (tmap tau) (map nt o_eff)) by (apply mtok_is_tmap; exact Lo).
  assert (Hinj : forall x y, In x (concat (map letters_of (map (map nt) inputs))) ->
                             In y (concat (map letters_of (map (map nt) inputs))) -> tau x = tau y -> x = y).
  { intros x y Hx Hy. rewrite letters_of_concat, <- concat_map in Hx, Hy.
    destruct (in_letters_nt _ _ Hx) as [k1 [-> H1]]. destruct (in_letters_nt _ _ Hy) as [k2 [-> H2]].
    unfold tau. rewrite !tau_is_sigma by (apply L; assumption). intro E. f_equal.
    apply (sigma_inj sm c); auto; apply K; assumption. }
  pose proof (np_core_relabel tau _ _ _ _ _ Hinj Hcore) as Hcore'.
  rewrite <- Hmops, <- Hmo, <- Hsplit in Hcore'.
  (* run the model's parser on the string *)
  assert (Ktoks : Forall tok_ok (tjoin mops ++ TArrow :: mo)).
  { apply Forall_app. split; [exact Klhs1|constructor; [exact I|exact Kmo1]]. }
  assert (Hsa : tsplit is_arrow (tjoin mops ++ TArrow :: mo) = [tjoin mops; mo]).
  { rewrite tsplit_app_sep; [|intros t Ht; rewrite Forall_forall in Klhs2; specialize (Klhs2 t Ht); destruct t; try reflexivity; contradiction|reflexivity].
    rewrite tsplit_nosep by exact Kmo2. reflexivity. }
  cbn zeta. unfold parse_equation_ellipses_v, model_ellipses_inds.
  rewrite (split_arrow_unlex _ Ktoks), Hsa. cbn [map hd tl].
  pose proof (core_matches_numpy (tjoin mops) (Some mo) shapes _ _ Klhs1 Klhs2 Kmo1 Hcore') as HC.
  cbn zeta in HC. fold shapes.
  etransitivity; [exact HC|]. f_equal. f_equal.
  - rewrite map_map. apply map_ext. intro t. rewrite map_map. apply map_ext. intro l0.
    symmetry. apply rho_args_inter.
  - rewrite map_map. apply map_ext. intro l0. symmetry. apply rho_args_inter.
Qed.

Theorem inter_agrees_with_numpy fx ops out :
  fx_inter fx = true -> fx_outell fx = true -> fx_interout fx = true ->
  agrees_args_v fx (AInter ops out) = match np_parse_inter ops out with Some _ => Some true | None => None end.
Proof.
  intros F1 F2 F3. unfold agrees_args_v. cbn [np_parse_args einsum_eq_v eargs_shapes]. rewrite F1, F2, F3.
  destruct (np_parse_inter ops out) as [[nops nout]|] eqn:P; [|reflexivity].
  destruct (inter_matches_numpy ops out nops nout P) as [eq [E1 E2]]. cbn zeta in E2.
  rewrite E1, E2, ops_eqb_refl. reflexivity.
Qed.

(* ------------------------------------------------------------------ *)
(* bounded exhaustive comparison of the model with NumpySpec (vm_compute) *)
Definition sweep_pres : list (list nat) := [[]; [98]; [66]; [98; 66]].
Definition sweep_posts : list (list nat) := [[]; [98]; [97]].
Definition sweep_sterms : list sterm :=
  flat_map (fun pre => flat_map (fun ell => map (fun post => mkST pre ell post) sweep_posts) [true; false]) sweep_pres.
(* an operand: a term and its number of broadcast dimensions (all dimensions have size 2) *)
Definition sweep_operands : list (sterm * nat) :=
  flat_map (fun t => if st_ell t then [(t, 0); (t, 1); (t, 2)] else [(t, 0)]) sweep_sterms.
Definition sweep_outputs : list (option sterm) :=
  [None; Some (mkST [] false []); Some (mkST [98] false []); Some (mkST [] true []);
   Some (mkST [] true [98]); Some (mkST [66] true []); Some (mkST [97] true [98]); Some (mkST [98; 66] false [])].
Definition operand_shape (o : sterm * nat) : shape :=
  repeat 2%Z (length (sterm_letters (fst o)) + snd o).
Definition sweep_args_str (ops : list (sterm * nat)) (out : option sterm) : eargs :=
  AStr (render_eq (map fst ops) out) (map operand_shape ops).
Definition letter_label (c : nat) : nat := if c <? 97 then c - 65 else c - 97 + 26.
Definition sterm_sublist (t : sterm) : list ilab :=
  map (fun c => IL (letter_label c)) (st_pre t) ++ (if st_ell t then [IE] else []) ++
  map (fun c => IL (letter_label c)) (st_post t).
Definition sweep_args_inter (ops : list (sterm * nat)) (out : option sterm) : eargs :=
  AInter (map (fun o => (operand_shape o, sterm_sublist (fst o))) ops)
         (match out with Some o => Some (sterm_sublist o) | None => None end).
Definition output_only_ellipsis (ops : list (sterm * nat)) (out : option sterm) : bool :=
  match out with
  | Some o => st_ell o && negb (existsb (fun t => st_ell (fst t)) ops)
  | None => false
  end.
Definition not_refuted (r : option bool) : bool := match r with Some false => false | _ => true end.
Definition is_agree (r : option bool) : bool := match r with Some true => true | _ => false end.
Definition sweep_calls : list (list (sterm * nat) * option sterm) :=
  flat_map (fun out => map (fun a => ([a], out)) sweep_operands ++
                       flat_map (fun a => map (fun b => ([a; b], out)) sweep_operands) sweep_operands)
           sweep_outputs.

(* the pinned code, string form: every call of the sweep except the output-only-ellipsis class *)
Lemma sweep_string_pinned :
  forallb (fun c => output_only_ellipsis (fst c) (snd c) ||
                    not_refuted (agrees_args_v no_fixes (sweep_args_str (fst c) (snd c)))) sweep_calls = true.
Proof. vm_compute. reflexivity. Qed.
(* the code with the proposed fixes: every call of the sweep, both call forms *)
Lemma sweep_string_fixed :
  forallb (fun c => not_refuted (agrees_args_v all_fixes (sweep_args_str (fst c) (snd c)))) sweep_calls = true.
Proof. vm_compute. reflexivity. Qed.
Lemma sweep_inter_fixed :
  forallb (fun c => not_refuted (agrees_args_v all_fixes (sweep_args_inter (fst c) (snd c)))) sweep_calls = true.
Proof. vm_compute. reflexivity. Qed.
(* the pinned code, interleaved form with an explicit output sublist *)
Lemma sweep_inter_explicit_pinned :
  forallb (fun c => match snd c with None => true | Some _ =>
                      output_only_ellipsis (fst c) (snd c) ||
                      not_refuted (agrees_args_v no_fixes (sweep_args_inter (fst c) (snd c))) end) sweep_calls = true.
Proof. vm_compute. reflexivity. Qed.
(* non-vacuity of the sweeps: how many calls numpy accepts (and the model then agrees on) *)
Lemma sweep_sizes :
  length sweep_calls = 8 * (48 + 48 * 48) /\
  length (filter (fun c => is_agree (agrees_args_v all_fixes (sweep_args_str (fst c) (snd c)))) sweep_calls) = 
  length (filter (fun c => match np_parse_args (sweep_args_str (fst c) (snd c)) with Some _ => true | None => false end) sweep_calls).
Proof. vm_compute. split; reflexivity. Qed.

(* einsum(x, [0,1], [Ellipsis,1,0]): refuted for the model before the interleaved-output-ellipsis-only
   repair (KeyError), in agreement with numpy after it *)
Lemma interleaved_output_ellipsis_only_witness :
  let a := AInter [([2;3]%Z, [IL 0; IL 1])] (Some [IE; IL 1; IL 0]) in
  agrees_args_v (mkFx true true true false) a = Some false /\
  agrees_args_v all_fixes a = Some true /\
  np_out_shape a = Some [3;2]%Z /\ front_out_shape_v all_fixes a = Some [3;2]%Z.
Proof. vm_compute. auto. Qed.

(* the class as a whole: an output sublist with an Ellipsis that no input sublist carries *)
Lemma interleaved_output_only_ellipsis_agrees ops o :
  In IE o -> ~ In IE (concat (map snd ops)) ->
  agrees_args_v all_fixes (AInter ops (Some o)) =
  match np_parse_inter ops (Some o) with Some _ => Some true | None => None end.
Proof. intros _ _. apply inter_agrees_with_numpy; reflexivity. Qed.

(* the witnesses of the refutations are repaired by the proposed fixes *)
Lemma fixes_repair_witnesses :
  agrees_args_v all_fixes (AStr w_spaces [[2;3];[3;4]]%Z) = Some true /\
  agrees_args_v all_fixes (AInter [([4;2]%Z, [IL 5; IL 1]); ([2;3]%Z, [IL 1; IL 2])] None) = Some true /\
  front_out_shape_v all_fixes (AInter [([4;2]%Z, [IL 5; IL 1]); ([2;3]%Z, [IL 1; IL 2])] None) = Some [3;4]%Z /\
  agrees_args_v all_fixes (AStr [97;98;45;62;46;46;46;97;98] [[2;3]]%Z) = Some true.
Proof. vm_compute. auto. Qed.

From Ctg Require Import Net Einsum SumOver.
Open Scope nat_scope.

(* ================================================================== *)
(* VALUE invariance of einsum under an injective relabelling            *)

Lemma sum_over_agree size D js : forall e1 e2 (G : env -> Z),
  (forall a b, agree_on D a b -> G a = G b) -> agree_on D e1 e2 ->
  sum_over size js e1 G = sum_over size js e2 G.
Proof.
  induction js as [|j js IH]; intros e1 e2 G HG He; cbn; [apply HG, He|].
  apply sumn_ext. intros v _. apply IH; [exact HG|].
  intros k Hk. unfold upd. destruct (Nat.eqb k j); [reflexivity|apply He, Hk].
Qed.

Lemma sum_over_relabel f size size' D js : forall e' (G : env -> Z),
  inj_on f D -> incl js D -> (forall j, In j js -> size' (f j) = size j) ->
  (forall a b, agree_on D a b -> G a = G b) ->
  sum_over size' (map f js) e' (fun e'' => G (fun j => e'' (f j))) =
  sum_over size js (fun j => e' (f j)) G.
Proof.
  intros e' G Hinj. revert e'. induction js as [|j js IH]; intros e' Hincl Hsz HG; cbn; [reflexivity|].
  rewrite (Hsz j (or_introl eq_refl)). apply sumn_ext. intros v _.
  rewrite IH; [|intros x Hx; apply Hincl; right; exact Hx|intros x Hx; apply Hsz; right; exact Hx|exact HG].
  apply (sum_over_agree size D); [exact HG|].
  intros k Hk. unfold upd.
  destruct (Nat.eqb k j) eqn:E.
  - apply Nat.eqb_eq in E. subst. rewrite Nat.eqb_refl. reflexivity.
  - replace (Nat.eqb (f k) (f j)) with false; [reflexivity|].
    symmetry. apply Nat.eqb_neq. intro Hf. apply Nat.eqb_neq in E. apply E.
    apply Hinj; [exact Hk|apply Hincl; left; reflexivity|exact Hf].
Qed.

Lemma nodup_map_inj f l : inj_on f l -> nodup Nat.eq_dec (map f l) = map f (nodup Nat.eq_dec l).
Proof.
  induction l as [|x l IH]; intro H; [reflexivity|]. cbn [map nodup].
  assert (Hl : inj_on f l) by (intros a b Ha Hb; apply H; right; assumption).
  destruct (in_dec Nat.eq_dec (f x) (map f l)) as [I1|I1], (in_dec Nat.eq_dec x l) as [I2|I2].
  - apply IH, Hl.
  - exfalso. apply in_map_iff in I1. destruct I1 as [y [E Hy]]. apply I2.
    rewrite <- (H y x (or_intror Hy) (or_introl eq_refl) E). exact Hy.
  - exfalso. apply I1. apply in_map. exact I2.
  - cbn [map]. f_equal. apply IH, Hl.
Qed.

Lemma filter_map_comm {A B} (P : B -> bool) (g : A -> B) l : filter P (map g l) = map g (filter (fun x => P (g x)) l).
Proof. induction l as [|x l IH]; cbn; [reflexivity|]. destruct (P (g x)); cbn; rewrite IH; reflexivity. Qed.

Lemma zget_relabel f sd j : inj_on f (j :: map fst sd) -> zget (f j) (relabel_sizes f sd) = zget j sd.
Proof.
  induction sd as [|[k v] sd IH]; intro H; [reflexivity|]. cbn [relabel_sizes map fst snd zget].
  destruct (Nat.eqb k j) eqn:E.
  - apply Nat.eqb_eq in E. subst. rewrite Nat.eqb_refl. reflexivity.
  - replace (Nat.eqb (f k) (f j)) with false.
    + apply IH. intros a b Ha Hb. apply H; cbn in *; tauto.
    + symmetry. apply Nat.eqb_neq. intro Hf. apply Nat.eqb_neq in E. apply E.
      apply H; cbn; auto.
Qed.

Theorem einsum_relabel_invariant f n (arr : nat -> ptensor) e' :
  inj_on f (net_labels n) ->
  einsum_spec (relabel_net f n) [] arr e' = einsum_spec n [] arr (fun j => e' (f j)).
Proof.
  intro Hinj. unfold einsum_spec.
  set (D := net_labels n).
  assert (Hin_inputs : incl (concat (inputs n)) D) by (intros x Hx; unfold D, net_labels; apply in_or_app; left; exact Hx).
  assert (Hin_out : incl (output n) D) by (intros x Hx; unfold D, net_labels; apply in_or_app; right; apply in_or_app; left; exact Hx).
  assert (Hin_keys : incl (map fst (szd n)) D) by (intros x Hx; unfold D, net_labels; apply in_or_app; right; apply in_or_app; right; exact Hx).
  (* the summed indices *)
  assert (Hall : all_ix (relabel_net f n) = map f (all_ix n)).
  { unfold all_ix. cbn [inputs relabel_net]. rewrite <- concat_map. apply nodup_map_inj.
    intros a b Ha Hb. apply Hinj; apply Hin_inputs; assumption. }
  assert (Hinner : inner (relabel_net f n) [] = map f (inner n [])).
  { unfold inner. rewrite Hall, filter_map_comm. f_equal. apply filter_ext_in. intros j Hj.
    unfold all_ix in Hj. apply nodup_In in Hj. cbn [removed map memb existsb negb andb output relabel_net].
    f_equal. apply memb_map_inj. intros y Hy E. apply Hinj; [apply Hin_out; exact Hy|apply Hin_inputs; exact Hj|exact E]. }
  rewrite Hinner.
  (* the summand *)
  assert (HNN : NN (relabel_net f n) = NN n) by (unfold NN; cbn; apply map_length).
  rewrite HNN.
  assert (Hprod : forall S e'', prodF (relabel_net f n) arr S e'' = prodF n arr S (fun j => e'' (f j))).
  { induction S as [|k S IH]; intro e''; [reflexivity|]. cbn [prodF]. rewrite IH. f_equal.
    unfold F. cbn [inputs relabel_net]. f_equal.
    change (@nil ix) with (map f []) at 1. rewrite map_nth, map_map. reflexivity. }
  rewrite (sum_over_ext (dim (relabel_net f n)) (map f (inner n [])) e' _ _ (Hprod (seq 0 (NN n)))).
  apply (sum_over_relabel f (dim n) (dim (relabel_net f n)) D).
  - exact Hinj.
  - intros j Hj. unfold inner in Hj. apply filter_In in Hj. destruct Hj as [Hj _].
    unfold all_ix in Hj. apply nodup_In in Hj. apply Hin_inputs. exact Hj.
  - intros j Hj. unfold dim. cbn [szd relabel_net]. f_equal. apply zget_relabel.
    assert (In j D).
    { unfold inner in Hj. apply filter_In in Hj. destruct Hj as [Hj _].
      unfold all_ix in Hj. apply nodup_In in Hj. apply Hin_inputs. exact Hj. }
    intros a b Ha Hb. apply Hinj; [destruct Ha as [<-|Ha]; [assumption|apply Hin_keys; exact Ha]|
                                   destruct Hb as [<-|Hb]; [assumption|apply Hin_keys; exact Hb]].
  - intros a b Hab. induction (seq 0 (NN n)) as [|k S IH]; [reflexivity|]. cbn [prodF]. rewrite IH. f_equal.
    unfold F. f_equal. apply map_ext_in. intros j Hj. apply Hab. apply Hin_inputs.
    destruct (Nat.lt_ge_cases k (length (inputs n))) as [Hk|Hk].
    + apply in_concat. exists (nth k (inputs n) []). split; [apply nth_In; exact Hk|exact Hj].
    + rewrite nth_overflow in Hj by exact Hk. destruct Hj.
Qed.

(* --- canonicalize_inputs produces exactly the relabelled network --- *)
Lemma zset_keys j v d x : In x (map fst (zset j v d)) -> x = j \/ In x (map fst d).
Proof.
  induction d as [|[k w] d IH]; cbn; [intros [<-|[]]; auto|].
  destruct (Nat.eqb k j) eqn:E; cbn; [intros [<-|H]; auto|].
  intros [<-|H]; [auto|]. destruct (IH H); auto.
Qed.
Lemma zset_relabel f j v d : inj_on f (j :: map fst d) ->
  zset (f j) v (relabel_sizes f d) = relabel_sizes f (zset j v d).
Proof.
  induction d as [|[k w] d IH]; intro H; [reflexivity|]. cbn [relabel_sizes map fst snd zset].
  destruct (Nat.eqb k j) eqn:E.
  - apply Nat.eqb_eq in E. subst. rewrite Nat.eqb_refl. reflexivity.
  - replace (Nat.eqb (f k) (f j)) with false.
    + cbn [map fst snd]. f_equal. apply IH. intros a b Ha Hb. apply H; cbn in *; tauto.
    + symmetry. apply Nat.eqb_neq. intro Hf. apply Nat.eqb_neq in E. apply E. apply H; cbn; auto.
Qed.

Lemma fold_zset_relabel f items : forall acc,
  inj_on f (map fst items ++ map fst acc) ->
  fold_left (fun a xd => zset (f (fst xd)) (snd xd) a) items (relabel_sizes f acc) =
  relabel_sizes f (fold_left (fun a xd => zset (fst xd) (snd xd) a) items acc).
Proof.
  induction items as [|[j v] items IH]; intros acc H; [reflexivity|]. cbn [fold_left fst snd].
  rewrite zset_relabel by (intros a b Ha Hb; apply H; cbn in *; rewrite in_app_iff; tauto).
  apply IH. intros a b Ha Hb. apply H; cbn; rewrite in_app_iff in *;
    [destruct Ha as [Ha|Ha]; [tauto|destruct (zset_keys _ _ _ _ Ha); [subst; tauto|tauto]]|
     destruct Hb as [Hb|Hb]; [tauto|destruct (zset_keys _ _ _ _ Hb); [subst; tauto|tauto]]].
Qed.

Lemma combine_map_l {A B C} (g : A -> C) (l : list A) (l' : list B) :
  combine (map g l) l' = map (fun p => (g (fst p), snd p)) (combine l l').
Proof. revert l'. induction l as [|x l IH]; intros [|y l']; cbn; try reflexivity. rewrite IH. reflexivity. Qed.

Lemma sizes_from_shapes_relabel f ins : forall shapes,
  inj_on f (concat ins) ->
  sizes_from_shapes (map (map f) ins) shapes = relabel_sizes f (sizes_from_shapes ins shapes).
Proof.
  unfold sizes_from_shapes. intros shapes H.
  assert (G : forall ins0 shapes0 acc, incl (concat ins0) (concat ins) -> incl (map fst acc) (concat ins) ->
    fold_left (fun acc0 ts => fold_left (fun acc' xd => zset (fst xd) (snd xd) acc') (combine (fst ts) (snd ts)) acc0)
              (combine (map (map f) ins0) shapes0) (relabel_sizes f acc) =
    relabel_sizes f (fold_left (fun acc0 ts => fold_left (fun acc' xd => zset (fst xd) (snd xd) acc') (combine (fst ts) (snd ts)) acc0)
              (combine ins0 shapes0) acc) /\ True).
  { induction ins0 as [|t ins0 IH]; intros shapes0 acc Hi Ha; [split; reflexivity|].
    destruct shapes0 as [|sh shapes0]; [split; reflexivity|]. cbn [map combine fold_left fst snd].
    rewrite (combine_map_l f t sh).
    assert (E : forall (l : list (nat * Z)) (a : sizes),
      fold_left (fun acc' xd => zset (fst xd) (snd xd) acc') (map (fun p => (f (fst p), snd p)) l) a =
      fold_left (fun a0 xd => zset (f (fst xd)) (snd xd) a0) l a).
    { intro l. induction l as [|p l IHl]; intro a; [reflexivity|]. cbn. apply IHl. }
    rewrite E.
    assert (Hk : incl (map fst (combine t sh)) (concat ins)).
    { intros x Hx. apply in_map_iff in Hx. destruct Hx as [[a b] [<- Hab]]. apply in_combine_l in Hab.
      apply Hi. cbn. apply in_or_app. left. exact Hab. }
    rewrite fold_zset_relabel.
    2:{ intros a b Ha' Hb'. apply H; rewrite in_app_iff in *; [destruct Ha'|destruct Hb']; auto. }
    apply IH; [intros x Hx; apply Hi; cbn; apply in_or_app; right; exact Hx|].
    (* keys of the new accumulator *)
    clear - Ha Hk. revert acc Ha. induction (combine t sh) as [|[j v] l IHl]; intros acc Ha; [exact Ha|].
    cbn [fold_left fst snd]. apply IHl; [intros x Hx; apply Hk; right; exact Hx|].
    intros x Hx. destruct (zset_keys _ _ _ _ Hx) as [->|Hx']; [apply Hk; left; reflexivity|apply Ha; exact Hx']. }
  exact (proj1 (G ins shapes [] (incl_refl _) (fun x (Hx : In x []) => match Hx with end))).
Qed.

Lemma fold_zset_nodup items : forall acc, NoDup (map fst acc ++ map fst items) ->
  fold_left (fun a xd => zset (fst xd) (snd xd) a) items acc = acc ++ items.
Proof.
  induction items as [|[j v] items IH]; intros acc H; [rewrite app_nil_r; reflexivity|].
  cbn [fold_left fst snd].
  assert (Hz : zset j v acc = acc ++ [(j, v)]).
  { assert (Hn : ~ In j (map fst acc)).
    { apply NoDup_remove_2 in H. intro Hj. apply H. apply in_or_app. left. exact Hj. }
    clear - Hn. induction acc as [|[k w] acc IHa]; [reflexivity|]. cbn.
    destruct (Nat.eqb k j) eqn:E; [apply Nat.eqb_eq in E; subst; exfalso; apply Hn; left; reflexivity|].
    f_equal. apply IHa. intro; apply Hn; right; assumption. }
  rewrite Hz, IH; [rewrite <- app_assoc; reflexivity|].
  rewrite map_app, <- app_assoc. exact H.
Qed.

Lemma im_sizes_fold sd : forall m acc m' s, im_wf m -> im_sizes m sd acc = (m', s) ->
  s = fold_left (fun a xd => zset (im_fun m' (fst xd)) (snd xd) a) sd acc.
Proof.
  induction sd as [|[k d] r IH]; intros m acc m' s W; cbn [im_sizes fold_left fst snd].
  - intro H; inversion H; reflexivity.
  - destruct (im_get m k) as [m1 s1] eqn:G. intro H.
    destruct (im_get_spec _ _ _ _ W G) as [W1 [_ L1]].
    destruct (im_sizes_spec _ _ _ _ _ W1 H) as [_ [[e2 E2] _]].
    rewrite (IH _ _ _ _ W1 H). f_equal. f_equal. unfold im_fun. rewrite E2, (im_look_app _ _ _ _ L1). reflexivity.
Qed.


Theorem canonicalize_is_relabel_net ins0 out0 shapes sd ni no nsd m :
  canonicalize_inputs ins0 out0 shapes sd = (ni, no, Some nsd, m) ->
  (match sd with Some sdv => NoDup (map fst sdv) | None => True end) ->
  mkNet ni no nsd = relabel_net (im_fun m) (original_net ins0 out0 shapes sd) /\
  inj_on (im_fun m) (net_labels (original_net ins0 out0 shapes sd)).
Proof.
  intros HC Hnd.
  destruct (canonicalize_relabels _ _ _ _ _ _ _ _ HC) as [W [Hni [Hdom [Hno [Hsd Hinj]]]]].
  (* the size dictionary *)
  assert (Hs : nsd = relabel_sizes (im_fun m) (szd (original_net ins0 out0 shapes sd)) /\
               incl (map fst (szd (original_net ins0 out0 shapes sd))) (map fst m)).
  { revert HC. unfold canonicalize_inputs.
    destruct (im_terms [] ins0) as [m1 ni1] eqn:T1.
    destruct (im_terms_spec _ _ _ _ im_wf_nil T1) as [W1 [_ [S1 D1]]].
    assert (R2 : exists m2 no2, (match out0 with Some o => im_term m1 o | None => (m1, find_output_from_inputs ni1) end) = (m2, no2)
                 /\ im_wf m2 /\ exists e2, m2 = m1 ++ e2).
    { destruct out0 as [o|].
      - destruct (im_term m1 o) as [m2 no2] eqn:T2. destruct (im_term_spec _ _ _ _ W1 T2) as [W2 [X _]]. eauto.
      - exists m1, (find_output_from_inputs ni1). split; [reflexivity|]. split; [exact W1|exists []; rewrite app_nil_r; reflexivity]. }
    destruct R2 as [m2 [no2 [R2 [W2 [e2 E2]]]]]. rewrite R2.
    unfold original_net. cbn [szd].
    destruct sd as [sdv|].
    - destruct (im_sizes m2 sdv []) as [m3 s3] eqn:T3. intro H. injection H as _ _ Hs Hm. subst m3 s3.
      destruct (im_sizes_spec _ _ _ _ _ W2 T3) as [_ [_ D3]].
      split; [|intros x Hx; apply D3; exact Hx].
      rewrite (im_sizes_fold _ _ _ _ _ W2 T3).
      etransitivity; [apply (fold_zset_relabel (im_fun m) sdv []); cbn; rewrite app_nil_r;
                      intros a b Ha Hb; apply Hinj; apply D3; assumption|].
      rewrite fold_zset_nodup by exact Hnd. reflexivity.
    - destruct shapes as [shs|]; intro H; [|discriminate H].
      injection H as Hn _ Hs Hm.
      split.
      + rewrite <- Hs, Hn, Hni. apply sizes_from_shapes_relabel.
        intros a b Ha Hb. apply Hinj; apply Hdom; assumption.
      + intros x Hx. apply in_map_iff in Hx. destruct Hx as [[a b] [<- Hab]].
        apply Hdom. clear - Hab. unfold sizes_from_shapes in Hab.
        assert (G : forall insx shapes0 (acc : sizes), In (a, b) (fold_left (fun acc0 ts => fold_left (fun acc' xd => zset (fst xd) (snd xd) acc') (combine (fst ts) (snd ts)) acc0) (combine insx shapes0) acc) ->
                   In a (map fst acc) \/ In a (concat insx)).
        { induction insx as [|t insx IH]; intros shapes0 acc H; [left; apply in_map_iff; exists (a, b); auto|].
          destruct shapes0 as [|sh shapes0]; [left; apply in_map_iff; exists (a, b); auto|].
          cbn [combine fold_left fst snd] in H. destruct (IH _ _ H) as [H1|H1]; [|right; cbn; apply in_or_app; right; exact H1].
          assert (G2 : forall l (acc0 : sizes), In a (map fst (fold_left (fun acc' xd => zset (fst xd) (snd xd) acc') l acc0)) ->
                       In a (map fst acc0) \/ In a (map fst l)).
          { induction l as [|[j v] l IHl]; intros acc0 H0; [left; exact H0|]. cbn [fold_left fst snd] in H0.
            destruct (IHl _ H0) as [H2|H2]; [|right; right; exact H2].
            destruct (zset_keys _ _ _ _ H2) as [->|H3]; [right; left; reflexivity|left; exact H3]. }
          destruct (G2 _ _ H1) as [H2|H2]; [left; exact H2|right].
          cbn. apply in_or_app. left. apply in_map_iff in H2. destruct H2 as [[x y] [<- Hxy]].
          apply in_combine_l in Hxy. exact Hxy. }
        destruct (G _ _ _ Hab) as [[]|H]; exact H. }
  destruct Hs as [Hs Hkeys].
  split.
  - unfold relabel_net, original_net in *. cbn [inputs output szd] in *. rewrite Hni, Hs. f_equal.
    destruct out0 as [o|]; [apply Hno|exact Hno].
  - intros a b Ha Hb. apply Hinj.
    + unfold net_labels, original_net in Ha. cbn [inputs output szd] in Ha.
      apply in_app_or in Ha. destruct Ha as [Ha|Ha]; [apply Hdom; exact Ha|].
      apply in_app_or in Ha. destruct Ha as [Ha|Ha]; [|apply Hkeys; exact Ha].
      destruct out0 as [o|]; [apply Hno; exact Ha|].
      apply Hdom. rewrite find_output_from_inputs_spec in Ha. unfold once_first_seen in Ha. apply filter_In in Ha. tauto.
    + unfold net_labels, original_net in Hb. cbn [inputs output szd] in Hb.
      apply in_app_or in Hb. destruct Hb as [Hb|Hb]; [apply Hdom; exact Hb|].
      apply in_app_or in Hb. destruct Hb as [Hb|Hb]; [|apply Hkeys; exact Hb].
      destruct out0 as [o|]; [apply Hno; exact Hb|].
      apply Hdom. rewrite find_output_from_inputs_spec in Hb. unfold once_first_seen in Hb. apply filter_In in Hb. tauto.
Qed.

(* the value of the canonicalised contraction IS the value of the contraction that was asked for *)
Theorem canonicalize_value_invariant ins0 out0 shapes sd ni no nsd m (arr : nat -> ptensor) e' :
  canonicalize_inputs ins0 out0 shapes sd = (ni, no, Some nsd, m) ->
  (match sd with Some sdv => NoDup (map fst sdv) | None => True end) ->
  einsum_spec (mkNet ni no nsd) [] arr e' =
  einsum_spec (original_net ins0 out0 shapes sd) [] arr (fun j => e' (im_fun m j)).
Proof.
  intros HC Hnd. destruct (canonicalize_is_relabel_net _ _ _ _ _ _ _ _ HC Hnd) as [E Hinj].
  rewrite E. apply einsum_relabel_invariant. exact Hinj.
Qed.

(* ParseFacts.v -- lemmas about Model/Parse.v (C12). *)
From Coq Require Import ZArith List Bool Lia ZifyBool Arith Permutation Sorted.
From Ctg Require Import Base Parse BaseFacts.
Import ListNotations.
Open Scope nat_scope.

(* ------------------------------------------------------------------ *)
(* generic: insertion sort *)
Section SortBy.
Context {A : Type} (le : A -> A -> bool).
Hypothesis le_total : forall a b, le a b = true \/ le b a = true.
Hypothesis le_trans : forall a b c, le a b = true -> le b c = true -> le a c = true.

Lemma insert_by_perm x l : Permutation (insert_by le x l) (x :: l).
Proof.
  induction l as [|y l IH]; cbn; [reflexivity|].
  destruct (le y x); [|reflexivity].
  rewrite IH. apply perm_swap.
Qed.

Lemma insert_by_sorted x l :
  StronglySorted (fun a b => le a b = true) l -> StronglySorted (fun a b => le a b = true) (insert_by le x l).
Proof.
  induction l as [|y l IH]; intro Hs; cbn.
  - constructor; constructor.
  - inversion Hs as [|? ? Hs' Hall]; subst.
    destruct (le y x) eqn:E.
    + constructor; [apply IH; exact Hs'|].
      eapply Permutation_Forall; [symmetry; apply insert_by_perm|].
      constructor; assumption.
    + assert (Hxy : le x y = true) by (destruct (le_total x y) as [H|H]; [exact H|congruence]).
      constructor; [exact Hs|]. constructor; [exact Hxy|].
      eapply Forall_impl; [|exact Hall]. intros z Hz. eapply le_trans; eassumption.
Qed.

Lemma sort_by_fold_perm l : forall acc, Permutation (fold_left (fun acc x => insert_by le x acc) l acc) (l ++ acc).
Proof.
  induction l as [|x l IH]; intro acc; cbn; [reflexivity|].
  rewrite IH. rewrite insert_by_perm. symmetry. apply Permutation_middle.
Qed.
Lemma sort_by_perm l : Permutation (sort_by le l) l.
Proof. unfold sort_by. rewrite sort_by_fold_perm, app_nil_r. reflexivity. Qed.

Lemma sort_by_fold_sorted l : forall acc, StronglySorted (fun a b => le a b = true) acc ->
  StronglySorted (fun a b => le a b = true) (fold_left (fun acc x => insert_by le x acc) l acc).
Proof.
  induction l as [|x l IH]; intros acc Hs; cbn; [exact Hs|].
  apply IH, insert_by_sorted, Hs.
Qed.
Lemma sort_by_sorted l : StronglySorted (fun a b => le a b = true) (sort_by le l).
Proof. apply sort_by_fold_sorted. constructor. Qed.
End SortBy.

Lemma sort_nat_perm l : Permutation (sort_nat l) l.
Proof. apply sort_by_perm. Qed.
Lemma sort_nat_sorted l : StronglySorted le (sort_nat l).
Proof.
  assert (H : StronglySorted (fun a b => Nat.leb a b = true) (sort_nat l)).
  { apply sort_by_sorted; intros; lia. }
  induction H; constructor; auto. eapply Forall_impl; [|eassumption]. cbn; intros; lia.
Qed.
Lemma sort_nat_in x l : In x (sort_nat l) <-> In x l.
Proof. split; apply Permutation_in; [|symmetry]; apply sort_nat_perm. Qed.

(* ------------------------------------------------------------------ *)
(* count / unique *)
Lemma count_app x l1 l2 : count x (l1 ++ l2) = count x l1 + count x l2.
Proof. induction l1; cbn; lia. Qed.
Lemma count_zero x l : count x l = 0 <-> ~ In x l.
Proof.
  induction l as [|y l IH]; cbn; [tauto|].
  destruct (Nat.eqb y x) eqn:E.
  - apply Nat.eqb_eq in E. split; [intro H; lia|]. intros H; exfalso; apply H; left; exact E.
  - apply Nat.eqb_neq in E. cbn. rewrite IH. intuition.
Qed.
Lemma count_pos x l : 0 < count x l <-> In x l.
Proof.
  pose proof (count_zero x l) as H. destruct (in_dec Nat.eq_dec x l) as [Hi|Hn].
  - split; [auto|]. intros _. destruct (count x l) eqn:E; [|lia]. exfalso. exact (proj1 H eq_refl Hi).
  - split; [|contradiction]. intro Hp. apply H in Hn. lia.
Qed.
Lemma count_filter P x l : count x (filter P l) = if P x then count x l else 0.
Proof.
  induction l as [|y l IH]; cbn; [destruct (P x); reflexivity|].
  destruct (P y) eqn:Py; cbn; rewrite IH; destruct (Nat.eqb y x) eqn:E.
  - apply Nat.eqb_eq in E; subst. rewrite Py. reflexivity.
  - destruct (P x); reflexivity.
  - apply Nat.eqb_eq in E; subst. rewrite Py. reflexivity.
  - destruct (P x); reflexivity.
Qed.

Lemma unique_acc_spec l : forall seen x, In x (unique_acc seen l) <-> In x l /\ ~ In x seen.
Proof.
  induction l as [|y l IH]; intros seen x; cbn; [tauto|].
  destruct (memb y seen) eqn:E.
  - apply memb_In in E. rewrite IH. split; [intros [H1 H2]; auto|].
    intros [[->|H1] H2]; [contradiction|auto].
  - apply memb_false in E. cbn. rewrite IH. cbn. split.
    + intros [->|[H1 H2]]; [auto|]. split; [auto|]. intro; apply H2; auto.
    + intros [[->|H1] H2]; [auto|]. destruct (Nat.eq_dec y x); [auto|right; split; [auto|]].
      intros [?|?]; [congruence|contradiction].
Qed.
Lemma unique_acc_nodup l : forall seen, NoDup (unique_acc seen l).
Proof.
  induction l as [|y l IH]; intro seen; cbn; [constructor|].
  destruct (memb y seen); [apply IH|]. constructor; [|apply IH].
  rewrite unique_acc_spec. cbn. tauto.
Qed.
Lemma unique_in x l : In x (unique l) <-> In x l.
Proof. unfold unique. rewrite unique_acc_spec. cbn. tauto. Qed.
Lemma unique_nodup l : NoDup (unique l).
Proof. apply unique_acc_nodup. Qed.

(* ------------------------------------------------------------------ *)
(* find_output_from_inputs = the labels that occur exactly once, in order of appearance *)
Definition once_first_seen (flat : list nat) : list nat :=
  filter (fun x => Nat.eqb (count x flat) 1) flat.

Lemma remove_first_filter x l : count x l <= 1 ->
  remove_first x l = filter (fun y => negb (Nat.eqb y x)) l.
Proof.
  induction l as [|y l IH]; cbn; [reflexivity|].
  destruct (Nat.eqb y x) eqn:E; cbn; intro H.
  - assert (Hn : ~ In x l) by (apply count_zero; lia).
    clear IH H. induction l as [|z l IH]; cbn; [reflexivity|].
    destruct (Nat.eqb z x) eqn:E2; [apply Nat.eqb_eq in E2; subst; exfalso; apply Hn; left; reflexivity|].
    cbn. f_equal. apply IH. intro; apply Hn; right; assumption.
  - f_equal. apply IH. lia.
Qed.

Lemma fo_step_inv pre appeared once x :
  (forall y, memb y appeared = true <-> In y pre) -> once = once_first_seen pre ->
  (forall y, memb y (fst (fo_step (appeared, once) x)) = true <-> In y (pre ++ [x])) /\
  snd (fo_step (appeared, once) x) = once_first_seen (pre ++ [x]).
Proof.
  intros Happ Honce. unfold fo_step.
  destruct (memb x appeared) eqn:E; cbn [fst snd].
  - apply Happ in E. split.
    + intro y. rewrite Happ, in_app_iff. cbn. intuition. subst; assumption.
    + subst once. unfold once_first_seen. rewrite filter_app. cbn [filter].
      assert (Hc : 1 <= count x pre) by (apply count_pos; exact E).
      replace (Nat.eqb (count x (pre ++ [x])) 1) with false
        by (rewrite count_app; cbn; rewrite Nat.eqb_refl; symmetry; apply Nat.eqb_neq; lia).
      rewrite app_nil_r. rewrite remove_first_filter.
      2:{ rewrite count_filter. destruct (Nat.eqb (count x pre) 1) eqn:E1; [apply Nat.eqb_eq in E1|]; lia. }
      rewrite filter_filter_comm_and. apply filter_ext_in. intros y Hy.
      rewrite count_app. cbn. destruct (Nat.eqb x y) eqn:Exy.
      * apply Nat.eqb_eq in Exy; subst y. rewrite Nat.eqb_refl. cbn. rewrite andb_false_r.
        symmetry. apply Nat.eqb_neq. lia.
      * rewrite Nat.eqb_sym in Exy. rewrite Exy. cbn. rewrite Nat.add_0_r, andb_true_r. reflexivity.
  - assert (Hn : ~ In x pre) by (intro H; apply Happ in H; congruence).
    split.
    + intro y. change (memb y (x :: appeared)) with (Nat.eqb y x || memb y appeared).
      rewrite in_app_iff. cbn [In]. destruct (Nat.eqb y x) eqn:Eyx.
      * apply Nat.eqb_eq in Eyx. subst. cbn. intuition.
      * apply Nat.eqb_neq in Eyx. cbn. rewrite Happ. intuition. congruence.
    + subst once. unfold once_first_seen. rewrite filter_app. cbn [filter].
      assert (Hc : count x pre = 0) by (apply count_zero; exact Hn).
      replace (Nat.eqb (count x (pre ++ [x])) 1) with true
        by (rewrite count_app; cbn; rewrite Nat.eqb_refl, Hc; reflexivity).
      f_equal. apply filter_ext_in. intros y Hy. rewrite count_app. cbn.
      destruct (Nat.eqb x y) eqn:Exy; [apply Nat.eqb_eq in Exy; subst; contradiction|].
      rewrite Nat.add_0_r. reflexivity.
Qed.

Lemma fo_fold_inv l : forall pre appeared once,
  (forall y, memb y appeared = true <-> In y pre) -> once = once_first_seen pre ->
  (forall y, memb y (fst (fold_left fo_step l (appeared, once))) = true <-> In y (pre ++ l)) /\
  snd (fold_left fo_step l (appeared, once)) = once_first_seen (pre ++ l).
Proof.
  induction l as [|x l IH]; intros pre appeared once Ha Ho; cbn [fold_left].
  - rewrite app_nil_r. cbn. auto.
  - destruct (fo_step_inv pre appeared once x Ha Ho) as [Ha' Ho'].
    destruct (fo_step (appeared, once) x) as [a' o'] eqn:E. cbn [fst snd] in *.
    replace (pre ++ x :: l) with ((pre ++ [x]) ++ l) by (rewrite <- app_assoc; reflexivity).
    apply IH; assumption.
Qed.

Lemma fo_terms_inv ts : forall pre appeared once,
  (forall y, memb y appeared = true <-> In y pre) -> once = once_first_seen pre ->
  (forall y, memb y (fst (fold_left (fun st term => fold_left fo_step term st) ts (appeared, once))) = true
             <-> In y (pre ++ concat ts)) /\
  snd (fold_left (fun st term => fold_left fo_step term st) ts (appeared, once)) = once_first_seen (pre ++ concat ts).
Proof.
  induction ts as [|t ts IH]; intros pre appeared once Ha Ho; cbn [fold_left concat].
  - rewrite app_nil_r. cbn. auto.
  - destruct (fo_fold_inv t pre appeared once Ha Ho) as [Ha' Ho'].
    destruct (fold_left fo_step t (appeared, once)) as [a' o'] eqn:E. cbn [fst snd] in *.
    rewrite app_assoc. apply IH; assumption.
Qed.

Lemma find_output_from_inputs_spec inputs :
  find_output_from_inputs inputs = once_first_seen (concat inputs).
Proof.
  unfold find_output_from_inputs.
  destruct (fo_terms_inv inputs [] [] []) as [_ H]; [cbn; intuition discriminate|reflexivity|].
  exact H.
Qed.
(* ------------------------------------------------------------------ *)
(* ncon: the output is exactly the negative labels, each once, in the order -1, -2, ... *)
Lemma zmemb_In x l : zmemb x l = true <-> In x l.
Proof.
  unfold zmemb. rewrite existsb_exists. split.
  - intros [y [Hy E]]. apply Z.eqb_eq in E. subst. exact Hy.
  - intro H. exists x. split; [exact H|apply Z.eqb_refl].
Qed.
Lemma zunique_acc_spec l : forall seen x, In x (zunique_acc seen l) <-> In x l /\ ~ In x seen.
Proof.
  induction l as [|y l IH]; intros seen x; cbn; [tauto|].
  destruct (zmemb y seen) eqn:E.
  - apply zmemb_In in E. rewrite IH. split; [intros [H1 H2]; auto|].
    intros [[->|H1] H2]; [contradiction|auto].
  - assert (E' : ~ In y seen) by (intro H; apply zmemb_In in H; congruence).
    cbn. rewrite IH. cbn. split.
    + intros [->|[H1 H2]]; [auto|]. split; [auto|]. intro; apply H2; auto.
    + intros [[->|H1] H2]; [auto|]. destruct (Z.eq_dec y x); [auto|right; split; [auto|]].
      intros [?|?]; [congruence|contradiction].
Qed.
Lemma zunique_acc_nodup l : forall seen, NoDup (zunique_acc seen l).
Proof.
  induction l as [|y l IH]; intro seen; cbn; [constructor|].
  destruct (zmemb y seen); [apply IH|]. constructor; [|apply IH].
  rewrite zunique_acc_spec. cbn. tauto.
Qed.

Lemma sorted_ge_nodup_gt l : StronglySorted (fun a b => (b <=? a)%Z = true) l -> NoDup l -> StronglySorted Z.gt l.
Proof.
  induction 1 as [|a l Hs IH Hall]; intro Hnd; constructor.
  - apply IH. inversion Hnd; assumption.
  - inversion Hnd as [|? ? Hni _]; subst. rewrite Forall_forall in *. intros b Hb.
    specialize (Hall b Hb). assert (a <> b) by (intro; subst; contradiction). lia.
Qed.

Lemma ncon_output_spec indices :
  fst (ncon_parse indices) = indices /\
  NoDup (snd (ncon_parse indices)) /\
  StronglySorted Z.gt (snd (ncon_parse indices)) /\
  (forall x, In x (snd (ncon_parse indices)) <-> (x < 0)%Z /\ In x (concat indices)).
Proof.
  unfold ncon_parse. cbn [fst snd].
  set (negs := filter (fun x => (x <? 0)%Z) (concat indices)).
  set (le := fun a b : Z => (b <=? a)%Z).
  assert (Hp : Permutation (sort_by le (zunique_acc [] negs)) (zunique_acc [] negs)) by apply sort_by_perm.
  assert (Hnd : NoDup (sort_by le (zunique_acc [] negs))).
  { eapply Permutation_NoDup; [symmetry; exact Hp|apply zunique_acc_nodup]. }
  split; [reflexivity|]. split; [exact Hnd|]. split.
  - apply sorted_ge_nodup_gt; [|exact Hnd]. apply sort_by_sorted; unfold le; intros; lia.
  - intro x. split.
    + intro H. apply (Permutation_in _ Hp) in H. apply zunique_acc_spec in H. destruct H as [H _].
      unfold negs in H. apply filter_In in H. destruct H as [H1 H2]. split; [lia|exact H1].
    + intros [H1 H2]. apply (Permutation_in _ (Permutation_sym Hp)). apply zunique_acc_spec. split; [|tauto].
      unfold negs. apply filter_In. split; [exact H2|lia].
Qed.

(* a strictly descending list is determined by its elements: with labels -1..-k the output is [-1;...;-k] *)
Lemma sorted_gt_unique l1 : forall l2, StronglySorted Z.gt l1 -> StronglySorted Z.gt l2 ->
  (forall x, In x l1 <-> In x l2) -> l1 = l2.
Proof.
  induction l1 as [|a l1 IH]; intros l2 H1 H2 Hin.
  - destruct l2 as [|b l2]; [reflexivity|]. exfalso. apply (Hin b). left; reflexivity.
  - destruct l2 as [|b l2]; [exfalso; apply (Hin a); left; reflexivity|].
    inversion H1 as [|? ? H1' A1]; inversion H2 as [|? ? H2' A2]; subst.
    rewrite Forall_forall in A1, A2.
    assert (a = b).
    { destruct (proj1 (Hin a) (or_introl eq_refl)) as [E|Hb]; [auto|].
      destruct (proj2 (Hin b) (or_introl eq_refl)) as [E|Ha]; [auto|].
      specialize (A1 _ Ha). specialize (A2 _ Hb). lia. }
    subst b. f_equal. apply IH; auto. intro x. split; intro Hx.
    + destruct (proj1 (Hin x) (or_intror Hx)) as [E|]; [|assumption]. subst x. specialize (A1 _ Hx). lia.
    + destruct (proj2 (Hin x) (or_intror Hx)) as [E|]; [|assumption]. subst x. specialize (A2 _ Hx). lia.
Qed.

Definition neg_range (k : nat) : list Z := map (fun i => (- Z.of_nat (S i))%Z) (seq 0 k).
Lemma neg_range_sorted k : StronglySorted Z.gt (neg_range k).
Proof.
  unfold neg_range. generalize 0 as s. induction k as [|k IH]; intro s; cbn; constructor; [apply IH|].
  rewrite Forall_forall. intros x Hx. apply in_map_iff in Hx. destruct Hx as [i [<- Hi]].
  apply in_seq in Hi. lia.
Qed.
Lemma ncon_standard_output indices k :
  (forall x, (x < 0)%Z /\ In x (concat indices) <-> In x (neg_range k)) ->
  snd (ncon_parse indices) = neg_range k.
Proof.
  intro H. destruct (ncon_output_spec indices) as [_ [_ [Hs Hin]]].
  apply sorted_gt_unique; [exact Hs|apply neg_range_sorted|].
  intro x. rewrite Hin. apply H.
Qed.

(* ------------------------------------------------------------------ *)
(* single operand fast paths *)
Lemma find_pos_some j l p : find_pos j l = Some p -> p < length l /\ nth p l 0 = j.
Proof.
  revert p. induction l as [|x l IH]; intros p; cbn; [discriminate|].
  destruct (Nat.eqb x j) eqn:E.
  - intro H; inversion H; subst. apply Nat.eqb_eq in E. split; [lia|exact E].
  - destruct (find_pos j l) as [q|] eqn:F; [|discriminate]. intro H; inversion H; subst.
    destruct (IH q eq_refl). split; [lia|assumption].
Qed.
Lemma find_pos_in j l : In j l -> exists p, find_pos j l = Some p.
Proof.
  induction l as [|x l IH]; cbn; [tauto|]. intros [->|H].
  - rewrite Nat.eqb_refl. eauto.
  - destruct (Nat.eqb x j); [eauto|]. destruct (IH H) as [p ->]. eauto.
Qed.

Lemma index_all_spec term : forall out perm, index_all term out = Some perm ->
  length perm = length out /\
  forall k, k < length out -> nth k perm 0 < length term /\ nth (nth k perm 0) term 0 = nth k out 0.
Proof.
  induction out as [|o out IH]; intros perm; cbn.
  - intro H; inversion H; subst. split; [reflexivity|]. intros; lia.
  - destruct (find_pos o term) as [p|] eqn:F; [|discriminate].
    destruct (index_all term out) as [ps|] eqn:G; [|discriminate].
    intro H; inversion H; subst. destruct (IH ps eq_refl) as [L K]. split; [cbn; lia|].
    intros [|k] Hk; cbn.
    + apply find_pos_some. exact F.
    + apply K. lia.
Qed.
Lemma index_all_total term : forall out, incl out term -> exists perm, index_all term out = Some perm.
Proof.
  induction out as [|o out IH]; intro Hi; cbn; [eauto|].
  destruct (find_pos_in o term) as [p ->]; [apply Hi; left; reflexivity|].
  destruct IH as [ps ->]; [intros x Hx; apply Hi; right; exact Hx|]. eauto.
Qed.

Lemma list_eqb_nat_eq (a : list nat) : forall b, list_eqb Nat.eqb a b = true <-> a = b.
Proof.
  induction a as [|x a IH]; intros [|y b]; cbn.
  - tauto.
  - split; discriminate.
  - split; discriminate.
  - rewrite andb_true_iff, Nat.eqb_eq, IH. split; [intros [-> ->]; reflexivity|intro H; inversion H; auto].
Qed.

Lemma single_operand_paths term output :
  NoDup output -> incl output term ->
  match build_expression_path [term] output with
  | PIdentity => term = output
  | PTranspose perm =>
      length term = length output /\ length perm = length output /\ NoDup perm /\ NoDup term /\
      forall k, k < length output -> nth k perm 0 < length term /\ nth (nth k perm 0) term 0 = nth k output 0
  | PEinsum eq => length term <> length output /\ eq = term ++ [c_dash; c_gt] ++ output
  | PRaise => False
  | PTree => False
  end.
Proof.
  intros Hnd Hincl. unfold build_expression_path.
  destruct (list_eqb Nat.eqb term output) eqn:E; [apply list_eqb_nat_eq; exact E|].
  destruct (Nat.eqb (length term) (length output)) eqn:L.
  - apply Nat.eqb_eq in L. destruct (index_all_total term output Hincl) as [perm Hp]. rewrite Hp.
    destruct (index_all_spec term output perm Hp) as [Lp K].
    assert (Hndt : NoDup term) by (apply (@NoDup_incl_NoDup nat output term); [exact Hnd|lia|exact Hincl]).
    repeat split; auto; try (apply K; assumption).
    (* perm has no duplicates: two equal entries would name the same label of the output *)
    apply (proj2 (NoDup_nth perm 0)). intros i j Hi Hj Hij. rewrite Lp in Hi, Hj.
    destruct (K i Hi) as [_ Ki]. destruct (K j Hj) as [_ Kj]. rewrite Hij in Ki. rewrite Ki in Kj.
    apply (proj1 (NoDup_nth output 0) Hnd); assumption.
  - apply Nat.eqb_neq in L. split; [exact L|]. unfold inputs_output_to_eq. cbn. reflexivity.
Qed.
(* ------------------------------------------------------------------ *)
(* get_symbol is injective *)
Lemma base_table_ok :
  forallb (fun i => (65 <=? nth i symbols_base 0) && (nth i symbols_base 0 <=? 122) &&
                    forallb (fun j => Nat.eqb i j || negb (Nat.eqb (nth i symbols_base 0) (nth j symbols_base 0)))
                            (seq 0 52)) (seq 0 52) = true.
Proof. vm_compute. reflexivity. Qed.

Lemma base_range i : i < 52 -> 65 <= nth i symbols_base 0 <= 122.
Proof.
  intro H. pose proof base_table_ok as T. rewrite forallb_forall in T.
  specialize (T i). rewrite in_seq in T. specialize (T ltac:(lia)).
  apply andb_true_iff in T. destruct T as [T _]. apply andb_true_iff in T. lia.
Qed.
Lemma base_inj i j : i < 52 -> j < 52 -> nth i symbols_base 0 = nth j symbols_base 0 -> i = j.
Proof.
  intros Hi Hj E. pose proof base_table_ok as T. rewrite forallb_forall in T.
  specialize (T i). rewrite in_seq in T. specialize (T ltac:(lia)).
  apply andb_true_iff in T. destruct T as [_ T]. rewrite forallb_forall in T.
  specialize (T j). rewrite in_seq in T. specialize (T ltac:(lia)).
  apply orb_true_iff in T. destruct T as [T|T]; [apply Nat.eqb_eq; exact T|].
  rewrite E, Nat.eqb_refl in T. discriminate.
Qed.

Definition hi_symbol (i : nat) : nat := let j := i + 140 in if 216 <=? j / 256 then j + 2048 else j.
Lemma hi_symbol_mono i j : i < j -> hi_symbol i < hi_symbol j.
Proof.
  intro H. unfold hi_symbol. cbn zeta.
  assert (D : (i + 140) / 256 <= (j + 140) / 256) by (apply Nat.div_le_mono; lia).
  destruct (216 <=? (i + 140) / 256) eqn:A, (216 <=? (j + 140) / 256) eqn:B; lia.
Qed.
Lemma hi_symbol_ge i : i + 140 <= hi_symbol i.
Proof. unfold hi_symbol. cbn zeta. destruct (216 <=? (i + 140) / 256); lia. Qed.

Lemma get_symbol_inj i j : get_symbol i = get_symbol j -> i = j.
Proof.
  unfold get_symbol. fold (hi_symbol i). fold (hi_symbol j).
  destruct (i <? 52) eqn:A, (j <? 52) eqn:B; intro E.
  - apply base_inj; [lia|lia|exact E].
  - pose proof (base_range i ltac:(lia)). pose proof (hi_symbol_ge j). lia.
  - pose proof (base_range j ltac:(lia)). pose proof (hi_symbol_ge i). lia.
  - destruct (Nat.lt_trichotomy i j) as [H|[H|H]]; [|exact H|];
      apply hi_symbol_mono in H; lia.
Qed.

Lemma get_symbol_not_reserved i :
  get_symbol i <> c_comma /\ get_symbol i <> c_dot /\ get_symbol i <> c_dash /\ get_symbol i <> c_gt /\ get_symbol i <> c_space.
Proof.
  unfold get_symbol. fold (hi_symbol i). unfold c_comma, c_dot, c_dash, c_gt, c_space.
  destruct (i <? 52) eqn:A.
  - pose proof (base_range i ltac:(lia)). lia.
  - pose proof (hi_symbol_ge i). lia.
Qed.

(* ------------------------------------------------------------------ *)
(* the ellipsis symbols: exactly req of them, pairwise distinct, none of them used *)
Lemma filter_length_split {A} (f : A -> bool) l :
  length (filter f l) + length (filter (fun x => negb (f x)) l) = length l.
Proof. induction l as [|x l IH]; cbn; [reflexivity|]. destruct (f x); cbn; lia. Qed.

Lemma NoDup_filter {A} (f : A -> bool) l : NoDup l -> NoDup (filter f l).
Proof.
  induction 1 as [|x l Hn Hnd IH]; cbn; [constructor|].
  destruct (f x); [constructor; [rewrite filter_In; tauto|exact IH]|exact IH].
Qed.

Lemma NoDup_firstn {A} n : forall (l : list A), NoDup l -> NoDup (firstn n l).
Proof.
  induction n as [|n IH]; intros l H; cbn; [constructor|].
  destruct l as [|x l]; [constructor|]. inversion H; subst. constructor; [|apply IH; assumption].
  intro Hx. apply (In_nth _ _ x) in Hx. destruct Hx as [i [Hi Hn]].
  assert (In x l); [|contradiction]. rewrite <- (firstn_skipn n l). apply in_or_app. left.
  rewrite <- Hn. apply nth_In. exact Hi.
Qed.

Lemma candidates_nodup n : NoDup (map get_symbol (seq 0 n)).
Proof.
  apply FinFun.Injective_map_NoDup; [intros a b; apply get_symbol_inj|apply seq_NoDup].
Qed.

Lemma fresh_symbols_spec req used :
  length (fresh_symbols req used) = req /\ NoDup (fresh_symbols req used) /\
  (forall s, In s (fresh_symbols req used) -> ~ In s used /\ exists i, s = get_symbol i).
Proof.
  unfold fresh_symbols.
  set (cand := map get_symbol (seq 0 (req + length used))).
  set (P := fun s => negb (memb s used)).
  assert (Hc : NoDup cand) by apply candidates_nodup.
  assert (Hlen : req <= length (filter P cand)).
  { assert (S : length (filter (fun s => memb s used) cand) + length (filter P cand) = length cand)
      by apply filter_length_split.
    assert (length (filter (fun s => memb s used) cand) <= length used).
    { apply NoDup_incl_length; [apply NoDup_filter; exact Hc|].
      intros s Hs. apply filter_In in Hs. apply memb_In. tauto. }
    assert (length cand = req + length used) by (unfold cand; rewrite map_length, seq_length; reflexivity).
    lia. }
  split; [rewrite firstn_length; lia|]. split.
  - assert (Hf : NoDup (filter P cand)) by (apply NoDup_filter; exact Hc).
    apply NoDup_firstn. exact Hf.
  - intros s Hs.
    assert (Hs' : In s (filter P cand)).
    { rewrite <- (firstn_skipn req (filter P cand)). apply in_or_app. left. exact Hs. }
    apply filter_In in Hs'. destruct Hs' as [Hc' HP]. split.
    + unfold P in HP. apply negb_true_iff in HP. apply memb_false in HP. exact HP.
    + unfold cand in Hc'. apply in_map_iff in Hc'. destruct Hc' as [i [E _]]. eauto.
Qed.

(* ------------------------------------------------------------------ *)
(* canonicalize_inputs is an injective relabelling applied consistently *)
Definition im_wf (m : imap) : Prop :=
  NoDup (map fst m) /\ forall k, k < length m -> snd (nth k m (0, 0)) = get_symbol k.
Definition im_fun (m : imap) (x : nat) : nat := match im_look m x with Some s => s | None => 0 end.

Lemma im_look_in m x s : im_look m x = Some s -> In (x, s) m.
Proof.
  induction m as [|[k v] m IH]; cbn; [discriminate|].
  destruct (Nat.eqb k x) eqn:E.
  - intro H; inversion H; subst. apply Nat.eqb_eq in E. subst. left; reflexivity.
  - intro H. right. apply IH. exact H.
Qed.
Lemma im_look_none m x : im_look m x = None <-> ~ In x (map fst m).
Proof.
  induction m as [|[k v] m IH]; cbn; [tauto|].
  destruct (Nat.eqb k x) eqn:E.
  - apply Nat.eqb_eq in E. split; [discriminate|]. intro H; exfalso; apply H; left; exact E.
  - apply Nat.eqb_neq in E. rewrite IH. intuition.
Qed.
Lemma im_look_app m ext x s : im_look m x = Some s -> im_look (m ++ ext) x = Some s.
Proof.
  induction m as [|[k v] m IH]; cbn; [discriminate|]. destruct (Nat.eqb k x); auto.
Qed.
Lemma im_look_app_new m x s : im_look m x = None -> im_look (m ++ [(x, s)]) x = Some s.
Proof.
  induction m as [|[k v] m IH]; cbn; [rewrite Nat.eqb_refl; reflexivity|].
  destruct (Nat.eqb k x); [discriminate|auto].
Qed.

Lemma NoDup_snoc {A} (l : list A) x : NoDup l -> ~ In x l -> NoDup (l ++ [x]).
Proof.
  induction 1 as [|y l Hn Hnd IH]; intro Hx; cbn; [repeat constructor; tauto|].
  constructor.
  - rewrite in_app_iff. cbn. intros [H|[H|[]]]; [contradiction|]. subst. apply Hx. left; reflexivity.
  - apply IH. intro H. apply Hx. right; exact H.
Qed.

Lemma im_wf_nil : im_wf [].
Proof. split; [constructor|cbn; intros; lia]. Qed.

Lemma im_get_spec m x m' s : im_wf m -> im_get m x = (m', s) ->
  im_wf m' /\ (exists ext, m' = m ++ ext) /\ im_look m' x = Some s.
Proof.
  intros [Hnd Hsym]. unfold im_get. destruct (im_look m x) as [v|] eqn:E; intro H; inversion H; subst.
  - split; [split; assumption|]. split; [exists []; rewrite app_nil_r; reflexivity|exact E].
  - split; [split|].
    + rewrite map_app. cbn. apply im_look_none in E.
      apply NoDup_snoc; [exact Hnd|exact E].
    + intros k Hk. rewrite app_length in Hk. cbn in Hk.
      destruct (Nat.eq_dec k (length m)) as [->|Hne].
      * rewrite app_nth2, Nat.sub_diag; [reflexivity|lia].
      * rewrite app_nth1; [apply Hsym|]; lia.
    + split; [eexists; reflexivity|apply im_look_app_new; exact E].
Qed.

Lemma im_term_spec term : forall m m' ss, im_wf m -> im_term m term = (m', ss) ->
  im_wf m' /\ (exists ext, m' = m ++ ext) /\ ss = map (im_fun m') term /\
  (forall x, In x term -> In x (map fst m')).
Proof.
  induction term as [|x r IH]; intros m m' ss Hwf; cbn.
  - intro H; inversion H; subst. split; [exact Hwf|]. split; [exists []; rewrite app_nil_r; reflexivity|].
    split; [reflexivity|intros ? []].
  - destruct (im_get m x) as [m1 s] eqn:G. destruct (im_term m1 r) as [m2 ss2] eqn:T.
    intro H; inversion H; subst.
    destruct (im_get_spec _ _ _ _ Hwf G) as [W1 [[e1 E1] L1]].
    destruct (IH _ _ _ W1 T) as [W2 [[e2 E2] [S2 D2]]].
    split; [exact W2|]. split; [exists (e1 ++ e2); rewrite E2, E1, app_assoc; reflexivity|].
    assert (L2 : im_look m' x = Some s) by (rewrite E2; apply im_look_app; exact L1).
    split.
    + cbn. f_equal; [unfold im_fun; rewrite L2; reflexivity|exact S2].
    + intros y [->|Hy]; [|apply D2; exact Hy].
      apply im_look_in in L2. apply in_map_iff. exists (y, s). split; [reflexivity|exact L2].
Qed.

Lemma im_fun_ext m ext x : In x (map fst m) -> im_fun (m ++ ext) x = im_fun m x.
Proof.
  intro H. unfold im_fun. destruct (im_look m x) as [s|] eqn:E.
  - rewrite (im_look_app _ _ _ _ E). reflexivity.
  - apply im_look_none in E. contradiction.
Qed.

Lemma im_terms_spec terms : forall m m' sss, im_wf m -> im_terms m terms = (m', sss) ->
  im_wf m' /\ (exists ext, m' = m ++ ext) /\ sss = map (map (im_fun m')) terms /\
  (forall x, In x (concat terms) -> In x (map fst m')).
Proof.
  induction terms as [|t r IH]; intros m m' sss Hwf; cbn.
  - intro H; inversion H; subst. split; [exact Hwf|]. split; [exists []; rewrite app_nil_r; reflexivity|].
    split; [reflexivity|intros ? []].
  - destruct (im_term m t) as [m1 s] eqn:G. destruct (im_terms m1 r) as [m2 ss2] eqn:T.
    intro H; inversion H; subst.
    destruct (im_term_spec _ _ _ _ Hwf G) as [W1 [[e1 E1] [S1 D1]]].
    destruct (IH _ _ _ W1 T) as [W2 [[e2 E2] [S2 D2]]].
    split; [exact W2|]. split; [exists (e1 ++ e2); rewrite E2, E1, app_assoc; reflexivity|].
    split.
    + cbn. f_equal; [|exact S2]. rewrite S1. apply map_ext_in. intros y Hy.
      rewrite E2. symmetry. apply im_fun_ext. apply D1. exact Hy.
    + intros y Hy. apply in_app_or in Hy. destruct Hy as [Hy|Hy]; [|apply D2; exact Hy].
      rewrite E2, map_app. apply in_or_app. left. apply D1. exact Hy.
Qed.

Lemma im_wf_inj m x y : im_wf m -> In x (map fst m) -> In y (map fst m) -> im_fun m x = im_fun m y -> x = y.
Proof.
  intros [Hnd Hsym] Hx Hy E.
  destruct (im_look m x) as [sx|] eqn:Lx; [|apply im_look_none in Lx; contradiction].
  destruct (im_look m y) as [sy|] eqn:Ly; [|apply im_look_none in Ly; contradiction].
  unfold im_fun in E. rewrite Lx, Ly in E. subst sy.
  apply im_look_in in Lx. apply im_look_in in Ly.
  destruct (In_nth _ _ (0, 0) Lx) as [i [Hi Ni]]. destruct (In_nth _ _ (0, 0) Ly) as [j [Hj Nj]].
  pose proof (Hsym i Hi) as Si. pose proof (Hsym j Hj) as Sj. rewrite Ni in Si. rewrite Nj in Sj. cbn in Si, Sj.
  assert (i = j) by (apply get_symbol_inj; congruence). subst j. congruence.
Qed.

(* counting occurrences commutes with an injective relabelling *)
Lemma count_map_inj f l x : (forall y, In y l -> f y = f x -> y = x) -> count (f x) (map f l) = count x l.
Proof.
  induction l as [|y l IH]; intro H; cbn; [reflexivity|].
  rewrite IH by (intros; apply H; [right|]; assumption).
  destruct (Nat.eqb y x) eqn:E.
  - apply Nat.eqb_eq in E. subst. rewrite Nat.eqb_refl. reflexivity.
  - replace (Nat.eqb (f y) (f x)) with false; [reflexivity|].
    symmetry. apply Nat.eqb_neq. intro F. apply Nat.eqb_neq in E. apply E. apply H; [left; reflexivity|exact F].
Qed.
Lemma once_first_seen_map f l : (forall x y, In x l -> In y l -> f x = f y -> x = y) ->
  once_first_seen (map f l) = map f (once_first_seen l).
Proof.
  intro Hinj. unfold once_first_seen.
  assert (G : forall l0, incl l0 l ->
    filter (fun x => Nat.eqb (count x (map f l)) 1) (map f l0) = map f (filter (fun x => Nat.eqb (count x l) 1) l0)).
  { induction l0 as [|a l0 IH]; intro Hi; cbn; [reflexivity|].
    rewrite count_map_inj by (intros y Hy E; apply Hinj; [exact Hy|apply Hi; left; reflexivity|exact E]).
    rewrite IH by (intros z Hz; apply Hi; right; exact Hz).
    destruct (Nat.eqb (count a l) 1); reflexivity. }
  apply G. apply incl_refl.
Qed.

Lemma im_sizes_spec sd : forall m acc m' s, im_wf m -> im_sizes m sd acc = (m', s) ->
  im_wf m' /\ (exists ext, m' = m ++ ext) /\ (forall x, In x (map fst sd) -> In x (map fst m')).
Proof.
  induction sd as [|[k d] r IH]; intros m acc m' s Hwf; cbn.
  - intro H; inversion H; subst. split; [exact Hwf|]. split; [exists []; rewrite app_nil_r; reflexivity|intros ? []].
  - destruct (im_get m k) as [m1 s1] eqn:G. intro H.
    destruct (im_get_spec _ _ _ _ Hwf G) as [W1 [[e1 E1] L1]].
    destruct (IH _ _ _ _ W1 H) as [W2 [[e2 E2] D2]].
    split; [exact W2|]. split; [exists (e1 ++ e2); rewrite E2, E1, app_assoc; reflexivity|].
    intros x [<-|Hx]; [|apply D2; exact Hx].
    rewrite E2, map_app. apply in_or_app. left.
    apply im_look_in in L1. apply in_map_iff. exists (k, s1). split; [reflexivity|exact L1].
Qed.

Lemma map_im_fun_ext m ext l : (forall x, In x l -> In x (map fst m)) ->
  map (im_fun m) l = map (im_fun (m ++ ext)) l.
Proof. intro H. apply map_ext_in. intros x Hx. symmetry. apply im_fun_ext. apply H. exact Hx. Qed.

Lemma canonicalize_relabels inputs output shapes sd ni no nsd m :
  canonicalize_inputs inputs output shapes sd = (ni, no, nsd, m) ->
  im_wf m /\
  ni = map (map (im_fun m)) inputs /\
  (forall x, In x (concat inputs) -> In x (map fst m)) /\
  match output with
  | Some o => no = map (im_fun m) o /\ (forall x, In x o -> In x (map fst m))
  | None => no = map (im_fun m) (find_output_from_inputs inputs)
  end /\
  (match sd with Some sdv => forall x, In x (map fst sdv) -> In x (map fst m) | None => True end) /\
  (forall x y, In x (map fst m) -> In y (map fst m) -> im_fun m x = im_fun m y -> x = y).
Proof.
  unfold canonicalize_inputs.
  destruct (im_terms [] inputs) as [m1 ni1] eqn:T1.
  destruct (im_terms_spec _ _ _ _ im_wf_nil T1) as [W1 [_ [S1 D1]]].
  (* second stage: the output *)
  assert (R2 : exists m2 no2 e2,
    (match output with Some o => im_term m1 o | None => (m1, find_output_from_inputs ni1) end) = (m2, no2) /\
    im_wf m2 /\ m2 = m1 ++ e2 /\
    match output with
    | Some o => no2 = map (im_fun m2) o /\ (forall x, In x o -> In x (map fst m2))
    | None => no2 = map (im_fun m2) (find_output_from_inputs inputs)
    end).
  { destruct output as [o|].
    - destruct (im_term m1 o) as [m2 no2] eqn:T2.
      destruct (im_term_spec _ _ _ _ W1 T2) as [W2 [[e2 E2] [S2 D2]]].
      exists m2, no2, e2. auto.
    - exists m1, (find_output_from_inputs ni1), []. split; [reflexivity|]. split; [exact W1|].
      split; [rewrite app_nil_r; reflexivity|].
      rewrite S1. rewrite !find_output_from_inputs_spec. rewrite <- concat_map. apply once_first_seen_map.
      intros x y Hx Hy. apply (im_wf_inj m1); auto. }
  destruct R2 as [m2 [no2 [e2 [R2 [W2 [E2 O2]]]]]]. rewrite R2.
  (* third stage: the sizes *)
  assert (R3 : exists m3 nsd3 e3,
    (match sd with
     | Some sd0 => let '(m0, s) := im_sizes m2 sd0 [] in (m0, Some s)
     | None => match shapes with
               | Some shs => (m2, Some (sizes_from_shapes ni1 shs))
               | None => (m2, None)
               end
     end) = (m3, nsd3) /\ im_wf m3 /\ m3 = m2 ++ e3 /\
    match sd with Some sdv => forall x, In x (map fst sdv) -> In x (map fst m3) | None => True end).
  { destruct sd as [sdv|].
    - destruct (im_sizes m2 sdv []) as [m3 s3] eqn:T3.
      destruct (im_sizes_spec _ _ _ _ _ W2 T3) as [W3 [[e3 E3] D3]].
      exists m3, (Some s3), e3. auto.
    - destruct shapes as [shs|].
      + exists m2, (Some (sizes_from_shapes ni1 shs)), []. rewrite app_nil_r. auto.
      + exists m2, None, []. rewrite app_nil_r. auto. }
  destruct R3 as [m3 [nsd3 [e3 [R3 [W3 [E3 D3]]]]]]. rewrite R3.
  intro H. injection H as Hni Hno Hnsd Hm. subst ni no nsd m.
  assert (DI : forall x, In x (concat inputs) -> In x (map fst m2)).
  { intros x Hx. rewrite E2, map_app. apply in_or_app. left. apply D1. exact Hx. }
  split; [exact W3|]. split.
  - rewrite S1. apply map_ext_in. intros t Ht. rewrite E3, E2, <- app_assoc.
    apply map_im_fun_ext. intros x Hx. apply D1. apply in_concat. eauto.
  - split; [intros x Hx; rewrite E3, map_app; apply in_or_app; left; apply DI; exact Hx|].
    split.
    + destruct output as [o|].
      * destruct O2 as [O2 D2]. split.
        -- rewrite O2, E3. apply map_im_fun_ext. exact D2.
        -- intros x Hx. rewrite E3, map_app. apply in_or_app. left. apply D2. exact Hx.
      * rewrite O2, E3. apply map_im_fun_ext. intros x Hx.
        rewrite find_output_from_inputs_spec in Hx. unfold once_first_seen in Hx. apply filter_In in Hx.
        apply DI. tauto.
    + split; [exact D3|]. intros; eapply im_wf_inj; eassumption.
Qed.

(* ------------------------------------------------------------------ *)
(* refutations: inputs numpy.einsum accepts on which the faithful model differs *)

(* 12(a)  'ab, bc -> ac'  on shapes (2,3),(3,4) *)
Definition w_spaces : str := [97;98;44;32;98;99;32;45;62;32;97;99].
Lemma eq_spaces_refuted :
  exists eq shapes, agrees_with_numpy eq shapes = Some false /\ ~ In c_space (filter (fun c => negb (Nat.eqb c c_space)) eq)
                    /\ agrees_with_numpy (filter (fun c => negb (Nat.eqb c c_space)) eq) shapes = Some true.
Proof.
  exists w_spaces, [[2;3];[3;4]]%Z. split; [vm_compute; reflexivity|]. split; [|vm_compute; reflexivity].
  vm_compute. intuition discriminate.
Qed.

(* 12(b)  einsum(x, [5,1], y, [1,2])  on shapes (4,2),(2,3) *)
Lemma interleaved_implicit_order_refuted :
  exists ops, agrees_with_numpy_inter ops None = Some false
              /\ np_out_shape (AInter ops None) = Some [3;4]%Z
              /\ front_out_shape (AInter ops None) = Some [4;3]%Z.
Proof.
  exists [([4;2]%Z, [IL 5; IL 1]); ([2;3]%Z, [IL 1; IL 2])]. repeat split; vm_compute; reflexivity.
Qed.

(* 12(c)  '...a,...a->...'  on shapes (2,3),(1,3): the parse agrees, the network does not fit the operands *)
Lemma ellipsis_size1_broadcast_refuted :
  exists a, (exists eq shapes, a = AStr eq shapes /\ agrees_with_numpy eq shapes = Some true)
            /\ np_out_shape a = Some [2%Z]
            /\ front_consistent a = Some false
            /\ front_out_shape a = Some [1%Z].
Proof.
  exists (AStr [46;46;46;97;44;46;46;46;97;45;62;46;46;46] [[2;3];[1;3]]%Z).
  split; [eexists; eexists; split; [reflexivity|vm_compute; reflexivity]|].
  repeat split; vm_compute; reflexivity.
Qed.

(* 12(d)  'ab->...ab'  on shape (2,3): an output ellipsis that stands for no dimension *)
Lemma output_ellipsis_only_refuted :
  exists eq shapes, agrees_with_numpy eq shapes = Some false /\ np_out_shape (AStr eq shapes) = Some [2;3]%Z.
Proof.
  exists [97;98;45;62;46;46;46;97;98], [[2;3]]%Z. split; vm_compute; reflexivity.
Qed.

(* ================================================================== *)
(* general theorems: model parser = NumpySpec for ALL inputs           *)


Lemma unlex_cons t ts : unlex (t :: ts) = unlex1 t ++ unlex ts.
Proof. reflexivity. Qed.

Lemma is_letter_not_reserved c : is_letter c = true ->
  c <> c_space /\ c <> c_comma /\ c <> c_dash /\ c <> c_dot /\ c <> c_gt.
Proof. unfold is_letter, c_space, c_comma, c_dash, c_dot, c_gt. lia. Qed.

(* --- the lexer: numpy accepts  =>  the blank-free string is the rendering of the tokens --- *)
Lemma np_lex_sound n : forall s ts, length s <= n -> np_lex s = Some ts ->
  strip_spaces s = unlex ts /\ Forall tok_ok ts.
Proof.
  induction n as [|n IH]; intros s ts Hn.
  - destruct s; [|cbn in Hn; lia]. cbn. intro H; inversion H; subst. split; [reflexivity|constructor].
  - destruct s as [|x r]; [cbn; intro H; inversion H; subst; split; [reflexivity|constructor]|].
    cbn in Hn. cbn [np_lex]. unfold strip_spaces. cbn [filter]. fold (strip_spaces r).
    destruct (Nat.eqb x c_space) eqn:E1.
    + cbn. intro H. apply IH; [lia|exact H].
    + cbn [negb]. destruct (Nat.eqb x c_comma) eqn:E2.
      * destruct (np_lex r) as [ts'|] eqn:L; [|discriminate]. cbn. intro H; inversion H; subst.
        destruct (IH r ts' ltac:(lia) L) as [S1 S2]. apply Nat.eqb_eq in E2. subst x.
        split; [rewrite unlex_cons; cbn; f_equal; exact S1|constructor; [exact I|exact S2]].
      * destruct (is_letter x) eqn:E3.
        -- destruct (np_lex r) as [ts'|] eqn:L; [|discriminate]. cbn. intro H; inversion H; subst.
           destruct (IH r ts' ltac:(lia) L) as [S1 S2].
           split; [rewrite unlex_cons; cbn; f_equal; exact S1|constructor; [exact E3|exact S2]].
        -- destruct r as [|y r']; [discriminate|].
           destruct (Nat.eqb x c_dash && Nat.eqb y c_gt) eqn:E4.
           ++ destruct (np_lex r') as [ts'|] eqn:L; [|discriminate]. cbn [ocons]. intro H; inversion H; subst.
              cbn in Hn. destruct (IH r' ts' ltac:(lia) L) as [S1 S2].
              apply andb_true_iff in E4. destruct E4 as [A B]. apply Nat.eqb_eq in A, B. subst x y.
              split; [|constructor; [exact I|exact S2]].
              rewrite unlex_cons. cbn. f_equal. f_equal. exact S1.
           ++ destruct r' as [|z r'']; [discriminate|].
              destruct (dots3 x y z) eqn:E5; [|discriminate].
              destruct (np_lex r'') as [ts'|] eqn:L; [|discriminate]. cbn [ocons]. intro H; inversion H; subst.
              cbn in Hn. destruct (IH r'' ts' ltac:(lia) L) as [S1 S2].
              unfold dots3 in E5. apply andb_true_iff in E5. destruct E5 as [E5 C].
              apply andb_true_iff in E5. destruct E5 as [A B]. apply Nat.eqb_eq in A, B, C. subst x y z.
              split; [|constructor; [exact I|exact S2]].
              rewrite unlex_cons. cbn. f_equal. f_equal. f_equal. exact S1.
Qed.

Lemma np_lex_sound_all eq ts : np_lex eq = Some ts -> strip_spaces eq = unlex ts /\ Forall tok_ok ts.
Proof. exact (np_lex_sound (length eq) eq ts (le_n _)). Qed.

(* --- splitting --- *)
Lemma tsplit_nonempty sep l : tsplit sep l <> [].
Proof. destruct l as [|t r]; cbn; [discriminate|]. destruct (sep t); [discriminate|]. destruct (tsplit sep r); discriminate. Qed.

Lemma split_arrow_cons x rest : x <> c_dash -> split_arrow (x :: rest) = cons_head x (split_arrow rest).
Proof.
  intro H. destruct rest as [|y r']; [reflexivity|].
  cbn [split_arrow]. replace (Nat.eqb x c_dash) with false by (symmetry; apply Nat.eqb_neq; exact H). reflexivity.
Qed.

Lemma map_unlex_cons_head c h tl : map unlex ((TL c :: h) :: tl) = cons_head c (map unlex (h :: tl)).
Proof. reflexivity. Qed.

Lemma split_arrow_unlex ts : Forall tok_ok ts ->
  split_arrow (unlex ts) = map unlex (tsplit is_arrow ts).
Proof.
  induction 1 as [|t ts Ht Hts IH]; [reflexivity|].
  rewrite unlex_cons. destruct t as [c| | |]; cbn [unlex1 tsplit is_arrow app].
  - destruct (is_letter_not_reserved c Ht) as [_ [_ [D _]]].
    rewrite split_arrow_cons by exact D. rewrite IH.
    destruct (tsplit is_arrow ts) as [|h tl] eqn:E; [exfalso; eapply tsplit_nonempty; exact E|]. reflexivity.
  - rewrite !split_arrow_cons by (unfold c_dot, c_dash; lia). rewrite IH.
    destruct (tsplit is_arrow ts) as [|h tl] eqn:E; [exfalso; eapply tsplit_nonempty; exact E|]. reflexivity.
  - rewrite split_arrow_cons by (unfold c_comma, c_dash; lia). rewrite IH.
    destruct (tsplit is_arrow ts) as [|h tl] eqn:E; [exfalso; eapply tsplit_nonempty; exact E|]. reflexivity.
  - cbn [split_arrow]. rewrite !Nat.eqb_refl. cbn. rewrite IH. reflexivity.
Qed.

Definition no_arrow (t : tok) : Prop := is_arrow t = false.
Lemma tsplit_arrow_no_arrow ts : Forall (Forall no_arrow) (tsplit is_arrow ts).
Proof.
  induction ts as [|t ts IH]; cbn; [repeat constructor|].
  destruct (is_arrow t) eqn:E; [constructor; [constructor|exact IH]|].
  destruct (tsplit is_arrow ts) as [|h tl]; [repeat constructor; exact E|].
  inversion IH; subst. constructor; [constructor; assumption|assumption].
Qed.

Lemma split_comma_unlex ts : Forall tok_ok ts -> Forall no_arrow ts ->
  split_char c_comma (unlex ts) = map unlex (tsplit is_comma ts).
Proof.
  induction 1 as [|t ts Ht Hts IH]; intro Hna; [reflexivity|].
  inversion Hna as [|? ? Hn1 Hn2]; subst. specialize (IH Hn2).
  rewrite unlex_cons. destruct t as [c| | |]; cbn [unlex1 tsplit is_comma app split_char].
  - destruct (is_letter_not_reserved c Ht) as [_ [D _]].
    replace (Nat.eqb c c_comma) with false by (symmetry; apply Nat.eqb_neq; exact D).
    rewrite IH. destruct (tsplit is_comma ts) as [|h tl] eqn:E; [exfalso; eapply tsplit_nonempty; exact E|]. reflexivity.
  - cbn. rewrite IH. destruct (tsplit is_comma ts) as [|h tl] eqn:E; [exfalso; eapply tsplit_nonempty; exact E|]. reflexivity.
  - rewrite Nat.eqb_refl. rewrite IH. reflexivity.
  - discriminate Hn1.
Qed.

(* --- one term (only letters and ellipses) --- *)
Definition subst_toks (rep : str) (t : list tok) : str :=
  concat (map (fun x => match x with TL c => [c] | TEll => rep | _ => [] end) t).

Lemma only_labels_cons x t : only_labels (x :: t) = true ->
  (match x with TL _ | TEll => True | _ => False end) /\ only_labels t = true.
Proof. unfold only_labels. cbn. destruct x; cbn; intro H; try discriminate; auto. Qed.

Lemma n_ell_cons x t : n_ell (x :: t) = (if is_ell x then 1 else 0) + n_ell t.
Proof. unfold n_ell. cbn. destruct (is_ell x); reflexivity. Qed.
Lemma letters_of_cons x t : letters_of (x :: t) = (match x with TL c => [c] | _ => [] end) ++ letters_of t.
Proof. reflexivity. Qed.

Lemma count_dot_unlex t : only_labels t = true -> Forall tok_ok t -> count c_dot (unlex t) = 3 * n_ell t.
Proof.
  induction t as [|x t IH]; intros Ho Hk; [reflexivity|].
  destruct (only_labels_cons _ _ Ho) as [Hx Ho']. inversion Hk as [|? ? K1 K2]; subst.
  rewrite unlex_cons, count_app, n_ell_cons, (IH Ho' K2). destruct x as [c| | |]; try contradiction; cbn.
  - destruct (is_letter_not_reserved c K1) as [_ [_ [_ [D _]]]].
    replace (Nat.eqb c c_dot) with false by (symmetry; apply Nat.eqb_neq; exact D). lia.
  - lia.
Qed.

Lemma has_ell_cons_other c rest : c <> c_dot -> has_ell (c :: rest) = has_ell rest.
Proof.
  intro H. cbn [has_ell]. destruct rest as [|y [|z r]]; try reflexivity.
  unfold dots3. replace (Nat.eqb c c_dot) with false by (symmetry; apply Nat.eqb_neq; exact H). reflexivity.
Qed.
Lemma has_ell_unlex t : only_labels t = true -> Forall tok_ok t -> 1 <= n_ell t -> has_ell (unlex t) = true.
Proof.
  induction t as [|x t IH]; intros Ho Hk Hn; [cbn in Hn; lia|].
  destruct (only_labels_cons _ _ Ho) as [Hx Ho']. inversion Hk as [|? ? K1 K2]; subst.
  rewrite unlex_cons. rewrite n_ell_cons in Hn. destruct x as [c| | |]; try contradiction; cbn [unlex1 app].
  - destruct (is_letter_not_reserved c K1) as [_ [_ [_ [D _]]]].
    rewrite has_ell_cons_other by exact D. apply IH; auto.
  - reflexivity.
Qed.

Lemma check_ellipsis_unlex t : only_labels t = true -> Forall tok_ok t ->
  check_ellipsis (unlex t) = match n_ell t with 0 => Some false | 1 => Some true | _ => None end.
Proof.
  intros Ho Hk. unfold check_ellipsis. rewrite (count_dot_unlex t Ho Hk).
  destruct (n_ell t) as [|[|k]] eqn:E; [reflexivity| |].
  - cbn. rewrite has_ell_unlex; auto. lia.
  - replace (Nat.eqb (3 * S (S k)) 0) with false by (symmetry; apply Nat.eqb_neq; lia).
    replace (Nat.eqb (3 * S (S k)) 3) with false by (symmetry; apply Nat.eqb_neq; lia). reflexivity.
Qed.

Lemma length_unlex t : only_labels t = true -> length (unlex t) = length (letters_of t) + 3 * n_ell t.
Proof.
  induction t as [|x t IH]; intros Ho; [reflexivity|].
  destruct (only_labels_cons _ _ Ho) as [Hx Ho'].
  rewrite unlex_cons, app_length, n_ell_cons, letters_of_cons, app_length, (IH Ho').
  destruct x; try contradiction; cbn; lia.
Qed.

Lemma replace_ell_cons_other rep c rest : c <> c_dot -> replace_ell rep (c :: rest) = c :: replace_ell rep rest.
Proof.
  intro H. cbn [replace_ell]. destruct rest as [|y [|z r]]; try reflexivity.
  unfold dots3. replace (Nat.eqb c c_dot) with false by (symmetry; apply Nat.eqb_neq; exact H). reflexivity.
Qed.
Lemma replace_ell_unlex rep t : only_labels t = true -> Forall tok_ok t ->
  replace_ell rep (unlex t) = subst_toks rep t.
Proof.
  induction t as [|x t IH]; intros Ho Hk; [reflexivity|].
  destruct (only_labels_cons _ _ Ho) as [Hx Ho']. inversion Hk as [|? ? K1 K2]; subst.
  rewrite unlex_cons. unfold subst_toks. cbn [map concat]. fold (subst_toks rep t).
  destruct x as [c| | |]; try contradiction; cbn [unlex1 app].
  - destruct (is_letter_not_reserved c K1) as [_ [_ [_ [D _]]]].
    rewrite replace_ell_cons_other by exact D. rewrite IH; auto.
  - cbn [replace_ell]. unfold dots3. rewrite !Nat.eqb_refl. cbn. rewrite IH; auto.
Qed.

Lemma unlex_no_ell t : only_labels t = true -> n_ell t = 0 -> forall rep, unlex t = subst_toks rep t.
Proof.
  induction t as [|x t IH]; intros Ho Hn rep; [reflexivity|].
  destruct (only_labels_cons _ _ Ho) as [Hx Ho']. rewrite n_ell_cons in Hn.
  rewrite unlex_cons. unfold subst_toks. cbn [map concat]. fold (subst_toks rep t).
  destruct x; try contradiction; cbn in *; [|lia]. f_equal. apply IH; auto.
Qed.

(* the specification's expansion of a term, renamed by rho, is the substitution of the symbols *)
Lemma skipn_nth_cons {A} (d : A) i l : i < length l -> skipn i l = nth i l d :: skipn (S i) l.
Proof.
  revert i. induction l as [|x l IH]; intros i H; cbn in H; [lia|].
  destruct i; [reflexivity|]. cbn. apply IH. lia.
Qed.
Lemma rho_bdims E nb : nb <= length E -> map (rho E) (bdims nb) = skipn (length E - nb) E.
Proof.
  unfold bdims. induction nb as [|nb IH]; intro H.
  - cbn. rewrite Nat.sub_0_r, skipn_all. reflexivity.
  - rewrite seq_S, rev_app_distr. cbn [rev app map plus]. rewrite IH by lia.
    rewrite (skipn_nth_cons 0 (length E - S nb)) by lia.
    replace (S (length E - S nb)) with (length E - nb) by lia.
    cbn [rho]. f_equal. f_equal. lia.
Qed.
Lemma rho_expand_toks E nb t : only_labels t = true -> nb <= length E ->
  map (rho E) (expand_toks nb t) = subst_toks (skipn (length E - nb) E) t.
Proof.
  intros Ho Hnb. unfold expand_toks, subst_toks. rewrite concat_map, map_map. f_equal.
  induction t as [|x t IH]; [reflexivity|].
  destruct (only_labels_cons _ _ Ho) as [Hx Ho']. cbn [map]. rewrite (IH Ho'). f_equal.
  destruct x; try contradiction; [reflexivity|]. apply rho_bdims. exact Hnb.
Qed.
(* a term without ellipsis does not depend on nb *)
Lemma expand_toks_no_ell nb t : n_ell t = 0 -> expand_toks nb t = expand_toks 0 t.
Proof.
  unfold expand_toks. induction t as [|x t IH]; intro H; [reflexivity|].
  rewrite n_ell_cons in H. cbn [map concat]. rewrite IH by lia. destruct x; cbn in *; try reflexivity. lia.
Qed.

(* --- all operands: the first pass (ell_needs), the number of ellipsis symbols, the second pass --- *)
Definition need_of (t : list tok) (nb : nat) : option Z :=
  if Nat.eqb (n_ell t) 0 then None else Some (Z.of_nat nb).
Definition needs_of (ops : list (list tok)) (nbs : list nat) : list (option Z) :=
  map (fun tn => need_of (fst tn) (snd tn)) (combine ops nbs).

Lemma np_operand_nb_spec t rank nb : np_operand_nb t rank = Some nb ->
  (n_ell t = 0 /\ nb = 0 /\ rank = length (letters_of t)) \/
  (n_ell t = 1 /\ length (letters_of t) <= rank /\ nb = rank - length (letters_of t)).
Proof.
  unfold np_operand_nb. destruct (n_ell t) as [|[|k]].
  - destruct (Nat.eqb rank (length (letters_of t))) eqn:E; [|discriminate].
    intro H; inversion H; subst. apply Nat.eqb_eq in E. left. auto.
  - destruct (length (letters_of t) <=? rank) eqn:E; [|discriminate].
    intro H; inversion H; subst. right. repeat split; lia.
  - discriminate.
Qed.

Lemma ell_needs_unlex ops : forall shapes nbs,
  forallb only_labels ops = true -> Forall (Forall tok_ok) ops ->
  np_operands_nb ops shapes = Some nbs ->
  ell_needs (map unlex ops) shapes = Some (needs_of ops nbs) /\
  length nbs = length ops /\ length shapes = length ops /\
  Forall (fun tn => n_ell (fst tn) = 0 -> snd tn = 0) (combine ops nbs).
Proof.
  induction ops as [|t ops IH]; intros shapes nbs Ho Hk; cbn [np_operands_nb].
  - destruct shapes; [|discriminate]. intro H; inversion H; subst. cbn. auto.
  - destruct shapes as [|sh shapes]; [discriminate|].
    destruct (np_operand_nb t (length sh)) as [nb|] eqn:E1; [|discriminate].
    destruct (np_operands_nb ops shapes) as [nbs'|] eqn:E2; [|discriminate].
    intro H; inversion H; subst. cbn in Ho. apply andb_true_iff in Ho. destruct Ho as [Ho1 Ho2].
    inversion Hk as [|? ? K1 K2]; subst.
    destruct (IH shapes nbs' Ho2 K2 E2) as [I1 [I2 [I3 I4]]].
    split; [|cbn; repeat split; try lia; constructor; [|exact I4]].
    + cbn [map ell_needs]. rewrite I1. unfold ell_need. rewrite (check_ellipsis_unlex t Ho1 K1).
      unfold needs_of. cbn [combine map fst snd].
      destruct (np_operand_nb_spec _ _ _ E1) as [[A [B C]]|[A [B C]]].
      * assert (Hn : need_of t nb = None) by (unfold need_of; rewrite A; reflexivity).
        rewrite Hn, A. reflexivity.
      * assert (Hn : need_of t nb = Some (Z.of_nat nb)) by (unfold need_of; rewrite A; reflexivity).
        rewrite Hn, A. rewrite (length_unlex t Ho1), A. do 3 f_equal.
        lia.
    + cbn [fst snd]. intro A. destruct (np_operand_nb_spec _ _ _ E1) as [[_ [B _]]|[A' _]]; [exact B|lia].
Qed.

Lemma fold_max_acc l : forall a, a <= fold_left Nat.max l a.
Proof. induction l as [|y l IH]; intro a; cbn; [lia|]. specialize (IH (Nat.max a y)). lia. Qed.
Lemma fold_max_ge l : forall a x, x = a \/ In x l -> x <= fold_left Nat.max l a.
Proof.
  induction l as [|y l IH]; intros a x; cbn; [intros [->|[]]; lia|].
  pose proof (fold_max_acc l (Nat.max a y)).
  intros [->|[->|H']]; [lia|lia|apply IH; right; exact H'].
Qed.
Lemma fold_max_attained l : forall a, fold_left Nat.max l a = a \/ In (fold_left Nat.max l a) l.
Proof.
  induction l as [|y l IH]; intro a; cbn; [left; reflexivity|].
  destruct (IH (Nat.max a y)) as [E|H]; [|right; right; exact H].
  rewrite E. destruct (Nat.max_spec a y) as [[_ ->]|[_ ->]]; [right; left; reflexivity|left; reflexivity].
Qed.

Lemma in_somes {A} (x : A) l : In x (somes l) <-> In (Some x) l.
Proof.
  induction l as [|[a|] l IH]; cbn; [tauto| |].
  - rewrite IH. split; [intros [->|H]; auto|intros [H|H]; [inversion H; auto|auto]].
  - rewrite IH. split; [auto|intros [H|H]; [discriminate|auto]].
Qed.

Lemma in_needs_of ops nbs z : In (Some z) (needs_of ops nbs) <->
  exists t nb, In (t, nb) (combine ops nbs) /\ n_ell t <> 0 /\ z = Z.of_nat nb.
Proof.
  unfold needs_of. rewrite in_map_iff. split.
  - intros [[t nb] [E H]]. cbn in E. unfold need_of in E. destruct (Nat.eqb (n_ell t) 0) eqn:N; [discriminate|].
    inversion E; subst. apply Nat.eqb_neq in N. eauto.
  - intros [t [nb [H [N ->]]]]. exists (t, nb). split; [|exact H]. cbn. unfold need_of.
    apply Nat.eqb_neq in N. rewrite N. reflexivity.
Qed.

Lemma req_is_max ops nbs :
  length nbs = length ops ->
  Forall (fun tn => n_ell (fst tn) = 0 -> snd tn = 0) (combine ops nbs) ->
  (exists t, In t ops /\ n_ell t <> 0) ->
  zmax_values (somes (needs_of ops nbs)) = Some (Z.of_nat (fold_left Nat.max nbs 0)).
Proof.
  intros HL H0 [t0 [Ht0 Hn0]].
  set (N := fold_left Nat.max nbs 0).
  (* the list is not empty *)
  destruct (In_nth _ _ [] Ht0) as [i [Hi Ei]].
  assert (Hin0 : In (t0, nth i nbs 0) (combine ops nbs)).
  { rewrite <- Ei. rewrite <- combine_nth by lia. apply nth_In. rewrite combine_length. lia. }
  assert (Hne : In (Z.of_nat (nth i nbs 0)) (somes (needs_of ops nbs))).
  { apply in_somes, in_needs_of. eauto. }
  destruct (somes (needs_of ops nbs)) as [|v vs] eqn:ES; [destruct Hne|].
  unfold zmax_values. f_equal. fold (zmax_list vs v).
  assert (Hall : forall z, In z (v :: vs) -> exists t nb, In (t, nb) (combine ops nbs) /\ n_ell t <> 0 /\ z = Z.of_nat nb).
  { intros z Hz. rewrite <- ES in Hz. apply in_somes, in_needs_of in Hz. exact Hz. }
  assert (Hge : forall z, In z (v :: vs) -> (z <= zmax_list vs v)%Z).
  { intros z [<-|Hz]; [rewrite (zmax_list_acc vs v); lia|apply zmax_list_ge; exact Hz]. }
  assert (Hatt : In (zmax_list vs v) (v :: vs)).
  { destruct (zmax_list_attained vs v) as [E|H]; [left; symmetry; exact E|right; exact H]. }
  apply Z.le_antisymm.
  - destruct (Hall _ Hatt) as [t [nb [Hc [_ ->]]]].
    apply in_combine_r in Hc. assert (nb <= N) by (apply fold_max_ge; right; exact Hc). lia.
  - pose proof (fold_max_attained nbs 0) as HA. fold N in HA. destruct HA as [E|Hin].
    + rewrite E. destruct (Hall _ Hatt) as [t [nb [_ [_ ->]]]]. lia.
    + destruct (In_nth _ _ 0 Hin) as [j [Hj Ej]].
      assert (Hcj : In (nth j ops [], N) (combine ops nbs)).
      { rewrite <- Ej. rewrite <- combine_nth by lia. apply nth_In. rewrite combine_length. lia. }
      destruct (Nat.eq_dec (n_ell (nth j ops [])) 0) as [Z0|NZ].
      * rewrite Forall_forall in H0. specialize (H0 _ Hcj Z0). cbn in H0. rewrite H0.
        destruct (Hall _ Hatt) as [t [nb [_ [_ ->]]]]. lia.
      * apply Hge. rewrite <- ES. apply in_somes, in_needs_of. eauto.
Qed.

Lemma slice_from_nat {A} (k : nat) (l : list A) : k <= length l -> slice_from (Z.of_nat k) l = skipn k l.
Proof.
  intro H. unfold slice_from. replace (Z.of_nat k <? 0)%Z with false by lia.
  rewrite Z.min_l by lia. rewrite Nat2Z.id. reflexivity.
Qed.

Lemma expand_term_spec E N t nb : only_labels t = true -> Forall tok_ok t -> length E = N -> nb <= N ->
  expand_term (Z.of_nat N) E (unlex t) (need_of t nb) = map (rho E) (expand_toks nb t).
Proof.
  intros Ho Hk HE Hnb. rewrite rho_expand_toks by (auto; lia). rewrite HE.
  unfold need_of, expand_term. destruct (Nat.eqb (n_ell t) 0) eqn:Z0.
  - apply Nat.eqb_eq in Z0. apply unlex_no_ell; assumption.
  - replace (Z.of_nat N - Z.of_nat nb)%Z with (Z.of_nat (N - nb)) by lia.
    rewrite slice_from_nat by lia. apply replace_ell_unlex; assumption.
Qed.

Lemma expand_terms_spec E N ops : forall nbs,
  forallb only_labels ops = true -> Forall (Forall tok_ok) ops -> length E = N ->
  Forall (fun nb => nb <= N) nbs ->
  expand_terms (Z.of_nat N) E (map unlex ops) (needs_of ops nbs) =
  map (map (rho E)) (map (fun tn => expand_toks (snd tn) (fst tn)) (combine ops nbs)).
Proof.
  unfold expand_terms, needs_of.
  induction ops as [|t ops IH]; intros nbs Ho Hk HE Hnb; [reflexivity|].
  destruct nbs as [|nb nbs]; [reflexivity|].
  cbn in Ho. apply andb_true_iff in Ho. destruct Ho as [Ho1 Ho2].
  inversion Hk as [|? ? K1 K2]; subst. inversion Hnb as [|? ? B1 B2]; subst.
  cbn [map combine fst snd]. f_equal; [apply expand_term_spec; auto|]. apply IH; auto.
Qed.

(* --- the left-hand side as a whole: dots, letters, implicit output --- *)
Definition lhs_tok (t : tok) : Prop := match t with TArrow => False | _ => True end.

Lemma memb_app x l1 l2 : memb x (l1 ++ l2) = memb x l1 || memb x l2.
Proof. unfold memb. apply existsb_app. Qed.

Lemma memb_dot_unlex l : Forall tok_ok l -> memb c_dot (unlex l) = existsb is_ell l.
Proof.
  induction 1 as [|t l Ht Hl IH]; [reflexivity|].
  rewrite unlex_cons, memb_app, IH. destruct t as [c| | |]; try reflexivity.
  change (memb c_dot (unlex1 (TL c))) with (Nat.eqb c_dot c || false).
  destruct (is_letter_not_reserved c Ht) as [_ [_ [_ [D _]]]].
  replace (Nat.eqb c_dot c) with false by (symmetry; apply Nat.eqb_neq; intro; apply D; auto). reflexivity.
Qed.

Lemma tsplit_comma_flat {A} (f : tok -> list A) l : f TComma = [] ->
  concat (map (fun p => concat (map f p)) (tsplit is_comma l)) = concat (map f l).
Proof.
  intro Hf. induction l as [|t l IH]; [reflexivity|].
  cbn [tsplit]. destruct (is_comma t) eqn:E.
  - destruct t; try discriminate. cbn [map concat]. rewrite Hf, IH. reflexivity.
  - destruct (tsplit is_comma l) as [|h tl] eqn:S; [exfalso; eapply tsplit_nonempty; exact S|].
    cbn [map concat] in *. rewrite <- IH. rewrite app_assoc. reflexivity.
Qed.
Lemma letters_of_tsplit l : concat (map letters_of (tsplit is_comma l)) = letters_of l.
Proof. unfold letters_of. apply tsplit_comma_flat. reflexivity. Qed.
Lemma existsb_ell_tsplit l : existsb (existsb is_ell) (tsplit is_comma l) = existsb is_ell l.
Proof.
  induction l as [|t l IH]; [reflexivity|].
  cbn [tsplit]. destruct (is_comma t) eqn:E.
  - destruct t; try discriminate. cbn. exact IH.
  - destruct (tsplit is_comma l) as [|h tl] eqn:S; [exfalso; eapply tsplit_nonempty; exact S|].
    cbn in *. rewrite <- IH. rewrite orb_assoc. reflexivity.
Qed.
Lemma tsplit_comma_only_labels l : Forall lhs_tok l -> forallb only_labels (tsplit is_comma l) = true.
Proof.
  induction 1 as [|t l Ht Hl IH]; [reflexivity|].
  cbn [tsplit]. destruct (is_comma t) eqn:E; [cbn; exact IH|].
  destruct (tsplit is_comma l) as [|h tl] eqn:S; [exfalso; eapply tsplit_nonempty; exact S|].
  cbn in *. apply andb_true_iff in IH. destruct IH as [I1 I2]. rewrite I2, andb_true_r.
  unfold only_labels in *. cbn. rewrite I1. destruct t; try reflexivity; [discriminate|contradiction].
Qed.
Lemma tsplit_forall {P : tok -> Prop} sep l : Forall P l -> Forall (Forall P) (tsplit sep l).
Proof.
  induction 1 as [|t l Ht Hl IH]; cbn; [repeat constructor|].
  destruct (sep t); [constructor; [constructor|exact IH]|].
  destruct (tsplit sep l) as [|h tl]; [repeat constructor; exact Ht|].
  inversion IH; subst. constructor; [constructor; assumption|assumption].
Qed.

Lemma n_ell_zero_iff t : n_ell t = 0 <-> existsb is_ell t = false.
Proof.
  unfold n_ell. induction t as [|x t IH]; cbn; [tauto|].
  destruct (is_ell x); cbn; [split; [lia|discriminate]|exact IH].
Qed.

(* count of a character in the comma-free left-hand side *)
Lemma count_lhs x l : Forall tok_ok l -> Forall lhs_tok l ->
  count x (filter (fun c => negb (Nat.eqb c c_comma)) (unlex l)) =
  count x (letters_of l) + (if Nat.eqb x c_dot then 3 * n_ell l else 0).
Proof.
  induction 1 as [|t l Ht Hl IH]; intro Hlt; [cbn; destruct (Nat.eqb x c_dot); reflexivity|].
  inversion Hlt as [|? ? L1 L2]; subst. specialize (IH L2).
  rewrite unlex_cons, filter_app, count_app, IH, letters_of_cons, count_app, n_ell_cons.
  destruct t as [c| | |]; cbn [unlex1 is_ell]; try contradiction.
  - destruct (is_letter_not_reserved c Ht) as [_ [D1 [_ [D2 _]]]].
    cbn [filter]. replace (Nat.eqb c c_comma) with false by (symmetry; apply Nat.eqb_neq; exact D1).
    cbn [negb count]. destruct (Nat.eqb x c_dot) eqn:E; lia.
  - change (filter (fun c => negb (Nat.eqb c c_comma)) [c_dot; c_dot; c_dot]) with [c_dot; c_dot; c_dot].
    change (count x [c_dot; c_dot; c_dot]) with
      ((if Nat.eqb c_dot x then 1 else 0) + ((if Nat.eqb c_dot x then 1 else 0) + ((if Nat.eqb c_dot x then 1 else 0) + 0))).
    change (count x []) with 0. rewrite (Nat.eqb_sym c_dot x).
    destruct (Nat.eqb x c_dot) eqn:E; lia.
  - change (filter (fun c => negb (Nat.eqb c c_comma)) [c_comma]) with (@nil nat).
    change (count x []) with 0. destruct (Nat.eqb x c_dot); lia.
Qed.

Lemma letters_are_letters l : Forall tok_ok l -> forall c, In c (letters_of l) -> is_letter c = true.
Proof.
  induction 1 as [|t l Ht Hl IH]; intros c Hc; [destruct Hc|].
  rewrite letters_of_cons in Hc. apply in_app_or in Hc. destruct Hc as [Hc|Hc]; [|apply IH; exact Hc].
  destruct t; cbn in Hc; try contradiction. destruct Hc as [<-|[]]. exact Ht.
Qed.

(* strictly increasing lists are determined by their elements *)
Lemma sorted_lt_unique l1 : forall l2, StronglySorted lt l1 -> StronglySorted lt l2 ->
  (forall x, In x l1 <-> In x l2) -> l1 = l2.
Proof.
  induction l1 as [|a l1 IH]; intros l2 H1 H2 Hin.
  - destruct l2 as [|b l2]; [reflexivity|]. exfalso. apply (Hin b). left; reflexivity.
  - destruct l2 as [|b l2]; [exfalso; apply (Hin a); left; reflexivity|].
    inversion H1 as [|? ? H1' A1]; inversion H2 as [|? ? H2' A2]; subst.
    rewrite Forall_forall in A1, A2.
    assert (a = b).
    { destruct (proj1 (Hin a) (or_introl eq_refl)) as [E|Hb]; [auto|].
      destruct (proj2 (Hin b) (or_introl eq_refl)) as [E|Ha]; [auto|].
      specialize (A1 _ Ha). specialize (A2 _ Hb). lia. }
    subst b. f_equal. apply IH; auto. intro x. split; intro Hx.
    + destruct (proj1 (Hin x) (or_intror Hx)) as [E|]; [|assumption]. subst x. specialize (A1 _ Hx). lia.
    + destruct (proj2 (Hin x) (or_intror Hx)) as [E|]; [|assumption]. subst x. specialize (A2 _ Hx). lia.
Qed.
Lemma sorted_le_nodup_lt l : StronglySorted le l -> NoDup l -> StronglySorted lt l.
Proof.
  induction 1 as [|a l Hs IH Hall]; intro Hnd; constructor.
  - apply IH. inversion Hnd; assumption.
  - inversion Hnd as [|? ? Hni _]; subst. rewrite Forall_forall in *. intros b Hb.
    specialize (Hall b Hb). assert (a <> b) by (intro; subst; contradiction). lia.
Qed.
Lemma sorted_filter {A} (R : A -> A -> Prop) f l : StronglySorted R l -> StronglySorted R (filter f l).
Proof.
  induction 1 as [|a l Hs IH Hall]; cbn; [constructor|].
  destruct (f a); [|exact IH]. constructor; [exact IH|].
  rewrite Forall_forall in *. intros b Hb. apply filter_In in Hb. apply Hall. tauto.
Qed.
Lemma sort_unique_lt l : StronglySorted lt (sort_nat (unique l)).
Proof.
  apply sorted_le_nodup_lt; [apply sort_nat_sorted|].
  eapply Permutation_NoDup; [symmetry; apply sort_nat_perm|apply unique_nodup].
Qed.
Lemma once_sorted_in l x : In x (once_sorted l) <-> count x l = 1.
Proof.
  unfold once_sorted. rewrite filter_In, sort_nat_in, unique_in, Nat.eqb_eq. split; [tauto|].
  intro H. split; [apply count_pos; lia|exact H].
Qed.
Lemma once_sorted_sorted l : StronglySorted lt (once_sorted l).
Proof. apply sorted_filter, sort_unique_lt. Qed.

(* (1) implicit output: find_output_str of the rendered left-hand side is numpy's rule *)
Lemma find_output_str_unlex l : Forall tok_ok l -> Forall lhs_tok l ->
  find_output_str (unlex l) = once_sorted (letters_of l).
Proof.
  intros Hk Hl. unfold find_output_str. fold (once_sorted (filter (fun x => negb (Nat.eqb x c_comma)) (unlex l))).
  apply sorted_lt_unique; try apply once_sorted_sorted.
  intro x. rewrite !once_sorted_in, (count_lhs x l Hk Hl).
  destruct (Nat.eqb x c_dot) eqn:E; [|lia].
  apply Nat.eqb_eq in E. subst x.
  assert (count c_dot (letters_of l) = 0).
  { apply count_zero. intro H. apply (letters_are_letters l Hk) in H. discriminate H. }
  lia.
Qed.

(* --- the output --- *)
Lemma rho_LN E l : map (rho E) (map LN l) = l.
Proof. rewrite map_map. cbn. apply map_id. Qed.

Lemma output_explicit E N all o nout : only_labels o = true -> Forall tok_ok o -> length E = N ->
  np_output N all (Some o) = Some nout ->
  match check_ellipsis (unlex o) with
  | None => None
  | Some true => Some (replace_ell E (unlex o))
  | Some false => Some (unlex o)
  end = Some (map (rho E) nout).
Proof.
  intros Ho Hk HE. unfold np_output.
  destruct (negb (nodupb (letters_of o))); [discriminate|].
  destruct (negb (forallb (fun c => memb c all) (letters_of o))); [discriminate|].
  rewrite (check_ellipsis_unlex o Ho Hk).
  destruct (n_ell o) as [|[|k]] eqn:En.
  - destruct (Nat.eqb N 0) eqn:EN; [|discriminate]. intro H; inversion H; subst nout.
    f_equal. rewrite rho_expand_toks by (auto; lia). apply unlex_no_ell; auto.
  - intro H; inversion H; subst nout. f_equal.
    rewrite rho_expand_toks by (auto; lia). rewrite HE, Nat.sub_diag. cbn [skipn].
    apply replace_ell_unlex; auto.
  - discriminate.
Qed.

Lemma output_implicit E N lhs nout : Forall tok_ok lhs -> Forall lhs_tok lhs -> length E = N ->
  np_output N (letters_of lhs) None = Some nout ->
  E ++ find_output_str (unlex lhs) = map (rho E) nout.
Proof.
  intros Hk Hl HE. unfold np_output. intro H; inversion H; subst nout.
  rewrite map_app, rho_bdims by lia. rewrite HE, Nat.sub_diag. cbn [skipn].
  rewrite rho_LN. f_equal. apply find_output_str_unlex; auto.
Qed.

Lemma noell_terms E ops : forall nbs, length nbs = length ops ->
  forallb only_labels ops = true -> (forall t, In t ops -> n_ell t = 0) ->
  Forall (fun nb => nb <= length E) nbs ->
  map unlex ops = map (map (rho E)) (map (fun tn => expand_toks (snd tn) (fst tn)) (combine ops nbs)).
Proof.
  induction ops as [|t ops IH]; intros nbs HL Ho Hz Hnb; [reflexivity|].
  destruct nbs as [|nb nbs]; [discriminate|]. cbn in HL.
  cbn in Ho. apply andb_true_iff in Ho. destruct Ho as [Ho1 Ho2]. inversion Hnb as [|? ? B1 B2]; subst.
  cbn [map combine fst snd]. f_equal.
  - rewrite rho_expand_toks by auto. apply unlex_no_ell; [exact Ho1|apply Hz; left; reflexivity].
  - apply IH; auto. intros; apply Hz; right; assumption.
Qed.

Lemma fold_max_zero l : (forall x, In x l -> x = 0) -> fold_left Nat.max l 0 = 0.
Proof.
  intro H. destruct (fold_max_attained l 0) as [E|Hin]; [exact E|]. apply H. exact Hin.
Qed.

Lemma no_arrow_lhs_tok l : Forall no_arrow l -> Forall lhs_tok l.
Proof. apply Forall_impl. intros t H. destruct t; cbn; auto. discriminate H. Qed.

Lemma existsb_ell_ops ops : existsb (existsb is_ell) ops = true -> exists t, In t ops /\ n_ell t <> 0.
Proof.
  intro H. apply existsb_exists in H. destruct H as [t [Ht E]]. exists t. split; [exact Ht|].
  intro Z0. apply n_ell_zero_iff in Z0. congruence.
Qed.
Lemma existsb_ell_ops_false ops : existsb (existsb is_ell) ops = false -> forall t, In t ops -> n_ell t = 0.
Proof.
  intros H t Ht. apply n_ell_zero_iff. destruct (existsb is_ell t) eqn:E; [|reflexivity].
  assert (existsb (existsb is_ell) ops = true) by (apply existsb_exists; eauto). congruence.
Qed.

Lemma lhs_tok_no_arrow l : Forall lhs_tok l -> Forall no_arrow l.
Proof. apply Forall_impl. intros t H. destruct t; cbn in *; try reflexivity. contradiction. Qed.

(* THE token-level theorem: everything after lexing and splitting *)
Lemma core_matches_numpy lhs out shapes nops nout :
  Forall tok_ok lhs -> Forall lhs_tok lhs ->
  (match out with Some o => Forall tok_ok o | None => True end) ->
  np_core (tsplit is_comma lhs) out shapes = Some (nops, nout) ->
  let inputs := split_char c_comma (unlex lhs) in
  let E := match ell_needs inputs shapes with
           | Some needs => match ellipses_inds_of inputs needs with Some (_, E) => E | None => [] end
           | None => [] end in
  (if negb (Nat.eqb (length inputs) (length shapes)) then None
   else if memb c_dot (unlex lhs) then
     match ell_needs inputs shapes with
     | None => None
     | Some needs =>
       match ellipses_inds_of inputs needs with
       | None => None
       | Some (req, ellipses_inds) =>
         let inputs' := expand_terms req ellipses_inds inputs needs in
         match out with
         | Some o =>
           match check_ellipsis (unlex o) with
           | None => None
           | Some true => Some (inputs', replace_ell ellipses_inds (unlex o))
           | Some false => Some (inputs', unlex o)
           end
         | None => Some (inputs', ellipses_inds ++ find_output_str (unlex lhs))
         end
       end
     end
   else
     match out with
     | Some o =>
       match check_ellipsis (unlex o) with
       | None => None
       | Some true => Some (inputs, replace_ell [] (unlex o))
       | Some false => Some (inputs, unlex o)
       end
     | None => Some (inputs, find_output_str (unlex lhs))
     end) = Some (map (map (rho E)) nops, map (rho E) nout).
Proof.
  intros Hk Hl Hko. set (ops := tsplit is_comma lhs).
  assert (Hops_k : Forall (Forall tok_ok) ops) by (apply tsplit_forall; exact Hk).
  assert (Hops_o : forallb only_labels ops = true) by (apply tsplit_comma_only_labels; exact Hl).
  unfold np_core. rewrite Hops_o. cbn [negb].
  destruct (negb (match out with Some o => only_labels o | None => true end)) eqn:Eo; [discriminate|].
  destruct (np_operands_nb ops shapes) as [nbs|] eqn:Enb; [|discriminate].
  destruct (ell_needs_unlex ops shapes nbs Hops_o Hops_k Enb) as [N1 [N2 [N3 N4]]].
  set (N := fold_left Nat.max nbs 0).
  replace (concat (map letters_of ops)) with (letters_of lhs) by (symmetry; apply letters_of_tsplit).
  destruct (np_output N (letters_of lhs) out) as [o'|] eqn:Eout; [|discriminate].
  intro H; inversion H; subst nops nout. clear H.
  cbn zeta. rewrite (split_comma_unlex lhs Hk (lhs_tok_no_arrow lhs Hl)).
  fold ops. rewrite map_length, N3, Nat.eqb_refl. cbn [negb].
  rewrite (memb_dot_unlex lhs Hk), <- (existsb_ell_tsplit lhs). fold ops. rewrite N1.
  assert (Hnbs : Forall (fun nb => nb <= N) nbs).
  { rewrite Forall_forall. intros nb Hnb. apply fold_max_ge. right. exact Hnb. }
  destruct (existsb (existsb is_ell) ops) eqn:Eell.
  - (* some operand has an ellipsis *)
    unfold ellipses_inds_of.
    rewrite (req_is_max ops nbs N2 N4 (existsb_ell_ops ops Eell)). fold N. rewrite Nat2Z.id.
    set (E := fresh_symbols N (concat (map unlex ops))).
    assert (HE : length E = N) by apply fresh_symbols_spec.
    rewrite (expand_terms_spec E N ops nbs Hops_o Hops_k HE Hnbs).
    destruct out as [o|].
    + apply negb_false_iff in Eo.
      pose proof (output_explicit E N (letters_of lhs) o o' Eo Hko HE Eout) as HO.
      destruct (check_ellipsis (unlex o)) as [[|]|]; inversion HO; reflexivity.
    + rewrite (output_implicit E N lhs o' Hk Hl HE Eout). reflexivity.
  - (* no ellipsis on the left-hand side *)
    pose proof (existsb_ell_ops_false ops Eell) as Hz.
    assert (HN0 : N = 0).
    { apply fold_max_zero. intros nb Hnb. destruct (In_nth _ _ 0 Hnb) as [j [Hj Ej]].
      assert (Hc : In (nth j ops [], nb) (combine ops nbs)).
      { rewrite <- Ej. rewrite <- combine_nth by lia. apply nth_In. rewrite combine_length. lia. }
      rewrite Forall_forall in N4. apply (N4 _ Hc). cbn. apply Hz. apply nth_In. lia. }
    assert (HE0 : match ellipses_inds_of (map unlex ops) (needs_of ops nbs) with Some (_, E) => E | None => [] end = []).
    { unfold ellipses_inds_of. destruct (zmax_values (somes (needs_of ops nbs))) as [r|] eqn:Ez; [|reflexivity].
      exfalso. unfold zmax_values in Ez. destruct (somes (needs_of ops nbs)) as [|v vs] eqn:ES; [discriminate|].
      assert (Hv : In v (somes (needs_of ops nbs))) by (rewrite ES; left; reflexivity).
      apply in_somes, in_needs_of in Hv. destruct Hv as [t [nb [Hc [Hne _]]]].
      apply Hne, Hz. apply in_combine_l in Hc. exact Hc. }
    rewrite HE0.
    assert (Hnbs0 : Forall (fun nb => nb <= length (@nil nat)) nbs).
    { eapply Forall_impl; [|exact Hnbs]. cbn. intros; lia. }
    rewrite <- (noell_terms [] ops nbs N2 Hops_o Hz Hnbs0).
    destruct out as [o|].
    + apply negb_false_iff in Eo.
      pose proof (output_explicit [] N (letters_of lhs) o o' Eo Hko (eq_sym HN0) Eout) as HO.
      destruct (check_ellipsis (unlex o)) as [[|]|]; inversion HO; reflexivity.
    + rewrite <- (output_implicit [] N lhs o' Hk Hl (eq_sym HN0) Eout). reflexivity.
Qed.

(* --- (1)+(2): the string form, for ALL strings numpy accepts --- *)
Theorem string_matches_numpy eq shapes nops nout :
  np_parse eq shapes = Some (nops, nout) ->
  let E := model_ellipses_inds (strip_spaces eq) shapes in
  parse_equation_ellipses_v true (strip_spaces eq) shapes = Some (map (map (rho E)) nops, map (rho E) nout).
Proof.
  unfold np_parse. destruct (np_lex eq) as [ts|] eqn:L; [|discriminate].
  destruct (np_lex_sound (length eq) eq ts (le_n _) L) as [S1 K].
  pose proof (tsplit_forall is_arrow ts K) as KP.
  pose proof (tsplit_arrow_no_arrow ts) as NP.
  pose proof (split_arrow_unlex ts K) as SA.
  destruct (tsplit is_arrow ts) as [|lhs [|rhs [|x y]]] eqn:SP; try discriminate.
  - intro H. inversion KP as [|? ? K1 _]; subst. inversion NP as [|? ? A1 _]; subst.
    cbn zeta. unfold parse_equation_ellipses_v, model_ellipses_inds. rewrite S1, SA. cbn [map hd tl].
    exact (core_matches_numpy lhs None shapes nops nout K1 (no_arrow_lhs_tok lhs A1) I H).
  - intro H. inversion KP as [|? ? K1 KP']; subst. inversion KP' as [|? ? K2 _]; subst.
    inversion NP as [|? ? A1 _]; subst.
    cbn zeta. unfold parse_equation_ellipses_v, model_ellipses_inds. rewrite S1, SA. cbn [map hd tl].
    exact (core_matches_numpy lhs (Some rhs) shapes nops nout K1 (no_arrow_lhs_tok lhs A1) K2 H).
Qed.

Lemma list_eqb_nat_refl (l : list nat) : list_eqb Nat.eqb l l = true.
Proof. apply list_eqb_nat_eq. reflexivity. Qed.
Lemma ops_eqb_refl a : ops_eqb a a = true.
Proof.
  unfold ops_eqb. rewrite list_eqb_nat_refl, andb_true_r.
  induction (fst a) as [|x l IH]; cbn; [reflexivity|]. rewrite list_eqb_nat_refl, IH. reflexivity.
Qed.

(* in the vocabulary of the check: the verdict is never `Some false` *)
Theorem string_agrees_with_numpy fx eq shapes :
  fx_spaces fx = true -> fx_outell fx = true ->
  agrees_args_v fx (AStr eq shapes) = match np_parse eq shapes with Some _ => Some true | None => None end.
Proof.
  intros F1 F2. unfold agrees_args_v. cbn [np_parse_args einsum_eq_v eargs_shapes]. rewrite F1, F2.
  destruct (np_parse eq shapes) as [[nops nout]|] eqn:P; [|reflexivity].
  pose proof (string_matches_numpy eq shapes nops nout P) as H. cbn zeta in H.
  unfold rho_args. fold (rho (model_ellipses_inds (strip_spaces eq) shapes)).
  change (fun l : lab => match l with LN c => c | LB k => nth (length (model_ellipses_inds (strip_spaces eq) shapes) - 1 - k) (model_ellipses_inds (strip_spaces eq) shapes) 0 end)
    with (rho (model_ellipses_inds (strip_spaces eq) shapes)).
  rewrite H. rewrite ops_eqb_refl. reflexivity.
Qed.

(* the renaming is injective: the ellipsis symbols are pairwise distinct and occur in no input term *)
Lemma model_ellipses_inds_fresh eq shapes :
  let E := model_ellipses_inds eq shapes in
  NoDup E /\ forall s, In s E -> ~ In s (concat (split_char c_comma (hd [] (split_arrow eq)))).
Proof.
  unfold model_ellipses_inds.
  destruct (ell_needs _ shapes) as [needs|]; [|split; [constructor|intros ? []]].
  unfold ellipses_inds_of. destruct (zmax_values (somes needs)) as [req|]; [|split; [constructor|intros ? []]].
  destruct (fresh_symbols_spec (Z.to_nat req) (concat (split_char c_comma (hd [] (split_arrow eq))))) as [_ [H1 H2]].
  split; [exact H1|]. intros s Hs. apply H2. exact Hs.
Qed.

Theorem rho_injective used E : NoDup E -> (forall s, In s E -> ~ In s used) ->
  forall l1 l2, label_in used E l1 -> label_in used E l2 -> rho E l1 = rho E l2 -> l1 = l2.
Proof.
  intros Hnd Hfresh [c1|k1] [c2|k2] H1 H2; cbn in *; intro Heq.
  - congruence.
  - exfalso. apply (Hfresh c1); [|exact H1]. rewrite Heq. apply nth_In. lia.
  - exfalso. apply (Hfresh c2); [|exact H2]. rewrite <- Heq. apply nth_In. lia.
  - f_equal. assert (length E - 1 - k1 = length E - 1 - k2); [|lia].
    apply (proj1 (NoDup_nth E 0) Hnd); [lia|lia|exact Heq].
Qed.

(* ------------------------------------------------------------------ *)
(* bounded exhaustive comparison of the model with NumpySpec (vm_compute) *)
Definition sweep_pres : list (list nat) := [[]; [98]; [66]; [98; 66]].
Definition sweep_posts : list (list nat) := [[]; [98]; [97]].
Definition sweep_sterms : list sterm :=
  flat_map (fun pre => flat_map (fun ell => map (fun post => mkST pre ell post) sweep_posts) [true; false]) sweep_pres.
(* an operand: a term and its number of broadcast dimensions (all dimensions have size 2) *)
Definition sweep_operands : list (sterm * nat) :=
  flat_map (fun t => if st_ell t then [(t, 0); (t, 1); (t, 2)] else [(t, 0)]) sweep_sterms.
Definition sweep_outputs : list (option sterm) :=
  [None; Some (mkST [] false []); Some (mkST [98] false []); Some (mkST [] true []);
   Some (mkST [] true [98]); Some (mkST [66] true []); Some (mkST [97] true [98]); Some (mkST [98; 66] false [])].
Definition operand_shape (o : sterm * nat) : shape :=
  repeat 2%Z (length (sterm_letters (fst o)) + snd o).
Definition sweep_args_str (ops : list (sterm * nat)) (out : option sterm) : eargs :=
  AStr (render_eq (map fst ops) out) (map operand_shape ops).
Definition letter_label (c : nat) : nat := if c <? 97 then c - 65 else c - 97 + 26.
Definition sterm_sublist (t : sterm) : list ilab :=
  map (fun c => IL (letter_label c)) (st_pre t) ++ (if st_ell t then [IE] else []) ++
  map (fun c => IL (letter_label c)) (st_post t).
Definition sweep_args_inter (ops : list (sterm * nat)) (out : option sterm) : eargs :=
  AInter (map (fun o => (operand_shape o, sterm_sublist (fst o))) ops)
         (match out with Some o => Some (sterm_sublist o) | None => None end).
Definition output_only_ellipsis (ops : list (sterm * nat)) (out : option sterm) : bool :=
  match out with
  | Some o => st_ell o && negb (existsb (fun t => st_ell (fst t)) ops)
  | None => false
  end.
Definition not_refuted (r : option bool) : bool := match r with Some false => false | _ => true end.
Definition is_agree (r : option bool) : bool := match r with Some true => true | _ => false end.
Definition sweep_calls : list (list (sterm * nat) * option sterm) :=
  flat_map (fun out => map (fun a => ([a], out)) sweep_operands ++
                       flat_map (fun a => map (fun b => ([a; b], out)) sweep_operands) sweep_operands)
           sweep_outputs.

(* the pinned code, string form: every call of the sweep except the output-only-ellipsis class *)
Lemma sweep_string_pinned :
  forallb (fun c => output_only_ellipsis (fst c) (snd c) ||
                    not_refuted (agrees_args_v no_fixes (sweep_args_str (fst c) (snd c)))) sweep_calls = true.
Proof. vm_compute. reflexivity. Qed.
(* the code with the proposed fixes: every call of the sweep, both call forms *)
Lemma sweep_string_fixed :
  forallb (fun c => not_refuted (agrees_args_v all_fixes (sweep_args_str (fst c) (snd c)))) sweep_calls = true.
Proof. vm_compute. reflexivity. Qed.
(* (interleaved calls whose ONLY ellipsis is in the output sublist stay refuted: known finding
   interleaved-output-ellipsis-only, for which no patch is proposed) *)
Lemma sweep_inter_fixed :
  forallb (fun c => output_only_ellipsis (fst c) (snd c) ||
                    not_refuted (agrees_args_v all_fixes (sweep_args_inter (fst c) (snd c)))) sweep_calls = true.
Proof. vm_compute. reflexivity. Qed.
(* the pinned code, interleaved form with an explicit output sublist *)
Lemma sweep_inter_explicit_pinned :
  forallb (fun c => match snd c with None => true | Some _ =>
                      output_only_ellipsis (fst c) (snd c) ||
                      not_refuted (agrees_args_v no_fixes (sweep_args_inter (fst c) (snd c))) end) sweep_calls = true.
Proof. vm_compute. reflexivity. Qed.
(* non-vacuity of the sweeps: how many calls numpy accepts (and the model then agrees on) *)
Lemma sweep_sizes :
  length sweep_calls = 8 * (48 + 48 * 48) /\
  length (filter (fun c => is_agree (agrees_args_v all_fixes (sweep_args_str (fst c) (snd c)))) sweep_calls) = 
  length (filter (fun c => match np_parse_args (sweep_args_str (fst c) (snd c)) with Some _ => true | None => false end) sweep_calls).
Proof. vm_compute. split; reflexivity. Qed.

Lemma interleaved_output_ellipsis_only_refuted :
  exists ops out, agrees_args_v all_fixes (AInter ops out) = Some false /\ np_out_shape (AInter ops out) = Some [3;2]%Z.
Proof.
  exists [([2;3]%Z, [IL 0; IL 1])], (Some [IE; IL 1; IL 0]). split; vm_compute; reflexivity.
Qed.

(* the witnesses of the refutations are repaired by the proposed fixes *)
Lemma fixes_repair_witnesses :
  agrees_args_v all_fixes (AStr w_spaces [[2;3];[3;4]]%Z) = Some true /\
  agrees_args_v all_fixes (AInter [([4;2]%Z, [IL 5; IL 1]); ([2;3]%Z, [IL 1; IL 2])] None) = Some true /\
  front_out_shape_v all_fixes (AInter [([4;2]%Z, [IL 5; IL 1]); ([2;3]%Z, [IL 1; IL 2])] None) = Some [3;4]%Z /\
  agrees_args_v all_fixes (AStr [97;98;45;62;46;46;46;97;98] [[2;3]]%Z) = Some true.
Proof. vm_compute. auto. Qed.

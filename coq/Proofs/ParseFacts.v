(* ParseFacts.v -- lemmas about Model/Parse.v (C12). *)
From Coq Require Import ZArith List Bool Lia ZifyBool Arith.
From Ctg Require Import Base Parse.
Import ListNotations.
Open Scope nat_scope.

(* ------------------------------------------------------------------ *)
(* refutations: inputs numpy.einsum accepts on which the faithful model differs *)

(* 12(a)  'ab, bc -> ac'  on shapes (2,3),(3,4) *)
Definition w_spaces : str := [97;98;44;32;98;99;32;45;62;32;97;99].
Lemma eq_spaces_refuted :
  exists eq shapes, agrees_with_numpy eq shapes = Some false /\ ~ In c_space (filter (fun c => negb (Nat.eqb c c_space)) eq)
                    /\ agrees_with_numpy (filter (fun c => negb (Nat.eqb c c_space)) eq) shapes = Some true.
Proof.
  exists w_spaces, [[2;3];[3;4]]%Z. split; [vm_compute; reflexivity|]. split; [|vm_compute; reflexivity].
  vm_compute. intuition discriminate.
Qed.

(* 12(b)  einsum(x, [5,1], y, [1,2])  on shapes (4,2),(2,3) *)
Lemma interleaved_implicit_order_refuted :
  exists ops, agrees_with_numpy_inter ops None = Some false
              /\ np_out_shape (AInter ops None) = Some [3;4]%Z
              /\ front_out_shape (AInter ops None) = Some [4;3]%Z.
Proof.
  exists [([4;2]%Z, [IL 5; IL 1]); ([2;3]%Z, [IL 1; IL 2])]. repeat split; vm_compute; reflexivity.
Qed.

(* 12(c)  '...a,...a->...'  on shapes (2,3),(1,3): the parse agrees, the network does not fit the operands *)
Lemma ellipsis_size1_broadcast_refuted :
  exists a, (exists eq shapes, a = AStr eq shapes /\ agrees_with_numpy eq shapes = Some true)
            /\ np_out_shape a = Some [2%Z]
            /\ front_consistent a = Some false
            /\ front_out_shape a = Some [1%Z].
Proof.
  exists (AStr [46;46;46;97;44;46;46;46;97;45;62;46;46;46] [[2;3];[1;3]]%Z).
  split; [eexists; eexists; split; [reflexivity|vm_compute; reflexivity]|].
  repeat split; vm_compute; reflexivity.
Qed.

(* 12(d)  'ab->...ab'  on shape (2,3): an output ellipsis that stands for no dimension *)
Lemma output_ellipsis_only_refuted :
  exists eq shapes, agrees_with_numpy eq shapes = Some false /\ np_out_shape (AStr eq shapes) = Some [2;3]%Z.
Proof.
  exists [97;98;45;62;46;46;46;97;98], [[2;3]]%Z. split; vm_compute; reflexivity.
Qed.

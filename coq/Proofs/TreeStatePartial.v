(* TreeStatePartial.v -- C04 in PARTIALLY tracked states: the three running totals are independent.
   InvC's totals clause is one implication per flag, so each tracked total equals the figure computed
   from the cached per-node values (which InvC ties to the from-scratch values of Net.v) whatever the
   other two flags are; every primitive (in particular _remove_node, whose three updates are guarded by
   their own flag) preserves InvC in every flag combination. *)
From Coq Require Import Lia ZifyBool Permutation.
From Ctg Require Import Base Net BaseFacts NetFacts TreeState TreeStateFacts TreeStateInv.

Section Partial.
Variable n : net.

Theorem tracked_flops_alone s : InvC n s -> trk_flops s = true ->
  flops_ s = zsum (map (cflops s) (nkeys (children s))) /\ forall p, In p (nkeys (children s)) -> rd i_flops s p <> None.
Proof. intros [_ (T1&_&_)] H. apply T1, H. Qed.
Theorem tracked_write_alone s : InvC n s -> trk_write s = true ->
  write_ s = zsum (map (csize s) (nkeys (children s))) /\ forall p, In p (nkeys (children s)) -> rd i_size s p <> None.
Proof. intros [_ (_&T2&_)] H. apply T2, H. Qed.
(* the MaxCounter: exactly the multiset of the cached sizes of the current internal nodes, and its
   cached maximum is the maximum of that multiset *)
Theorem tracked_size_alone s : InvC n s -> trk_size s = true ->
  (forall z, cget0 z (sizes_ s) = count_occ Z.eq_dec (map (csize s) (nkeys (children s))) z) /\
  (forall p, In p (nkeys (children s)) -> rd i_size s p <> None) /\
  match sizes_max s with
  | Some M => In M (map (csize s) (nkeys (children s))) /\ forall z, In z (map (csize s) (nkeys (children s))) -> (z <= M)%Z
  | None => children s = []
  end.
Proof.
  intros [_ (_&_&T3)] H. destruct (T3 H) as ((ND & Hpos & Hmax) & Hc & Hk). split; [exact Hc|]. split; [exact Hk|].
  cbn [sizes_mc fst snd] in *.
  assert (Hin : forall z, In z (ckeys (sizes_ s)) <-> In z (map (csize s) (nkeys (children s)))).
  { intros z. rewrite Hpos, Hc. rewrite (count_occ_In Z.eq_dec). lia. }
  destruct (sizes_max s) as [M|]; cbn in Hmax.
  - destruct Hmax as [H1 H2]. split; [apply Hin, H1|intros z Hz; apply H2, Hin, Hz].
  - destruct (children s) as [|c ch]; [reflexivity|]. exfalso. specialize (Hin (csize s (fst c))). rewrite Hmax in Hin.
    apply Hin. left. reflexivity.
Qed.
End Partial.

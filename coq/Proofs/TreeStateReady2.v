(* TreeStateReady2.v -- the corollary of C02 step 3 without the premise preproc_complete_b:
   extract_contractions touches all leaves (has_preprocessing), and the preprocessing invariant PP
   (Proofs/TreeStatePreproc.v) then makes tree.preprocessing complete. *)
From Coq Require Import Lia ZifyBool Permutation.
From Ctg Require Import Base Net Einsum Program BaseFacts NetFacts ProgramFacts TreeState TreeStateFacts TreeStateInv
                        TreeStatePre TreeStateMon TreeStateProg TreeStateValue TreeStateRec TreeStateRecipes
                        TreeStateReady TreeStatePreproc.
Open Scope nat_scope.

Section Ready2.
Variable n : net.
Notation N := (NN n).
Hypothesis HN : 2 <= N.
Hypothesis Hout : NoDup (output n).

Lemma touch_fold L : forall s, (forall i, In i L -> i < N) -> InvC n s ->
  let s' := fold_left (fun s i => fst (g_legs n s [i])) L s in
  InvC n s' /\ crel n s s' /\ (err s' = false -> forall i, In i L -> rd i_legs s' [i] <> None).
Proof.
  induction L as [|k L IH]; intros s HL HI; cbn [fold_left].
  { split; [exact HI|]. split; [apply crel_refl|intros _ i []]. }
  assert (Gk : good_node n [k]).
  { split; [|discriminate]. split; [repeat constructor; cbn; tauto|]. intros j [<-|[]]. apply HL. left. reflexivity. }
  pose proof (g_legs_crel n HN s [k] (InvC_chok n s HI)) as H1. pose proof (inv_g_legs n HN Hout s [k] HI Gk) as I1.
  pose proof (g_legs_cached_e n HN s [k]) as C1. set (s1 := fst (g_legs n s [k])) in *.
  destruct (IH s1) as (I2 & H2 & C2); [intros i Hi; apply HL; right; exact Hi|exact I1|]. cbn zeta in I2, H2, C2.
  split; [exact I2|]. split; [eapply crel_trans; eassumption|].
  intros He i [<-|Hi]; [|apply C2; assumption].
  pose proof (crel_err n _ _ H2 He) as He1. rewrite (irl_legs n s1 _ [k] _ (crel_irl n _ _ H2) (C1 He1)). discriminate.
Qed.

(* PP + every leaf has cached legs = tree.preprocessing is complete *)
Lemma PP_complete s : PP n s -> (forall k, k < N -> rd i_legs s [k] <> None) -> preproc_complete_b n s = true.
Proof.
  intros (P0&P1&P2&P3) Hall. unfold preproc_complete_b. apply forallb_forall. intros k Hk. apply in_seq in Hk.
  assert (Hk' : k < N) by lia. specialize (Hall k Hk').
  destruct (leaf_preproc n (sliced s) k) as [tk|] eqn:El; destruct (pget k (preproc s)) as [e|] eqn:Ep; try reflexivity.
  - destruct (P1 k e Ep) as [(tk' & E' & Ec)|[[] _]]. rewrite El in E'. injection E' as <-. rewrite Ec. apply eqb_pair_refl.
  - exfalso. destruct (P2 k Hall) as [B|[[] _]]. apply B; [rewrite El; discriminate|exact Ep].
  - exfalso. destruct (P1 k e Ep) as [(tk' & E' & _)|[[] _]]. congruence.
Qed.

(* everything the end state satisfies *)
Lemma end_state_facts s1 pe nodes : QP n s1 -> PBe s1 ->
  let s := extract_all n pe nodes s1 in
  nodes_ok_b s1 nodes = true -> err s = false ->
  InvC n s /\ PA n s /\ PB s /\ PP n s /\ preproc_complete_b n s = true /\
  (forall p l r, nget p (children s) = Some (l, r) -> filled3 s p l r).
Proof.
  intros [[I1 A1] Q1] P1 s Hnodes He.
  unfold nodes_ok_b in Hnodes. apply andb_true_iff in Hnodes. destruct Hnodes as [Hn1 Hn2].
  rewrite forallb_forall in Hn1, Hn2.
  destruct (extract_ok n HN Hout pe nodes s1 (conj I1 (conj A1 P1))) as ((I2&A2&P2)&M2&F2).
  { intros e Hin. apply nmem_true, Hn1, Hin. }
  set (s2 := extract n pe nodes s1) in *.
  destruct (touch_fold (seq 0 N) s2) as (I3 & H3 & C3); [intros i Hi; apply in_seq in Hi; lia|exact I2|].
  cbn zeta in I3, H3, C3. change (fold_left _ (seq 0 N) s2) with s in I3, H3, C3.
  pose proof (crel_err n _ _ H3 He) as He2.
  assert (A3 : PA n s) by (apply (PAe_crel n s2 s A2 H3), He).
  assert (P3 : PB s) by (apply (PBe_crel n s2 s P2 H3), He).
  assert (M3 : mrl n s2 s) by (apply irl_mrl, crel_irl, H3).
  (* preprocessing *)
  assert (Q2 : PP n s2).
  { assert (Hx : forall L s0, chok (children s0) -> prel n s0 (fold_left (extract_step n pe) L s0)).
    { induction L as [|plr L IHL]; intros s0 Hc0; cbn [fold_left]; [apply prel_refl|].
      assert (Hs : prel n s0 (extract_step n pe s0 plr)).
      { unfold extract_step. destruct pe; [apply (do_get_prel n HN GEq); exact Hc0|].
        pose proof (do_get_prel n HN GCanDot (fst plr) s0 Hc0) as K1. cbn [do_get] in K1.
        destruct (g_can_dot n s0 (fst plr)) as [sa cd]. cbn [fst] in K1.
        pose proof (prel_chok n _ _ K1 Hc0) as Hca.
        destruct (negb cd); [eapply prel_trans; [exact K1|apply (do_get_prel n HN GEq); exact Hca]|].
        pose proof (do_get_prel n HN GTdAxes (fst plr) sa Hca) as K2. cbn [do_get] in K2.
        eapply prel_trans; [exact K1|]. eapply prel_trans; [exact K2|].
        apply (do_get_prel n HN GTdPerm). apply (prel_chok n _ _ K2 Hca). }
      eapply prel_trans; [exact Hs|apply IHL, (prel_chok n _ _ Hs Hc0)]. }
    apply (PP_prel n s1); [exact Q1|apply Hx, (InvC_chok n s1 I1)]. }
  assert (Q3 : PP n s) by (apply (PP_prel n s2); [exact Q2|apply crel_prel, H3]).
  assert (Hpp : preproc_complete_b n s = true).
  { apply PP_complete; [exact Q3|]. intros k Hk. apply (C3 He). apply in_seq. lia. }
  assert (Ec : children s = children s1).
  { destruct (crel_srel n _ _ H3) as (_&E1&_). destruct M2 as (_&E2&_). congruence. }
  split; [exact I3|]. split; [exact A3|]. split; [exact P3|]. split; [exact Q3|]. split; [exact Hpp|].
  intros p l' r' E. rewrite Ec in E. specialize (Hn2 _ (nget_In _ _ _ E)). cbn [fst] in Hn2.
  apply existsb_exists in Hn2. destruct Hn2 as (e & Hin & Heq). apply node_eqb_eq in Heq.
  rewrite <- Heq. apply (mrl_filled n s2 s _ _ _ M3). apply (F2 He2 e l' r' Hin). rewrite Heq. exact E.
Qed.
Lemma ready_core s1 pe nodes l r : wf_net_b n = true -> QP n s1 -> PBe s1 ->
  let s := extract_all n pe nodes s1 in
  nodes_ok_b s1 nodes = true -> sorted_keys_b s = true -> err s = false ->
  tree_of (tfuel s) (children s) (seq 0 N) = Some (Node l r) ->
  contractible_b n s (Node l r) = true /\ PB s.
Proof.
  intros Hwf HQ P1 s Hnodes Hsorted He Ht.
  destruct (end_state_facts s1 pe nodes HQ P1 Hnodes He) as (I3 & A3 & P3 & _ & Hpp & Hf). fold s in I3, A3, P3, Hpp, Hf.
  split; [|exact P3]. apply (ready_state n HN s I3 A3 Hsorted Hf); assumption.
Qed.

Theorem checked_history_ready2 tr pe nodes l r :
  wf_net_b n = true ->
  preA_trace_b n tr (init_state n) = true -> tail_ok_b tr = true ->
  let s1 := run n tr (init_state n) in
  let s := extract_all n pe nodes s1 in
  nodes_ok_b s1 nodes = true -> sorted_keys_b s = true -> err s = false ->
  tree_of (tfuel s) (children s) (seq 0 N) = Some (Node l r) ->
  contractible_b n s (Node l r) = true /\ PB s.
Proof.
  intros Hwf Hpre Htail s1 s Hnodes Hsorted He Ht.
  apply (ready_core s1 pe nodes l r Hwf); try assumption.
  - apply (run_preserves_QP n HN Hout tr (init_state n) (init_state_QP n HN) (preA_trace_b_sound n Hout tr _ Hpre)).
  - unfold s1. rewrite <- (rev_involutive tr). apply tail_PBe; try assumption; [rewrite rev_involutive; exact Hpre].
Qed.
End Ready2.

Theorem checked_history_value2 n tr pe nodes l r arr e0 :
  2 <= NN n -> wf_net_b n = true ->
  preA_trace_b n tr (init_state n) = true -> tail_ok_b tr = true ->
  let s := extract_all n pe nodes (run n tr (init_state n)) in
  nodes_ok_b (run n tr (init_state n)) nodes = true -> sorted_keys_b s = true ->
  err s = false -> tree_of (tfuel s) (children s) (seq 0 (NN n)) = Some (Node l r) ->
  forall e, agree_removed (sliced s) e0 e ->
  srun_root n s arr e0 (Node l r) (map e (filter (fun j => negb (memb j (removed (sliced s)))) (output n)))
  = einsum_spec n (sliced s) arr e.
Proof.
  intros HN Hwf Hpre Htail s Hnodes Hsorted He Ht.
  assert (Hout : NoDup (output n)) by apply (wf_net_b_sound n Hwf).
  apply state_value. apply (checked_history_ready2 n HN Hout tr pe nodes l r Hwf Hpre Htail Hnodes Hsorted He Ht).
Qed.

(* EdgeBridgeFacts.v -- the ssa path the C10 model of edge_path_to_ssa emits (Model/Paths.v,
   proved valid in Proofs/PathsEdge.v) is a valid prefix in the sense of C05's checker, so
   from_path_ssa_complete applies to it *)
From Coq Require Import Lia Permutation.
From Ctg Require Import Base Net PathValid BaseFacts PathValidFacts SsaLinearFacts.
From Ctg Require Paths PathsFacts PathsEdge.

(* C10's valid_ssa (a Prop) implies C05's executable ssa_run *)
Lemma valid_ssa_run : forall p avail nxt, PathsFacts.valid_ssa avail nxt p ->
  exists av nx, ssa_run any_len avail nxt p = Some (av, nx).
Proof.
  induction p as [|s p IH]; intros avail nxt H; cbn [ssa_run].
  - eauto.
  - cbn [PathsFacts.valid_ssa] in H. destruct H as (Hne & Hnd & Hin & Hrest).
    assert (E : ssa_step_ok any_len avail s = true).
    { unfold ssa_step_ok. rewrite (NoDup_nodup_b s Hnd).
      replace (any_len (length s)) with true by (destruct s; [congruence|reflexivity]). cbn [andb].
      apply forallb_forall. intros i Hi. apply memb_In. auto. }
    rewrite E. apply IH. exact Hrest.
Qed.

Theorem edge_path_ssa_prefix_valid inputs ep :
  ssa_path_prefix_valid (length inputs) (fst (Paths.edge_path_to_ssa ep inputs)) = true.
Proof.
  unfold ssa_path_prefix_valid.
  destruct (valid_ssa_run _ _ _ (PathsEdge.edge_path_valid_ssa inputs ep)) as (av & nx & E). now rewrite E.
Qed.

(* ContractionTree.from_path(edge_path=...) = from_path(ssa_path=edge_path_to_ssa(...)): for EVERY
   list of indices the tree built from the emitted ssa path (and completed) is a binary tree
   over exactly the inputs *)
Theorem edge_path_from_path_complete (sub : list nset -> path) inputs ep :
  (forall ls : list nset, 3 <= length ls -> binary_path_valid (length ls) (sub ls) = true) ->
  1 <= length inputs ->
  exists t, from_path_ssa sub (length inputs) (fst (Paths.edge_path_to_ssa ep inputs)) = Some t /\
            Permutation (leaves t) (seq 0 (length inputs)).
Proof.
  intros Hsub Hn.
  destruct (valid_ssa_run _ _ _ (PathsEdge.edge_path_valid_ssa inputs ep)) as (av & nx & E).
  exact (from_path_ssa_complete sub Hsub (length inputs) _ av nx Hn E).
Qed.

(* edge_path_to_linear = ssa_to_linear (edge_path_to_ssa ...): only existing positions *)
Theorem edge_path_linear_prefix_valid inputs ep :
  exists q, ssa_to_linear (length inputs) (fst (Paths.edge_path_to_ssa ep inputs)) = Some q /\
            linear_path_prefix_valid (length inputs) q = true.
Proof.
  destruct (valid_ssa_run _ _ _ (PathsEdge.edge_path_valid_ssa inputs ep)) as (av & nx & E).
  destruct (ssa_to_linear_valid _ _ _ _ E) as (q & Eq & R). exists q. split; [exact Eq|].
  unfold linear_path_prefix_valid. now rewrite R.
Qed.

(* SliceSum.v -- finite iterated sums over index assignments (the algebra of
   DESIGN.md Appendix A, restated over Base.ix) and the C06 theorem
   "sum over all assignments = sum over slice numbers of the sum over the rest". *)
From Coq Require Import Lia Permutation.
From Ctg Require Import Base Slice BaseFacts SliceFacts.
Local Open Scope Z_scope.

Definition env := ix -> nat.
Definition upd (e : env) (j : ix) (v : nat) : env := fun k => if Nat.eqb k j then v else e k.

Fixpoint sumn (n : nat) (f : nat -> Z) : Z :=
  match n with O => 0 | S m => sumn m f + f m end.

Lemma sumn_ext n f g : (forall v, (v < n)%nat -> f v = g v) -> sumn n f = sumn n g.
Proof. induction n as [|n IH]; cbn; intros H; [reflexivity|]. rewrite IH, H by (intros; try apply H; lia). reflexivity. Qed.
Lemma sumn_add n f g : sumn n f + sumn n g = sumn n (fun v => f v + g v).
Proof. induction n as [|n IH]; cbn; [lia|]. rewrite <- IH. lia. Qed.
Lemma sumn_zero n : sumn n (fun _ => 0) = 0.
Proof. induction n; cbn; lia. Qed.
Lemma sumn_swap n m (f : nat -> nat -> Z) :
  sumn n (fun a => sumn m (fun b => f a b)) = sumn m (fun b => sumn n (fun a => f a b)).
Proof.
  induction n as [|n IH]; cbn.
  - symmetry. apply sumn_zero.
  - rewrite IH. rewrite sumn_add. reflexivity.
Qed.
Lemma zsum_nil : zsum [] = 0.
Proof. reflexivity. Qed.
Lemma sumn_zsum n f : sumn n f = zsum (map f (seq 0 n)).
Proof.
  induction n as [|n IH]; [reflexivity|]. cbn [sumn]. rewrite seq_S, map_app, zsum_app, IH.
  cbn [map Nat.add]. rewrite zsum_cons, zsum_nil. lia.
Qed.

Section S.
Variable size : ix -> nat.

Fixpoint sum_over (js : list ix) (e : env) (F : env -> Z) : Z :=
  match js with
  | [] => F e
  | j :: js' => sumn (size j) (fun v => sum_over js' (upd e j v) F)
  end.

Definition env_eq (e1 e2 : env) := forall k, e1 k = e2 k.
Definition respects (F : env -> Z) := forall e1 e2, env_eq e1 e2 -> F e1 = F e2.

Lemma sum_over_ext js : forall e F G, (forall e', F e' = G e') -> sum_over js e F = sum_over js e G.
Proof. induction js as [|j js IH]; cbn; intros e F G H; [apply H|]. apply sumn_ext; intros; apply IH, H. Qed.

Lemma sum_over_env js : forall e1 e2 F, respects F -> env_eq e1 e2 -> sum_over js e1 F = sum_over js e2 F.
Proof.
  induction js as [|j js IH]; cbn; intros e1 e2 F HF He; [apply HF, He|].
  apply sumn_ext; intros v _. apply IH; [exact HF|]. intros k. unfold upd. destruct (Nat.eqb k j); auto.
Qed.

Lemma upd_comm e a b va vb : a <> b -> env_eq (upd (upd e a va) b vb) (upd (upd e b vb) a va).
Proof. intros H k. unfold upd. destruct (Nat.eqb_spec k b), (Nat.eqb_spec k a); subst; congruence. Qed.

Lemma sum_over_swap a b js e F : respects F -> a <> b ->
  sum_over (a :: b :: js) e F = sum_over (b :: a :: js) e F.
Proof.
  intros HF Hab. cbn. rewrite sumn_swap. apply sumn_ext; intros vb _. apply sumn_ext; intros va _.
  apply sum_over_env; [exact HF|]. apply upd_comm, Hab.
Qed.

Lemma sum_over_perm js js' : Permutation js js' -> NoDup js -> forall e F, respects F ->
  sum_over js e F = sum_over js' e F.
Proof.
  induction 1 as [| x l l' HP IH | x y l | l l' l'' HP1 IH1 HP2 IH2]; intros ND e F HF.
  - reflexivity.
  - cbn. inversion ND; subst. apply sumn_ext; intros; apply IH; assumption.
  - inversion ND as [|? ? Hnin ND']; subst. apply sum_over_swap; [exact HF|]. intros ->. apply Hnin. left; reflexivity.
  - rewrite IH1 by assumption. apply IH2; [|exact HF]. eapply Permutation_NoDup; eassumption.
Qed.

Lemma sum_over_app js1 : forall js2 e F,
  sum_over (js1 ++ js2) e F = sum_over js1 e (fun e' => sum_over js2 e' F).
Proof. induction js1 as [|j js1 IH]; cbn; intros; [reflexivity|]. apply sumn_ext; intros; apply IH. Qed.

(* ---- sums over the combinations of the sliced indices -------------------- *)
(* the value a slice key gives to the indices it mentions *)
Fixpoint apply_key (e : env) (k : skey) : env :=
  match k with [] => e | (j, v) :: k' => apply_key (upd e j v) k' end.

(* sum over the sliced ranges: range(size) for a sliced index, the single chosen value for
   a projected one *)
Fixpoint sum_keys (sl : list sinfo) (e : env) (F : env -> Z) : Z :=
  match sl with
  | [] => F e
  | s :: sl' => zsum (map (fun v => sum_keys sl' (upd e (si_ind s) v) F) (sliced_range s))
  end.

Lemma zsum_flat_map {A} (g : A -> list Z) l : zsum (flat_map g l) = zsum (map (fun x => zsum (g x)) l).
Proof. induction l as [|x l IH]; cbn [flat_map map]; [reflexivity|]. rewrite zsum_app, zsum_cons, IH. reflexivity. Qed.

Lemma sum_all_keys sl : forall e F,
  zsum (map (fun k => F (apply_key e k)) (all_keys sl)) = sum_keys sl e F.
Proof.
  induction sl as [|s sl IH]; intros e F; cbn [all_keys sum_keys].
  - cbn [map apply_key]. rewrite zsum_cons, zsum_nil. lia.
  - rewrite map_flat_map, zsum_flat_map. f_equal. apply map_ext. intros v.
    rewrite map_map. cbn [apply_key]. apply IH.
Qed.

(* sum over slice numbers = sum over the sliced ranges (projection included) *)
Lemma sum_over_slice_numbers sl e F : wf_sl sl ->
  zsum (map (fun i => F (apply_key e (slice_key sl i))) (seq 0 (total sl))) = sum_keys sl e F.
Proof.
  intros Hwf. rewrite <- sum_all_keys, <- (slice_keys_enumeration sl Hwf), map_map. reflexivity.
Qed.

(* for sliced (not projected) indices whose SliceInfo.size is the size of the index,
   sum_keys is the plain iterated sum *)
Definition plain (sl : list sinfo) : Prop :=
  Forall (fun s => si_proj s = None /\ si_size s = size (si_ind s)) sl.

Lemma sum_keys_plain sl : plain sl -> forall e F, sum_keys sl e F = sum_over (map si_ind sl) e F.
Proof.
  induction 1 as [|s sl [Hp Hs] _ IH]; intros e F; [reflexivity|].
  cbn [sum_keys map sum_over]. unfold sliced_range. rewrite Hp, Hs, sumn_zsum. f_equal.
  apply map_ext. intros v. apply IH.
Qed.

(* sum_of_slices: summing F over all assignments of the indices js equals summing, over the
   slice numbers, the sum over the remaining (unsliced) indices with the sliced ones fixed
   by the slice key *)
Theorem sum_of_slices js sl rest e F :
  wf_sl sl -> plain sl -> NoDup js -> Permutation js (map si_ind sl ++ rest) -> respects F ->
  sum_over js e F =
  zsum (map (fun i => sum_over rest (apply_key e (slice_key sl i)) F) (seq 0 (total sl))).
Proof.
  intros Hwf Hpl Hnd HP HF.
  rewrite (sum_over_perm _ _ HP Hnd e F HF), sum_over_app.
  rewrite <- (sum_keys_plain sl Hpl), <- (sum_over_slice_numbers sl e _ Hwf). reflexivity.
Qed.

(* a projected index contributes exactly its chosen value *)
Lemma sum_keys_projected s sl e F p : si_proj s = Some p ->
  sum_keys (s :: sl) e F = sum_keys sl (upd e (si_ind s) p) F.
Proof. intros H. cbn [sum_keys]. unfold sliced_range. rewrite H. cbn [map]. rewrite zsum_cons, zsum_nil. lia. Qed.

End S.

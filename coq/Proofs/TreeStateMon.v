(* TreeStateMon.v -- soundness of the executable preconditions of Model/TreeStatePre.v:
   prim_pre_b n p s = true -> prim_pre n p s, hence pre_trace_b -> pre_trace, i.e. the monitor that
   the harness runs on every recorded trace certifies the hypotheses of C04_trace_from_fresh_tree_partial
   (for traces made of covered primitives). *)
From Coq Require Import Lia ZifyBool Permutation.
From Ctg Require Import Base Net BaseFacts NetFacts TreeState TreeStateFacts TreeStateInv TreeStatePre.

Lemma nodupb_sound l : nodupb l = true -> NoDup l.
Proof.
  induction l as [|x l IH]; cbn; intros H; [constructor|]. apply andb_true_iff in H. destruct H as [H1 H2].
  constructor; [apply memb_false, negb_true_iff, H1|apply IH, H2].
Qed.
Lemma nremove1_perm x : forall b b', nremove1 x b = Some b' -> Permutation b (x :: b').
Proof.
  induction b as [|y b IH]; cbn; intros b' H; [discriminate|].
  destruct (node_eqb x y) eqn:E.
  - apply node_eqb_eq in E. subst. injection H as <-. reflexivity.
  - destruct (nremove1 x b) as [r|]; [|discriminate]. injection H as <-. rewrite (IH r eq_refl). apply perm_swap.
Qed.
Lemma npermb_sound a : forall b, npermb a b = true -> Permutation a b.
Proof.
  induction a as [|x a IH]; intros b; cbn.
  - destruct b; [constructor|discriminate].
  - destruct (nremove1 x b) as [b'|] eqn:E; [|discriminate]. intros H.
    rewrite (nremove1_perm x b b' E). constructor. apply IH, H.
Qed.
Lemma nmem_true {V} k (d : list (node * V)) : nmem k d = true <-> nget k d <> None.
Proof. unfold nmem. destruct (nget k d); split; congruence. Qed.
Lemma nmem_false {V} k (d : list (node * V)) : nmem k d = false <-> nget k d = None.
Proof. unfold nmem. destruct (nget k d); split; congruence. Qed.

Section S.
Variable n : net.
Notation N := (NN n).
Hypothesis Hout : NoDup (output n).

Lemma good_node_b_sound nd : good_node_b n nd = true -> good_node n nd.
Proof.
  unfold good_node_b. intros H. apply andb_true_iff in H. destruct H as [H H3]. apply andb_true_iff in H. destruct H as [H1 H2].
  split; [split; [apply nodupb_sound, H1|]|].
  - rewrite forallb_forall in H2. intros k Hk. specialize (H2 k Hk). lia.
  - intros ->. discriminate.
Qed.
Lemma wfl_b_sound d : wfl_b d = true -> wfl d.
Proof.
  unfold wfl_b. intros H. apply andb_true_iff in H. destruct H as [H1 H2]. split; [apply nodupb_sound, H1|].
  rewrite forallb_forall in H2. intros kv Hkv. specialize (H2 kv Hkv). lia.
Qed.
Lemma spec_pos_universe sl nd j : 0 < spec_count n sl nd j -> In j (universe n).
Proof.
  unfold spec_count. intros H. apply (cnt_pos_in_universe n sl nd j).
  destruct (cnt n sl nd j <? appear n j); lia.
Qed.
Lemma NoDup_universe : NoDup (universe n).
Proof. apply NoDup_nodup. Qed.

Lemma legs_ok_b_sound sl nd lg : legs_ok_b n sl nd lg = true -> legs_ok n sl nd lg.
Proof.
  unfold legs_ok_b, legs_ok. destruct (Nat.eqb (length nd) N).
  - intros H. apply andb_true_iff in H. destruct H as [H1 H2]. split; [apply nodupb_sound, H1|].
    rewrite forallb_forall in H2. intros j.
    destruct (in_dec Nat.eq_dec j (lkeys lg ++ lkeys (root_legs n sl))) as [Hin|Hn].
    + apply opt_nat_eqb_eq, H2, Hin.
    + rewrite in_app_iff in Hn. rewrite !lget_none_notin by tauto. reflexivity.
  - intros H. apply andb_true_iff in H. destruct H as [H1 H2]. pose proof (wfl_b_sound lg H1) as W.
    split; [exact W|]. rewrite forallb_forall in H2. intros j.
    destruct (in_dec Nat.eq_dec j (lkeys lg ++ universe n)) as [Hin|Hn].
    + apply Nat.eqb_eq, H2, Hin.
    + rewrite in_app_iff in Hn. rewrite (lget0_notin j lg) by tauto.
      destruct (spec_count n sl nd j) eqn:E; [reflexivity|]. exfalso. apply Hn. right. apply (spec_pos_universe sl nd j). lia.
Qed.
(* the canonical key lists carry the right products *)
Lemma spec_keys_size sl nd lg : legs_ok n sl nd lg ->
  size_of (szd n) (lkeys lg) = size_of (szd n) (spec_keys n sl nd).
Proof.
  unfold legs_ok, spec_keys. destruct (Nat.eqb (length nd) N).
  - intros [ND G]. apply size_of_same_set; [exact ND| |].
    + unfold root_legs, lkeys. rewrite map_map. cbn. rewrite map_id. apply NoDup_filter, Hout.
    + intros j. rewrite <- !lget_in_keys, G. tauto.
  - intros [W G]. apply size_of_same_set; [apply W|apply NoDup_filter, NoDup_universe|].
    intros j. rewrite (wfl_key_pos j lg W), G, filter_In. split.
    + intros H. split; [apply (spec_pos_universe sl nd j H)|]. lia.
    + intros [_ H]. lia.
Qed.

Lemma inv_keys_size sl l r inv : inv_ok n sl l r inv ->
  size_of (szd n) (lkeys inv) = size_of (szd n) (inv_keys n sl l r).
Proof.
  intros [W G]. unfold inv_keys. apply size_of_same_set; [apply W|apply NoDup_filter, NoDup_universe|].
  intros j. rewrite (wfl_key_pos j inv W), G, filter_In. split.
  - intros H. split; [|lia]. destruct (spec_count n sl l j) eqn:E; [apply (spec_pos_universe sl r j); lia|apply (spec_pos_universe sl l j); lia].
  - intros [_ H]. lia.
Qed.

Lemma pair_pre_b_sound s x y lg c z : pair_pre_b n s x y lg c z = true -> pair_pre n s x y lg c z.
Proof.
  unfold pair_pre_b, pair_pre. intros H.
  do 6 (apply andb_true_iff in H; destruct H as [H ?]).
  rename H0 into Hz, H1 into Hc, H2 into Hl, H3 into Hnone, H4 into Hnd, H5 into Gy.
  pose proof (good_node_b_sound x H) as Gx'. pose proof (good_node_b_sound y Gy) as Gy'.
  split; [exact Gx'|]. split; [exact Gy'|]. split.
  - split; [apply nodupb_sound, Hnd|]. intros k Hk. apply in_app_iff in Hk. destruct Hk as [Hk|Hk]; [apply Gx', Hk|apply Gy', Hk].
  - split; [apply nmem_false, negb_true_iff, Hnone|]. split; [|split].
    + intros l ->. apply legs_ok_b_sound, Hl.
    + intros c' -> inv Hinv. cbn [optb] in Hc. apply Z.eqb_eq in Hc. rewrite Hc. symmetry. apply inv_keys_size, Hinv.
    + intros z' -> lg' Hlg'. cbn [optb] in Hz. apply Z.eqb_eq in Hz. rewrite Hz. symmetry. apply spec_keys_size, Hlg'.
Qed.

Lemma stats_pre_b_sound f s : stats_pre_b n f s = true -> stats_pre n f s.
Proof.
  unfold stats_pre_b, stats_pre. intros H Hc. rewrite Hc in H.
  destruct (traverse n s) as [nodes|]; [|discriminate]. apply andb_true_iff in H. destruct H as [H1 H2].
  exists nodes. split; [reflexivity|]. split; [apply npermb_sound, H1|].
  rewrite forallb_forall in H2. intros p Hp. unfold nkeys in Hp. apply in_map_iff in Hp. destruct Hp as (c & <- & Hc').
  apply nmem_true, H2, Hc'.
Qed.
Lemma flops_pre_b_sound s nd : flops_pre_b s nd = true -> flops_pre s nd.
Proof.
  unfold flops_pre_b, flops_pre. intros H. apply orb_true_iff in H. destruct H as [H|H].
  - apply orb_true_iff in H. destruct H as [H|H]; [left; apply Nat.eqb_eq, H|right; left; apply nmem_true, H].
  - right. right. destruct (rd i_flops s nd); [discriminate|discriminate].
Qed.
Lemma fullinfo_b_sound ind i : fullinfo_b ind i = true -> fullinfo ind i.
Proof.
  unfold fullinfo_b, fullinfo. destruct (i_involved i) as [inv|]; [|discriminate]. destruct (i_flops i) as [zf|]; [|discriminate].
  destruct (i_legs i) as [lg|]; [|discriminate]. destruct (i_size i) as [zs|]; [|discriminate].
  intros H. exists inv, zf, lg, zs. repeat split; try reflexivity. intros Hl. rewrite Hl in H. exact H.
Qed.
Lemma populate_m_eq s : populate_m n s = populate n s.
Proof. reflexivity. Qed.
Lemma rm_pre_b_sound ind s : rm_pre_b n ind s = true -> rm_pre n ind s.
Proof.
  unfold rm_pre_b, rm_pre. intros H. do 3 (apply andb_true_iff in H; destruct H as [H ?]).
  rename H0 into Hall, H1 into Hpos, H2 into Hst.
  split; [apply memb_false, negb_true_iff, H|]. split; [apply stats_pre_b_sound, Hst|]. split; [lia|].
  rewrite populate_m_eq in Hall. rewrite forallb_forall in Hall. intros nd i Hi.
  specialize (Hall (nd, i) (nget_In _ _ _ Hi)). cbn [fst snd] in Hall. apply andb_true_iff in Hall. destruct Hall as [A B].
  split.
  - apply orb_true_iff in A. destruct A as [A|A]; [left; apply Nat.eqb_eq, A|right; apply nget_in_keys, nmem_true, A].
  - intros E1. apply orb_true_iff in B. destruct B as [B|B]; [apply Nat.eqb_eq in B; contradiction|apply fullinfo_b_sound, B].
Qed.

Lemma vof_b_sound P nd : vof_b P nd = true -> Vof P nd.
Proof.
  unfold vof_b, Vof. intros H. apply orb_true_iff in H. destruct H as [H|H]; [left; apply Nat.eqb_eq, H|right].
  apply existsb_exists in H. destruct H as (x & Hx & E). apply node_eqb_eq in E. subst. exact Hx.
Qed.
Lemma children_first_b_sound nodes : forall P, children_first_b P nodes = true -> children_first P nodes.
Proof.
  induction nodes as [|[p [l r]] nodes IH]; intros P H; cbn in *; [exact I|].
  apply andb_true_iff in H. destruct H as [H H3]. apply andb_true_iff in H. destruct H as [H1 H2].
  split; [apply vof_b_sound, H1|]. split; [apply vof_b_sound, H2|apply IH, H3].
Qed.
Lemma rs_pre_b_sound ind s : rs_pre_b n ind s = true -> rs_pre n ind s.
Proof.
  unfold rs_pre_b, rs_pre. intros H. do 10 (apply andb_true_iff in H; destruct H as [H ?]).
  rename H0 into Hfull, H1 into Hki, H2 into Hu, H3 into Htr, H4 into Hinc, H5 into Hpos, H6 into Ts, H7 into Tw, H8 into Tf, H9 into Hnd.
  split; [apply memb_In, H|]. split; [apply nodupb_sound, Hnd|]. split; [exact Tf|]. split; [exact Tw|]. split; [exact Ts|].
  split; [lia|]. split.
  { rewrite forallb_forall in Hinc. intros j Hj. apply memb_In, Hinc, Hj. }
  split.
  { destruct (traverse n s) as [nodes|]; [|discriminate]. apply andb_true_iff in Htr. destruct Htr as [A B].
    exists nodes. split; [reflexivity|]. split; [apply npermb_sound, A|apply children_first_b_sound, B]. }
  split.
  { rewrite forallb_forall in Hu. intros p l r E. specialize (Hu (p, (l, r)) (nget_In _ _ _ E)). apply node_eqb_eq, Hu. }
  split.
  { rewrite forallb_forall in Hki. intros q Hq. unfold nkeys in Hq. apply in_map_iff in Hq. destruct Hq as (c & <- & Hc).
    apply nmem_true, Hki, Hc. }
  rewrite forallb_forall in Hfull. intros nd i Hi Hl. specialize (Hfull (nd, i) (nget_In _ _ _ Hi)). cbn [fst snd] in Hfull.
  apply orb_true_iff in Hfull. destruct Hfull as [E|E]; [apply Nat.eqb_eq in E; contradiction|].
  apply nget_in_keys, nmem_true, E.
Qed.

Theorem prim_pre_b_sound p s : prim_pre_b n p s = true -> prim_pre n p s.
Proof.
  destruct p as [nd|nd|x y lg c z|g nd|f| | | | | |pr a b c|ind pj|ind| |k]; cbn [prim_pre_b prim_pre prim_preN prim_pre1 prim_pre0]; intros H; try exact I; try exact H.
  - apply good_node_b_sound, H.
  - apply orb_true_iff in H. destruct H as [H|H]; [left; apply Nat.eqb_eq, H|right].
    apply andb_true_iff in H. destruct H as [H1 H2]. split; [apply nget_in_keys, nmem_true, H1|apply nmem_true, H2].
  - apply pair_pre_b_sound, H.
  - destruct g; try (apply good_node_b_sound, H).
    apply andb_true_iff in H. destruct H as [H1 H2]. split; [apply good_node_b_sound, H1|apply flops_pre_b_sound, H2].
  - apply stats_pre_b_sound, H.
  - apply rm_pre_b_sound, H.
  - apply rs_pre_b_sound, H.
Qed.
Theorem pre_trace_b_sound tr : forall s, pre_trace_b n tr s = true -> pre_trace n (prim_pre n) tr s.
Proof.
  induction tr as [|p tr IH]; intros s H; cbn in *; [exact I|].
  apply andb_true_iff in H. destruct H as [H1 H2]. split; [apply prim_pre_b_sound, H1|apply IH, H2].
Qed.
(* the monitor: no code 2 means every COVERED primitive met its precondition *)
Lemma mon_code_sound p s : mon_code n p s = 1 -> prim_pre n p s.
Proof.
  unfold mon_code. destruct (covered p s); [|discriminate]. destruct (prim_pre_b n p s) eqn:E; [|discriminate].
  intros _. apply prim_pre_b_sound, E.
Qed.
End S.

Theorem checked_trace_from_fresh n : 2 <= NN n -> NoDup (output n) ->
  forall tr, pre_trace_b n tr (init_state n) = true -> InvC n (run n tr (init_state n)).
Proof. intros HN Hout tr H. apply (trace_from_fresh_InvC n HN Hout), (pre_trace_b_sound n Hout), H. Qed.

(* the second sentence of C04, for histories certified by the boolean precondition check: two such
   histories that end with the same tree (up to the order of children / dict entries) and the same
   sliced / projected indices (in any order) report the same figures and totals *)
Theorem roundtrip_checked n : 2 <= NN n -> NoDup (output n) ->
  forall tr1 tr2, pre_trace_b n tr1 (init_state n) = true -> pre_trace_b n tr2 (init_state n) = true ->
  let s1 := run n tr1 (init_state n) in let s2 := run n tr2 (init_state n) in
  ch_equiv (children s1) (children s2) -> Permutation (sliced s1) (sliced s2) ->
  (forall nd i1 i2, nget nd (info s1) = Some i1 -> nget nd (info s2) = Some i2 ->
     (forall z1 z2, i_size i1 = Some z1 -> i_size i2 = Some z2 -> z1 = z2) /\
     (forall z1 z2, i_flops i1 = Some z1 -> i_flops i2 = Some z2 -> z1 = z2) /\
     (forall l1 l2, i_legs i1 = Some l1 -> i_legs i2 = Some l2 ->
        size_of (szd n) (lkeys l1) = size_of (szd n) (lkeys l2) /\ forall j, In j (lkeys l1) <-> In j (lkeys l2))) /\
  ((forall p, In p (nkeys (children s1)) -> nget p (info s1) <> None /\ nget p (info s2) <> None) ->
   (trk_flops s1 = true -> trk_flops s2 = true -> flops_ s1 = flops_ s2) /\
   (trk_write s1 = true -> trk_write s2 = true -> write_ s1 = write_ s2) /\
   mult s1 = mult s2).
Proof.
  intros HN Hout tr1 tr2 H1 H2 s1 s2 Heq HP.
  pose proof (checked_trace_from_fresh n HN Hout tr1 H1) as I1. pose proof (checked_trace_from_fresh n HN Hout tr2 H2) as I2.
  fold s1 in I1. fold s2 in I2. split.
  - apply (figures_determined_eq n HN Hout s1 s2 I1 I2 Heq). intros j. unfold removed.
    split; apply Permutation_in; [|apply Permutation_sym]; apply Permutation_map, HP.
  - intros Hpres. apply (totals_determined_eq n HN Hout s1 s2 I1 I2 Heq HP Hpres).
Qed.

(* TreeStateValue.v -- C02's semantic step without hypotheses about C01: a state that passes
   [contractible_b] contracts (einsum path, the axis orders cached in the state, whatever
   sort_contraction_indices made of them) to the mathematical einsum of the sliced /
   projected network, in the declared output order.  Uses ProgramFacts.run_root_g_correct. *)
From Coq Require Import Lia Permutation.
From Ctg Require Import Base Net Einsum Program BaseFacts NetFacts SumOver TreeEval ProgramFacts
                        TreeState TreeStateProg.
Open Scope Z_scope.

Lemma list_eqb_nat_eq a : forall b, list_eqb Nat.eqb a b = true -> a = b.
Proof.
  induction a as [|x a IH]; intros [|y b]; cbn; try congruence.
  intros H. apply andb_true_iff in H. destruct H as [H1 H2]. apply Nat.eqb_eq in H1. f_equal; auto.
Qed.
Lemma remove1_perm x : forall b b', remove1 x b = Some b' -> Permutation b (x :: b').
Proof.
  induction b as [|y b IH]; cbn; intros b' H; [discriminate|].
  destruct (Nat.eqb_spec x y) as [->|Hn].
  - injection H as <-. reflexivity.
  - destruct (remove1 x b) as [r|] eqn:E; [|discriminate]. injection H as <-.
    rewrite (IH r eq_refl). apply perm_swap.
Qed.
Lemma permb_sound a : forall b, permb a b = true -> Permutation a b.
Proof.
  induction a as [|x a IH]; intros b; cbn.
  - destruct b; [constructor|discriminate].
  - destruct (remove1 x b) as [b'|] eqn:E; [|discriminate]. intros H.
    rewrite (remove1_perm x b b' E). constructor. apply IH, H.
Qed.

Lemma tree_eqb_eq a : forall b, tree_eqb a b = true -> a = b.
Proof.
  induction a as [i|a1 IH1 a2 IH2]; intros [j|b1 b2]; cbn; try congruence.
  - intros H. apply Nat.eqb_eq in H. congruence.
  - intros H. apply andb_true_iff in H. destruct H as [H1 H2]. f_equal; auto.
Qed.

Section V.
Variable n : net.
Variable s : tstate.
Variable arr : nat -> ptensor.
Variable e0 : env.
Notation sl := (sliced s).

Lemma wf_net_b_sound : wf_net_b n = true -> wf_net n.
Proof.
  unfold wf_net_b, wf_net. intros H. apply andb_true_iff in H. destruct H as [H1 H2]. split.
  - apply nodup_b_sound, H1.
  - rewrite forallb_forall in H2. intros j Hj. apply memb_In, H2, Hj.
Qed.

(* with the orders of [orders_ok_b], reading the caches is Program.v's inds_g *)
Lemma cinds_is_inds_g t : orders_ok_b n s false t = true -> cinds s t = inds_g n sl (cinds s) t.
Proof.
  destruct t as [k|l r]; cbn [orders_ok_b inds_g]; [|reflexivity].
  unfold cinds, node_of. cbn [leaves]. change (nsort [k]) with [k].
  destruct (rd i_inds s [k]) as [x|]; [|discriminate]. intros H. apply list_eqb_nat_eq, H.
Qed.
Lemma orders_ok_sub t : orders_ok_b n s false t = true ->
  srun_sub n s arr e0 t = run_sub_g n sl arr e0 (cinds s) t.
Proof.
  induction t as [k|l IHl r IHr]; intros H; [reflexivity|].
  cbn [srun_sub run_sub_g].
  assert (H' := H). cbn [orders_ok_b] in H'. apply andb_true_iff in H'. destruct H' as [H' Hr].
  apply andb_true_iff in H'. destruct H' as [_ Hl].
  rewrite (IHl Hl), (IHr Hr).
  rewrite <- (cinds_is_inds_g l Hl), <- (cinds_is_inds_g r Hr). reflexivity.
Qed.

Lemma contractible_tree t : contractible_b n s t = true ->
  tree_of (tfuel s) (children s) (seq 0 (NN n)) = Some t.
Proof.
  destruct t as [k|l r]; cbn [contractible_b]; [discriminate|]. intros H.
  repeat (apply andb_true_iff in H; destruct H as [H ?]).
  destruct (tree_of (tfuel s) (children s) (seq 0 (NN n))) as [t'|]; [|discriminate].
  f_equal. apply tree_eqb_eq. assumption.
Qed.

Theorem state_value l r : contractible_b n s (Node l r) = true ->
  forall e, agree_removed sl e0 e ->
  srun_root n s arr e0 (Node l r) (map e (filter (fun j => negb (memb j (removed sl))) (output n)))
  = einsum_spec n sl arr e.
Proof.
  unfold contractible_b. intros H e Ha.
  do 7 (apply andb_true_iff in H; destruct H as [H ?]).
  rename H0 into Herr, H1 into Hpre, H2 into Hadr, H3 into Hadl, H4 into Hord, H5 into Htree, H6 into Hfull.
  assert (Hord' := Hord). cbn [orders_ok_b] in Hord'.
  apply andb_true_iff in Hord'. destruct Hord' as [Hord' Hor].
  apply andb_true_iff in Hord'. destruct Hord' as [Hroot Hol].
  rewrite <- (out_inds_eq n sl).
  rewrite <- (run_root_g_correct n sl arr e0 (cinds s) l r (wf_net_b_sound H)
               (permb_sound _ _ Hfull) (admissible_b_sound _ _ _ _ Hadl) (admissible_b_sound _ _ _ _ Hadr) e Ha).
  unfold srun_root. cbn [srun_sub run_root_g].
  rewrite (orders_ok_sub l Hol), (orders_ok_sub r Hor).
  rewrite <- (cinds_is_inds_g l Hol), <- (cinds_is_inds_g r Hor).
  assert (Er : cinds s (Node l r) = lkeys (root_legs n sl)).
  { unfold cinds. destruct (rd i_inds s (node_of (Node l r))) as [x|]; [|discriminate].
    apply list_eqb_nat_eq, Hroot. }
  rewrite Er. reflexivity.
Qed.
End V.

(* the equation string cached on a node is the canonical renaming of the index triple the
   semantics above uses (so the einsum the real Contractor executes is that step) *)
Lemma eqb_triple_eq (a b : list nat * (list nat * list nat)) : eqb a b = true -> a = b.
Proof.
  destruct a as [a1 [a2 a3]], b as [b1 [b2 b3]].
  change (eqb (a1, (a2, a3)) (b1, (b2, b3)))
    with (list_eqb Nat.eqb a1 b1 && (list_eqb Nat.eqb a2 b2 && list_eqb Nat.eqb a3 b3)).
  intros H. apply andb_true_iff in H. destruct H as [H1 H]. apply andb_true_iff in H. destruct H as [H2 H3].
  apply list_eqb_nat_eq in H1. apply list_eqb_nat_eq in H2. apply list_eqb_nat_eq in H3. congruence.
Qed.
Lemma cached_equation_is_step n s l r i e x :
  recipe_inv_b n s = true ->
  In (node_of (Node l r), i) (info s) ->
  nget (node_of (Node l r)) (children s) = Some (node_of l, node_of r) ->
  rd i_inds s (node_of l) <> None -> rd i_inds s (node_of r) <> None ->
  i_inds i = Some x -> i_eq i = Some e ->
  e = einsum_eq_of (cinds s l) (cinds s r) x.
Proof.
  unfold recipe_inv_b. intros H Hin Hch Hl Hr Ex Ee.
  apply andb_true_iff in H. destruct H as [H _]. rewrite forallb_forall in H.
  specialize (H _ Hin). unfold node_recipe_ok_b in H. cbn [fst snd] in H.
  apply andb_true_iff in H. destruct H as [_ H]. rewrite Hch in H.
  unfold cinds. destruct (rd i_inds s (node_of l)) as [li|]; [|congruence].
  destruct (rd i_inds s (node_of r)) as [ri|]; [|congruence].
  apply andb_true_iff in H. destruct H as [H _]. apply andb_true_iff in H. destruct H as [_ H].
  rewrite Ex, Ee in H. cbn [optb] in H. apply andb_true_iff in H. destruct H as [H _].
  apply eqb_triple_eq, H.
Qed.

(* history form: after ANY primitive trace from ANY state, a state that passes the readiness
   check contracts to the einsum.  (The trace plays no role: readiness is decided on the state
   reached; that every reachable state of a complete tree IS ready after extract_contractions
   has run is observed per run, not proved.) *)
Theorem history_value_checked n tr s0 arr e0 l r :
  contractible_b n (run n tr s0) (Node l r) = true ->
  forall e, agree_removed (sliced (run n tr s0)) e0 e ->
  srun_root n (run n tr s0) arr e0 (Node l r)
     (map e (filter (fun j => negb (memb j (removed (sliced (run n tr s0))))) (output n)))
  = einsum_spec n (sliced (run n tr s0)) arr e.
Proof. apply state_value. Qed.

(* NetFacts.v -- the per-node figures of Model/Net.v equal their definition
   "from the network alone" (C03), for every network, tree and removed-index set. *)
From Coq Require Import Lia Permutation.
From Ctg Require Import Base Net BaseFacts.

Lemma map_nth_seq {A} (l : list A) d : map (fun k => nth k l d) (seq 0 (length l)) = l.
Proof.
  induction l as [|x l IH]; [reflexivity|].
  cbn [length seq map nth]. f_equal.
  rewrite <- seq_shift, map_map. exact IH.
Qed.

Lemma occ_app l1 l2 j : occ (l1 ++ l2) j = occ l1 j + occ l2 j.
Proof. unfold occ. apply count_occ_app. Qed.

Lemma occ_pos l j : In j l <-> 0 < occ l j.
Proof. unfold occ. apply count_occ_In. Qed.

Lemma occ_filter_le f l j : occ (filter f l) j <= occ l j.
Proof.
  unfold occ. induction l as [|x l IH]; cbn; [lia|].
  destruct (f x); cbn; destruct (Nat.eq_dec x j); lia.
Qed.

Lemma occ_filter f l j : occ (filter f l) j = if f j then occ l j else 0.
Proof.
  unfold occ. induction l as [|x l IH]; cbn; [destruct (f j); reflexivity|].
  destruct (Nat.eq_dec x j) as [->|H].
  - destruct (f j) eqn:E; cbn.
    + destruct (Nat.eq_dec j j); [|congruence]. rewrite IH. reflexivity.
    + exact IH.
  - destruct (f x); cbn; [destruct (Nat.eq_dec x j); [congruence|]|]; exact IH.
Qed.

Section Spec.
Variable n : net.
Variable sl : list slinfo.

Notation T := (term_sl n sl).
Notation appear := (appear n).
Notation NN := (NN n).

(* how many times index j occurs on the (sliced) terms of the leaves in S *)
Fixpoint cnt (S : list nat) (j : ix) : nat :=
  match S with [] => 0 | k :: S' => occ (T k) j + cnt S' j end.
Fixpoint cnt_raw (S : list nat) (j : ix) : nat :=
  match S with [] => 0 | k :: S' => occ (nth k (inputs n) []) j + cnt_raw S' j end.

Definition inrange (S : list nat) := NoDup S /\ forall k, In k S -> k < NN.

Lemma appear_occ j : appear j = occ (concat (inputs n)) j + occ (output n) j.
Proof.
  unfold Net.appear, appearances. rewrite fold_ladd1_get, occ_app. unfold lget0. cbn. lia.
Qed.

Lemma cnt_app S1 S2 j : cnt (S1 ++ S2) j = cnt S1 j + cnt S2 j.
Proof. induction S1 as [|k S1 IH]; cbn; [reflexivity|]. rewrite IH. lia. Qed.

Lemma cnt_le_raw S j : cnt S j <= cnt_raw S j.
Proof.
  induction S as [|k S IH]; cbn [cnt cnt_raw]; [lia|].
  assert (occ (T k) j <= occ (nth k (inputs n) []) j) by (unfold term_sl; apply occ_filter_le). lia.
Qed.

Lemma cnt_raw_perm S1 S2 j : Permutation S1 S2 -> cnt_raw S1 j = cnt_raw S2 j.
Proof. induction 1; cbn; lia. Qed.

Lemma cnt_raw_all j : cnt_raw (seq 0 NN) j = occ (concat (inputs n)) j.
Proof.
  unfold Net.NN.
  assert (G : forall S, cnt_raw S j = occ (concat (map (fun k => nth k (inputs n) []) S)) j).
  { induction S as [|k S IH]; cbn; [reflexivity|]. rewrite occ_app, IH. reflexivity. }
  rewrite G, map_nth_seq. reflexivity.
Qed.

Lemma cnt_raw_incl_le S : forall U j, NoDup S -> incl S U -> cnt_raw S j <= cnt_raw U j.
Proof.
  induction S as [|k S IH]; intros U j ND HI; cbn; [lia|].
  inversion ND as [|? ? Hnin ND']; subst.
  assert (Hk : In k U) by (apply HI; left; reflexivity).
  destruct (in_split _ _ Hk) as (l1 & l2 & ->).
  assert (HP : Permutation (l1 ++ k :: l2) (k :: l1 ++ l2)) by (symmetry; apply Permutation_middle).
  rewrite (cnt_raw_perm _ _ j HP). cbn.
  assert (Hincl : incl S (l1 ++ l2)).
  { intros x Hx. assert (Hx' : In x (l1 ++ k :: l2)) by (apply HI; right; exact Hx).
    apply in_app_iff in Hx'. apply in_app_iff. destruct Hx' as [H|[H|H]]; auto. subst. contradiction. }
  specialize (IH (l1 ++ l2) j ND' Hincl). lia.
Qed.

Lemma cnt_le_appear S j : inrange S -> cnt S j <= appear j.
Proof.
  intros [ND HR]. rewrite appear_occ, <- cnt_raw_all.
  pose proof (cnt_le_raw S j).
  assert (cnt_raw S j <= cnt_raw (seq 0 NN) j); [|lia].
  apply cnt_raw_incl_le; [exact ND|]. intros k Hk. apply in_seq. specialize (HR k Hk). lia.
Qed.

Lemma NoDup_app_elim {A} (a b : list A) : NoDup (a ++ b) -> NoDup a /\ NoDup b.
Proof.
  induction a as [|x a IH]; cbn; intros H; [split; [constructor|exact H]|].
  inversion H as [|? ? Hnin H']; subst. destruct (IH H') as [Ha Hb]. split; [|exact Hb].
  constructor; [|exact Ha]. intros Hin. apply Hnin, in_app_iff. left; exact Hin.
Qed.
Lemma inrange_app_l L R : inrange (L ++ R) -> inrange L.
Proof. intros [ND HR]. split; [apply (NoDup_app_elim _ _ ND)|]. intros k Hk. apply HR, in_app_iff; auto. Qed.
Lemma inrange_app_r L R : inrange (L ++ R) -> inrange R.
Proof. intros [ND HR]. split; [apply (NoDup_app_elim _ _ ND)|]. intros k Hk. apply HR, in_app_iff; auto. Qed.

(* ---- the definition from the network alone: the count an index carries on the
        intermediate holding exactly the leaves S (0 = not a leg) ---- *)
Definition spec_count (S : list nat) (j : ix) : nat :=
  if cnt S j <? appear j then cnt S j else 0.

(* leaf: both branches of compute_leaf_legs give the filtered dictionary *)
Lemma leaf_legs_get k j : k < NN ->
  lget0 j (leaf_legs n sl k) = spec_count [k] j.
Proof.
  intros Hk.
  assert (Hle : cnt [k] j <= appear j) by (apply cnt_le_appear; split; [repeat constructor; cbn; tauto|intros ? [<-|[]]; exact Hk]).
  unfold spec_count. cbn [cnt] in *. rewrite Nat.add_0_r in *.
  unfold leaf_legs.
  pose proof (wfl_legs_of_term (T k)) as [ND Hp].
  destruct (leaf_simplifiable n sl k) eqn:Es.
  - rewrite lget0_filter by exact ND.
    pose proof (legs_of_term_get (T k) j) as G. unfold lget0 in G.
    destruct (lget j (legs_of_term (T k))) as [v|] eqn:E.
    + subst v. cbn [fst snd].
      destruct (Nat.eqb_spec (occ (T k) j) (appear j)) as [Eq|Ne]; cbn [negb].
      * destruct (Nat.ltb_spec (occ (T k) j) (appear j)); [lia|reflexivity].
      * destruct (Nat.ltb_spec (occ (T k) j) (appear j)); [reflexivity|lia].
    + rewrite <- G. destruct (0 <? appear j); reflexivity.
  - rewrite legs_of_term_get.
    destruct (Nat.ltb_spec (occ (T k) j) (appear j)) as [|Hge]; [reflexivity|].
    (* count = appear: then either it is 0, or the term would be simplifiable *)
    destruct (Nat.eq_dec (occ (T k) j) 0) as [|Hnz]; [assumption|exfalso].
    unfold leaf_simplifiable in Es. apply orb_false_iff in Es. destruct Es as [_ Es].
    assert (Hex : existsb (fun kv => snd kv =? appear (fst kv)) (legs_of_term (T k)) = true); [|congruence].
    apply existsb_exists. exists (j, occ (T k) j). split.
    + pose proof (legs_of_term_get (T k) j) as G. unfold lget0 in G.
      destruct (lget j (legs_of_term (T k))) as [v|] eqn:E; [|lia]. subst v. apply lget_in, E.
    + cbn. apply Nat.eqb_eq. lia.
Qed.

Lemma wfl_leaf_legs k : wfl (leaf_legs n sl k).
Proof.
  unfold leaf_legs. destruct (leaf_simplifiable n sl k); [apply wfl_filter|]; apply wfl_legs_of_term.
Qed.

Theorem sub_legs_spec t : inrange (leaves t) ->
  wfl (sub_legs n sl t) /\ forall j, lget0 j (sub_legs n sl t) = spec_count (leaves t) j.
Proof.
  induction t as [k | l IHl r IHr]; intros HR.
  - cbn [sub_legs leaves]. split; [apply wfl_leaf_legs|].
    intros j. apply leaf_legs_get. apply HR. left; reflexivity.
  - cbn [sub_legs leaves] in *.
    destruct (IHl (inrange_app_l _ _ HR)) as [Wl Gl].
    destruct (IHr (inrange_app_r _ _ HR)) as [Wr Gr].
    assert (Wu : wfl (legs_union2 (sub_legs n sl l) (sub_legs n sl r))) by (apply wfl_legs_union2; [exact Wl|apply Wr]).
    split; [apply wfl_filter, Wu|].
    intros j. rewrite lget0_filter by apply Wu.
    pose proof (legs_union2_get (sub_legs n sl l) (sub_legs n sl r) j (proj1 Wr)) as G.
    rewrite Gl, Gr in G.
    pose proof (cnt_le_appear _ j HR) as Hle. rewrite cnt_app in Hle.
    unfold spec_count in *. rewrite cnt_app.
    unfold lget0 in G.
    destruct (Nat.ltb_spec (cnt (leaves l) j) (appear j)) as [Hl|Hl];
    destruct (Nat.ltb_spec (cnt (leaves r) j) (appear j)) as [Hr|Hr];
    destruct (lget j (legs_union2 (sub_legs n sl l) (sub_legs n sl r))) as [v|] eqn:E; cbn [fst snd];
    repeat match goal with |- context [?a <? ?b] => destruct (Nat.ltb_spec a b) end; lia.
Qed.

Corollary sub_legs_keys t j : inrange (leaves t) ->
  (In j (lkeys (sub_legs n sl t)) <-> 0 < cnt (leaves t) j < appear j).
Proof.
  intros HR. destruct (sub_legs_spec t HR) as [W G].
  rewrite (wfl_key_pos j _ W), G. unfold spec_count.
  destruct (Nat.ltb_spec (cnt (leaves t) j) (appear j)); lia.
Qed.

Corollary involved_spec l r j : inrange (leaves l ++ leaves r) ->
  lget0 j (involved n sl (Node l r)) = spec_count (leaves l) j + spec_count (leaves r) j.
Proof.
  intros HR. cbn [involved].
  destruct (sub_legs_spec l (inrange_app_l _ _ HR)) as [Wl Gl].
  destruct (sub_legs_spec r (inrange_app_r _ _ HR)) as [Wr Gr].
  rewrite legs_union2_get by apply Wr. rewrite Gl, Gr. reflexivity.
Qed.

Corollary involved_keys l r j : inrange (leaves l ++ leaves r) ->
  (In j (lkeys (involved n sl (Node l r))) <->
   0 < cnt (leaves l) j < appear j \/ 0 < cnt (leaves r) j < appear j).
Proof.
  intros HR. cbn [involved]. rewrite legs_union2_in.
  rewrite (sub_legs_keys l j (inrange_app_l _ _ HR)), (sub_legs_keys r j (inrange_app_r _ _ HR)). tauto.
Qed.

(* ---- sizes and flops as products over index SETS defined from the network ---- *)
Definition universe : list ix := nodup Nat.eq_dec (concat (inputs n)).
Definition live (S : list nat) (j : ix) : bool := (0 <? cnt S j) && (cnt S j <? appear j).
Definition surviving (S : list nat) : list ix := filter (live S) universe.
Definition involved_set (L R : list nat) : list ix := filter (fun j => live L j || live R j) universe.

Lemma cnt_pos_in_universe S j : 0 < cnt S j -> In j universe.
Proof.
  unfold universe. rewrite nodup_In. induction S as [|k S IH]; cbn; [lia|].
  intros H. destruct (Nat.eq_dec (occ (T k) j) 0) as [E|E]; [apply IH; lia|].
  assert (Hin : In j (T k)) by (apply occ_pos; lia).
  unfold term_sl in Hin. apply filter_In in Hin. destruct Hin as [Hin _].
  destruct (Nat.lt_ge_cases k (length (inputs n))) as [Hk|Hk].
  - apply in_concat. exists (nth k (inputs n) []). split; [apply nth_In, Hk|exact Hin].
  - rewrite nth_overflow in Hin by exact Hk. destruct Hin.
Qed.

Theorem node_size_spec t : inrange (leaves t) ->
  node_size n sl false t = size_of (szd n) (surviving (leaves t)).
Proof.
  intros HR. unfold node_size.
  assert (E : node_legs n sl false t = sub_legs n sl t) by (destruct t; reflexivity).
  rewrite E. apply size_of_same_set.
  - apply (sub_legs_spec t HR).
  - apply NoDup_filter, NoDup_nodup.
  - intros j. rewrite (sub_legs_keys t j HR). unfold surviving, live.
    rewrite filter_In, andb_true_iff, !Nat.ltb_lt. split; [|tauto].
    intros H. split; [apply (cnt_pos_in_universe (leaves t)); lia|exact H].
Qed.

Theorem node_flops_spec l r : inrange (leaves l ++ leaves r) ->
  node_flops n sl (Node l r) = size_of (szd n) (involved_set (leaves l) (leaves r)).
Proof.
  intros HR. unfold node_flops. apply size_of_same_set.
  - cbn [involved]. apply legs_union2_nodup. apply (sub_legs_spec l (inrange_app_l _ _ HR)).
  - apply NoDup_filter, NoDup_nodup.
  - intros j. rewrite (involved_keys l r j HR). unfold involved_set, live.
    rewrite filter_In, orb_true_iff, !andb_true_iff, !Nat.ltb_lt. split; [|tauto].
    intros H. split; [|exact H].
    destruct H as [H|H]; [apply (cnt_pos_in_universe (leaves l))|apply (cnt_pos_in_universe (leaves r))]; lia.
Qed.

(* the root rule (declared output minus removed indices) agrees, as a set, with the
   general definition applied to the whole leaf set, when the output is duplicate
   free and made of indices of the network *)
Theorem root_legs_agree j :
  NoDup (output n) -> incl (output n) (concat (inputs n)) ->
  (In j (lkeys (root_legs n sl)) <-> 0 < cnt (seq 0 NN) j < appear j).
Proof.
  intros ND Hincl.
  assert (Hc : cnt (seq 0 NN) j = if negb (memb j (removed sl)) then occ (concat (inputs n)) j else 0).
  { rewrite <- cnt_raw_all. generalize (seq 0 NN) as S.
    induction S as [|k S IH]; cbn; [destruct (negb _); reflexivity|].
    rewrite IH. unfold term_sl. rewrite occ_filter. destruct (negb (memb j (removed sl))); reflexivity. }
  rewrite Hc, appear_occ. unfold root_legs, lkeys. rewrite map_map. cbn [fst]. rewrite map_id.
  rewrite filter_In. split.
  - intros [Hout Hrm]. rewrite Hrm.
    assert (0 < occ (concat (inputs n)) j) by (apply occ_pos, Hincl, Hout).
    assert (0 < occ (output n) j) by (apply occ_pos, Hout). lia.
  - destruct (negb (memb j (removed sl))); [|lia]. intros H. split; [|reflexivity].
    apply occ_pos. lia.
Qed.

(* ---- totals ---- *)
Theorem total_flops_def t : total_flops n sl t =
  (multiplicity n sl * zsum (map (fun bt => node_flops n sl (snd bt)) (traverse_dfs t)))%Z.
Proof. reflexivity. Qed.

Theorem max_size_is_max l r :
  let t := Node l r in
  (forall bt, In bt (traverse_dfs t) -> (node_size n sl (fst bt) (snd bt) <= max_size n sl t)%Z) /\
  (max_size n sl t = 0%Z \/ exists bt, In bt (traverse_dfs t) /\ max_size n sl t = node_size n sl (fst bt) (snd bt)).
Proof.
  intros t. unfold max_size. split.
  - intros bt Hbt. apply zmax_list_ge. apply in_map_iff. exists bt. split; [reflexivity|exact Hbt].
  - destruct (zmax_list_attained (map (fun bt => node_size n sl (fst bt) (snd bt)) (traverse_dfs t)) 0%Z) as [E|H];
      [left; exact E|right].
    apply in_map_iff in H. destruct H as (bt & E & Hin). exists bt. split; [exact Hin|symmetry; exact E].
Qed.


(* every internal node of the tree is a Node whose leaves are in range *)
Lemma post_sub_inrange t : inrange (leaves t) -> forall t', In t' (post_sub t) ->
  exists l r, t' = Node l r /\ inrange (leaves l ++ leaves r).
Proof.
  induction t as [k|l IHl r IHr]; intros HR t'; cbn [post_sub]; [intros []|].
  rewrite !in_app_iff. cbn [leaves] in HR. intros [H|[H|[<-|[]]]].
  - apply IHl; [apply (inrange_app_l _ _ HR)|exact H].
  - apply IHr; [apply (inrange_app_r _ _ HR)|exact H].
  - exists l, r. split; [reflexivity|exact HR].
Qed.

Definition spec_flops (t : tree) : Z :=
  match t with Leaf _ => 0%Z | Node l r => size_of (szd n) (involved_set (leaves l) (leaves r)) end.

Lemma traverse_dfs_snd l r : map snd (traverse_dfs (Node l r)) = post_sub (Node l r).
Proof.
  cbn [traverse_dfs post_sub]. rewrite map_app, map_map. cbn [snd map]. rewrite map_id, app_assoc. reflexivity.
Qed.

Theorem total_flops_spec l r : inrange (leaves l ++ leaves r) ->
  total_flops n sl (Node l r) =
  (multiplicity n sl * zsum (map spec_flops (post_sub (Node l r))))%Z.
Proof.
  intros HR. unfold total_flops, sum_flops. f_equal. f_equal.
  rewrite <- traverse_dfs_snd, map_map. apply map_ext_in. intros [b t'] Hin. cbn [snd].
  assert (Hin' : In t' (post_sub (Node l r))).
  { rewrite <- traverse_dfs_snd. apply in_map_iff. exists (b, t'). split; [reflexivity|exact Hin]. }
  destruct (post_sub_inrange (Node l r) HR t' Hin') as (l' & r' & -> & HR').
  apply node_flops_spec, HR'.
Qed.

Theorem total_write_spec l r : inrange (leaves l ++ leaves r) ->
  total_write n sl (Node l r) =
  (multiplicity n sl *
   (zsum (map (fun t' => size_of (szd n) (surviving (leaves t'))) (post_sub l ++ post_sub r))
    + size_of (szd n) (lkeys (root_legs n sl))))%Z.
Proof.
  intros HR. unfold total_write, sum_write. f_equal. cbn [traverse_dfs].
  rewrite map_app, zsum_app. cbn [map fst snd]. rewrite zsum_cons. change (zsum []) with 0%Z.
  rewrite Z.add_0_r. f_equal.
  rewrite map_map. cbn [fst snd]. f_equal. apply map_ext_in. intros t' Hin.
  apply node_size_spec.
  assert (Hin' : In t' (post_sub (Node l r))) by (cbn [post_sub]; rewrite app_assoc, in_app_iff; left; exact Hin).
  destruct (post_sub_inrange (Node l r) HR t' Hin') as (l' & r' & -> & HR'). exact HR'.
Qed.

End Spec.

(* ---- removing one more index: every figure scales by exactly that dimension ---- *)
Section Slice.
Variable n : net.
Variable sl : list slinfo.
Variable x : ix.
Variable p : option nat.
Hypothesis fresh : ~ In x (removed sl).
Let sl' := sl ++ [mkSl x p].

Lemma removed_snoc : removed sl' = removed sl ++ [x].
Proof. unfold removed, sl'. rewrite map_app. reflexivity. Qed.

Lemma cnt_slice S j : cnt n sl' S j = if Nat.eqb j x then 0 else cnt n sl S j.
Proof.
  induction S as [|k S IH]; cbn [cnt]; [destruct (Nat.eqb j x); reflexivity|].
  rewrite IH. unfold term_sl. rewrite !occ_filter, removed_snoc.
  assert (E : memb j (removed sl ++ [x]) = memb j (removed sl) || Nat.eqb j x).
  { unfold memb. rewrite existsb_app. cbn. rewrite orb_false_r. reflexivity. }
  rewrite E. destruct (Nat.eqb j x); [rewrite orb_true_r|rewrite orb_false_r]; reflexivity.
Qed.

Lemma live_slice S j : live n sl' S j = live n sl S j && negb (Nat.eqb j x).
Proof.
  unfold live. rewrite cnt_slice. destruct (Nat.eqb j x); cbn [negb].
  - rewrite andb_false_r. reflexivity.
  - rewrite andb_true_r. reflexivity.
Qed.

Lemma size_of_filter_out sz (L : list ix) : NoDup L ->
  size_of sz L = (size_of sz (filter (fun j => negb (Nat.eqb j x)) L) * (if memb x L then zget x sz else 1))%Z.
Proof.
  induction L as [|y L IH]; intros ND; [reflexivity|].
  inversion ND as [|? ? Hn ND']; subst. cbn [filter memb existsb].
  rewrite size_of_cons, (IH ND').
  destruct (Nat.eqb_spec y x) as [->|H]; cbn [negb orb].
  - rewrite Nat.eqb_refl. cbn [orb].
    assert (E : memb x L = false) by (apply memb_false, Hn). fold (memb x L). rewrite E. lia.
  - destruct (Nat.eqb_spec x y); [congruence|]. cbn [orb]. fold (memb x L). rewrite size_of_cons. lia.
Qed.

(* sizes: divided by d exactly on the nodes that carry x as a leg *)
Theorem slicing_scales_size t : inrange n (leaves t) ->
  node_size n sl false t =
  (node_size n sl' false t * (if live n sl (leaves t) x then zget x (szd n) else 1))%Z.
Proof.
  intros HR. rewrite !node_size_spec by exact HR.
  unfold surviving.
  rewrite (size_of_filter_out (szd n) (filter (live n sl (leaves t)) (universe n))) by apply NoDup_filter, NoDup_nodup.
  f_equal.
  - f_equal. rewrite filter_filter_comm_and. apply filter_ext. intros j. rewrite live_slice. reflexivity.
  - destruct (live n sl (leaves t) x) eqn:E.
    + assert (M : memb x (filter (live n sl (leaves t)) (universe n)) = true); [|rewrite M; reflexivity].
      apply memb_In, filter_In. split; [|exact E].
      unfold live in E. apply andb_true_iff in E. destruct E as [E _]. apply Nat.ltb_lt in E.
      apply (cnt_pos_in_universe n sl (leaves t)), E.
    + assert (M : memb x (filter (live n sl (leaves t)) (universe n)) = false); [|rewrite M; reflexivity].
      apply memb_false. rewrite filter_In. intros [_ H]. congruence.
Qed.

(* flops: divided by d exactly on the nodes where x is involved *)
Theorem slicing_scales_flops l r : inrange n (leaves l ++ leaves r) ->
  node_flops n sl (Node l r) =
  (node_flops n sl' (Node l r) *
   (if live n sl (leaves l) x || live n sl (leaves r) x then zget x (szd n) else 1))%Z.
Proof.
  intros HR. rewrite !node_flops_spec by exact HR.
  unfold involved_set.
  set (P := fun j => live n sl (leaves l) j || live n sl (leaves r) j).
  rewrite (size_of_filter_out (szd n) (filter P (universe n))) by apply NoDup_filter, NoDup_nodup.
  f_equal.
  - f_equal. rewrite filter_filter_comm_and. apply filter_ext. intros j. rewrite !live_slice. unfold P.
    destruct (live n sl (leaves l) j), (live n sl (leaves r) j), (negb (j =? x)); reflexivity.
  - fold (P x). destruct (P x) eqn:E.
    + assert (M : memb x (filter P (universe n)) = true); [|rewrite M; reflexivity].
      apply memb_In, filter_In. split; [|exact E].
      unfold P, live in E. apply orb_true_iff in E.
      destruct E as [E|E]; apply andb_true_iff in E; destruct E as [E _]; apply Nat.ltb_lt in E;
        [apply (cnt_pos_in_universe n sl (leaves l))|apply (cnt_pos_in_universe n sl (leaves r))]; exact E.
    + assert (M : memb x (filter P (universe n)) = false); [|rewrite M; reflexivity].
      apply memb_false. rewrite filter_In. intros [_ H]. congruence.
Qed.

(* multiplicity: multiplied by d when slicing, unchanged when projecting *)
Theorem slicing_scales_multiplicity :
  multiplicity n sl' = (multiplicity n sl * match p with None => zget x (szd n) | Some _ => 1 end)%Z.
Proof.
  unfold multiplicity, sl'. rewrite map_app, zprod_app. cbn [map sl_proj sl_ix].
  rewrite zprod_cons, zprod_nil. destruct p; lia.
Qed.

End Slice.

(* ---- peak size: the running total of peak_size(order) telescopes -- after ANY
        enumeration of the contractions only the result is alive ---- *)
Section Peak.
Variable n : net.
Variable sl : list slinfo.

Definition delta (bt : bool * tree) : Z :=
  match snd bt with
  | Leaf _ => 0%Z
  | Node l r => (node_size n sl (fst bt) (snd bt) - child_size n sl l - child_size n sl r)%Z
  end.

Lemma peak_step_fst st bt : fst (peak_step n sl st bt) = (fst st + delta bt)%Z.
Proof. destruct st as [tot pk], bt as [b [k|l r]]; cbn; lia. Qed.

Lemma peak_step_snd_ge st bt : (snd st <= snd (peak_step n sl st bt))%Z.
Proof. destruct st as [tot pk], bt as [b [k|l r]]; cbn; lia. Qed.

Lemma fold_peak_fst order : forall st,
  fst (fold_left (peak_step n sl) order st) = (fst st + zsum (map delta order))%Z.
Proof.
  induction order as [|bt order IH]; intros st; cbn [fold_left map].
  - unfold zsum. cbn. lia.
  - rewrite IH, peak_step_fst, zsum_cons. lia.
Qed.

Lemma fold_peak_snd_ge order : forall st, (snd st <= snd (fold_left (peak_step n sl) order st))%Z.
Proof.
  induction order as [|bt order IH]; intros st; cbn [fold_left]; [lia|].
  pose proof (peak_step_snd_ge st bt). specialize (IH (peak_step n sl st bt)). lia.
Qed.

Lemma zsum_perm l1 l2 : Permutation l1 l2 -> zsum l1 = zsum l2.
Proof. induction 1; rewrite ?zsum_cons in *; lia. Qed.

Lemma leaves_total_node l r : leaves_total n sl (Node l r) = (leaves_total n sl l + leaves_total n sl r)%Z.
Proof. unfold leaves_total. cbn [leaves]. rewrite map_app, zsum_app. reflexivity. Qed.

Lemma sub_total t :
  (leaves_total n sl t + zsum (map delta (map (pair false) (post_sub t))))%Z = node_size n sl false t.
Proof.
  induction t as [k|l IHl r IHr].
  - cbn [post_sub map]. unfold leaves_total. cbn [leaves map]. rewrite zsum_cons. unfold zsum. cbn. lia.
  - cbn [post_sub]. rewrite leaves_total_node, !map_app, !zsum_app. cbn [map].
    rewrite zsum_cons. change (zsum []) with 0%Z.
    unfold delta at 3. cbn [snd fst]. unfold child_size. lia.
Qed.

(* final running total = size of the result, for every enumeration of the contractions *)
Theorem peak_final_total l r order : Permutation order (traverse_dfs (Node l r)) ->
  fst (fold_left (peak_step n sl) order (leaves_total n sl (Node l r), leaves_total n sl (Node l r)))
  = node_size n sl true (Node l r).
Proof.
  intros HP. rewrite fold_peak_fst. cbn [fst].
  rewrite (zsum_perm _ _ (Permutation_map delta HP)).
  cbn [traverse_dfs]. rewrite map_app, zsum_app. cbn [map]. rewrite zsum_cons. change (zsum []) with 0%Z.
  rewrite leaves_total_node, !map_app, zsum_app.
  pose proof (sub_total l) as Hl. pose proof (sub_total r) as Hr.
  unfold delta at 3. cbn [snd fst]. unfold child_size. lia.
Qed.

(* the reported peak is at least the memory held at the start and at the end *)
Theorem peak_ge_inputs t order : (leaves_total n sl t <= peak_size_order n sl t order)%Z.
Proof. unfold peak_size_order. apply (fold_peak_snd_ge order (leaves_total n sl t, leaves_total n sl t)). Qed.

End Peak.

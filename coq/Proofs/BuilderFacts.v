(* BuilderFacts.v -- core.separate partitions its argument; PartitionTreeBuilder.build_divide
   and the (repaired) build_agglom terminate and return a complete tree for ANY membership
   oracle of the right length *)
From Coq Require Import Lia Permutation.
From Ctg Require Import Base Net PathValid BaseFacts PathValidFacts.

(* ------------------------------------------------------------------ *)
(* unique / sort_asc                                                    *)
Lemma uniq_acc_in x l : forall seen, In x (unique_acc seen l) <-> In x l /\ ~ In x seen.
Proof.
  induction l as [|y l IH]; intros seen; cbn [unique_acc]; [cbn; tauto|].
  destruct (memb y seen) eqn:E.
  - apply memb_In in E. rewrite IH. cbn [In]. split; [tauto|].
    intros [[->|H] Hn]; [contradiction|tauto].
  - apply memb_false in E. cbn [In]. rewrite IH. cbn [In].
    split.
    + intros [->|[H Hn]]; [tauto|]. split; [tauto|]. intros Hs. apply Hn. now right.
    + intros [[->|H] Hn]; [tauto|]. destruct (Nat.eq_dec y x) as [->|Hne]; [tauto|].
      right. split; [assumption|]. intros [->|Hs]; [congruence|contradiction].
Qed.
Lemma uniq_acc_nodup l : forall seen, NoDup (unique_acc seen l).
Proof.
  induction l as [|y l IH]; intros seen; cbn [unique_acc]; [constructor|].
  destruct (memb y seen); [apply IH|]. constructor; [|apply IH].
  rewrite uniq_acc_in. cbn [In]. tauto.
Qed.
Lemma uniq_in x l : In x (unique l) <-> In x l.
Proof. unfold unique. rewrite uniq_acc_in. cbn [In]. tauto. Qed.
Lemma uniq_nodup l : NoDup (unique l).
Proof. apply uniq_acc_nodup. Qed.

Lemma sort_asc_perm l : Permutation (sort_asc l) l.
Proof. unfold sort_asc. eapply perm_trans; [apply Permutation_sym, Permutation_rev|apply sort_desc_perm]. Qed.

(* ------------------------------------------------------------------ *)
(* separate                                                             *)
Section Sep.
Context {A : Type}.

Lemma combine_fst (xs : list A) : forall bs : list nat, length xs <= length bs -> map fst (combine xs bs) = xs.
Proof.
  induction xs as [|x xs IH]; intros [|b bs] H; cbn in *; try reflexivity; try lia.
  f_equal. apply IH. lia.
Qed.

Definition sel (z : list (A * nat)) (b : nat) : list (A * nat) := filter (fun p => Nat.eqb (snd p) b) z.

Lemma insert_block (p : A * nat) (f : nat -> list (A * nat)) : forall L, NoDup L -> In (snd p) L ->
  Permutation (concat (map (fun b => if Nat.eqb (snd p) b then p :: f b else f b) L)) (p :: concat (map f L)).
Proof.
  induction L as [|b L IH]; intros ND Hin; [destruct Hin|].
  inversion ND as [|? ? Hb ND']; subst. cbn [map concat].
  destruct (Nat.eqb (snd p) b) eqn:E.
  - apply Nat.eqb_eq in E. subst b. cbn. apply perm_skip. apply Permutation_app_head.
    assert (Heq : map (fun b => if Nat.eqb (snd p) b then p :: f b else f b) L = map f L).
    { apply map_ext_in. intros c Hc. destruct (Nat.eqb (snd p) c) eqn:Ec; [|reflexivity].
      apply Nat.eqb_eq in Ec. subst c. contradiction. }
    rewrite Heq. apply Permutation_refl.
  - destruct Hin as [Hin|Hin]; [apply Nat.eqb_neq in E; congruence|].
    eapply perm_trans; [apply Permutation_app_head, IH; assumption|].
    apply Permutation_sym, Permutation_middle.
Qed.

Lemma blocks_perm (z : list (A * nat)) : forall L, NoDup L -> (forall p, In p z -> In (snd p) L) ->
  Permutation (concat (map (sel z) L)) z.
Proof.
  induction z as [|p z IH]; intros L ND Hc.
  - unfold sel. cbn. induction L as [|b L IHL]; [constructor|]. cbn. inversion ND; subst. now apply IHL.
  - assert (Heq : map (sel (p :: z)) L = map (fun b => if Nat.eqb (snd p) b then p :: sel z b else sel z b) L).
    { apply map_ext. intros b. unfold sel. cbn. destruct (Nat.eqb (snd p) b); reflexivity. }
    rewrite Heq. eapply perm_trans; [apply insert_block; [assumption|apply Hc; now left]|].
    apply perm_skip. apply IH; [assumption|]. intros q Hq. apply Hc. now right.
Qed.

Lemma separate_perm (xs : list A) (bs : list nat) : length xs <= length bs ->
  Permutation (concat (separate xs bs)) xs.
Proof.
  intros HL. unfold separate, zipl.
  set (z := combine xs bs). set (L := sort_asc (unique (map snd z))).
  assert (ND : NoDup L).
  { unfold L. eapply Permutation_NoDup; [apply Permutation_sym, sort_asc_perm|apply uniq_nodup]. }
  assert (Hc : forall p, In p z -> In (snd p) L).
  { intros p Hp. unfold L. eapply Permutation_in; [apply Permutation_sym, sort_asc_perm|].
    apply uniq_in. now apply in_map. }
  pose proof (blocks_perm z L ND Hc) as P.
  apply (Permutation_map fst) in P. rewrite concat_map, map_map in P.
  unfold z at 2 in P. rewrite combine_fst in P by assumption. exact P.
Qed.

Lemma separate_nonempty (xs : list A) (bs : list nat) g : In g (separate xs bs) -> g <> [].
Proof.
  unfold separate, zipl. set (z := combine xs bs). intros Hg.
  apply in_map_iff in Hg as (b & <- & Hb).
  eapply Permutation_in in Hb; [|apply sort_asc_perm]. apply (proj1 (uniq_in _ _)) in Hb.
  apply in_map_iff in Hb as (p & Hp1 & Hp2).
  intros Hc. apply map_eq_nil in Hc.
  assert (Hin : In p (filter (fun q => Nat.eqb (snd q) b) z)).
  { apply filter_In. split; [assumption|]. now apply Nat.eqb_eq. }
  rewrite Hc in Hin. destruct Hin.
Qed.
End Sep.

Lemma concat_length_ge {B} (gs : list (list B)) : (forall g, In g gs -> g <> []) -> length gs <= length (concat gs).
Proof.
  induction gs as [|g gs IH]; intros H; [cbn; lia|]. cbn. rewrite app_length.
  assert (g <> []) by (apply H; now left). destruct g; [congruence|]. cbn.
  assert (length gs <= length (concat gs)) by (apply IH; intros g' Hg'; apply H; now right). lia.
Qed.

(* a group of a split into >= 2 non-empty groups is strictly smaller than the whole *)
Lemma group_smaller {B} (gs : list (list B)) g : (forall g', In g' gs -> g' <> []) -> 2 <= length gs -> In g gs ->
  length g < length (concat gs).
Proof.
  intros Hne H2 Hg. apply in_split in Hg as (l1 & l2 & ->).
  rewrite concat_app. cbn. rewrite !app_length.
  assert (E1 : length l1 <= length (concat l1)).
  { apply concat_length_ge. intros g' Hg'. apply Hne, in_or_app. now left. }
  assert (E2 : length l2 <= length (concat l2)).
  { apply concat_length_ge. intros g' Hg'. apply Hne, in_or_app. right. now right. }
  rewrite app_length in H2. cbn in H2. lia.
Qed.

Lemma map_opt_ok {B C} (f : B -> option C) (R : B -> C -> Prop) : forall l,
  (forall x, In x l -> exists y, f x = Some y /\ R x y) ->
  exists ys, map_opt f l = Some ys /\ Forall2 R l ys.
Proof.
  induction l as [|x l IH]; intros H; [exists []; split; [reflexivity|constructor]|].
  destruct (H x (or_introl eq_refl)) as (y & Ey & Ry).
  destruct IH as (ys & Eys & Rys); [intros x' Hx'; apply H; now right|].
  exists (y :: ys). cbn. rewrite Ey, Eys. split; [reflexivity|now constructor].
Qed.

Lemma fa2_length {B C} (R : B -> C -> Prop) l1 l2 : Forall2 R l1 l2 -> length l1 = length l2.
Proof. induction 1; cbn; congruence. Qed.

Lemma forall2_leaves_perm (gs : list nset) ts :
  Forall2 (fun g t => Permutation (leaves t) g) gs ts -> Permutation (concat (map leaves ts)) (concat gs).
Proof. induction 1; cbn; [constructor|]. now apply Permutation_app. Qed.

Lemma leaves_map_leaf s : concat (map leaves (map Leaf s)) = s.
Proof. induction s as [|k s IH]; cbn; [reflexivity|]. now rewrite IH. Qed.

(* ------------------------------------------------------------------ *)
Section Divide.
Variable sub : list nset -> path.
Hypothesis sub_valid : forall ls : list nset, 3 <= length ls -> binary_path_valid (length ls) (sub ls) = true.
Variable memb_fn : nset -> list nat.
Hypothesis memb_len : forall s, length (memb_fn s) = length s.
Variable cutoff : nat.

Lemma contract_list_ok l : l <> [] ->
  exists t, contract_list sub l = Some t /\ Permutation (leaves t) (concat (map leaves l)).
Proof.
  intros Hne. destruct (contract_list sub l) as [t|] eqn:E.
  - exists t. split; [reflexivity|]. now apply (contract_list_perm sub).
  - exfalso. eapply (contract_list_total sub sub_valid); [|exact E]. destruct l; [congruence|reflexivity].
Qed.

Lemma contract_leaves_ok s : s <> [] ->
  exists t, contract_list sub (map Leaf s) = Some t /\ Permutation (leaves t) s.
Proof.
  intros Hne. destruct (contract_list_ok (map Leaf s)) as (t & E & P).
  { intros Hc. apply map_eq_nil in Hc. congruence. }
  exists t. split; [assumption|]. now rewrite leaves_map_leaf in P.
Qed.

(* termination measure: the size of the subgraph; every part of a split into >= 2
   communities is strictly smaller *)
Lemma divide_complete : forall fuel s, s <> [] -> length s <= fuel ->
  exists t, divide sub memb_fn cutoff fuel s = Some t /\ Permutation (leaves t) s.
Proof.
  induction fuel as [|f IH]; intros s Hne HL; [destruct s; [congruence|cbn in HL; lia]|].
  cbn [divide]. destruct (Nat.leb (length s) cutoff); [now apply contract_leaves_ok|].
  pose proof (separate_perm s (memb_fn s)) as P. rewrite memb_len in P. specialize (P (le_n _)).
  pose proof (separate_nonempty s (memb_fn s)) as NE.
  set (gs := separate s (memb_fn s)) in *.
  assert (G : (exists ts, map_opt (fun g => match g with [k] => Some (Leaf k) | _ => divide sub memb_fn cutoff f g end) gs = Some ts
                         /\ Forall2 (fun g t => Permutation (leaves t) g) gs ts) \/ length gs < 2).
  { destruct (le_lt_dec 2 (length gs)) as [H2|H2]; [left|right; assumption].
    destruct (map_opt_ok (fun g => match g with [k] => Some (Leaf k) | _ => divide sub memb_fn cutoff f g end)
                (fun g t => Permutation (leaves t) g) gs) as (ts & E & F); [|exists ts; split; assumption].
    intros g Hg.
    assert (Hlt : length g < length s).
    { rewrite <- (Permutation_length P). now apply group_smaller. }
    destruct g as [|k [|k2 g']].
    - exfalso. now apply (NE []).
    - exists (Leaf k). split; [reflexivity|apply Permutation_refl].
    - apply IH; [discriminate|lia]. }
  destruct gs as [|g1 [|g2 gs']] eqn:Egs.
  - (* impossible: s is non-empty *) cbn in P. apply Permutation_nil in P. congruence.
  - now apply contract_leaves_ok.
  - destruct G as [(ts & E & F')|H2]; [|cbn in H2; lia].
    rewrite E. destruct (contract_list_ok ts) as (t & Et & Pt).
    { intros ->. inversion F'. }
    exists t. split; [assumption|].
    eapply perm_trans; [exact Pt|]. eapply perm_trans; [apply forall2_leaves_perm; exact F'|exact P].
Qed.

Theorem build_divide_complete n : 1 <= n ->
  exists t, build_divide sub memb_fn cutoff n = Some t /\ Permutation (leaves t) (seq 0 n).
Proof.
  intros Hn. unfold build_divide. apply divide_complete; [destruct n; [lia|discriminate]|now rewrite seq_length].
Qed.
End Divide.

(* ------------------------------------------------------------------ *)
Section AgglomFacts.
Variable sub : list nset -> path.
Hypothesis sub_valid : forall ls : list nset, 3 <= length ls -> binary_path_valid (length ls) (sub ls) = true.
Variable memb_fn : list nset -> list nat.
Hypothesis memb_len : forall l, length (memb_fn l) = length l.
Variable groupsize : nat.

Lemma forall2_content_perm (gs : list (list tree)) ts :
  Forall2 (fun g t => Permutation (leaves t) (content leaves g)) gs ts ->
  Permutation (content leaves ts) (content leaves (concat gs)).
Proof.
  induction 1 as [|g t gs ts Hgt HF IH]; [constructor|].
  cbn [concat]. rewrite (content_app leaves g (concat gs)).
  change (content leaves (t :: ts)) with (leaves t ++ content leaves ts). now apply Permutation_app.
Qed.

Lemma agglom_round_ok lv :
  exists lv', agglom_round sub memb_fn lv = Some lv' /\
              length lv' = length (agglom_groups memb_fn lv) /\
              Permutation (content leaves lv') (content leaves lv).
Proof.
  unfold agglom_round.
  pose proof (separate_perm lv (memb_fn (map cleaves lv))) as P.
  rewrite memb_len, map_length in P. specialize (P (le_n _)).
  pose proof (separate_nonempty lv (memb_fn (map cleaves lv))) as NE.
  fold (agglom_groups memb_fn lv) in P, NE.
  destruct (map_opt_ok (contract_list sub) (fun g t => Permutation (leaves t) (content leaves g))
              (agglom_groups memb_fn lv)) as (lv' & E & F).
  { intros g Hg. apply (contract_list_ok sub sub_valid). now apply NE. }
  exists lv'. split; [assumption|]. split; [symmetry; eapply fa2_length; eassumption|].
  eapply perm_trans; [apply forall2_content_perm; exact F|]. now apply content_perm.
Qed.

(* termination: a round either merges something (strictly fewer groups) or breaks *)
Lemma agglom_loop_ok : forall fuel lv, length lv <= fuel ->
  exists lv', agglom_loop sub memb_fn groupsize fuel lv = Some lv' /\
              Permutation (content leaves lv') (content leaves lv).
Proof.
  induction fuel as [|f IH]; intros lv HL.
  - destruct lv; [|cbn in HL; lia]. exists []. cbn. destruct groupsize; split; try reflexivity; apply Permutation_refl.
  - cbn [agglom_loop]. destruct (Nat.ltb groupsize (length lv)); [|exists lv; split; [reflexivity|apply Permutation_refl]].
    destruct (Nat.leb (length lv) (length (agglom_groups memb_fn lv))) eqn:E;
      [exists lv; split; [reflexivity|apply Permutation_refl]|].
    apply Nat.leb_gt in E. destruct (agglom_round_ok lv) as (lv1 & E1 & L1 & P1). rewrite E1.
    destruct (IH lv1) as (lv2 & E2 & P2); [lia|].
    exists lv2. split; [assumption|]. eapply perm_trans; eassumption.
Qed.

Theorem build_agglom_complete n : 1 <= n ->
  exists t, build_agglom sub memb_fn groupsize n = Some t /\ Permutation (leaves t) (seq 0 n).
Proof.
  intros Hn. unfold build_agglom.
  destruct (agglom_loop_ok n (leaf_forest n)) as (lv & E & P); [now rewrite leaf_forest_length|].
  rewrite E. rewrite leaf_forest_content in P.
  assert (Hne : lv <> []).
  { intros ->. cbn in P. apply Permutation_nil in P. destruct n; [lia|discriminate]. }
  destruct (contract_list_ok sub sub_valid lv Hne) as (t & Et & Pt).
  destruct lv as [|a [|b l]]; [congruence| |].
  - exists a. split; [reflexivity|]. unfold content in P. cbn in P. now rewrite app_nil_r in P.
  - exists t. split; [assumption|]. eapply perm_trans; [exact Pt|exact P].
Qed.
End AgglomFacts.

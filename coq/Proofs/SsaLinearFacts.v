(* SsaLinearFacts.v -- path_basic.ssa_to_linear maps a valid SSA path to a valid linear path *)
From Coq Require Import Lia Permutation Sorted.
From Ctg Require Import Base Net PathValid BaseFacts PathValidFacts.

(* ------------------------------------------------------------------ *)
(* sort_desc yields a strictly descending list on duplicate-free input  *)
Definition hd_lt (y : nat) (m : list nat) : Prop := match m with [] => True | z :: _ => z < y end.

Lemma strict_desc_cons_iff y m : strict_desc_b (y :: m) = true <-> hd_lt y m /\ strict_desc_b m = true.
Proof.
  destruct m as [|z m]; [cbn; tauto|]. cbn [strict_desc_b hd_lt].
  rewrite andb_true_iff, Nat.ltb_lt. tauto.
Qed.

Lemma ins_desc_strict x : forall l, strict_desc_b l = true -> ~ In x l -> strict_desc_b (ins_desc x l) = true.
Proof.
  induction l as [|y l IH]; intros Hs Hn; [reflexivity|]. cbn [ins_desc].
  apply strict_desc_cons_iff in Hs as [Hh Hs].
  destruct (Nat.leb x y) eqn:E.
  - apply Nat.leb_le in E. assert (x < y) by (assert (x <> y) by (intros ->; apply Hn; now left); lia).
    apply strict_desc_cons_iff. split; [|apply IH; [assumption|intros Hc; apply Hn; now right]].
    destruct l as [|z l]; cbn [ins_desc hd_lt]; [assumption|].
    destruct (Nat.leb x z); cbn [hd_lt]; [exact Hh|assumption].
  - apply Nat.leb_gt in E. apply strict_desc_cons_iff. split; [exact E|].
    apply strict_desc_cons_iff. split; assumption.
Qed.

Lemma sort_desc_strict l : NoDup l -> strict_desc_b (sort_desc l) = true.
Proof.
  induction 1 as [|x l Hn Hd IH]; [reflexivity|]. change (sort_desc (x :: l)) with (ins_desc x (sort_desc l)).
  apply ins_desc_strict; [exact IH|]. intros Hc. apply Hn. apply (proj1 (sort_desc_in _ _)) in Hc. exact Hc.
Qed.

(* two strictly descending lists with the same elements are equal *)
Lemma strict_desc_perm_eq : forall l1 l2, strict_desc_b l1 = true -> strict_desc_b l2 = true ->
  Permutation l1 l2 -> l1 = l2.
Proof.
  induction l1 as [|a l1 IH]; intros l2 H1 H2 P.
  - apply Permutation_nil in P. now subst.
  - destruct l2 as [|b l2]; [apply Permutation_sym, Permutation_nil in P; discriminate|].
    assert (Hab : a = b).
    { assert (Ha : In a (b :: l2)) by (eapply Permutation_in; [exact P|now left]).
      assert (Hb : In b (a :: l1)) by (eapply Permutation_in; [apply Permutation_sym; exact P|now left]).
      pose proof (strict_desc_bound _ H2 b a eq_refl Ha).
      pose proof (strict_desc_bound _ H1 a b eq_refl Hb). lia. }
    subst b. f_equal. apply IH.
    + now apply strict_desc_cons_iff in H1.
    + now apply strict_desc_cons_iff in H2.
    + eapply Permutation_cons_inv; exact P.
Qed.

(* the converse of step_ok_wf *)
Lemma step_wf_ok okl m s : step_wf m s -> okl (length s) = true -> step_ok okl m s = true.
Proof.
  intros (Hne & Hnd & Hlt) Hok. unfold step_ok. rewrite Hok, (sort_desc_strict s Hnd). cbn [andb].
  destruct (sort_desc s) as [|x d] eqn:E.
  - exfalso. destruct s as [|y s]; [congruence|].
    assert (In y (sort_desc (y :: s))) by (apply sort_desc_in; now left). rewrite E in H. destruct H.
  - apply Nat.ltb_lt, Hlt. apply sort_desc_in. rewrite E. now left.
Qed.

Lemma sort_asc_perm0 l : Permutation (sort_asc l) l.
Proof. unfold sort_asc. eapply perm_trans; [apply Permutation_sym, Permutation_rev|apply sort_desc_perm]. Qed.

Lemma filter_length_le {B} (f : B -> bool) l : length (filter f l) <= length l.
Proof. induction l as [|x l IH]; cbn; [lia|]. destruct (f x); cbn; lia. Qed.

Lemma filter_nil_iff {B} (f : B -> bool) l : filter f l = [] <-> forall x, In x l -> f x = false.
Proof.
  induction l as [|x l IH]; cbn; [tauto|]. destruct (f x) eqn:E.
  - split; [discriminate|]. intros H. specialize (H x (or_introl eq_refl)). congruence.
  - rewrite IH. split; [intros H y [<-|Hy]; auto|intros H y Hy; apply H; now right].
Qed.

(* ------------------------------------------------------------------ *)
(* bisect_left on ascending lists                                       *)
Notation asc := (StronglySorted lt).
Definition pos := bisect_left.

Lemma pos_cons ids x s : pos (x :: ids) s = (if Nat.ltb x s then 1 else 0) + pos ids s.
Proof. unfold pos, bisect_left. cbn [filter]. destruct (Nat.ltb x s); reflexivity. Qed.

Lemma pos_mono ids : forall a b, a < b -> pos ids a <= pos ids b.
Proof.
  induction ids as [|x ids IH]; intros a b Hab; [cbn; lia|]. rewrite !pos_cons. specialize (IH a b Hab).
  destruct (Nat.ltb x a) eqn:E1; destruct (Nat.ltb x b) eqn:E2; try lia.
  apply Nat.ltb_lt in E1. apply Nat.ltb_ge in E2. lia.
Qed.
Lemma pos_strict ids : forall a b, a < b -> In a ids -> pos ids a < pos ids b.
Proof.
  induction ids as [|x ids IH]; intros a b Hab Hin; [destruct Hin|]. rewrite !pos_cons.
  destruct Hin as [->|Hin].
  - pose proof (pos_mono ids a b Hab). rewrite Nat.ltb_irrefl. replace (Nat.ltb a b) with true by (symmetry; now apply Nat.ltb_lt). lia.
  - specialize (IH a b Hab Hin).
    destruct (Nat.ltb x a) eqn:E1; destruct (Nat.ltb x b) eqn:E2; try lia.
    apply Nat.ltb_lt in E1. apply Nat.ltb_ge in E2. lia.
Qed.
Lemma pos_lt_length ids a : In a ids -> pos ids a < length ids.
Proof.
  induction ids as [|x ids IH]; intros Hin; [destruct Hin|]. rewrite pos_cons. cbn [length].
  destruct Hin as [->|Hin]; [rewrite Nat.ltb_irrefl; unfold pos, bisect_left; pose proof (filter_length_le (fun y => Nat.ltb y a) ids); lia|].
  specialize (IH Hin). destruct (Nat.ltb x a); lia.
Qed.

Lemma asc_filter f ids : asc ids -> asc (filter f ids).
Proof.
  induction 1 as [|x ids Hs IH Hf]; [constructor|]. cbn. destruct (f x); [|assumption].
  constructor; [assumption|]. rewrite Forall_forall in *. intros y Hy. apply filter_In in Hy as [Hy _]. auto.
Qed.
Lemma asc_snoc ids x : asc ids -> (forall k, In k ids -> k < x) -> asc (ids ++ [x]).
Proof.
  induction 1 as [|y ids Hs IH Hf]; intros Hlt; cbn; [repeat constructor|].
  constructor; [apply IH; intros k Hk; apply Hlt; now right|].
  rewrite Forall_forall in *. intros k Hk. apply in_app_or in Hk as [Hk|[<-|[]]]; [auto|apply Hlt; now left].
Qed.
Lemma asc_nodup ids : asc ids -> NoDup ids.
Proof.
  induction 1 as [|x ids Hs IH Hf]; constructor; [|assumption].
  intros Hin. rewrite Forall_forall in Hf. specialize (Hf x Hin). lia.
Qed.
Lemma asc_seq : forall n k, asc (seq k n).
Proof.
  induction n as [|n IH]; intros k; cbn; constructor; [apply IH|].
  apply Forall_forall. intros y Hy. apply in_seq in Hy. lia.
Qed.

Lemma remove_all_single t ids : remove_all [t] ids = filter (fun k => negb (Nat.eqb k t)) ids.
Proof. unfold remove_all. apply filter_ext. intros k. unfold memb. cbn. now rewrite orb_false_r. Qed.

(* ids.pop(bisect_left(ids, t)) removes exactly t *)
Lemma pop_at_pos ids : asc ids -> forall t, In t ids -> pop_at (pos ids t) ids = Some (t, remove_all [t] ids).
Proof.
  induction 1 as [|x ids Hs IH Hf]; intros t Hin; [destruct Hin|].
  rewrite Forall_forall in Hf. rewrite pos_cons, remove_all_single. cbn [filter].
  destruct (Nat.eq_dec x t) as [->|Hne].
  - rewrite Nat.ltb_irrefl, Nat.eqb_refl. cbn [negb plus].
    assert (E0 : pos ids t = 0).
    { unfold pos, bisect_left. rewrite (proj2 (filter_nil_iff _ ids)); [reflexivity|].
      intros y Hy. apply Nat.ltb_ge. specialize (Hf y Hy). lia. }
    rewrite E0. cbn [pop_at]. f_equal. f_equal. symmetry. apply filter_all_true.
    intros y Hy. apply negb_true_iff, Nat.eqb_neq. specialize (Hf y Hy). lia.
  - destruct Hin as [Hin|Hin]; [congruence|]. specialize (Hf t Hin).
    replace (Nat.ltb x t) with true by (symmetry; now apply Nat.ltb_lt).
    replace (Nat.eqb x t) with false by (symmetry; now apply Nat.eqb_neq). cbn [negb].
    change (1 + pos ids t) with (S (pos ids t)). cbn [pop_at]. rewrite (IH t Hin).
    now rewrite remove_all_single.
Qed.

(* removing a larger element does not move the smaller ones *)
Lemma pos_remove_larger ids t t' : t' < t -> pos (remove_all [t] ids) t' = pos ids t'.
Proof.
  intros Hlt. rewrite remove_all_single. unfold pos, bisect_left.
  induction ids as [|x ids IH]; [reflexivity|]. cbn [filter].
  destruct (Nat.eqb x t) eqn:E; cbn [negb].
  - apply Nat.eqb_eq in E. subst x. replace (Nat.ltb t t') with false by (symmetry; apply Nat.ltb_ge; lia). exact IH.
  - cbn [filter]. destruct (Nat.ltb x t'); cbn [length]; [f_equal|]; exact IH.
Qed.

Lemma pops_pos_desc : forall T ids, asc ids -> strict_desc_b T = true -> (forall t, In t T -> In t ids) ->
  exists xs, pops (map (pos ids) T) ids = Some (xs, remove_all T ids).
Proof.
  induction T as [|t T IH]; intros ids Ha Hs Hin.
  - exists []. cbn. f_equal. f_equal. unfold remove_all. symmetry. apply filter_all_true. reflexivity.
  - cbn [map pops]. rewrite (pop_at_pos ids Ha t (Hin t (or_introl eq_refl))).
    apply strict_desc_cons_iff in Hs as [Hh Hs].
    assert (Hsm : forall t', In t' T -> t' < t).
    { intros t' Ht'. destruct T as [|z T]; [destruct Ht'|]. cbn in Hh.
      pose proof (strict_desc_bound _ Hs z t' eq_refl Ht'). lia. }
    assert (Hmap : map (pos ids) T = map (pos (remove_all [t] ids)) T).
    { apply map_ext_in. intros t' Ht'. symmetry. apply pos_remove_larger. auto. }
    rewrite Hmap. destruct (IH (remove_all [t] ids)) as (xs & E).
    + now apply asc_filter.
    + assumption.
    + intros t' Ht'. apply filter_In. split; [apply Hin; now right|].
      apply negb_true_iff. unfold memb. cbn. rewrite orb_false_r. apply Nat.eqb_neq. specialize (Hsm t' Ht'). lia.
    + rewrite E. exists (t :: xs). f_equal. f_equal. rewrite remove_all_single. apply remove_all_cons.
Qed.

Lemma map_pos_strict ids : forall T, strict_desc_b T = true -> (forall t, In t T -> In t ids) ->
  strict_desc_b (map (pos ids) T) = true.
Proof.
  induction T as [|t T IH]; intros Hs Hin; [reflexivity|]. cbn [map].
  apply strict_desc_cons_iff in Hs as [Hh Hs]. apply strict_desc_cons_iff. split.
  - destruct T as [|z T]; cbn [map hd_lt] in *; [exact I|]. apply pos_strict; [assumption|apply Hin; right; now left].
  - apply IH; [assumption|]. intros t' Ht'. apply Hin. now right.
Qed.

Lemma remove_all_ext s1 s2 ids : (forall x, In x s1 <-> In x s2) -> remove_all s1 ids = remove_all s2 ids.
Proof.
  intros H. unfold remove_all. apply filter_ext. intros k. f_equal.
  destruct (memb k s1) eqn:E1; destruct (memb k s2) eqn:E2; try reflexivity.
  - apply memb_In in E1. apply memb_false in E2. apply H in E1. contradiction.
  - apply memb_In in E2. apply memb_false in E1. apply H in E2. contradiction.
Qed.

(* one step of ssa_to_linear: the positions popped are those of the ids consumed *)
Lemma ssa_to_linear_step ids s : asc ids -> s <> [] -> NoDup s -> (forall i, In i s -> In i ids) ->
  let con := sort_asc (map (pos ids) s) in
  (exists xs, pops (rev con) ids = Some (xs, remove_all s ids)) /\
  step_ok any_len (length ids) con = true /\ length con = length s.
Proof.
  intros Ha Hne Hnd Hin con.
  set (T := sort_desc s).
  assert (HT : strict_desc_b T = true) by (now apply sort_desc_strict).
  assert (HTin : forall t, In t T -> In t ids) by (intros t Ht; apply Hin; apply (proj1 (sort_desc_in _ _)) in Ht; exact Ht).
  assert (Erev : rev con = map (pos ids) T).
  { unfold con, sort_asc. rewrite rev_involutive.
    apply strict_desc_perm_eq.
    - apply sort_desc_strict.
      (* NoDup (map pos s): pos is injective on members *)
      clear -Hnd Hin. induction Hnd as [|a s Ha Hd IH]; [constructor|]. cbn [map]. constructor.
      + intros Hc. apply in_map_iff in Hc as (b & Hb & Hbs).
        assert (a <> b) by (intros ->; contradiction).
        destruct (Nat.lt_total a b) as [Hlt|[Heq|Hlt]]; [|congruence|].
        * pose proof (pos_strict ids a b Hlt (Hin a (or_introl eq_refl))). unfold pos in *. lia.
        * pose proof (pos_strict ids b a Hlt (Hin b (or_intror Hbs))). unfold pos in *. lia.
      + apply IH. intros i Hi. apply Hin. now right.
    - now apply map_pos_strict.
    - eapply perm_trans; [apply sort_desc_perm|]. apply Permutation_map, Permutation_sym, sort_desc_perm. }
  split; [|split].
  - rewrite Erev. destruct (pops_pos_desc T ids Ha HT HTin) as (xs & E). exists xs. rewrite E. f_equal. f_equal.
    apply remove_all_ext. intros x. apply sort_desc_in.
  - assert (Pc : Permutation con (map (pos ids) s)) by apply sort_asc_perm0.
    apply step_wf_ok.
    + repeat split.
      * intros Hc. rewrite Hc in Pc. apply Permutation_nil in Pc. apply map_eq_nil in Pc. congruence.
      * rewrite <- (rev_involutive con). apply NoDup_rev. rewrite Erev. apply strict_desc_nodup. now apply map_pos_strict.
      * intros i Hi. eapply Permutation_in in Hi; [|exact Pc]. apply in_map_iff in Hi as (a & <- & Has).
        apply pos_lt_length. auto.
    + rewrite (Permutation_length Pc), map_length. destruct s; [congruence|reflexivity].
  - unfold con. rewrite (Permutation_length (sort_asc_perm0 _)). apply map_length.
Qed.

Lemma ssa_to_linear_go_valid : forall p ids ssa av nx, asc ids -> (forall k, In k ids -> k < ssa) ->
  ssa_run any_len ids ssa p = Some (av, nx) ->
  exists q, ssa_to_linear_go ids ssa p = Some q /\ lin_run any_len (length ids) q = Some (length av).
Proof.
  induction p as [|s p IH]; intros ids ssa av nx Ha Hlt H; cbn [ssa_run] in H.
  - injection H as <- <-. exists []. split; reflexivity.
  - destruct (ssa_step_ok any_len ids s) eqn:E; [|discriminate].
    unfold ssa_step_ok in E. apply andb_prop in E as [E E3]. apply andb_prop in E as [E1 E2].
    assert (Hne : s <> []) by (intros ->; discriminate).
    apply nodup_b_NoDup in E2.
    assert (Hin : forall i, In i s -> In i ids) by (intros i Hi; rewrite forallb_forall in E3; apply memb_In; auto).
    destruct (ssa_to_linear_step ids s Ha Hne E2 Hin) as ((xs & Ep) & Hok & Hlen).
    destruct (IH (remove_all s ids ++ [ssa]) (S ssa) av nx) as (q & Eq & Rq).
    + apply asc_snoc; [now apply asc_filter|]. intros k Hk. apply filter_In in Hk as [Hk _]. auto.
    + intros k Hk. apply in_app_or in Hk as [Hk|[<-|[]]]; [|lia]. apply filter_In in Hk as [Hk _]. specialize (Hlt k Hk). lia.
    + exact H.
    + cbn [ssa_to_linear_go]. fold pos. rewrite Ep, Eq.
      eexists. split; [reflexivity|]. cbn [lin_run]. rewrite Hok.
      pose proof (pops_length _ _ _ _ Ep) as [_ L]. rewrite rev_length in L.
      replace (length ids - length (sort_asc (map (pos ids) s)) + 1) with (length (remove_all s ids ++ [ssa]));
        [exact Rq|]. rewrite app_length. cbn. lia.
Qed.

(* ssa_to_linear of a valid SSA path (prefix) is a valid linear path (prefix) leaving the same
   number of tensors *)
Theorem ssa_to_linear_valid n p av nx : ssa_run any_len (seq 0 n) n p = Some (av, nx) ->
  exists q, ssa_to_linear n p = Some q /\ lin_run any_len n q = Some (length av).
Proof.
  intros H. destruct (ssa_to_linear_go_valid p (seq 0 n) n av nx) as (q & E & R).
  - apply asc_seq.
  - intros k Hk. apply in_seq in Hk. lia.
  - exact H.
  - exists q. split; [exact E|]. now rewrite seq_length in R.
Qed.

Corollary ssa_to_linear_complete n p : ssa_path_valid n p = true ->
  exists q, ssa_to_linear n p = Some q /\ linear_path_valid n q = true.
Proof.
  unfold ssa_path_valid. destruct (ssa_run any_len (seq 0 n) n p) as [[av nx]|] eqn:E; [|discriminate].
  intros L. apply Nat.eqb_eq in L. destruct (ssa_to_linear_valid n p av nx E) as (q & Eq & R).
  exists q. split; [assumption|]. unfold linear_path_valid. now rewrite R, L.
Qed.

(* PathValidFacts.v -- lemmas about Model/PathValid.v *)
From Coq Require Import Lia Permutation.
From Ctg Require Import Base Net PathValid BaseFacts.

Lemma filter_all_true {B} (f : B -> bool) l : (forall x, In x l -> f x = true) -> filter f l = l.
Proof.
  induction l as [|x l IH]; intros H; [reflexivity|]. cbn. rewrite (H x (or_introl eq_refl)).
  f_equal. apply IH. intros y Hy. apply H. now right.
Qed.
Lemma NoDup_app_intro {B} (a b : list B) : NoDup a -> NoDup b -> (forall x, In x a -> In x b -> False) ->
  NoDup (a ++ b).
Proof.
  induction a as [|x a IH]; intros Ha Hb Hd; [assumption|]. cbn. inversion Ha; subst. constructor.
  - intros Hin. apply in_app_or in Hin as [Hin|Hin]; [contradiction|]. eapply Hd; [left; reflexivity|exact Hin].
  - apply IH; auto. intros y Hy1 Hy2. eapply Hd; [right; exact Hy1|exact Hy2].
Qed.

Lemma remove_all_cons i s l :
  remove_all s (filter (fun k => negb (Nat.eqb k i)) l) = remove_all (i :: s) l.
Proof.
  unfold remove_all, memb. induction l as [|k l IH]; [reflexivity|]. cbn.
  destruct (Nat.eqb k i) eqn:E; cbn; [exact IH|].
  destruct (existsb (Nat.eqb k) s); cbn; [exact IH|]. f_equal. exact IH.
Qed.

(* ------------------------------------------------------------------ *)
(* pop_at / pops                                                        *)
Lemma pop_at_perm {A} i : forall (l : list A) x r, pop_at i l = Some (x, r) -> Permutation (x :: r) l.
Proof.
  induction i as [|i IH]; intros [|y l] x r H; cbn in H; try discriminate.
  - injection H as -> ->. apply Permutation_refl.
  - destruct (pop_at i l) as [[z q]|] eqn:E; [|discriminate].
    injection H as -> <-. apply IH in E.
    eapply perm_trans; [apply perm_swap|]. now apply perm_skip.
Qed.

Lemma pop_at_some {A} i : forall (l : list A), i < length l ->
  exists x r, pop_at i l = Some (x, r) /\ length r = length l - 1.
Proof.
  induction i as [|i IH]; intros [|y l] H; cbn in H; try lia.
  - exists y, l. cbn. split; [reflexivity|lia].
  - destruct (IH l) as (x & r & E & L); [lia|].
    exists x, (y :: r). cbn. rewrite E. split; [reflexivity|]. cbn. destruct l; cbn in *; lia.
Qed.

Lemma pop_at_length {A} i : forall (l : list A) x r, pop_at i l = Some (x, r) -> length l = S (length r).
Proof.
  intros l x r H. apply pop_at_perm in H. apply Permutation_length in H. cbn in H. lia.
Qed.

Lemma pops_perm {A} is : forall (l : list A) xs r, pops is l = Some (xs, r) -> Permutation (xs ++ r) l.
Proof.
  induction is as [|i is IH]; intros l xs r H; cbn in H.
  - injection H as <- <-. apply Permutation_refl.
  - destruct (pop_at i l) as [[x l1]|] eqn:E; [|discriminate].
    destruct (pops is l1) as [[ys q]|] eqn:E2; [|discriminate].
    injection H as <- <-. cbn. apply IH in E2. apply pop_at_perm in E.
    eapply perm_trans; [|exact E]. now apply perm_skip.
Qed.

Lemma pops_length {A} is : forall (l : list A) xs r, pops is l = Some (xs, r) ->
  length xs = length is /\ length l = length is + length r.
Proof.
  induction is as [|i is IH]; intros l xs r H; cbn in H.
  - injection H as <- <-. cbn. lia.
  - destruct (pop_at i l) as [[x l1]|] eqn:E; [|discriminate].
    destruct (pops is l1) as [[ys q]|] eqn:E2; [|discriminate].
    injection H as <- <-. apply IH in E2. apply pop_at_length in E. cbn. lia.
Qed.

(* strictly descending positions whose head is in range can all be popped *)
Lemma strict_desc_cons x y l : strict_desc_b (x :: y :: l) = true -> y < x /\ strict_desc_b (y :: l) = true.
Proof.
  cbn [strict_desc_b]. intros H. apply andb_prop in H as [H1 H2]. apply Nat.ltb_lt in H1. auto.
Qed.

Lemma pops_desc_some {A} is : forall (l : list A),
  strict_desc_b is = true -> (forall x, hd_error is = Some x -> x < length l) ->
  exists xs r, pops is l = Some (xs, r).
Proof.
  induction is as [|i is IH]; intros l Hs Hh.
  - exists [], l. reflexivity.
  - destruct (pop_at_some i l) as (x & l1 & E & L); [apply Hh; reflexivity|].
    cbn [pops]. rewrite E.
    destruct (IH l1) as (xs & r & E2).
    + destruct is as [|j is]; [reflexivity|]. now apply strict_desc_cons in Hs.
    + intros j Hj. destruct is as [|j' is]; cbn in Hj; [discriminate|]. injection Hj as ->.
      apply strict_desc_cons in Hs as [Hlt _]. specialize (Hh i eq_refl). lia.
    + rewrite E2. eauto.
Qed.

(* ------------------------------------------------------------------ *)
(* sort_desc                                                            *)
Lemma ins_desc_perm x l : Permutation (ins_desc x l) (x :: l).
Proof.
  induction l as [|y l IH]; cbn; [apply Permutation_refl|].
  destruct (Nat.leb x y); [|apply Permutation_refl].
  eapply perm_trans; [apply perm_skip, IH|apply perm_swap].
Qed.
Lemma sort_desc_perm l : Permutation (sort_desc l) l.
Proof.
  induction l as [|x l IH]; cbn; [constructor|].
  eapply perm_trans; [apply ins_desc_perm|]. now apply perm_skip.
Qed.
Lemma sort_desc_length l : length (sort_desc l) = length l.
Proof. apply Permutation_length, sort_desc_perm. Qed.
Lemma sort_desc_in x l : In x (sort_desc l) <-> In x l.
Proof.
  split; apply Permutation_in; [apply sort_desc_perm|apply Permutation_sym, sort_desc_perm].
Qed.

Lemma strict_desc_bound l : strict_desc_b l = true ->
  forall x y, hd_error l = Some x -> In y l -> y <= x.
Proof.
  induction l as [|a l IH]; intros Hs x y Hx Hy; [destruct Hy|].
  cbn in Hx. injection Hx as <-. destruct Hy as [->|Hy]; [lia|].
  destruct l as [|b l]; [destruct Hy|].
  apply strict_desc_cons in Hs as [Hlt Hs]. specialize (IH Hs b y eq_refl Hy). lia.
Qed.
Lemma strict_desc_nodup l : strict_desc_b l = true -> NoDup l.
Proof.
  induction l as [|a l IH]; intros Hs; constructor.
  - intro Hin. destruct l as [|b l]; [destruct Hin|].
    apply strict_desc_cons in Hs as [Hlt Hs].
    pose proof (strict_desc_bound _ Hs b a eq_refl Hin). lia.
  - destruct l as [|b l]; [constructor|]. apply IH. now apply strict_desc_cons in Hs.
Qed.

(* what step_ok means *)
Definition step_wf (m : nat) (s : step) : Prop := s <> [] /\ NoDup s /\ forall i, In i s -> i < m.

Lemma step_ok_wf okl m s : step_ok okl m s = true -> step_wf m s /\ okl (length s) = true.
Proof.
  unfold step_ok. intros H. apply andb_prop in H as [H H3]. apply andb_prop in H as [H1 H2].
  split; [|assumption]. destruct (sort_desc s) as [|x d] eqn:E; [discriminate|].
  apply Nat.ltb_lt in H3. repeat split.
  - intros ->. discriminate.
  - eapply Permutation_NoDup; [apply sort_desc_perm|]. rewrite E. now apply strict_desc_nodup.
  - intros i Hi. apply sort_desc_in in Hi. rewrite E in Hi.
    pose proof (strict_desc_bound _ H2 x i eq_refl Hi). lia.
Qed.

Lemma step_wf_length m s : step_wf m s -> 1 <= length s <= m.
Proof.
  intros (Hne & Hnd & Hlt). split; [destruct s; [congruence|cbn; lia]|].
  assert (H : incl s (seq 0 m)) by (intros i Hi; apply in_seq; specialize (Hlt i Hi); lia).
  apply NoDup_incl_length in H; [|assumption]. now rewrite seq_length in H.
Qed.

(* every step of an accepted path references existing, distinct positions *)
Inductive path_wf : nat -> path -> nat -> Prop :=
| pw_nil m : path_wf m [] m
| pw_cons m s p k : step_wf m s -> path_wf (m - length s + 1) p k -> path_wf m (s :: p) k.

Lemma lin_run_wf okl : forall p m k, lin_run okl m p = Some k -> path_wf m p k.
Proof.
  induction p as [|s p IH]; intros m k H; cbn in H.
  - injection H as <-. constructor.
  - destruct (step_ok okl m s) eqn:E; [|discriminate].
    constructor; [now apply step_ok_wf in E|auto].
Qed.

Lemma lin_run_pos okl : forall p m k, lin_run okl m p = Some k -> 1 <= m -> 1 <= k.
Proof.
  induction p as [|s p IH]; intros m k H Hm; cbn in H.
  - injection H as <-. assumption.
  - destruct (step_ok okl m s) eqn:E; [|discriminate]. eapply IH; [eassumption|lia].
Qed.

(* ------------------------------------------------------------------ *)
(* generic execution                                                    *)
Section ExecFacts.
Context {A : Type}.
Variable merge : list A -> option A.
Variable w : A -> list nat.                 (* the inputs a live tensor contains *)
Variable okl : nat -> bool.
Hypothesis merge_perm : forall l r, merge l = Some r -> Permutation (w r) (concat (map w l)).

Definition content (live : list A) : list nat := concat (map w live).

Lemma content_app l1 l2 : content (l1 ++ l2) = content l1 ++ content l2.
Proof. unfold content. now rewrite map_app, concat_app. Qed.

Lemma content_perm l1 l2 : Permutation l1 l2 -> Permutation (content l1) (content l2).
Proof.
  unfold content. induction 1; cbn.
  - constructor.
  - now apply Permutation_app_head.
  - rewrite !app_assoc. apply Permutation_app_tail, Permutation_app_comm.
  - eapply perm_trans; eassumption.
Qed.

Lemma lin_step_perm live s live' : lin_step merge live s = Some live' ->
  Permutation (content live') (content live).
Proof.
  unfold lin_step. destruct (pops (sort_desc s) live) as [[ops rest]|] eqn:E; [|discriminate].
  destruct (merge ops) as [x|] eqn:E2; [|discriminate]. intros H. injection H as <-.
  apply pops_perm in E. apply merge_perm in E2.
  rewrite content_app. unfold content at 2. cbn. rewrite app_nil_r.
  eapply perm_trans; [apply Permutation_app_comm|].
  eapply perm_trans; [apply Permutation_app_tail, E2|].
  change (Permutation (content ops ++ content rest) (content live)).
  rewrite <- content_app. now apply content_perm.
Qed.

Lemma lin_exec_perm : forall p live live', lin_exec merge live p = Some live' ->
  Permutation (content live') (content live).
Proof.
  induction p as [|s p IH]; intros live live' H; cbn in H.
  - injection H as <-. apply Permutation_refl.
  - destruct (lin_step merge live s) as [l1|] eqn:E; [|discriminate].
    eapply perm_trans; [eapply IH; eassumption|]. eapply lin_step_perm; eassumption.
Qed.

Hypothesis merge_total : forall l, okl (length l) = true -> merge l <> None.

Lemma lin_step_ok live s : step_ok okl (length live) s = true ->
  exists live', lin_step merge live s = Some live' /\ length live' = length live - length s + 1.
Proof.
  intros H. pose proof (step_ok_wf _ _ _ H) as [Hwf Hok].
  unfold step_ok in H. apply andb_prop in H as [H H3]. apply andb_prop in H as [_ H2].
  destruct (pops_desc_some (sort_desc s) live H2) as (ops & rest & E).
  { intros x Hx. destruct (sort_desc s); cbn in Hx; [discriminate|]. injection Hx as ->.
    now apply Nat.ltb_lt in H3. }
  unfold lin_step. rewrite E. pose proof (pops_length _ _ _ _ E) as [L1 L2].
  rewrite sort_desc_length in L1, L2.
  destruct (merge ops) as [x|] eqn:E2.
  - eexists. split; [reflexivity|]. rewrite app_length. cbn. lia.
  - exfalso. eapply merge_total; [|exact E2]. now rewrite L1.
Qed.

Lemma lin_exec_ok : forall p live k, lin_run okl (length live) p = Some k ->
  exists live', lin_exec merge live p = Some live' /\ length live' = k.
Proof.
  induction p as [|s p IH]; intros live k H; cbn in H.
  - injection H as <-. exists live. split; reflexivity.
  - destruct (step_ok okl (length live) s) eqn:E; [|discriminate].
    destruct (lin_step_ok _ _ E) as (l1 & E1 & L1).
    rewrite <- L1 in H. destruct (IH l1 k H) as (l2 & E2 & L2).
    exists l2. cbn. rewrite E1. auto.
Qed.

(* ---- SSA ---- *)
Definition dcontent (d : list (nat * A)) : list nat := content (map snd d).

Lemma dpop_perm i : forall (d : list (nat * A)) x r, dpop i d = Some (x, r) -> Permutation ((i, x) :: r) d.
Proof.
  induction d as [|[k v] d IH]; intros x r H; cbn in H; [discriminate|].
  destruct (Nat.eqb k i) eqn:E.
  - injection H as <- <-. apply Nat.eqb_eq in E. subst. apply Permutation_refl.
  - destruct (dpop i d) as [[y q]|] eqn:E2; [|discriminate]. injection H as <- <-.
    eapply perm_trans; [apply perm_swap|]. apply perm_skip. now apply IH.
Qed.

Lemma dpop_keys i : forall (d : list (nat * A)) x r, dpop i d = Some (x, r) -> NoDup (map fst d) ->
  map fst r = filter (fun k => negb (Nat.eqb k i)) (map fst d).
Proof.
  induction d as [|[k v] d IH]; intros x r H Hnd; cbn in H; [discriminate|].
  cbn [map fst filter]. inversion Hnd as [|? ? Hni Hnd']; subst.
  destruct (Nat.eqb k i) eqn:E.
  - injection H as <- <-. apply Nat.eqb_eq in E. subst. cbn.
    symmetry. apply filter_all_true. intros y Hy. apply negb_true_iff, Nat.eqb_neq. intros ->. contradiction.
  - destruct (dpop i d) as [[y q]|] eqn:E2; [|discriminate]. injection H as <- <-.
    cbn. f_equal. eapply IH; eauto.
Qed.

Lemma dpop_some i : forall (d : list (nat * A)), In i (map fst d) -> exists x r, dpop i d = Some (x, r).
Proof.
  induction d as [|[k v] d IH]; intros H; [destruct H|]. cbn.
  destruct (Nat.eqb k i) eqn:E; [eauto|].
  destruct H as [H|H]; [cbn in H; apply Nat.eqb_neq in E; congruence|].
  destruct (IH H) as (x & r & ->). eauto.
Qed.

Lemma dpops_perm : forall s (d : list (nat * A)) xs r, dpops s d = Some (xs, r) ->
  Permutation (content xs ++ dcontent r) (dcontent d).
Proof.
  induction s as [|i s IH]; intros d xs r H; cbn in H.
  - injection H as <- <-. apply Permutation_refl.
  - destruct (dpop i d) as [[x d1]|] eqn:E; [|discriminate].
    destruct (dpops s d1) as [[ys q]|] eqn:E2; [|discriminate]. injection H as <- <-.
    apply IH in E2. apply dpop_perm in E.
    assert (P : Permutation (dcontent ((i, x) :: d1)) (dcontent d)).
    { unfold dcontent. apply content_perm. now apply Permutation_map. }
    eapply perm_trans; [|exact P]. unfold dcontent, content in *. cbn. rewrite <- app_assoc.
    now apply Permutation_app_head.
Qed.

Lemma filter_nodup {B} (f : B -> bool) l : NoDup l -> NoDup (filter f l).
Proof. apply NoDup_filter. Qed.

Lemma dpops_ok : forall s (d : list (nat * A)), NoDup (map fst d) -> nodup_b s = true ->
  forallb (fun i => memb i (map fst d)) s = true ->
  exists xs r, dpops s d = Some (xs, r) /\ length xs = length s /\
               map fst r = remove_all s (map fst d).
Proof.
  induction s as [|i s IH]; intros d Hnd Hs Hin.
  - exists [], d. repeat split. unfold remove_all. cbn.
    symmetry. apply filter_all_true. reflexivity.
  - cbn in Hs, Hin. apply andb_prop in Hs as [Hi Hs]. apply andb_prop in Hin as [Hi2 Hin].
    apply memb_In in Hi2. destruct (dpop_some i d Hi2) as (x & d1 & E).
    pose proof (dpop_keys _ _ _ _ E Hnd) as K.
    destruct (IH d1) as (xs & r & E2 & L & K2).
    + rewrite K. now apply NoDup_filter.
    + assumption.
    + apply forallb_forall. intros j Hj. rewrite K. apply memb_In, filter_In.
      rewrite forallb_forall in Hin. split; [apply memb_In, Hin, Hj|].
      apply negb_true_iff, Nat.eqb_neq. intros ->. apply negb_true_iff in Hi.
      apply memb_false in Hi. contradiction.
    + exists (x :: xs), r. cbn. rewrite E, E2. repeat split; [lia|].
      rewrite K2, K. apply remove_all_cons.
Qed.

Lemma dcontent_snoc d k x : dcontent (d ++ [(k, x)]) = dcontent d ++ w x.
Proof. unfold dcontent. rewrite map_app, content_app. unfold content at 2. cbn. now rewrite app_nil_r. Qed.

Lemma ssa_step_perm st s st' : ssa_step merge st s = Some st' ->
  Permutation (dcontent (fst st')) (dcontent (fst st)).
Proof.
  destruct st as [d nxt]. unfold ssa_step. destruct (dpops s d) as [[ops rest]|] eqn:E; [|discriminate].
  destruct (merge ops) as [x|] eqn:E2; [|discriminate]. intros H. injection H as <-.
  apply dpops_perm in E. apply merge_perm in E2.
  cbn [fst]. rewrite dcontent_snoc.
  eapply perm_trans; [apply Permutation_app_comm|].
  eapply perm_trans; [apply Permutation_app_tail, E2|]. exact E.
Qed.

Lemma ssa_exec_perm : forall p st st', ssa_exec merge st p = Some st' ->
  Permutation (dcontent (fst st')) (dcontent (fst st)).
Proof.
  induction p as [|s p IH]; intros st st' H; cbn in H.
  - injection H as <-. apply Permutation_refl.
  - destruct (ssa_step merge st s) as [s1|] eqn:E; [|discriminate].
    eapply perm_trans; [eapply IH; eassumption|]. eapply ssa_step_perm; eassumption.
Qed.

Definition keys_ok (d : list (nat * A)) (nxt : nat) : Prop :=
  NoDup (map fst d) /\ forall k, In k (map fst d) -> k < nxt.

Lemma ssa_exec_ok : forall p d nxt av nx, keys_ok d nxt ->
  ssa_run okl (map fst d) nxt p = Some (av, nx) ->
  exists d', ssa_exec merge (d, nxt) p = Some (d', nx) /\ map fst d' = av /\ keys_ok d' nx.
Proof.
  induction p as [|s p IH]; intros d nxt av nx Hk H; cbn in H.
  - injection H as <- <-. exists d. auto.
  - destruct (ssa_step_ok okl (map fst d) s) eqn:E; [|discriminate].
    unfold ssa_step_ok in E. apply andb_prop in E as [E E3]. apply andb_prop in E as [E1 E2].
    destruct Hk as [Hnd Hlt].
    destruct (dpops_ok s d Hnd E2 E3) as (ops & rest & Ed & L & K).
    destruct (merge ops) as [x|] eqn:Em; [|exfalso; eapply merge_total; [|exact Em]; now rewrite L].
    assert (Hk' : keys_ok (rest ++ [(nxt, x)]) (S nxt)).
    { split.
      - rewrite map_app, K. cbn. apply NoDup_app_intro.
        + now apply NoDup_filter.
        + repeat constructor. intros [].
        + intros k Hk1 [<-|[]]. apply filter_In in Hk1 as [Hk1 _]. specialize (Hlt _ Hk1). lia.
      - intros k Hk1. rewrite map_app, K in Hk1. cbn [map fst] in Hk1.
        apply in_app_or in Hk1 as [Hk1|[<-|[]]]; [|lia].
        apply filter_In in Hk1 as [Hk1 _]. specialize (Hlt _ Hk1). lia. }
    destruct (IH (rest ++ [(nxt, x)]) (S nxt) av nx Hk') as (d' & Ex & Ka & Kk).
    { rewrite map_app, K. exact H. }
    exists d'. cbn. rewrite Ed, Em. auto.
Qed.
End ExecFacts.

(* ------------------------------------------------------------------ *)
(* the semantics of accepted paths                                      *)
Lemma sem_merge_perm : forall l r, sem_merge l = Some r -> Permutation ((fun s : nset => s) r) (concat (map (fun s => s) l)).
Proof. intros l r H. injection H as <-. rewrite map_id. apply Permutation_refl. Qed.
Lemma sem_merge_total okl : forall l : list nset, okl (length l) = true -> sem_merge l <> None.
Proof. intros l _. discriminate. Qed.

Lemma content_id (l : list nset) : content (fun s => s) l = concat l.
Proof. unfold content. now rewrite map_id. Qed.

Lemma concat_singletons n : concat (singletons n) = seq 0 n.
Proof.
  unfold singletons. generalize 0. induction n as [|n IH]; intros k; cbn; [reflexivity|]. now rewrite IH.
Qed.
Lemma singletons_length n : length (singletons n) = n.
Proof. unfold singletons. now rewrite map_length, seq_length. Qed.

(* prefix form: whatever number of tensors is left, they partition the inputs *)
Theorem linear_prefix_sound n p m : lin_run any_len n p = Some m ->
  path_wf n p m /\
  exists live, sem_linear n p = Some live /\ length live = m /\ Permutation (concat live) (seq 0 n).
Proof.
  intros H. split; [eapply lin_run_wf; eassumption|].
  destruct (lin_exec_ok sem_merge any_len (sem_merge_total any_len) p (singletons n) m) as (live & E & L).
  { now rewrite singletons_length. }
  exists live. repeat split; try assumption.
  pose proof (lin_exec_perm sem_merge (fun s => s) sem_merge_perm p _ _ E) as P.
  rewrite !content_id, concat_singletons in P. exact P.
Qed.

Theorem path_valid_sound_linear n p : linear_path_valid n p = true ->
  path_wf n p 1 /\
  exists s, sem_linear n p = Some [s] /\ Permutation s (seq 0 n).
Proof.
  unfold linear_path_valid. destruct (lin_run any_len n p) as [[|[|k]]|] eqn:E; try discriminate. intros _.
  destruct (linear_prefix_sound _ _ _ E) as (W & live & Es & L & P). split; [assumption|].
  destruct live as [|s [|? ?]]; cbn in L; try discriminate.
  exists s. split; [assumption|]. cbn in P. now rewrite app_nil_r in P.
Qed.

Lemma enumerate_keys {B} (l : list B) : forall k, map fst (enumerate_from k l) = seq k (length l).
Proof. induction l as [|x l IH]; intros k; cbn; [reflexivity|]. now rewrite IH. Qed.
Lemma enumerate_vals {B} (l : list B) : forall k, map snd (enumerate_from k l) = l.
Proof. induction l as [|x l IH]; intros k; cbn; [reflexivity|]. now rewrite IH. Qed.
Lemma enumerate_keys_ok {B} (l : list B) : keys_ok (enumerate_from 0 l) (length l).
Proof.
  split; rewrite enumerate_keys; [apply seq_NoDup|]. intros k Hk. apply in_seq in Hk. lia.
Qed.

(* each step of an accepted SSA path uses ids that exist and have not been used *)
Inductive ssa_wf : list nat -> nat -> path -> list nat -> Prop :=
| sw_nil av nx : ssa_wf av nx [] av
| sw_cons av nx s p av' : s <> [] -> NoDup s -> (forall i, In i s -> In i av) ->
    ssa_wf (remove_all s av ++ [nx]) (S nx) p av' -> ssa_wf av nx (s :: p) av'.

Lemma nodup_b_NoDup l : nodup_b l = true -> NoDup l.
Proof.
  induction l as [|x l IH]; intros H; constructor; cbn in H; apply andb_prop in H as [H1 H2].
  - apply negb_true_iff, memb_false in H1. exact H1.
  - auto.
Qed.
Lemma NoDup_nodup_b l : NoDup l -> nodup_b l = true.
Proof.
  induction 1 as [|x l Hn Hd IH]; [reflexivity|]. cbn. rewrite IH, andb_true_r.
  apply negb_true_iff, memb_false. exact Hn.
Qed.

Lemma ssa_run_wf : forall p av nx av' nx', ssa_run any_len av nx p = Some (av', nx') -> ssa_wf av nx p av'.
Proof.
  induction p as [|s p IH]; intros av nx av' nx' H; cbn in H.
  - injection H as <- <-. constructor.
  - destruct (ssa_step_ok any_len av s) eqn:E; [|discriminate].
    unfold ssa_step_ok in E. apply andb_prop in E as [E E3]. apply andb_prop in E as [E1 E2].
    econstructor; eauto.
    + intros ->. discriminate.
    + now apply nodup_b_NoDup.
    + intros i Hi. rewrite forallb_forall in E3. apply memb_In. auto.
Qed.

Theorem ssa_prefix_sound n p av nx : ssa_run any_len (seq 0 n) n p = Some (av, nx) ->
  ssa_wf (seq 0 n) n p av /\
  exists d, sem_ssa n p = Some (d, nx) /\ map fst d = av /\
            Permutation (concat (map snd d)) (seq 0 n).
Proof.
  intros H. split; [eapply ssa_run_wf; eassumption|].
  pose proof (enumerate_keys_ok (singletons n)) as Hk. rewrite singletons_length in Hk.
  destruct (ssa_exec_ok sem_merge any_len (sem_merge_total any_len) p
              (enumerate_from 0 (singletons n)) n av nx Hk) as (d & E & K & _).
  { rewrite enumerate_keys, singletons_length. exact H. }
  exists d. repeat split; try assumption.
  pose proof (ssa_exec_perm sem_merge (fun s => s) sem_merge_perm p _ _ E) as P.
  cbn [fst] in P. unfold dcontent in P. rewrite !content_id, enumerate_vals, concat_singletons in P. exact P.
Qed.

Theorem path_valid_sound_ssa n p : ssa_path_valid n p = true ->
  exists i s nx, ssa_wf (seq 0 n) n p [i] /\ sem_ssa n p = Some ([(i, s)], nx) /\ Permutation s (seq 0 n).
Proof.
  unfold ssa_path_valid. destruct (ssa_run any_len (seq 0 n) n p) as [[av nx]|] eqn:E; [|discriminate].
  intros L. apply Nat.eqb_eq in L.
  destruct (ssa_prefix_sound _ _ _ _ E) as (W & d & Es & K & P).
  destruct d as [|[i s] [|? ?]]; cbn in K; subst av; cbn in L; try discriminate.
  exists i, s, nx. repeat split; try assumption. cbn in P. now rewrite app_nil_r in P.
Qed.

(* ------------------------------------------------------------------ *)
(* from_path                                                            *)
Lemma pair_nodes_perm x y : Permutation (leaves (pair_nodes x y)) (leaves x ++ leaves y).
Proof.
  unfold pair_nodes. destruct (Nat.eqb (nleaves x) (nleaves y));
    [destruct (Nat.ltb (tmin x) (tmin y))|destruct (Nat.ltb (nleaves y) (nleaves x))]; cbn;
    try apply Permutation_refl; apply Permutation_app_comm.
Qed.

Lemma merge12_perm : forall l r, merge12 l = Some r -> Permutation (leaves r) (concat (map leaves l)).
Proof.
  intros [|x [|y [|z l]]] r H; cbn in H; try discriminate; injection H as <-; cbn.
  - rewrite app_nil_r. apply Permutation_refl.
  - rewrite app_nil_r. apply pair_nodes_perm.
Qed.
Lemma merge12_total : forall l, len12 (length l) = true -> merge12 l <> None.
Proof. intros [|x [|y [|z l]]] H; cbn in *; try discriminate. Qed.

Section FromPath.
Variable sub : list nset -> path.

Lemma contract_list_perm : forall l r, contract_list sub l = Some r ->
  Permutation (leaves r) (concat (map leaves l)).
Proof.
  intros l r H. destruct l as [|x [|y [|z l]]].
  - discriminate.
  - injection H as <-. cbn. rewrite app_nil_r. apply Permutation_refl.
  - injection H as <-. cbn. rewrite app_nil_r. apply pair_nodes_perm.
  - unfold contract_list in H.
    destruct (lin_exec merge12 (x :: y :: z :: l) (sub (map cleaves (x :: y :: z :: l)))) as [[|parent [|? ?]]|] eqn:E;
      try discriminate.
    injection H as <-.
    pose proof (lin_exec_perm merge12 leaves merge12_perm _ _ _ E) as P.
    unfold content in P. cbn [map concat] in P. rewrite app_nil_r in P. exact P.
Qed.

(* the assumption on find_path: for 3 or more operands it returns a valid path of
   pairwise (or single-operand) steps *)
Hypothesis sub_valid : forall ls : list nset, 3 <= length ls -> binary_path_valid (length ls) (sub ls) = true.

Lemma contract_list_total : forall l, any_len (length l) = true -> contract_list sub l <> None.
Proof.
  intros l H. destruct l as [|x [|y [|z l]]]; try discriminate.
  unfold contract_list. set (L := x :: y :: z :: l).
  assert (HL : 3 <= length (map cleaves L)) by (rewrite map_length; cbn; lia).
  specialize (sub_valid (map cleaves L) HL). unfold binary_path_valid in sub_valid.
  rewrite map_length in sub_valid.
  destruct (lin_run len12 (length L) (sub (map cleaves L))) as [[|[|k]]|] eqn:E; try discriminate.
  destruct (lin_exec_ok merge12 len12 merge12_total _ L 1 E) as (live & E2 & L2).
  rewrite E2. destruct live as [|p [|? ?]]; cbn in L2; try discriminate.
Qed.

Lemma leaf_forest_length n : length (leaf_forest n) = n.
Proof. unfold leaf_forest. now rewrite map_length, seq_length. Qed.
Lemma leaf_forest_content n : content leaves (leaf_forest n) = seq 0 n.
Proof.
  unfold content, leaf_forest. generalize 0. induction n as [|n IH]; intros k; cbn; [reflexivity|].
  now rewrite IH.
Qed.

Lemma finish_forest_ok nodes : nodes <> [] ->
  exists t, finish_forest sub nodes = Some t /\ Permutation (leaves t) (content leaves nodes).
Proof.
  intros Hne. unfold finish_forest.
  assert (H : exists t, contract_list sub nodes = Some t).
  { destruct (contract_list sub nodes) eqn:E; [eauto|]. exfalso.
    eapply contract_list_total; [|exact E]. destruct nodes; [congruence|reflexivity]. }
  destruct H as (t & E). pose proof (contract_list_perm _ _ E) as P.
  destruct nodes as [|a [|b l]]; [congruence| |]; eauto.
Qed.

(* from_path on ANY valid prefix (complete or not): a binary tree over exactly the inputs *)
Theorem from_path_linear_complete n p m : 1 <= n -> lin_run any_len n p = Some m ->
  exists t, from_path_linear sub n p = Some t /\ Permutation (leaves t) (seq 0 n).
Proof.
  intros Hn H. unfold from_path_linear.
  destruct (lin_exec_ok (contract_list sub) any_len contract_list_total p (leaf_forest n) m) as (nodes & E & L).
  { now rewrite leaf_forest_length. }
  rewrite E. pose proof (lin_exec_perm _ leaves contract_list_perm _ _ _ E) as P.
  rewrite leaf_forest_content in P.
  assert (Hm : 1 <= m) by (eapply lin_run_pos; eassumption).
  destruct (finish_forest_ok nodes) as (t & Et & Pt); [intros ->; cbn in L; lia|].
  exists t. split; [assumption|]. eapply perm_trans; eassumption.
Qed.

Lemma ssa_run_nonempty okl : forall p av nx av' nx', ssa_run okl av nx p = Some (av', nx') -> av <> [] -> av' <> [].
Proof.
  induction p as [|s p IH]; intros av nx av' nx' H Hne; cbn in H.
  - injection H as <- <-. assumption.
  - destruct (ssa_step_ok okl av s); [|discriminate]. eapply IH; [eassumption|].
    intros Hc. apply app_eq_nil in Hc as [_ Hc]. discriminate.
Qed.

Theorem from_path_ssa_complete n p av nx : 1 <= n -> ssa_run any_len (seq 0 n) n p = Some (av, nx) ->
  exists t, from_path_ssa sub n p = Some t /\ Permutation (leaves t) (seq 0 n).
Proof.
  intros Hn H. unfold from_path_ssa.
  pose proof (enumerate_keys_ok (leaf_forest n)) as Hk. rewrite leaf_forest_length in Hk.
  destruct (ssa_exec_ok (contract_list sub) any_len contract_list_total p
              (enumerate_from 0 (leaf_forest n)) n av nx Hk) as (d & E & K & _).
  { rewrite enumerate_keys, leaf_forest_length. exact H. }
  rewrite E. pose proof (ssa_exec_perm _ leaves contract_list_perm _ _ _ E) as P.
  cbn [fst] in P. unfold dcontent in P. rewrite enumerate_vals, leaf_forest_content in P.
  destruct (finish_forest_ok (map snd d)) as (t & Et & Pt).
  { intros Hc. apply map_eq_nil in Hc. subst d. cbn in K. subst av.
    eapply ssa_run_nonempty; [exact H| |reflexivity]. destruct n; [lia|discriminate]. }
  exists t. split; [assumption|]. eapply perm_trans; eassumption.
Qed.
End FromPath.

(* the table-driven oracle used by the correspondence satisfies the assumption *)
Lemma chain_path_valid : forall k, 1 <= k -> lin_run len12 k (chain_path k) = Some 1.
Proof.
  induction k as [|k IH]; intros Hk; [lia|]. destruct k as [|k]; [reflexivity|].
  change (chain_path (S (S k))) with ([S k - 1; S k] :: chain_path (S k)).
  cbn [lin_run]. replace (step_ok len12 (S (S k)) [S k - 1; S k]) with true.
  - replace (S (S k) - length [S k - 1; S k] + 1) with (S k) by (cbn; lia). apply IH. lia.
  - symmetry. unfold step_ok. cbn [length len12 Nat.eqb orb andb sort_desc fold_right ins_desc].
    replace (Nat.leb (S k - 1) (S k)) with true by (symmetry; apply Nat.leb_le; lia).
    cbn [strict_desc_b]. rewrite andb_true_r.
    apply andb_true_intro. split; apply Nat.ltb_lt; lia.
Qed.
Lemma sub_of_table_valid tbl : forall ls : list nset, 3 <= length ls ->
  binary_path_valid (length ls) (sub_of_table tbl ls) = true.
Proof.
  intros ls H. unfold sub_of_table.
  assert (C : binary_path_valid (length ls) (chain_path (length ls)) = true).
  { unfold binary_path_valid. rewrite chain_path_valid; [reflexivity|lia]. }
  destruct (table_get tbl ls) as [p|]; [|exact C].
  destruct (binary_path_valid (length ls) p) eqn:E; [exact E|exact C].
Qed.

(* ------------------------------------------------------------------ *)
(* the checker for children maps                                        *)
Inductive builds (ch : chmap) : tree -> nset -> Prop :=
| B_leaf k : builds ch (Leaf k) [k]
| B_node l r sl sr s : ch_get s ch = Some (sl, sr) ->
    (forall x, In x s <-> In x sl \/ In x sr) ->
    builds ch l sl -> builds ch r sr -> builds ch (Node l r) s.

(* a complete contraction tree over n inputs: the map leads from the full set down to
   the leaves, every input is a leaf exactly once, and the map has no other entries *)
Definition tree_complete (n : nat) (ch : chmap) : Prop :=
  exists t, builds ch t (seq 0 n) /\ Permutation (leaves t) (seq 0 n) /\ length ch = n - 1.

Lemma subset_b_incl a b : subset_b a b = true -> incl a b.
Proof. unfold subset_b. rewrite forallb_forall. intros H x Hx. apply memb_In. auto. Qed.

Lemma build_tree_sound ch : forall fuel s t, build_tree fuel ch s = Some t -> builds ch t s.
Proof.
  induction fuel as [|f IH]; intros s t H; [discriminate|]. cbn [build_tree] in H.
  assert (G : (exists k, s = [k] /\ t = Leaf k) \/
              (exists l r tl tr, ch_get s ch = Some (l, r) /\ eqset_b s (l ++ r) = true /\
                 build_tree f ch l = Some tl /\ build_tree f ch r = Some tr /\ t = Node tl tr)).
  { destruct s as [|k [|k2 s']].
    - right. destruct (ch_get [] ch) as [[l r]|]; [|discriminate].
      destruct (eqset_b [] (l ++ r)) eqn:E; [|discriminate].
      destruct (build_tree f ch l) as [tl|] eqn:E1; [|discriminate].
      destruct (build_tree f ch r) as [tr|] eqn:E2; [|discriminate].
      injection H as <-. exists l, r, tl, tr. auto.
    - left. injection H as <-. eauto.
    - right. destruct (ch_get (k :: k2 :: s') ch) as [[l r]|]; [|discriminate].
      destruct (eqset_b (k :: k2 :: s') (l ++ r)) eqn:E; [|discriminate].
      destruct (build_tree f ch l) as [tl|] eqn:E1; [|discriminate].
      destruct (build_tree f ch r) as [tr|] eqn:E2; [|discriminate].
      injection H as <-. exists l, r, tl, tr. auto. }
  destruct G as [(k & -> & ->)|(l & r & tl & tr & Hg & He & H1 & H2 & ->)]; [constructor|].
  econstructor; eauto.
  unfold eqset_b in He. apply andb_prop in He as [Ha Hb].
  apply subset_b_incl in Ha, Hb. intros x. split.
  - intros Hx. apply in_app_or. auto.
  - intros Hx. apply Hb. apply in_or_app. exact Hx.
Qed.

Lemma perm_seq_b_sound l n : perm_seq_b l n = true -> Permutation l (seq 0 n).
Proof.
  unfold perm_seq_b. intros H. apply andb_prop in H as [H H3]. apply andb_prop in H as [H1 H2].
  apply Nat.eqb_eq in H1. apply nodup_b_NoDup in H2. rewrite forallb_forall in H3.
  apply NoDup_Permutation_bis; [assumption|rewrite seq_length; lia|].
  intros x Hx. apply in_seq. specialize (H3 x Hx). apply Nat.ltb_lt in H3. lia.
Qed.

Theorem tree_complete_b_sound n ch : tree_complete_b n ch = true -> tree_complete n ch.
Proof.
  unfold tree_complete_b. destruct (build_tree (S n) ch (seq 0 n)) as [t|] eqn:E; [|discriminate].
  intros H. apply andb_prop in H as [H1 H2]. exists t. repeat split.
  - eapply build_tree_sound; eassumption.
  - now apply perm_seq_b_sound.
  - now apply Nat.eqb_eq.
Qed.

Lemma builds_leaves ch t s : builds ch t s -> forall x, In x (leaves t) <-> In x s.
Proof.
  induction 1 as [k|l r sl sr s Hg Hs Hl IHl Hr IHr]; intros x; cbn; [tauto|].
  rewrite in_app_iff, IHl, IHr, Hs. tauto.
Qed.

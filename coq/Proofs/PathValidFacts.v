(* PathValidFacts.v -- lemmas about Model/PathValid.v *)
From Coq Require Import Lia Permutation.
From Ctg Require Import Base Net PathValid BaseFacts.

Lemma filter_all_true {B} (f : B -> bool) l : (forall x, In x l -> f x = true) -> filter f l = l.
Proof.
  induction l as [|x l IH]; intros H; [reflexivity|]. cbn. rewrite (H x (or_introl eq_refl)).
  f_equal. apply IH. intros y Hy. apply H. now right.
Qed.
Lemma NoDup_app_intro {B} (a b : list B) : NoDup a -> NoDup b -> (forall x, In x a -> In x b -> False) ->
  NoDup (a ++ b).
Proof.
  induction a as [|x a IH]; intros Ha Hb Hd; [assumption|]. cbn. inversion Ha; subst. constructor.
  - intros Hin. apply in_app_or in Hin as [Hin|Hin]; [contradiction|]. eapply Hd; [left; reflexivity|exact Hin].
  - apply IH; auto. intros y Hy1 Hy2. eapply Hd; [right; exact Hy1|exact Hy2].
Qed.

Lemma remove_all_cons i s l :
  remove_all s (filter (fun k => negb (Nat.eqb k i)) l) = remove_all (i :: s) l.
Proof.
  unfold remove_all, memb. induction l as [|k l IH]; [reflexivity|]. cbn.
  destruct (Nat.eqb k i) eqn:E; cbn; [exact IH|].
  destruct (existsb (Nat.eqb k) s); cbn; [exact IH|]. f_equal. exact IH.
Qed.

(* ------------------------------------------------------------------ *)
(* pop_at / pops                                                        *)
Lemma pop_at_perm {A} i : forall (l : list A) x r, pop_at i l = Some (x, r) -> Permutation (x :: r) l.
Proof.
  induction i as [|i IH]; intros [|y l] x r H; cbn in H; try discriminate.
  - injection H as -> ->. apply Permutation_refl.
  - destruct (pop_at i l) as [[z q]|] eqn:E; [|discriminate].
    injection H as -> <-. apply IH in E.
    eapply perm_trans; [apply perm_swap|]. now apply perm_skip.
Qed.

Lemma pop_at_some {A} i : forall (l : list A), i < length l ->
  exists x r, pop_at i l = Some (x, r) /\ length r = length l - 1.
Proof.
  induction i as [|i IH]; intros [|y l] H; cbn in H; try lia.
  - exists y, l. cbn. split; [reflexivity|lia].
  - destruct (IH l) as (x & r & E & L); [lia|].
    exists x, (y :: r). cbn. rewrite E. split; [reflexivity|]. cbn. destruct l; cbn in *; lia.
Qed.

Lemma pop_at_length {A} i : forall (l : list A) x r, pop_at i l = Some (x, r) -> length l = S (length r).
Proof.
  intros l x r H. apply pop_at_perm in H. apply Permutation_length in H. cbn in H. lia.
Qed.

Lemma pops_perm {A} is : forall (l : list A) xs r, pops is l = Some (xs, r) -> Permutation (xs ++ r) l.
Proof.
  induction is as [|i is IH]; intros l xs r H; cbn in H.
  - injection H as <- <-. apply Permutation_refl.
  - destruct (pop_at i l) as [[x l1]|] eqn:E; [|discriminate].
    destruct (pops is l1) as [[ys q]|] eqn:E2; [|discriminate].
    injection H as <- <-. cbn. apply IH in E2. apply pop_at_perm in E.
    eapply perm_trans; [|exact E]. now apply perm_skip.
Qed.

Lemma pops_length {A} is : forall (l : list A) xs r, pops is l = Some (xs, r) ->
  length xs = length is /\ length l = length is + length r.
Proof.
  induction is as [|i is IH]; intros l xs r H; cbn in H.
  - injection H as <- <-. cbn. lia.
  - destruct (pop_at i l) as [[x l1]|] eqn:E; [|discriminate].
    destruct (pops is l1) as [[ys q]|] eqn:E2; [|discriminate].
    injection H as <- <-. apply IH in E2. apply pop_at_length in E. cbn. lia.
Qed.

(* strictly descending positions whose head is in range can all be popped *)
Lemma strict_desc_cons x y l : strict_desc_b (x :: y :: l) = true -> y < x /\ strict_desc_b (y :: l) = true.
Proof.
  cbn [strict_desc_b]. intros H. apply andb_prop in H as [H1 H2]. apply Nat.ltb_lt in H1. auto.
Qed.

Lemma pops_desc_some {A} is : forall (l : list A),
  strict_desc_b is = true -> (forall x, hd_error is = Some x -> x < length l) ->
  exists xs r, pops is l = Some (xs, r).
Proof.
  induction is as [|i is IH]; intros l Hs Hh.
  - exists [], l. reflexivity.
  - destruct (pop_at_some i l) as (x & l1 & E & L); [apply Hh; reflexivity|].
    cbn [pops]. rewrite E.
    destruct (IH l1) as (xs & r & E2).
    + destruct is as [|j is]; [reflexivity|]. now apply strict_desc_cons in Hs.
    + intros j Hj. destruct is as [|j' is]; cbn in Hj; [discriminate|]. injection Hj as ->.
      apply strict_desc_cons in Hs as [Hlt _]. specialize (Hh i eq_refl). lia.
    + rewrite E2. eauto.
Qed.

(* ------------------------------------------------------------------ *)
(* sort_desc                                                            *)
Lemma ins_desc_perm x l : Permutation (ins_desc x l) (x :: l).
Proof.
  induction l as [|y l IH]; cbn; [apply Permutation_refl|].
  destruct (Nat.leb x y); [|apply Permutation_refl].
  eapply perm_trans; [apply perm_skip, IH|apply perm_swap].
Qed.
Lemma sort_desc_perm l : Permutation (sort_desc l) l.
Proof.
  induction l as [|x l IH]; cbn; [constructor|].
  eapply perm_trans; [apply ins_desc_perm|]. now apply perm_skip.
Qed.
Lemma sort_desc_length l : length (sort_desc l) = length l.
Proof. apply Permutation_length, sort_desc_perm. Qed.
Lemma sort_desc_in x l : In x (sort_desc l) <-> In x l.
Proof.
  split; apply Permutation_in; [apply sort_desc_perm|apply Permutation_sym, sort_desc_perm].
Qed.

Lemma strict_desc_bound l : strict_desc_b l = true ->
  forall x y, hd_error l = Some x -> In y l -> y <= x.
Proof.
  induction l as [|a l IH]; intros Hs x y Hx Hy; [destruct Hy|].
  cbn in Hx. injection Hx as <-. destruct Hy as [->|Hy]; [lia|].
  destruct l as [|b l]; [destruct Hy|].
  apply strict_desc_cons in Hs as [Hlt Hs]. specialize (IH Hs b y eq_refl Hy). lia.
Qed.
Lemma strict_desc_nodup l : strict_desc_b l = true -> NoDup l.
Proof.
  induction l as [|a l IH]; intros Hs; constructor.
  - intro Hin. destruct l as [|b l]; [destruct Hin|].
    apply strict_desc_cons in Hs as [Hlt Hs].
    pose proof (strict_desc_bound _ Hs b a eq_refl Hin). lia.
  - destruct l as [|b l]; [constructor|]. apply IH. now apply strict_desc_cons in Hs.
Qed.

(* what step_ok means *)
Definition step_wf (m : nat) (s : step) : Prop := s <> [] /\ NoDup s /\ forall i, In i s -> i < m.

Lemma step_ok_wf okl m s : step_ok okl m s = true -> step_wf m s /\ okl (length s) = true.
Proof.
  unfold step_ok. intros H. apply andb_prop in H as [H H3]. apply andb_prop in H as [H1 H2].
  split; [|assumption]. destruct (sort_desc s) as [|x d] eqn:E; [discriminate|].
  apply Nat.ltb_lt in H3. repeat split.
  - intros ->. discriminate.
  - eapply Permutation_NoDup; [apply sort_desc_perm|]. rewrite E. now apply strict_desc_nodup.
  - intros i Hi. apply sort_desc_in in Hi. rewrite E in Hi.
    pose proof (strict_desc_bound _ H2 x i eq_refl Hi). lia.
Qed.

Lemma step_wf_length m s : step_wf m s -> 1 <= length s <= m.
Proof.
  intros (Hne & Hnd & Hlt). split; [destruct s; [congruence|cbn; lia]|].
  assert (H : incl s (seq 0 m)) by (intros i Hi; apply in_seq; specialize (Hlt i Hi); lia).
  apply NoDup_incl_length in H; [|assumption]. now rewrite seq_length in H.
Qed.

(* every step of an accepted path references existing, distinct positions *)
Inductive path_wf : nat -> path -> nat -> Prop :=
| pw_nil m : path_wf m [] m
| pw_cons m s p k : step_wf m s -> path_wf (m - length s + 1) p k -> path_wf m (s :: p) k.

Lemma lin_run_wf okl : forall p m k, lin_run okl m p = Some k -> path_wf m p k.
Proof.
  induction p as [|s p IH]; intros m k H; cbn in H.
  - injection H as <-. constructor.
  - destruct (step_ok okl m s) eqn:E; [|discriminate].
    constructor; [now apply step_ok_wf in E|auto].
Qed.

Lemma lin_run_pos okl : forall p m k, lin_run okl m p = Some k -> 1 <= m -> 1 <= k.
Proof.
  induction p as [|s p IH]; intros m k H Hm; cbn in H.
  - injection H as <-. assumption.
  - destruct (step_ok okl m s) eqn:E; [|discriminate]. eapply IH; [eassumption|lia].
Qed.

(* ------------------------------------------------------------------ *)
(* generic execution                                                    *)
Section ExecFacts.
Context {A : Type}.
Variable merge : list A -> option A.
Variable w : A -> list nat.                 (* the inputs a live tensor contains *)
Variable okl : nat -> bool.
Hypothesis merge_perm : forall l r, merge l = Some r -> Permutation (w r) (concat (map w l)).

Definition content (live : list A) : list nat := concat (map w live).

Lemma content_app l1 l2 : content (l1 ++ l2) = content l1 ++ content l2.
Proof. unfold content. now rewrite map_app, concat_app. Qed.

Lemma content_perm l1 l2 : Permutation l1 l2 -> Permutation (content l1) (content l2).
Proof.
  unfold content. induction 1; cbn.
  - constructor.
  - now apply Permutation_app_head.
  - rewrite !app_assoc. apply Permutation_app_tail, Permutation_app_comm.
  - eapply perm_trans; eassumption.
Qed.

Lemma lin_step_perm live s live' : lin_step merge live s = Some live' ->
  Permutation (content live') (content live).
Proof.
  unfold lin_step. destruct (pops (sort_desc s) live) as [[ops rest]|] eqn:E; [|discriminate].
  destruct (merge ops) as [x|] eqn:E2; [|discriminate]. intros H. injection H as <-.
  apply pops_perm in E. apply merge_perm in E2.
  rewrite content_app. unfold content at 2. cbn. rewrite app_nil_r.
  eapply perm_trans; [apply Permutation_app_comm|].
  eapply perm_trans; [apply Permutation_app_tail, E2|].
  change (Permutation (content ops ++ content rest) (content live)).
  rewrite <- content_app. now apply content_perm.
Qed.

Lemma lin_exec_perm : forall p live live', lin_exec merge live p = Some live' ->
  Permutation (content live') (content live).
Proof.
  induction p as [|s p IH]; intros live live' H; cbn in H.
  - injection H as <-. apply Permutation_refl.
  - destruct (lin_step merge live s) as [l1|] eqn:E; [|discriminate].
    eapply perm_trans; [eapply IH; eassumption|]. eapply lin_step_perm; eassumption.
Qed.

Hypothesis merge_total : forall l, okl (length l) = true -> merge l <> None.

Lemma lin_step_ok live s : step_ok okl (length live) s = true ->
  exists live', lin_step merge live s = Some live' /\ length live' = length live - length s + 1.
Proof.
  intros H. pose proof (step_ok_wf _ _ _ H) as [Hwf Hok].
  unfold step_ok in H. apply andb_prop in H as [H H3]. apply andb_prop in H as [_ H2].
  destruct (pops_desc_some (sort_desc s) live H2) as (ops & rest & E).
  { intros x Hx. destruct (sort_desc s); cbn in Hx; [discriminate|]. injection Hx as ->.
    now apply Nat.ltb_lt in H3. }
  unfold lin_step. rewrite E. pose proof (pops_length _ _ _ _ E) as [L1 L2].
  rewrite sort_desc_length in L1, L2.
  destruct (merge ops) as [x|] eqn:E2.
  - eexists. split; [reflexivity|]. rewrite app_length. cbn. lia.
  - exfalso. eapply merge_total; [|exact E2]. now rewrite L1.
Qed.

Lemma lin_exec_ok : forall p live k, lin_run okl (length live) p = Some k ->
  exists live', lin_exec merge live p = Some live' /\ length live' = k.
Proof.
  induction p as [|s p IH]; intros live k H; cbn in H.
  - injection H as <-. exists live. split; reflexivity.
  - destruct (step_ok okl (length live) s) eqn:E; [|discriminate].
    destruct (lin_step_ok _ _ E) as (l1 & E1 & L1).
    rewrite <- L1 in H. destruct (IH l1 k H) as (l2 & E2 & L2).
    exists l2. cbn. rewrite E1. auto.
Qed.

(* ---- SSA ---- *)
Definition dcontent (d : list (nat * A)) : list nat := content (map snd d).

Lemma dpop_perm i : forall (d : list (nat * A)) x r, dpop i d = Some (x, r) -> Permutation ((i, x) :: r) d.
Proof.
  induction d as [|[k v] d IH]; intros x r H; cbn in H; [discriminate|].
  destruct (Nat.eqb k i) eqn:E.
  - injection H as <- <-. apply Nat.eqb_eq in E. subst. apply Permutation_refl.
  - destruct (dpop i d) as [[y q]|] eqn:E2; [|discriminate]. injection H as <- <-.
    eapply perm_trans; [apply perm_swap|]. apply perm_skip. now apply IH.
Qed.

Lemma dpop_keys i : forall (d : list (nat * A)) x r, dpop i d = Some (x, r) -> NoDup (map fst d) ->
  map fst r = filter (fun k => negb (Nat.eqb k i)) (map fst d).
Proof.
  induction d as [|[k v] d IH]; intros x r H Hnd; cbn in H; [discriminate|].
  cbn [map fst filter]. inversion Hnd as [|? ? Hni Hnd']; subst.
  destruct (Nat.eqb k i) eqn:E.
  - injection H as <- <-. apply Nat.eqb_eq in E. subst. cbn.
    symmetry. apply filter_all_true. intros y Hy. apply negb_true_iff, Nat.eqb_neq. intros ->. contradiction.
  - destruct (dpop i d) as [[y q]|] eqn:E2; [|discriminate]. injection H as <- <-.
    cbn. f_equal. eapply IH; eauto.
Qed.

Lemma dpop_some i : forall (d : list (nat * A)), In i (map fst d) -> exists x r, dpop i d = Some (x, r).
Proof.
  induction d as [|[k v] d IH]; intros H; [destruct H|]. cbn.
  destruct (Nat.eqb k i) eqn:E; [eauto|].
  destruct H as [H|H]; [cbn in H; apply Nat.eqb_neq in E; congruence|].
  destruct (IH H) as (x & r & ->). eauto.
Qed.

Lemma dpops_perm : forall s (d : list (nat * A)) xs r, dpops s d = Some (xs, r) ->
  Permutation (content xs ++ dcontent r) (dcontent d).
Proof.
  induction s as [|i s IH]; intros d xs r H; cbn in H.
  - injection H as <- <-. apply Permutation_refl.
  - destruct (dpop i d) as [[x d1]|] eqn:E; [|discriminate].
    destruct (dpops s d1) as [[ys q]|] eqn:E2; [|discriminate]. injection H as <- <-.
    apply IH in E2. apply dpop_perm in E.
    assert (P : Permutation (dcontent ((i, x) :: d1)) (dcontent d)).
    { unfold dcontent. apply content_perm. now apply Permutation_map. }
    eapply perm_trans; [|exact P]. unfold dcontent, content in *. cbn. rewrite <- app_assoc.
    now apply Permutation_app_head.
Qed.

Lemma filter_nodup {B} (f : B -> bool) l : NoDup l -> NoDup (filter f l).
Proof. apply NoDup_filter. Qed.

Lemma dpops_ok : forall s (d : list (nat * A)), NoDup (map fst d) -> nodup_b s = true ->
  forallb (fun i => memb i (map fst d)) s = true ->
  exists xs r, dpops s d = Some (xs, r) /\ length xs = length s /\
               map fst r = remove_all s (map fst d).
Proof.
  induction s as [|i s IH]; intros d Hnd Hs Hin.
  - exists [], d. repeat split. unfold remove_all. cbn.
    symmetry. apply filter_all_true. reflexivity.
  - cbn in Hs, Hin. apply andb_prop in Hs as [Hi Hs]. apply andb_prop in Hin as [Hi2 Hin].
    apply memb_In in Hi2. destruct (dpop_some i d Hi2) as (x & d1 & E).
    pose proof (dpop_keys _ _ _ _ E Hnd) as K.
    destruct (IH d1) as (xs & r & E2 & L & K2).
    + rewrite K. now apply NoDup_filter.
    + assumption.
    + apply forallb_forall. intros j Hj. rewrite K. apply memb_In, filter_In.
      rewrite forallb_forall in Hin. split; [apply memb_In, Hin, Hj|].
      apply negb_true_iff, Nat.eqb_neq. intros ->. apply negb_true_iff in Hi.
      apply memb_false in Hi. contradiction.
    + exists (x :: xs), r. cbn. rewrite E, E2. repeat split; [lia|].
      rewrite K2, K. apply remove_all_cons.
Qed.

Lemma dcontent_snoc d k x : dcontent (d ++ [(k, x)]) = dcontent d ++ w x.
Proof. unfold dcontent. rewrite map_app, content_app. unfold content at 2. cbn. now rewrite app_nil_r. Qed.

Lemma ssa_step_perm st s st' : ssa_step merge st s = Some st' ->
  Permutation (dcontent (fst st')) (dcontent (fst st)).
Proof.
  destruct st as [d nxt]. unfold ssa_step. destruct (dpops s d) as [[ops rest]|] eqn:E; [|discriminate].
  destruct (merge ops) as [x|] eqn:E2; [|discriminate]. intros H. injection H as <-.
  apply dpops_perm in E. apply merge_perm in E2.
  cbn [fst]. rewrite dcontent_snoc.
  eapply perm_trans; [apply Permutation_app_comm|].
  eapply perm_trans; [apply Permutation_app_tail, E2|]. exact E.
Qed.

Lemma ssa_exec_perm : forall p st st', ssa_exec merge st p = Some st' ->
  Permutation (dcontent (fst st')) (dcontent (fst st)).
Proof.
  induction p as [|s p IH]; intros st st' H; cbn in H.
  - injection H as <-. apply Permutation_refl.
  - destruct (ssa_step merge st s) as [s1|] eqn:E; [|discriminate].
    eapply perm_trans; [eapply IH; eassumption|]. eapply ssa_step_perm; eassumption.
Qed.

Definition keys_ok (d : list (nat * A)) (nxt : nat) : Prop :=
  NoDup (map fst d) /\ forall k, In k (map fst d) -> k < nxt.

Lemma ssa_exec_ok : forall p d nxt av nx, keys_ok d nxt ->
  ssa_run okl (map fst d) nxt p = Some (av, nx) ->
  exists d', ssa_exec merge (d, nxt) p = Some (d', nx) /\ map fst d' = av /\ keys_ok d' nx.
Proof.
  induction p as [|s p IH]; intros d nxt av nx Hk H; cbn in H.
  - injection H as <- <-. exists d. auto.
  - destruct (ssa_step_ok okl (map fst d) s) eqn:E; [|discriminate].
    unfold ssa_step_ok in E. apply andb_prop in E as [E E3]. apply andb_prop in E as [E1 E2].
    destruct Hk as [Hnd Hlt].
    destruct (dpops_ok s d Hnd E2 E3) as (ops & rest & Ed & L & K).
    destruct (merge ops) as [x|] eqn:Em; [|exfalso; eapply merge_total; [|exact Em]; now rewrite L].
    assert (Hk' : keys_ok (rest ++ [(nxt, x)]) (S nxt)).
    { split.
      - rewrite map_app, K. cbn. apply NoDup_app_intro.
        + now apply NoDup_filter.
        + repeat constructor. intros [].
        + intros k Hk1 [<-|[]]. apply filter_In in Hk1 as [Hk1 _]. specialize (Hlt _ Hk1). lia.
      - intros k Hk1. rewrite map_app, K in Hk1. cbn [map fst] in Hk1.
        apply in_app_or in Hk1 as [Hk1|[<-|[]]]; [|lia].
        apply filter_In in Hk1 as [Hk1 _]. specialize (Hlt _ Hk1). lia. }
    destruct (IH (rest ++ [(nxt, x)]) (S nxt) av nx Hk') as (d' & Ex & Ka & Kk).
    { rewrite map_app, K. exact H. }
    exists d'. cbn. rewrite Ed, Em. auto.
Qed.
End ExecFacts.

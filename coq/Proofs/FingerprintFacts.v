(* FingerprintFacts.v -- hash_contraction_a (fp_a) identifies exactly the networks that
   are equal up to the order of the indices inside every term / the output / the
   size_dict items, and every cost figure of a contraction tree is invariant
   under that equivalence. *)
From Coq Require Import Lia Permutation ZArith List Bool ZifyBool.
From Ctg Require Import Base Net DiskFS Reusable BaseFacts NetFacts.

(* ------------------------------------------------------------------ *)
(* (1) insertion sort is a permutation                                 *)
Lemma insert_by_perm {A} (le : A -> A -> bool) x l : Permutation (insert_by le x l) (x :: l).
Proof.
  induction l as [|y l IH]; cbn [insert_by]; [apply Permutation_refl|].
  destruct (le y x).
  - eapply Permutation_trans; [apply perm_skip, IH|apply perm_swap].
  - apply Permutation_refl.
Qed.

Lemma sort_by_acc_perm {A} (le : A -> A -> bool) l : forall acc,
  Permutation (fold_left (fun acc x => insert_by le x acc) l acc) (acc ++ l).
Proof.
  induction l as [|x l IH]; intros acc; cbn [fold_left].
  - rewrite app_nil_r. apply Permutation_refl.
  - eapply Permutation_trans; [apply IH|].
    eapply Permutation_trans; [apply Permutation_app_tail, insert_by_perm|].
    cbn [app]. apply Permutation_middle.
Qed.

Lemma sort_by_perm {A} (le : A -> A -> bool) l : Permutation (sort_by le l) l.
Proof. unfold sort_by. apply (sort_by_acc_perm le l []). Qed.

Lemma sort_by_eq_perm {A} (le : A -> A -> bool) l1 l2 :
  sort_by le l1 = sort_by le l2 -> Permutation l1 l2.
Proof.
  intros E. eapply Permutation_trans; [apply Permutation_sym, (sort_by_perm le)|].
  rewrite E. apply sort_by_perm.
Qed.

(* ------------------------------------------------------------------ *)
(* (2) equal fingerprints => equivalent networks                       *)
Definition equiv_a (n1 n2 : net) : Prop :=
  Forall2 (@Permutation ix) (inputs n1) (inputs n2) /\ Permutation (output n1) (output n2) /\ Permutation (szd n1) (szd n2).

Lemma map_sortn_eq_forall2 (a : list (list ix)) : forall b,
  map sortn a = map sortn b -> Forall2 (@Permutation ix) a b.
Proof.
  induction a as [|x a IH]; intros [|y b] E; cbn [map] in E; try discriminate E.
  - constructor.
  - injection E as E1 E2. constructor; [|apply IH, E2].
    apply (sort_by_eq_perm Nat.leb). exact E1.
Qed.

Theorem fp_a_equiv n1 n2 : fp_a n1 = fp_a n2 -> equiv_a n1 n2.
Proof.
  unfold fp_a. intros E. injection E as E1 E2 E3. repeat split.
  - apply map_sortn_eq_forall2, E1.
  - apply (sort_by_eq_perm Nat.leb), E2.
  - apply (sort_by_eq_perm iz_le), E3.
Qed.

(* ------------------------------------------------------------------ *)
(* (4) zget under permutation of a size dictionary with distinct keys   *)
Lemma zget_in (s : sizes) j v : NoDup (map fst s) -> In (j, v) s -> zget j s = v.
Proof.
  induction s as [|[k w] s IH]; cbn [zget map fst In]; intros ND Hin; [destruct Hin|].
  inversion ND as [|? ? Hn ND']; subst.
  destruct Hin as [E|Hin].
  - inversion E; subst. rewrite Nat.eqb_refl. reflexivity.
  - destruct (Nat.eqb_spec k j) as [->|Hkj]; [|apply IH; assumption].
    exfalso. apply Hn. apply (in_map fst) in Hin. exact Hin.
Qed.

Lemma zget_notin (s : sizes) j : ~ In j (map fst s) -> zget j s = 1%Z.
Proof.
  induction s as [|[k w] s IH]; cbn [zget map fst In]; intros Hn; [reflexivity|].
  destruct (Nat.eqb_spec k j) as [->|Hkj]; [exfalso; apply Hn; left; reflexivity|].
  apply IH. intros H. apply Hn. right. exact H.
Qed.

Lemma zget_perm (s1 s2 : sizes) : NoDup (map fst s1) -> Permutation s1 s2 -> forall j, zget j s1 = zget j s2.
Proof.
  intros ND P j.
  assert (PK : Permutation (map fst s1) (map fst s2)) by (apply Permutation_map, P).
  assert (ND2 : NoDup (map fst s2)) by (apply (Permutation_NoDup PK), ND).
  destruct (in_dec Nat.eq_dec j (map fst s1)) as [Hin|Hn].
  - apply in_map_iff in Hin. destruct Hin as ([k v] & E & Hin). cbn [fst] in E. subst k.
    rewrite (zget_in s1 j v ND Hin). symmetry. apply zget_in; [exact ND2|].
    apply (Permutation_in _ P), Hin.
  - rewrite (zget_notin s1 j Hn). symmetry. apply zget_notin.
    intros H. apply Hn. apply (Permutation_in _ (Permutation_sym PK)), H.
Qed.

(* ------------------------------------------------------------------ *)
(* (5) cost invariance                                                 *)
Definition same_counts (n1 n2 : net) : Prop :=
  length (inputs n1) = length (inputs n2) /\
  (forall k j, occ (nth k (inputs n1) []) j = occ (nth k (inputs n2) []) j) /\
  (forall j, occ (output n1) j = occ (output n2) j) /\
  (forall j, zget j (szd n1) = zget j (szd n2)).

Lemma occ_perm l1 l2 j : Permutation l1 l2 -> occ l1 j = occ l2 j.
Proof.
  unfold occ. induction 1 as [|x l l' P IH|x y l|l l' l'' P1 IH1 P2 IH2]; cbn [count_occ].
  - reflexivity.
  - destruct (Nat.eq_dec x j); lia.
  - destruct (Nat.eq_dec x j); destruct (Nat.eq_dec y j); lia.
  - lia.
Qed.

Lemma forall2_perm_nth_occ (a b : list (list ix)) : Forall2 (@Permutation ix) a b ->
  forall k j, occ (nth k a []) j = occ (nth k b []) j.
Proof.
  induction 1 as [|x y a b P F IH]; intros k j.
  - destruct k; reflexivity.
  - destruct k as [|k]; cbn [nth]; [apply occ_perm, P|apply IH].
Qed.

Lemma forall2_length {A B} (R : A -> B -> Prop) a b : Forall2 R a b -> length a = length b.
Proof. induction 1; cbn [length]; [reflexivity|f_equal; assumption]. Qed.

Lemma equiv_a_same_counts n1 n2 : equiv_a n1 n2 -> NoDup (map fst (szd n1)) -> same_counts n1 n2.
Proof.
  intros (F & PO & PS) ND. repeat split.
  - apply (forall2_length _ _ _ F).
  - apply forall2_perm_nth_occ, F.
  - intros j. apply occ_perm, PO.
  - apply zget_perm; assumption.
Qed.

Lemma size_of_ext (sz1 sz2 : sizes) l : (forall j, zget j sz1 = zget j sz2) -> size_of sz1 l = size_of sz2 l.
Proof. intros H. unfold size_of. f_equal. apply map_ext. intros j. apply H. Qed.

Lemma perm_filter {A} (f : A -> bool) l1 l2 : Permutation l1 l2 -> Permutation (filter f l1) (filter f l2).
Proof.
  induction 1 as [|x l l' P IH|x y l|l l' l'' P1 IH1 P2 IH2]; cbn [filter].
  - apply Permutation_refl.
  - destruct (f x); [apply perm_skip, IH|exact IH].
  - destruct (f x); destruct (f y); try apply Permutation_refl. apply perm_swap.
  - eapply Permutation_trans; eassumption.
Qed.

Section SameCounts.
Variables n1 n2 : net.
Variable sl : list slinfo.
Hypothesis SC : same_counts n1 n2.

Lemma sc_NN : NN n1 = NN n2.
Proof. unfold NN. apply SC. Qed.

Lemma sc_inrange S : inrange n1 S -> inrange n2 S.
Proof. unfold inrange. rewrite sc_NN. tauto. Qed.

Lemma sc_cnt S j : cnt n1 sl S j = cnt n2 sl S j.
Proof.
  destruct SC as (_ & Hn & _).
  induction S as [|k S IH]; cbn [cnt]; [reflexivity|].
  rewrite IH. unfold term_sl. rewrite !occ_filter, (Hn k j). reflexivity.
Qed.

Lemma sc_cnt_raw S j : cnt_raw n1 S j = cnt_raw n2 S j.
Proof.
  destruct SC as (_ & Hn & _).
  induction S as [|k S IH]; cbn [cnt_raw]; [reflexivity|].
  rewrite IH, (Hn k j). reflexivity.
Qed.

Lemma sc_appear j : appear n1 j = appear n2 j.
Proof.
  rewrite !appear_occ, <- !cnt_raw_all, sc_NN, sc_cnt_raw.
  destruct SC as (_ & _ & Ho & _). rewrite (Ho j). reflexivity.
Qed.

Lemma sc_zget j : zget j (szd n1) = zget j (szd n2).
Proof. apply SC. Qed.

Theorem sc_sub_legs t j : inrange n1 (leaves t) -> lget0 j (sub_legs n1 sl t) = lget0 j (sub_legs n2 sl t).
Proof.
  intros HR.
  destruct (sub_legs_spec n1 sl t HR) as [_ G1].
  destruct (sub_legs_spec n2 sl t (sc_inrange _ HR)) as [_ G2].
  rewrite G1, G2. unfold spec_count. rewrite sc_cnt, sc_appear. reflexivity.
Qed.

Theorem sc_legs_keys t j : inrange n1 (leaves t) -> (In j (lkeys (sub_legs n1 sl t)) <-> In j (lkeys (sub_legs n2 sl t))).
Proof.
  intros HR.
  rewrite (sub_legs_keys n1 sl t j HR), (sub_legs_keys n2 sl t j (sc_inrange _ HR)).
  rewrite sc_cnt, sc_appear. tauto.
Qed.

Theorem sc_node_size t : inrange n1 (leaves t) -> node_size n1 sl false t = node_size n2 sl false t.
Proof.
  intros HR. unfold node_size.
  assert (E1 : node_legs n1 sl false t = sub_legs n1 sl t) by (destruct t; reflexivity).
  assert (E2 : node_legs n2 sl false t = sub_legs n2 sl t) by (destruct t; reflexivity).
  rewrite E1, E2.
  rewrite (size_of_ext (szd n1) (szd n2) _ sc_zget).
  apply size_of_same_set.
  - apply (sub_legs_spec n1 sl t HR).
  - apply (sub_legs_spec n2 sl t (sc_inrange _ HR)).
  - intros j. apply sc_legs_keys, HR.
Qed.

Theorem sc_node_flops t : inrange n1 (leaves t) -> node_flops n1 sl t = node_flops n2 sl t.
Proof.
  intros HR. destruct t as [k|l r]; [reflexivity|].
  cbn [leaves] in HR. unfold node_flops.
  rewrite (size_of_ext (szd n1) (szd n2) _ sc_zget).
  pose proof (sc_inrange _ HR) as HR2.
  apply size_of_same_set.
  - cbn [involved]. apply legs_union2_nodup. apply (sub_legs_spec n1 sl l (inrange_app_l _ _ _ HR)).
  - cbn [involved]. apply legs_union2_nodup. apply (sub_legs_spec n2 sl l (inrange_app_l _ _ _ HR2)).
  - intros j. rewrite (involved_keys n1 sl l r j HR), (involved_keys n2 sl l r j HR2).
    rewrite !sc_cnt, sc_appear. tauto.
Qed.

Theorem sc_root_size l r : Permutation (output n1) (output n2) ->
  node_size n1 sl true (Node l r) = node_size n2 sl true (Node l r).
Proof.
  intros PO. unfold node_size. cbn [node_legs].
  rewrite (size_of_ext (szd n1) (szd n2) _ sc_zget).
  apply size_of_perm. unfold root_legs, lkeys.
  apply Permutation_map, Permutation_map, perm_filter, PO.
Qed.

Lemma sc_multiplicity : multiplicity n1 sl = multiplicity n2 sl.
Proof.
  unfold multiplicity. f_equal. apply map_ext. intros s.
  destruct (sl_proj s); [reflexivity|apply sc_zget].
Qed.

Theorem sc_total_flops t : inrange n1 (leaves t) -> total_flops n1 sl t = total_flops n2 sl t.
Proof.
  intros HR. unfold total_flops, sum_flops. rewrite sc_multiplicity. f_equal. f_equal.
  destruct t as [k|l r]; [reflexivity|].
  apply map_ext_in. intros [b t'] Hin. cbn [snd].
  assert (Hin' : In t' (post_sub (Node l r))).
  { rewrite <- traverse_dfs_snd. apply in_map_iff. exists (b, t'). split; [reflexivity|exact Hin]. }
  destruct (post_sub_inrange n1 (Node l r) HR t' Hin') as (l' & r' & -> & HR').
  apply sc_node_flops. cbn [leaves]. exact HR'.
Qed.

Lemma sc_sizes_list t : Permutation (output n1) (output n2) -> inrange n1 (leaves t) ->
  map (fun bt => node_size n1 sl (fst bt) (snd bt)) (traverse_dfs t) =
  map (fun bt => node_size n2 sl (fst bt) (snd bt)) (traverse_dfs t).
Proof.
  intros PO HR. destruct t as [k|l r]; [reflexivity|].
  cbn [traverse_dfs]. set (ps := post_sub l ++ post_sub r). rewrite !map_app. f_equal.
  - rewrite !map_map. cbn [fst snd]. apply map_ext_in. intros t' Hin. subst ps.
    assert (Hin' : In t' (post_sub (Node l r))) by (cbn [post_sub]; rewrite app_assoc, in_app_iff; left; exact Hin).
    destruct (post_sub_inrange n1 (Node l r) HR t' Hin') as (l' & r' & -> & HR').
    apply sc_node_size. cbn [leaves]. exact HR'.
  - cbn [map fst snd]. f_equal. apply sc_root_size, PO.
Qed.

Theorem sc_total_write t : Permutation (output n1) (output n2) -> inrange n1 (leaves t) -> total_write n1 sl t = total_write n2 sl t.
Proof.
  intros PO HR. unfold total_write, sum_write.
  rewrite sc_multiplicity, (sc_sizes_list t PO HR). reflexivity.
Qed.

Theorem sc_max_size t : Permutation (output n1) (output n2) -> inrange n1 (leaves t) -> max_size n1 sl t = max_size n2 sl t.
Proof.
  intros PO HR. unfold max_size. rewrite (sc_sizes_list t PO HR). reflexivity.
Qed.

End SameCounts.

Definition costs_eq (n1 n2 : net) (sl : list slinfo) (t : tree) : Prop :=
  total_flops n1 sl t = total_flops n2 sl t /\ total_write n1 sl t = total_write n2 sl t /\ max_size n1 sl t = max_size n2 sl t.

Theorem cost_perm_invariant n1 n2 sl t : equiv_a n1 n2 -> NoDup (map fst (szd n1)) -> inrange n1 (leaves t) ->
  inrange n2 (leaves t) /\ costs_eq n1 n2 sl t /\
  (forall t', In t' (t :: post_sub t) -> forall j, lget0 j (sub_legs n1 sl t') = lget0 j (sub_legs n2 sl t')).
Proof.
  intros EQ ND HR.
  pose proof (equiv_a_same_counts n1 n2 EQ ND) as SC.
  destruct EQ as (_ & PO & _).
  split; [apply (sc_inrange n1 n2 SC), HR|]. split.
  - repeat split.
    + apply sc_total_flops; assumption.
    + apply sc_total_write; assumption.
    + apply sc_max_size; assumption.
  - intros t' [<-|Hin] j.
    + apply sc_sub_legs; assumption.
    + destruct (post_sub_inrange n1 t HR t' Hin) as (l' & r' & -> & HR').
      apply sc_sub_legs; [exact SC|]. cbn [leaves]. exact HR'.
Qed.

Lemma forall2_perm_concat_in (a b : list (list ix)) j : Forall2 (@Permutation ix) a b ->
  (In j (concat a) <-> In j (concat b)).
Proof.
  induction 1 as [|x y a b P F IH]; cbn [concat]; [tauto|].
  rewrite !in_app_iff, IH. split; intros [H|H]; auto; left.
  - apply (Permutation_in _ P), H.
  - apply (Permutation_in _ (Permutation_sym P)), H.
Qed.

Theorem equiv_a_same_indices n1 n2 j : equiv_a n1 n2 -> (In j (concat (inputs n1)) <-> In j (concat (inputs n2))).
Proof. intros (F & _). apply forall2_perm_concat_in, F. Qed.

(* ------------------------------------------------------------------ *)
(* (3) canonicity of the sort: equivalent networks have equal fingerprints *)
Fixpoint ssorted {A} (le : A -> A -> bool) (l : list A) : Prop :=
  match l with
  | [] => True
  | x :: l' => (forall y, In y l' -> le x y = true) /\ ssorted le l'
  end.

Section Canon.
Context {A : Type}.
Variable le : A -> A -> bool.
Hypothesis le_total : forall a b, le a b = true \/ le b a = true.
Hypothesis le_trans : forall a b c, le a b = true -> le b c = true -> le a c = true.
Hypothesis le_antisym : forall a b, le a b = true -> le b a = true -> a = b.

Lemma insert_by_ssorted x l : ssorted le l -> ssorted le (insert_by le x l).
Proof.
  induction l as [|y l IH]; cbn [insert_by ssorted]; intros Hs.
  - split; [intros y []|exact I].
  - destruct Hs as [Hy Hs]. destruct (le y x) eqn:E; cbn [ssorted].
    + split; [|apply IH, Hs]. intros z Hz.
      apply (Permutation_in _ (insert_by_perm le x l)) in Hz.
      destruct Hz as [<-|Hz]; [exact E|apply Hy, Hz].
    + assert (Hxy : le x y = true) by (destruct (le_total x y) as [H|H]; [exact H|congruence]).
      split; [|split; assumption].
      intros z [<-|Hz]; [exact Hxy|]. apply (le_trans x y z Hxy), Hy, Hz.
Qed.

Lemma sort_by_acc_ssorted l : forall acc, ssorted le acc ->
  ssorted le (fold_left (fun acc x => insert_by le x acc) l acc).
Proof.
  induction l as [|x l IH]; intros acc Hs; cbn [fold_left]; [exact Hs|].
  apply IH, insert_by_ssorted, Hs.
Qed.

Lemma sort_by_ssorted l : ssorted le (sort_by le l).
Proof. unfold sort_by. apply sort_by_acc_ssorted. exact I. Qed.

Lemma ssorted_perm_eq l1 : forall l2, ssorted le l1 -> ssorted le l2 -> Permutation l1 l2 -> l1 = l2.
Proof.
  induction l1 as [|x l1 IH]; intros l2 S1 S2 P.
  - apply Permutation_nil in P. symmetry. exact P.
  - destruct l2 as [|y l2]; [apply Permutation_sym, Permutation_nil in P; discriminate P|].
    cbn [ssorted] in S1, S2. destruct S1 as [Hx S1]. destruct S2 as [Hy S2].
    assert (Exy : x = y).
    { assert (Hxin : In x (y :: l2)) by (apply (Permutation_in _ P); left; reflexivity).
      assert (Hyin : In y (x :: l1)) by (apply (Permutation_in _ (Permutation_sym P)); left; reflexivity).
      destruct Hxin as [E|Hxin]; [symmetry; exact E|].
      destruct Hyin as [E|Hyin]; [exact E|].
      apply le_antisym; [apply Hx, Hyin|apply Hy, Hxin]. }
    subst y. f_equal. apply IH; [exact S1|exact S2|].
    apply (Permutation_cons_inv P).
Qed.

Lemma sort_by_canon l1 l2 : Permutation l1 l2 -> sort_by le l1 = sort_by le l2.
Proof.
  intros P. apply ssorted_perm_eq; try apply sort_by_ssorted.
  eapply Permutation_trans; [apply sort_by_perm|].
  eapply Permutation_trans; [exact P|apply Permutation_sym, sort_by_perm].
Qed.
End Canon.

Lemma leb_total a b : Nat.leb a b = true \/ Nat.leb b a = true.
Proof. rewrite !Nat.leb_le. lia. Qed.
Lemma leb_trans a b c : Nat.leb a b = true -> Nat.leb b c = true -> Nat.leb a c = true.
Proof. rewrite !Nat.leb_le. lia. Qed.
Lemma leb_antisym a b : Nat.leb a b = true -> Nat.leb b a = true -> a = b.
Proof. rewrite !Nat.leb_le. lia. Qed.

Lemma iz_le_iff a b : iz_le a b = true <-> (fst a < fst b \/ (fst a = fst b /\ (snd a <= snd b)%Z)).
Proof.
  unfold iz_le. rewrite orb_true_iff, andb_true_iff, Nat.ltb_lt, Nat.eqb_eq, Z.leb_le. tauto.
Qed.
Lemma iz_le_total a b : iz_le a b = true \/ iz_le b a = true.
Proof. rewrite !iz_le_iff. lia. Qed.
Lemma iz_le_trans a b c : iz_le a b = true -> iz_le b c = true -> iz_le a c = true.
Proof. rewrite !iz_le_iff. lia. Qed.
Lemma iz_le_antisym a b : iz_le a b = true -> iz_le b a = true -> a = b.
Proof.
  rewrite !iz_le_iff. destruct a as [a1 a2], b as [b1 b2]. cbn [fst snd]. intros H1 H2.
  f_equal; lia.
Qed.

Lemma sortn_canon l1 l2 : Permutation l1 l2 -> sortn l1 = sortn l2.
Proof. apply (sort_by_canon Nat.leb leb_total leb_trans leb_antisym). Qed.

Lemma sort_items_canon l1 l2 : Permutation l1 l2 -> sort_items l1 = sort_items l2.
Proof. apply (sort_by_canon iz_le iz_le_total iz_le_trans iz_le_antisym). Qed.

Theorem equiv_a_fp n1 n2 : equiv_a n1 n2 -> fp_a n1 = fp_a n2.
Proof.
  intros (F & PO & PS). unfold fp_a. f_equal.
  - induction F as [|x y a b P F IH]; cbn [map]; [reflexivity|].
    f_equal; [apply sortn_canon, P|exact IH].
  - apply sortn_canon, PO.
  - apply sort_items_canon, PS.
Qed.

Theorem fp_a_iff n1 n2 : fp_a n1 = fp_a n2 <-> equiv_a n1 n2.
Proof. split; [apply fp_a_equiv|apply equiv_a_fp]. Qed.

(* ExponentFacts.v -- lemmas about Model/Exponent.v (C19), real-number instance. *)
From Coq Require Import List Bool Arith Lia Reals Lra QArith.
From Ctg Require Import Base Exponent.
Import ListNotations.
Local Open Scope R_scope.

(* ------------------------------------------------------------------ *)
(* powers of ten and log10                                              *)
Lemma ln10_pos : 0 < ln 10.
Proof. rewrite <- ln_1. apply ln_increasing; lra. Qed.

Lemma pow10_pos : forall x, 0 < pow10 x.
Proof. intro x. unfold pow10, Rpower. apply exp_pos. Qed.

Lemma pow10_plus : forall a b, pow10 (a + b) = pow10 a * pow10 b.
Proof. intros. unfold pow10. apply Rpower_plus. Qed.

Lemma pow10_0 : pow10 0 = 1.
Proof. unfold pow10. apply Rpower_O. lra. Qed.

Lemma pow10_log10 : forall f, 0 < f -> pow10 (log10 f) = f.
Proof.
  intros f Hf. unfold pow10, log10, Rpower.
  replace (ln f / ln 10 * ln 10) with (ln f).
  - apply exp_ln; exact Hf.
  - field. pose proof ln10_pos. lra.
Qed.

Lemma pow10_diff : forall a b, pow10 (a - b) * pow10 b = pow10 a.
Proof. intros. rewrite <- pow10_plus. f_equal. ring. Qed.

(* ------------------------------------------------------------------ *)
(* arrays                                                               *)
Lemma R_scale_1 : forall x, R_scale 1 x = x.
Proof.
  intro x. unfold R_scale, scale. rewrite <- (map_id x) at 2.
  apply map_ext. intro. ring.
Qed.

Lemma R_scale_scale : forall a b x, R_scale a (R_scale b x) = R_scale (a * b) x.
Proof.
  intros. unfold R_scale, scale. rewrite map_map. apply map_ext. intro. ring.
Qed.

Lemma R_divs_scale : forall x f, R_divs x f = R_scale (/ f) x.
Proof.
  intros. unfold R_divs, divs, R_scale, scale. apply map_ext. intro. unfold Rdiv. ring.
Qed.

Lemma R_maxabs_nonneg : forall x, 0 <= R_maxabs x.
Proof.
  induction x as [|v x IH]; unfold R_maxabs, maxabs in *; cbn [fold_right].
  - lra.
  - eapply Rle_trans; [apply Rabs_pos | apply Rmax_l].
Qed.

Lemma R_maxabs_cons : forall v x, R_maxabs (v :: x) = Rmax (Rabs v) (R_maxabs x).
Proof. reflexivity. Qed.

Lemma R_maxabs_scale : forall a x, R_maxabs (R_scale a x) = Rabs a * R_maxabs x.
Proof.
  intros a x. induction x as [|v x IH].
  - unfold R_maxabs, maxabs. cbn. ring.
  - unfold R_scale, scale in *. cbn [map]. rewrite !R_maxabs_cons, IH, Rabs_mult.
    apply RmaxRmult. apply Rabs_pos.
Qed.

Lemma R_maxabs_In : forall v x, In v x -> Rabs v <= R_maxabs x.
Proof.
  intros v x. induction x as [|w x IH]; intro H; [destruct H|].
  rewrite R_maxabs_cons. destruct H as [E|H].
  - subst. apply Rmax_l.
  - eapply Rle_trans; [apply IH; exact H | apply Rmax_r].
Qed.

Lemma R_maxabs_nth : forall i x, Rabs (nth i x 0) <= R_maxabs x.
Proof.
  intros i x. destruct (nth_in_or_default i x 0) as [H|H].
  - apply R_maxabs_In; exact H.
  - rewrite H, Rabs_R0. apply R_maxabs_nonneg.
Qed.

(* after `p_array / factor` the largest magnitude is exactly 1 *)
Lemma R_maxabs_divs : forall x, R_maxabs x <> 0 -> R_maxabs (R_divs x (R_maxabs x)) = 1.
Proof.
  intros x H. rewrite R_divs_scale, R_maxabs_scale.
  pose proof (R_maxabs_nonneg x) as Hn.
  assert (Hp : 0 < R_maxabs x) by lra.
  rewrite Rabs_right.
  - field; exact H.
  - left. apply Rinv_0_lt_compat; exact Hp.
Qed.

(* ------------------------------------------------------------------ *)
(* homogeneity of the kernels                                           *)
Definition homog1 (u : list R -> list R) : Prop :=
  forall a x, u (R_scale a x) = R_scale a (u x).
Definition homog2 (b : list R -> list R -> list R) : Prop :=
  forall a c x y, b (R_scale a x) (R_scale c y) = R_scale (a * c) (b x y).
Definition homog_instr (i : instr R) : Prop :=
  match i with IPre _ u => homog1 u | IPair _ _ _ b => homog2 b end.

Lemma nth_R_scale : forall i a x, nth i (R_scale a x) 0 = a * nth i x 0.
Proof.
  intros i a x. unfold R_scale, scale.
  replace 0 with (a * 0) at 1 by ring. apply map_nth.
Qed.

Lemma fsum_scale : forall a l, fsum R 0 Rplus (map (Rmult a) l) = a * fsum R 0 Rplus l.
Proof.
  intros a l. induction l as [|v l IH]; unfold fsum in *; cbn [map fold_right].
  - ring.
  - rewrite IH. ring.
Qed.

Lemma R_bil_homog : forall t, homog2 (R_bil t).
Proof.
  intros t a c x y. unfold R_bil, bil_apply, R_scale at 3, scale. rewrite map_map.
  apply map_ext. intro row.
  rewrite <- fsum_scale. f_equal. rewrite map_map. apply map_ext. intros [i j]. cbn [fst snd].
  rewrite !nth_R_scale. ring.
Qed.

Lemma R_lin_homog : forall t, homog1 (R_lin t).
Proof.
  intros t a x. unfold R_lin, lin_apply, R_scale at 2, scale. rewrite map_map.
  apply map_ext. intro row.
  rewrite <- fsum_scale. f_equal. rewrite map_map. apply map_ext. intro i.
  apply nth_R_scale.
Qed.

(* ------------------------------------------------------------------ *)
(* the register file                                                    *)
Definition keys (d : temps_t R) : list nat := map fst d.

Inductive rel (sc : nat -> R) : temps_t R -> temps_t R -> Prop :=
| rel_nil : rel sc [] []
| rel_cons : forall k x y tp ts, x = R_scale (sc k) y -> rel sc tp ts ->
    rel sc ((k, x) :: tp) ((k, y) :: ts).

Definition upd (sc : nat -> R) (p : nat) (v : R) : nat -> R :=
  fun k => if Nat.eqb k p then v else sc k.

Fixpoint prodk (sc : nat -> R) (ks : list nat) : R :=
  match ks with [] => 1 | k :: r => sc k * prodk sc r end.

Lemma rel_tget : forall sc tp ts k y, rel sc tp ts -> tget R k ts = Some y ->
  tget R k tp = Some (R_scale (sc k) y).
Proof.
  intros sc tp ts k y H. induction H as [|k' x y' tp ts Hx H IH]; cbn [tget]; intro G.
  - discriminate.
  - destruct (Nat.eqb k' k) eqn:E.
    + apply Nat.eqb_eq in E. subst k'. injection G as Ey. subst y. rewrite Hx. reflexivity.
    + apply IH; exact G.
Qed.

Lemma rel_tset : forall sc tp ts k x y, rel sc tp ts -> x = R_scale (sc k) y ->
  rel sc (tset R k x tp) (tset R k y ts).
Proof.
  intros sc tp ts k x y H Hx. induction H as [|k' x' y' tp ts Hx' H IH]; cbn [tset].
  - constructor; [exact Hx | constructor].
  - destruct (Nat.eqb k' k) eqn:E.
    + apply Nat.eqb_eq in E. subst k'. constructor; assumption.
    + constructor; assumption.
Qed.

Lemma keys_tset_in : forall k y ts, memb k (keys ts) = true -> keys (tset R k y ts) = keys ts.
Proof.
  intros k y ts. induction ts as [|[k' w] ts IH]; cbn [tset keys map memb existsb fst]; intro H.
  - discriminate.
  - unfold memb in IH. rewrite Nat.eqb_sym. destruct (Nat.eqb k k') eqn:E; cbn [map fst].
    + reflexivity.
    + cbn [orb] in H. f_equal. apply IH. exact H.
Qed.

Lemma keys_tset_notin : forall k y ts, memb k (keys ts) = false -> keys (tset R k y ts) = keys ts ++ [k].
Proof.
  intros k y ts. induction ts as [|[k' w] ts IH]; cbn [tset keys map memb existsb fst app]; intro H.
  - reflexivity.
  - unfold memb in IH. rewrite Nat.eqb_sym. destruct (Nat.eqb k k') eqn:E; cbn [orb] in H.
    + discriminate.
    + cbn [map fst]. f_equal. apply IH. exact H.
Qed.

Lemma tget_memb : forall k ts y, tget R k ts = Some y -> memb k (keys ts) = true.
Proof.
  intros k ts y. induction ts as [|[k' w] ts IH]; cbn [tget keys map memb existsb fst]; intro H.
  - discriminate.
  - rewrite Nat.eqb_sym. destruct (Nat.eqb k' k) eqn:E; cbn [orb]; [reflexivity|].
    apply IH; exact H.
Qed.

Lemma rel_tpop : forall sc tp ts k y ts', rel sc tp ts -> tpop R k ts = Some (y, ts') ->
  exists tp', tpop R k tp = Some (R_scale (sc k) y, tp') /\ rel sc tp' ts' /\
              rem1 k (keys ts) = Some (keys ts').
Proof.
  intros sc tp ts k y ts' H. revert y ts'.
  induction H as [|k' x y' tp ts Hx H IH]; cbn [tpop]; intros y ts' G.
  - discriminate.
  - cbn [keys map fst rem1]. destruct (Nat.eqb k' k) eqn:E.
    + apply Nat.eqb_eq in E. subst k'. injection G as Ey Ets. subst y ts'.
      exists tp. rewrite Hx. repeat split; assumption.
    + destruct (tpop R k ts) as [[y0 r0]|] eqn:P; [|discriminate].
      injection G as Ey Ets. subst y ts'.
      destruct (IH _ _ eq_refl) as [tp' [P' [R' K']]].
      exists ((k', x) :: tp'). rewrite P'. fold (keys ts). rewrite K'.
      repeat split. constructor; assumption.
Qed.

Lemma rel_upd : forall sc tp ts p v, rel sc tp ts -> memb p (keys ts) = false ->
  rel (upd sc p v) tp ts.
Proof.
  intros sc tp ts p v H. induction H as [|k x y tp ts Hx H IH];
    cbn [keys map memb existsb fst]; intro M.
  - constructor.
  - apply orb_false_iff in M. destruct M as [M1 M2].
    constructor.
    + unfold upd. rewrite Nat.eqb_sym, M1. exact Hx.
    + apply IH. exact M2.
Qed.

Lemma prodk_rem1 : forall sc k ks ks', rem1 k ks = Some ks' -> prodk sc ks = sc k * prodk sc ks'.
Proof.
  intros sc k ks. induction ks as [|x ks IH]; cbn [rem1 prodk]; intros ks' H.
  - discriminate.
  - destruct (Nat.eqb x k) eqn:E.
    + apply Nat.eqb_eq in E. subst x. inversion H; subst. reflexivity.
    + destruct (rem1 k ks) as [r|] eqn:Rm; [|discriminate].
      inversion H; subst. cbn [prodk]. rewrite (IH r eq_refl). ring.
Qed.

Lemma prodk_app : forall sc a b, prodk sc (a ++ b) = prodk sc a * prodk sc b.
Proof.
  intros sc a b. induction a as [|x a IH]; cbn [app prodk]; [ring | rewrite IH; ring].
Qed.

Lemma prodk_upd : forall sc p v ks, memb p ks = false -> prodk (upd sc p v) ks = prodk sc ks.
Proof.
  intros sc p v ks. induction ks as [|x ks IH]; cbn [prodk memb existsb]; intro M.
  - reflexivity.
  - apply orb_false_iff in M. destruct M as [M1 M2]. unfold memb in IH.
    rewrite (IH M2). unfold upd at 1. rewrite Nat.eqb_sym, M1. reflexivity.
Qed.

Lemma memb_In : forall k ks, memb k ks = true <-> In k ks.
Proof.
  intros k ks. unfold memb. rewrite existsb_exists. split.
  - intros [x [Hx E]]. apply Nat.eqb_eq in E. subst. exact Hx.
  - intro H. exists k. split; [exact H | apply Nat.eqb_refl].
Qed.

(* ------------------------------------------------------------------ *)
(* unfolding equations of the real-number run                           *)
Lemma R_run_nil : forall strip cz temps e last,
  R_run strip cz [] temps e last =
  match last with None => Raised | Some p => Done p (if strip then Some e else None) end.
Proof. reflexivity. Qed.

Lemma R_run_pre : forall strip cz p u rest temps e last,
  R_run strip cz (IPre p u :: rest) temps e last =
  match tget R p temps with
  | None => Raised
  | Some x => R_run strip cz rest (tset R p (u x) temps) e last
  end.
Proof. reflexivity. Qed.

Lemma R_run_pair : forall strip cz p l r b rest temps e last,
  R_run strip cz (IPair p l r b :: rest) temps e last =
  match tpop R l temps with
  | None => Raised
  | Some (xl, t1) =>
      match tpop R r t1 with
      | None => Raised
      | Some (xr, t2) =>
          if strip then
            if cz && ris0 (R_maxabs (b xl xr)) then ZeroExit
            else R_run strip cz rest (tset R p (R_divs (b xl xr) (R_maxabs (b xl xr))) t2)
                       (e + log10 (R_maxabs (b xl xr)))
                       (Some (R_divs (b xl xr) (R_maxabs (b xl xr))))
          else R_run strip cz rest (tset R p (b xl xr) t2) e (Some (b xl xr))
      end
  end.
Proof. reflexivity. Qed.

Definition last_ok (sc : nat -> R) (ks : list nat) (lp ls : option (list R)) : Prop :=
  match ls, lp with
  | None, None => True
  | Some y, Some x => exists p, In p ks /\ x = R_scale (sc p) y
  | _, _ => False
  end.

(* the invariant: every live register of the plain run is the corresponding register of
   the stripped run times a positive scale, and 10^exponent is the product of the scales *)
Lemma run_rel : forall prog sc tp ts e lp ls m e' cz ep,
  Forall homog_instr prog ->
  wf_prog R prog (keys ts) = true ->
  rel sc tp ts -> (forall k, 0 < sc k) ->
  pow10 e = prodk sc (keys ts) ->
  last_ok sc (keys ts) lp ls ->
  R_run true true prog ts e ls = Done m (Some e') ->
  R_run false cz prog tp ep lp = Done (R_scale (pow10 e') m) None.
Proof.
  induction prog as [|i prog IH]; intros sc tp ts e lp ls m e' cz ep Hh Hwf Hrel Hpos He Hlast Hrun.
  - rewrite R_run_nil in *. cbn [wf_prog] in Hwf. apply Nat.eqb_eq in Hwf.
    destruct ls as [y|]; [|discriminate]. inversion Hrun; subst y e'.
    destruct lp as [x|]; [|destruct Hlast].
    destruct Hlast as [p [Hin Hx]].
    destruct (keys ts) as [|k0 [|k1 ks]] eqn:K; try discriminate.
    destruct Hin as [Hin|[]]. subst k0. cbn [prodk] in He.
    rewrite Hx. do 2 f_equal. rewrite He. ring.
  - inversion Hh as [|i' prog' Hi Hprog]; subst i' prog'.
    destruct i as [p u | p l r b].
    + (* single-term step *)
      rewrite R_run_pre in *. cbn [wf_prog] in Hwf. apply andb_true_iff in Hwf.
      destruct Hwf as [Hm Hwf].
      destruct (tget R p ts) as [y|] eqn:G; [|discriminate].
      rewrite (rel_tget _ _ _ _ _ Hrel G).
      cbn [homog_instr] in Hi. rewrite Hi.
      eapply IH with (sc := sc) (ts := tset R p (u y) ts); try eassumption.
      * rewrite keys_tset_in; assumption.
      * apply rel_tset; [exact Hrel | reflexivity].
      * rewrite keys_tset_in; assumption.
      * rewrite keys_tset_in; assumption.
    + (* pairwise contraction *)
      rewrite R_run_pair in *. cbn [wf_prog] in Hwf.
      destruct (tpop R l ts) as [[yl t1]|] eqn:Pl; [|discriminate].
      destruct (tpop R r t1) as [[yr t2]|] eqn:Pr; [|discriminate].
      destruct (rel_tpop _ _ _ _ _ _ Hrel Pl) as [tp1 [Pl' [Rel1 K1]]].
      destruct (rel_tpop _ _ _ _ _ _ Rel1 Pr) as [tp2 [Pr' [Rel2 K2]]].
      rewrite Pl', Pr'. rewrite K1, K2 in Hwf.
      apply andb_true_iff in Hwf. destruct Hwf as [Hfresh Hwf].
      apply negb_true_iff in Hfresh.
      cbn [andb] in Hrun.
      set (pa := b yl yr) in *. set (f := R_maxabs pa) in *.
      destruct (ris0 f) eqn:Z; [discriminate|].
      assert (Hf0 : f <> 0).
      { unfold ris0 in Z. destruct (Req_EM_T f 0); [discriminate | assumption]. }
      assert (Hfp : 0 < f).
      { pose proof (R_maxabs_nonneg pa). fold f in H. lra. }
      cbn [homog_instr] in Hi. rewrite Hi.
      set (v := sc l * sc r * f).
      assert (Hv : 0 < v).
      { unfold v. apply Rmult_lt_0_compat; [apply Rmult_lt_0_compat; apply Hpos | exact Hfp]. }
      assert (Hpa : R_scale (sc l * sc r) pa = R_scale (upd sc p v p) (R_divs pa f)).
      { unfold upd. rewrite Nat.eqb_refl, R_divs_scale, R_scale_scale. f_equal.
        unfold v. field. exact Hf0. }
      eapply IH with (sc := upd sc p v) (ts := tset R p (R_divs pa f) t2); try eassumption.
      * rewrite keys_tset_notin; assumption.
      * apply rel_tset; [apply rel_upd; assumption | exact Hpa].
      * intro k. unfold upd. destruct (Nat.eqb k p); [exact Hv | apply Hpos].
      * rewrite keys_tset_notin by assumption.
        rewrite prodk_app, prodk_upd by assumption. cbn [prodk]. unfold upd at 1.
        rewrite Nat.eqb_refl.
        rewrite pow10_plus, pow10_log10, He by exact Hfp.
        rewrite (prodk_rem1 sc _ _ _ K1), (prodk_rem1 sc _ _ _ K2). unfold v. ring.
      * rewrite keys_tset_notin by assumption. cbn [last_ok].
        exists p. split; [apply in_or_app; right; left; reflexivity | exact Hpa].
Qed.

Lemma prodk_ones : forall ks, prodk (fun _ => 1) ks = 1.
Proof. induction ks as [|k ks IH]; cbn [prodk]; [reflexivity | rewrite IH; ring]. Qed.

Lemma rel_refl_ones : forall t, rel (fun _ => 1) t t.
Proof.
  induction t as [|[k x] t IH]; constructor; [symmetry; apply R_scale_1 | exact IH].
Qed.

(* strip_value: if the stripped run with the explicit zero check finishes normally
   (i.e. no factor was 0), the plain run of the same program on the same arrays finishes
   and returns mantissa * 10^exponent. *)
Lemma strip_value_temps : forall prog temps m e cz ep,
  Forall homog_instr prog ->
  wf_prog R prog (keys temps) = true ->
  R_run true true prog temps 0 None = Done m (Some e) ->
  R_run false cz prog temps ep None = Done (R_scale (pow10 e) m) None.
Proof.
  intros prog temps m e cz ep Hh Hwf Hrun.
  eapply run_rel with (sc := fun _ => 1) (ts := temps) (e := 0); try eassumption.
  - apply rel_refl_ones.
  - intro. lra.
  - rewrite pow10_0, prodk_ones. reflexivity.
  - exact I.
Qed.

(* check_zero only matters when a factor is 0: a run that ends normally with the check
   ends identically without it *)
Lemma cz_irrelevant : forall prog temps e last m e',
  R_run true true prog temps e last = Done m e' ->
  R_run true false prog temps e last = Done m e'.
Proof.
  induction prog as [|i prog IH]; intros temps e last m e' H.
  - rewrite R_run_nil in *. exact H.
  - destruct i as [p u | p l r b].
    + rewrite R_run_pre in *. destruct (tget R p temps); [apply IH; exact H | discriminate].
    + rewrite R_run_pair in *.
      destruct (tpop R l temps) as [[xl t1]|]; [|discriminate].
      destruct (tpop R r t1) as [[xr t2]|]; [|discriminate].
      cbn [andb] in *. destruct (ris0 (R_maxabs (b xl xr))); [discriminate|].
      apply IH; exact H.
Qed.

(* conversely, if every recorded factor is non-zero the check never fires *)
Lemma cz_never_fires : forall prog temps e last,
  Forall (fun t => fst t <> 0) (R_trace prog temps e) ->
  R_run true true prog temps e last = R_run true false prog temps e last.
Proof.
  induction prog as [|i prog IH]; intros temps e last H.
  - reflexivity.
  - destruct i as [p u | p l r b].
    + rewrite !R_run_pre. unfold R_trace in H. cbn [trace] in H.
      destruct (tget R p temps); [apply IH; exact H | reflexivity].
    + rewrite !R_run_pair. unfold R_trace in H. cbn [trace] in H.
      destruct (tpop R l temps) as [[xl t1]|]; [|reflexivity].
      destruct (tpop R r t1) as [[xr t2]|]; [|reflexivity].
      inversion H as [|t ts Hf Hrest]; subst. cbn [fst] in Hf.
      cbn [andb]. unfold ris0.
      destruct (Req_EM_T _ 0) as [E|E]; [exfalso; apply Hf; exact E|].
      apply IH. exact Hrest.
Qed.

Lemma keys_combine_seq : forall (arrays : list (list R)) s,
  keys (combine (seq s (length arrays)) arrays) = seq s (length arrays).
Proof.
  induction arrays as [|a arrays IH]; intro s; cbn [length seq combine keys map fst].
  - reflexivity.
  - f_equal. apply IH.
Qed.

Definition R_core (strip cz : bool) (prog : list (instr R)) (arrays : list (list R)) :=
  contract_core R R 0 Rdiv Rabs Rmax ris0 0 log10 Rplus strip cz prog arrays.

Lemma strip_value : forall prog arrays m e,
  Forall homog_instr prog ->
  wf_prog R prog (seq 0 (length arrays)) = true ->
  Forall (fun t => fst t <> 0)
         (R_trace prog (combine (seq 0 (length arrays)) arrays) 0) ->
  R_core true false prog arrays = Done m (Some e) ->
  R_core false false prog arrays = Done (R_scale (pow10 e) m) None.
Proof.
  intros prog arrays m e Hh Hwf Hnz Hrun. unfold R_core, contract_core in *.
  fold R_run in *. rewrite <- cz_never_fires in Hrun by exact Hnz.
  apply strip_value_temps; try assumption.
  rewrite keys_combine_seq. exact Hwf.
Qed.

Lemma strip_value_cz : forall prog arrays m e,
  Forall homog_instr prog ->
  wf_prog R prog (seq 0 (length arrays)) = true ->
  R_core true true prog arrays = Done m (Some e) ->
  R_core false false prog arrays = Done (R_scale (pow10 e) m) None /\
  R_core true false prog arrays = Done m (Some e).
Proof.
  intros prog arrays m e Hh Hwf Hrun. unfold R_core, contract_core in *. fold R_run in *.
  split.
  - apply strip_value_temps; try assumption. rewrite keys_combine_seq. exact Hwf.
  - apply cz_irrelevant. exact Hrun.
Qed.

(* ExponentFacts.v -- lemmas about Model/Exponent.v (C19), real-number instance. *)
From Coq Require Import List Bool Arith Lia Reals Lra QArith.
From Ctg Require Import Base Exponent.
Import ListNotations.
Local Open Scope R_scope.

(* ------------------------------------------------------------------ *)
(* powers of ten and log10                                              *)
Lemma ln10_pos : 0 < ln 10.
Proof. rewrite <- ln_1. apply ln_increasing; lra. Qed.

Lemma pow10_pos : forall x, 0 < pow10 x.
Proof. intro x. unfold pow10, Rpower. apply exp_pos. Qed.

Lemma pow10_plus : forall a b, pow10 (a + b) = pow10 a * pow10 b.
Proof. intros. unfold pow10. apply Rpower_plus. Qed.

Lemma pow10_0 : pow10 0 = 1.
Proof. unfold pow10. apply Rpower_O. lra. Qed.

Lemma pow10_log10 : forall f, 0 < f -> pow10 (log10 f) = f.
Proof.
  intros f Hf. unfold pow10, log10, Rpower.
  replace (ln f / ln 10 * ln 10) with (ln f).
  - apply exp_ln; exact Hf.
  - field. pose proof ln10_pos. lra.
Qed.

Lemma pow10_diff : forall a b, pow10 (a - b) * pow10 b = pow10 a.
Proof. intros. rewrite <- pow10_plus. f_equal. ring. Qed.

(* ------------------------------------------------------------------ *)
(* arrays                                                               *)
Lemma R_scale_1 : forall x, R_scale 1 x = x.
Proof.
  intro x. unfold R_scale, scale. rewrite <- (map_id x) at 2.
  apply map_ext. intro. ring.
Qed.

Lemma R_scale_scale : forall a b x, R_scale a (R_scale b x) = R_scale (a * b) x.
Proof.
  intros. unfold R_scale, scale. rewrite map_map. apply map_ext. intro. ring.
Qed.

Lemma R_divs_scale : forall x f, R_divs x f = R_scale (/ f) x.
Proof.
  intros. unfold R_divs, divs, R_scale, scale. apply map_ext. intro. unfold Rdiv. ring.
Qed.

Lemma R_maxabs_nonneg : forall x, 0 <= R_maxabs x.
Proof.
  induction x as [|v x IH]; unfold R_maxabs, maxabs in *; cbn [fold_right].
  - lra.
  - eapply Rle_trans; [apply Rabs_pos | apply Rmax_l].
Qed.

Lemma R_maxabs_cons : forall v x, R_maxabs (v :: x) = Rmax (Rabs v) (R_maxabs x).
Proof. reflexivity. Qed.

Lemma R_maxabs_scale : forall a x, R_maxabs (R_scale a x) = Rabs a * R_maxabs x.
Proof.
  intros a x. induction x as [|v x IH].
  - unfold R_maxabs, maxabs. cbn. ring.
  - unfold R_scale, scale in *. cbn [map]. rewrite !R_maxabs_cons, IH, Rabs_mult.
    apply RmaxRmult. apply Rabs_pos.
Qed.

Lemma R_maxabs_In : forall v x, In v x -> Rabs v <= R_maxabs x.
Proof.
  intros v x. induction x as [|w x IH]; intro H; [destruct H|].
  rewrite R_maxabs_cons. destruct H as [E|H].
  - subst. apply Rmax_l.
  - eapply Rle_trans; [apply IH; exact H | apply Rmax_r].
Qed.

Lemma R_maxabs_nth : forall i x, Rabs (nth i x 0) <= R_maxabs x.
Proof.
  intros i x. destruct (nth_in_or_default i x 0) as [H|H].
  - apply R_maxabs_In; exact H.
  - rewrite H, Rabs_R0. apply R_maxabs_nonneg.
Qed.

(* after `p_array / factor` the largest magnitude is exactly 1 *)
Lemma R_maxabs_divs : forall x, R_maxabs x <> 0 -> R_maxabs (R_divs x (R_maxabs x)) = 1.
Proof.
  intros x H. rewrite R_divs_scale, R_maxabs_scale.
  pose proof (R_maxabs_nonneg x) as Hn.
  assert (Hp : 0 < R_maxabs x) by lra.
  rewrite Rabs_right.
  - field; exact H.
  - left. apply Rinv_0_lt_compat; exact Hp.
Qed.

(* ------------------------------------------------------------------ *)
(* homogeneity of the kernels                                           *)
Definition homog1 (u : list R -> list R) : Prop :=
  forall a x, u (R_scale a x) = R_scale a (u x).
Definition homog2 (b : list R -> list R -> list R) : Prop :=
  forall a c x y, b (R_scale a x) (R_scale c y) = R_scale (a * c) (b x y).
Definition homog_instr (i : instr R) : Prop :=
  match i with IPre _ u => homog1 u | IPair _ _ _ b => homog2 b end.

Lemma nth_R_scale : forall i a x, nth i (R_scale a x) 0 = a * nth i x 0.
Proof.
  intros i a x. unfold R_scale, scale.
  replace 0 with (a * 0) at 1 by ring. apply map_nth.
Qed.

Lemma fsum_scale : forall a l, fsum R 0 Rplus (map (Rmult a) l) = a * fsum R 0 Rplus l.
Proof.
  intros a l. induction l as [|v l IH]; unfold fsum in *; cbn [map fold_right].
  - ring.
  - rewrite IH. ring.
Qed.

Lemma R_bil_homog : forall t, homog2 (R_bil t).
Proof.
  intros t a c x y. unfold R_bil, bil_apply, R_scale at 3, scale. rewrite map_map.
  apply map_ext. intro row.
  rewrite <- fsum_scale. f_equal. rewrite map_map. apply map_ext. intros [i j]. cbn [fst snd].
  rewrite !nth_R_scale. ring.
Qed.

Lemma R_lin_homog : forall t, homog1 (R_lin t).
Proof.
  intros t a x. unfold R_lin, lin_apply, R_scale at 2, scale. rewrite map_map.
  apply map_ext. intro row.
  rewrite <- fsum_scale. f_equal. rewrite map_map. apply map_ext. intro i.
  apply nth_R_scale.
Qed.

(* ------------------------------------------------------------------ *)
(* the register file                                                    *)
Definition keys (d : temps_t R) : list nat := map fst d.

Inductive rel (sc : nat -> R) : temps_t R -> temps_t R -> Prop :=
| rel_nil : rel sc [] []
| rel_cons : forall k x y tp ts, x = R_scale (sc k) y -> rel sc tp ts ->
    rel sc ((k, x) :: tp) ((k, y) :: ts).

Definition upd (sc : nat -> R) (p : nat) (v : R) : nat -> R :=
  fun k => if Nat.eqb k p then v else sc k.

Fixpoint prodk (sc : nat -> R) (ks : list nat) : R :=
  match ks with [] => 1 | k :: r => sc k * prodk sc r end.

Lemma rel_tget : forall sc tp ts k y, rel sc tp ts -> tget R k ts = Some y ->
  tget R k tp = Some (R_scale (sc k) y).
Proof.
  intros sc tp ts k y H. induction H as [|k' x y' tp ts Hx H IH]; cbn [tget]; intro G.
  - discriminate.
  - destruct (Nat.eqb k' k) eqn:E.
    + apply Nat.eqb_eq in E. subst k'. injection G as Ey. subst y. rewrite Hx. reflexivity.
    + apply IH; exact G.
Qed.

Lemma rel_tset : forall sc tp ts k x y, rel sc tp ts -> x = R_scale (sc k) y ->
  rel sc (tset R k x tp) (tset R k y ts).
Proof.
  intros sc tp ts k x y H Hx. induction H as [|k' x' y' tp ts Hx' H IH]; cbn [tset].
  - constructor; [exact Hx | constructor].
  - destruct (Nat.eqb k' k) eqn:E.
    + apply Nat.eqb_eq in E. subst k'. constructor; assumption.
    + constructor; assumption.
Qed.

Lemma keys_tset_in : forall k y ts, memb k (keys ts) = true -> keys (tset R k y ts) = keys ts.
Proof.
  intros k y ts. induction ts as [|[k' w] ts IH]; cbn [tset keys map memb existsb fst]; intro H.
  - discriminate.
  - unfold memb in IH. rewrite Nat.eqb_sym. destruct (Nat.eqb k k') eqn:E; cbn [map fst].
    + reflexivity.
    + cbn [orb] in H. f_equal. apply IH. exact H.
Qed.

Lemma keys_tset_notin : forall k y ts, memb k (keys ts) = false -> keys (tset R k y ts) = keys ts ++ [k].
Proof.
  intros k y ts. induction ts as [|[k' w] ts IH]; cbn [tset keys map memb existsb fst app]; intro H.
  - reflexivity.
  - unfold memb in IH. rewrite Nat.eqb_sym. destruct (Nat.eqb k k') eqn:E; cbn [orb] in H.
    + discriminate.
    + cbn [map fst]. f_equal. apply IH. exact H.
Qed.

Lemma tget_memb : forall k ts y, tget R k ts = Some y -> memb k (keys ts) = true.
Proof.
  intros k ts y. induction ts as [|[k' w] ts IH]; cbn [tget keys map memb existsb fst]; intro H.
  - discriminate.
  - rewrite Nat.eqb_sym. destruct (Nat.eqb k' k) eqn:E; cbn [orb]; [reflexivity|].
    apply IH; exact H.
Qed.

Lemma rel_tpop : forall sc tp ts k y ts', rel sc tp ts -> tpop R k ts = Some (y, ts') ->
  exists tp', tpop R k tp = Some (R_scale (sc k) y, tp') /\ rel sc tp' ts' /\
              rem1 k (keys ts) = Some (keys ts').
Proof.
  intros sc tp ts k y ts' H. revert y ts'.
  induction H as [|k' x y' tp ts Hx H IH]; cbn [tpop]; intros y ts' G.
  - discriminate.
  - cbn [keys map fst rem1]. destruct (Nat.eqb k' k) eqn:E.
    + apply Nat.eqb_eq in E. subst k'. injection G as Ey Ets. subst y ts'.
      exists tp. rewrite Hx. repeat split; assumption.
    + destruct (tpop R k ts) as [[y0 r0]|] eqn:P; [|discriminate].
      injection G as Ey Ets. subst y ts'.
      destruct (IH _ _ eq_refl) as [tp' [P' [R' K']]].
      exists ((k', x) :: tp'). rewrite P'. fold (keys ts). rewrite K'.
      repeat split. constructor; assumption.
Qed.

Lemma rel_upd : forall sc tp ts p v, rel sc tp ts -> memb p (keys ts) = false ->
  rel (upd sc p v) tp ts.
Proof.
  intros sc tp ts p v H. induction H as [|k x y tp ts Hx H IH];
    cbn [keys map memb existsb fst]; intro M.
  - constructor.
  - apply orb_false_iff in M. destruct M as [M1 M2].
    constructor.
    + unfold upd. rewrite Nat.eqb_sym, M1. exact Hx.
    + apply IH. exact M2.
Qed.

Lemma prodk_rem1 : forall sc k ks ks', rem1 k ks = Some ks' -> prodk sc ks = sc k * prodk sc ks'.
Proof.
  intros sc k ks. induction ks as [|x ks IH]; cbn [rem1 prodk]; intros ks' H.
  - discriminate.
  - destruct (Nat.eqb x k) eqn:E.
    + apply Nat.eqb_eq in E. subst x. inversion H; subst. reflexivity.
    + destruct (rem1 k ks) as [r|] eqn:Rm; [|discriminate].
      inversion H; subst. cbn [prodk]. rewrite (IH r eq_refl). ring.
Qed.

Lemma prodk_app : forall sc a b, prodk sc (a ++ b) = prodk sc a * prodk sc b.
Proof.
  intros sc a b. induction a as [|x a IH]; cbn [app prodk]; [ring | rewrite IH; ring].
Qed.

Lemma prodk_upd : forall sc p v ks, memb p ks = false -> prodk (upd sc p v) ks = prodk sc ks.
Proof.
  intros sc p v ks. induction ks as [|x ks IH]; cbn [prodk memb existsb]; intro M.
  - reflexivity.
  - apply orb_false_iff in M. destruct M as [M1 M2]. unfold memb in IH.
    rewrite (IH M2). unfold upd at 1. rewrite Nat.eqb_sym, M1. reflexivity.
Qed.

Lemma memb_In : forall k ks, memb k ks = true <-> In k ks.
Proof.
  intros k ks. unfold memb. rewrite existsb_exists. split.
  - intros [x [Hx E]]. apply Nat.eqb_eq in E. subst. exact Hx.
  - intro H. exists k. split; [exact H | apply Nat.eqb_refl].
Qed.

(* ------------------------------------------------------------------ *)
(* the divisor guard: identity on non-zero factors *)
Definition guard_ok (g : R -> R) : Prop := forall f, f <> 0 -> g f = f.
Lemma guard_ok_id : guard_ok (fun f => f).
Proof. intros f _. reflexivity. Qed.
Lemma guard_ok_fix : guard_ok rguard_fix.
Proof.
  intros f H. unfold rguard_fix, ris0. destruct (Req_EM_T f 0); [contradiction | ring].
Qed.

(* ------------------------------------------------------------------ *)
(* unfolding equations of the real-number run                           *)
Lemma R_run_nil : forall g strip cz temps e last,
  R_run g strip cz [] temps e last =
  match last with None => Raised | Some p => Done p (if strip then Some e else None) end.
Proof. reflexivity. Qed.

Lemma R_run_pre : forall g strip cz p u rest temps e last,
  R_run g strip cz (IPre p u :: rest) temps e last =
  match tget R p temps with
  | None => Raised
  | Some x => R_run g strip cz rest (tset R p (u x) temps) e last
  end.
Proof. reflexivity. Qed.

Lemma R_run_pair : forall g strip cz p l r b rest temps e last,
  R_run g strip cz (IPair p l r b :: rest) temps e last =
  match tpop R l temps with
  | None => Raised
  | Some (xl, t1) =>
      match tpop R r t1 with
      | None => Raised
      | Some (xr, t2) =>
          if strip then
            if cz && ris0 (R_maxabs (b xl xr)) then ZeroExit
            else R_run g strip cz rest (tset R p (R_divs (b xl xr) (g (R_maxabs (b xl xr)))) t2)
                       (e + log10 (R_maxabs (b xl xr)))
                       (Some (R_divs (b xl xr) (g (R_maxabs (b xl xr)))))
          else R_run g strip cz rest (tset R p (b xl xr) t2) e (Some (b xl xr))
      end
  end.
Proof. reflexivity. Qed.

Definition last_ok (sc : nat -> R) (ks : list nat) (lp ls : option (list R)) : Prop :=
  match ls, lp with
  | None, None => True
  | Some y, Some x => exists p, In p ks /\ x = R_scale (sc p) y
  | _, _ => False
  end.

(* the invariant: every live register of the plain run is the corresponding register of
   the stripped run times a positive scale, and 10^exponent is the product of the scales *)
Lemma run_rel : forall g g' prog sc tp ts e lp ls m e' cz ep,
  guard_ok g ->
  Forall homog_instr prog ->
  wf_prog R prog (keys ts) = true ->
  rel sc tp ts -> (forall k, 0 < sc k) ->
  pow10 e = prodk sc (keys ts) ->
  last_ok sc (keys ts) lp ls ->
  R_run g true true prog ts e ls = Done m (Some e') ->
  R_run g' false cz prog tp ep lp = Done (R_scale (pow10 e') m) None.
Proof.
  intros g g' prog. induction prog as [|i prog IH]; intros sc tp ts e lp ls m e' cz ep Hg Hh Hwf Hrel Hpos He Hlast Hrun.
  - rewrite R_run_nil in *. cbn [wf_prog] in Hwf. apply Nat.eqb_eq in Hwf.
    destruct ls as [y|]; [|discriminate]. inversion Hrun; subst y e'.
    destruct lp as [x|]; [|destruct Hlast].
    destruct Hlast as [p [Hin Hx]].
    destruct (keys ts) as [|k0 [|k1 ks]] eqn:K; try discriminate.
    destruct Hin as [Hin|[]]. subst k0. cbn [prodk] in He.
    rewrite Hx. do 2 f_equal. rewrite He. ring.
  - inversion Hh as [|i' prog' Hi Hprog]; subst i' prog'.
    destruct i as [p u | p l r b].
    + (* single-term step *)
      rewrite R_run_pre in *. cbn [wf_prog] in Hwf. apply andb_true_iff in Hwf.
      destruct Hwf as [Hm Hwf].
      destruct (tget R p ts) as [y|] eqn:G; [|discriminate].
      rewrite (rel_tget _ _ _ _ _ Hrel G).
      cbn [homog_instr] in Hi. rewrite Hi.
      eapply IH with (sc := sc) (ts := tset R p (u y) ts); try eassumption.
      * rewrite keys_tset_in; assumption.
      * apply rel_tset; [exact Hrel | reflexivity].
      * rewrite keys_tset_in; assumption.
      * rewrite keys_tset_in; assumption.
    + (* pairwise contraction *)
      rewrite R_run_pair in *. cbn [wf_prog] in Hwf.
      destruct (tpop R l ts) as [[yl t1]|] eqn:Pl; [|discriminate].
      destruct (tpop R r t1) as [[yr t2]|] eqn:Pr; [|discriminate].
      destruct (rel_tpop _ _ _ _ _ _ Hrel Pl) as [tp1 [Pl' [Rel1 K1]]].
      destruct (rel_tpop _ _ _ _ _ _ Rel1 Pr) as [tp2 [Pr' [Rel2 K2]]].
      rewrite Pl', Pr'. rewrite K1, K2 in Hwf.
      apply andb_true_iff in Hwf. destruct Hwf as [Hfresh Hwf].
      apply negb_true_iff in Hfresh.
      cbn [andb] in Hrun.
      set (pa := b yl yr) in *. set (f := R_maxabs pa) in *.
      destruct (ris0 f) eqn:Z; [discriminate|].
      assert (Hf0 : f <> 0).
      { unfold ris0 in Z. destruct (Req_EM_T f 0); [discriminate | assumption]. }
      assert (Hfp : 0 < f).
      { pose proof (R_maxabs_nonneg pa). fold f in H. lra. }
      rewrite (Hg f Hf0) in Hrun.
      cbn [homog_instr] in Hi. rewrite Hi.
      set (v := sc l * sc r * f).
      assert (Hv : 0 < v).
      { unfold v. apply Rmult_lt_0_compat; [apply Rmult_lt_0_compat; apply Hpos | exact Hfp]. }
      assert (Hpa : R_scale (sc l * sc r) pa = R_scale (upd sc p v p) (R_divs pa f)).
      { unfold upd. rewrite Nat.eqb_refl, R_divs_scale, R_scale_scale. f_equal.
        unfold v. field. exact Hf0. }
      eapply IH with (sc := upd sc p v) (ts := tset R p (R_divs pa f) t2); try eassumption.
      * rewrite keys_tset_notin; assumption.
      * apply rel_tset; [apply rel_upd; assumption | exact Hpa].
      * intro k. unfold upd. destruct (Nat.eqb k p); [exact Hv | apply Hpos].
      * rewrite keys_tset_notin by assumption.
        rewrite prodk_app, prodk_upd by assumption. cbn [prodk]. unfold upd at 1.
        rewrite Nat.eqb_refl.
        rewrite pow10_plus, pow10_log10, He by exact Hfp.
        rewrite (prodk_rem1 sc _ _ _ K1), (prodk_rem1 sc _ _ _ K2). unfold v. ring.
      * rewrite keys_tset_notin by assumption. cbn [last_ok].
        exists p. split; [apply in_or_app; right; left; reflexivity | exact Hpa].
Qed.

Lemma prodk_ones : forall ks, prodk (fun _ => 1) ks = 1.
Proof. induction ks as [|k ks IH]; cbn [prodk]; [reflexivity | rewrite IH; ring]. Qed.

Lemma rel_refl_ones : forall t, rel (fun _ => 1) t t.
Proof.
  induction t as [|[k x] t IH]; constructor; [symmetry; apply R_scale_1 | exact IH].
Qed.

(* strip_value: if the stripped run with the explicit zero check finishes normally
   (i.e. no factor was 0), the plain run of the same program on the same arrays finishes
   and returns mantissa * 10^exponent. *)
Lemma strip_value_temps : forall g g' prog temps m e cz ep,
  guard_ok g ->
  Forall homog_instr prog ->
  wf_prog R prog (keys temps) = true ->
  R_run g true true prog temps 0 None = Done m (Some e) ->
  R_run g' false cz prog temps ep None = Done (R_scale (pow10 e) m) None.
Proof.
  intros g g' prog temps m e cz ep Hg Hh Hwf Hrun.
  eapply run_rel with (g := g) (sc := fun _ => 1) (ts := temps) (e := 0); try eassumption.
  - apply rel_refl_ones.
  - intro. lra.
  - rewrite pow10_0, prodk_ones. reflexivity.
  - exact I.
Qed.

(* check_zero only matters when a factor is 0: a run that ends normally with the check
   ends identically without it *)
Lemma cz_irrelevant : forall g prog temps e last m e',
  R_run g true true prog temps e last = Done m e' ->
  R_run g true false prog temps e last = Done m e'.
Proof.
  intros g prog. induction prog as [|i prog IH]; intros temps e last m e' H.
  - rewrite R_run_nil in *. exact H.
  - destruct i as [p u | p l r b].
    + rewrite R_run_pre in *. destruct (tget R p temps); [apply IH; exact H | discriminate].
    + rewrite R_run_pair in *.
      destruct (tpop R l temps) as [[xl t1]|]; [|discriminate].
      destruct (tpop R r t1) as [[xr t2]|]; [|discriminate].
      cbn [andb] in *. destruct (ris0 (R_maxabs (b xl xr))); [discriminate|].
      apply IH; exact H.
Qed.

(* conversely, if every recorded factor is non-zero the check never fires *)
Lemma cz_never_fires : forall g prog temps e last,
  Forall (fun t => fst t <> 0) (R_trace g prog temps e) ->
  R_run g true true prog temps e last = R_run g true false prog temps e last.
Proof.
  intros g prog. induction prog as [|i prog IH]; intros temps e last H.
  - reflexivity.
  - destruct i as [p u | p l r b].
    + rewrite !R_run_pre. unfold R_trace in H. cbn [trace] in H.
      destruct (tget R p temps); [apply IH; exact H | reflexivity].
    + rewrite !R_run_pair. unfold R_trace in H. cbn [trace] in H.
      destruct (tpop R l temps) as [[xl t1]|]; [|reflexivity].
      destruct (tpop R r t1) as [[xr t2]|]; [|reflexivity].
      inversion H as [|t ts Hf Hrest]; subst. cbn [fst] in Hf.
      cbn [andb]. unfold ris0.
      destruct (Req_EM_T _ 0) as [E|E]; [exfalso; apply Hf; exact E|].
      apply IH. exact Hrest.
Qed.

Lemma keys_combine_seq : forall (arrays : list (list R)) s,
  keys (combine (seq s (length arrays)) arrays) = seq s (length arrays).
Proof.
  induction arrays as [|a arrays IH]; intro s; cbn [length seq combine keys map fst].
  - reflexivity.
  - f_equal. apply IH.
Qed.

Definition R_core (g : R -> R) (strip cz : bool) (prog : list (instr R)) (arrays : list (list R)) :=
  contract_core R R 0 Rdiv Rabs Rmax ris0 g 0 log10 Rplus strip cz prog arrays.

Lemma strip_value : forall g g' prog arrays m e,
  guard_ok g ->
  Forall homog_instr prog ->
  wf_prog R prog (seq 0 (length arrays)) = true ->
  Forall (fun t => fst t <> 0)
         (R_trace g prog (combine (seq 0 (length arrays)) arrays) 0) ->
  R_core g true false prog arrays = Done m (Some e) ->
  R_core g' false false prog arrays = Done (R_scale (pow10 e) m) None.
Proof.
  intros g g' prog arrays m e Hg Hh Hwf Hnz Hrun. unfold R_core, contract_core in *.
  fold (R_run g) in *. fold (R_run g'). rewrite <- cz_never_fires in Hrun by exact Hnz.
  apply strip_value_temps with (g := g); try assumption.
  rewrite keys_combine_seq. exact Hwf.
Qed.

Lemma strip_value_cz : forall g g' prog arrays m e,
  guard_ok g ->
  Forall homog_instr prog ->
  wf_prog R prog (seq 0 (length arrays)) = true ->
  R_core g true true prog arrays = Done m (Some e) ->
  R_core g' false false prog arrays = Done (R_scale (pow10 e) m) None /\
  R_core g true false prog arrays = Done m (Some e).
Proof.
  intros g g' prog arrays m e Hg Hh Hwf Hrun. unfold R_core, contract_core in *.
  fold (R_run g) in *. fold (R_run g').
  split.
  - apply strip_value_temps with (g := g); try assumption. rewrite keys_combine_seq. exact Hwf.
  - apply cz_irrelevant. exact Hrun.
Qed.

(* ------------------------------------------------------------------ *)
(* mantissa_bounded                                                     *)
Lemma trace_mantissa_one : forall g prog temps e, guard_ok g ->
  Forall (fun t => fst t <> 0 -> snd (snd t) = 1) (R_trace g prog temps e).
Proof.
  intros g prog temps e Hg. revert temps e.
  induction prog as [|i prog IH]; intros temps e; unfold R_trace in *; cbn [trace].
  - constructor.
  - destruct i as [p u | p l r b].
    + destruct (tget R p temps); [apply IH | constructor].
    + destruct (tpop R l temps) as [[xl t1]|]; [|constructor].
      destruct (tpop R r t1) as [[xr t2]|]; [|constructor].
      constructor; [|apply IH].
      cbn [fst snd]. intro H. rewrite (Hg _ H). apply R_maxabs_divs. exact H.
Qed.

(* the exponent recorded after each step is the running sum of log10(factor) *)
Fixpoint running_sums (e : R) (fs : list R) : list R :=
  match fs with [] => [] | f :: r => (e + log10 f) :: running_sums (e + log10 f) r end.
Lemma trace_exponent_sum : forall g prog temps e,
  map (fun t => fst (snd t)) (R_trace g prog temps e) =
  running_sums e (map fst (R_trace g prog temps e)).
Proof.
  intros g prog. induction prog as [|i prog IH]; intros temps e; unfold R_trace in *; cbn [trace].
  - reflexivity.
  - destruct i as [p u | p l r b].
    + destruct (tget R p temps); [apply IH | reflexivity].
    + destruct (tpop R l temps) as [[xl t1]|]; [|reflexivity].
      destruct (tpop R r t1) as [[xr t2]|]; [|reflexivity].
      cbn [map fst snd running_sums]. f_equal. apply IH.
Qed.

Lemma fsum_abs_bound : forall (l : list R) c, (forall v, In v l -> Rabs v <= c) ->
  Rabs (fsum R 0 Rplus l) <= INR (length l) * c.
Proof.
  intros l c. induction l as [|v l IH]; intro H; unfold fsum in *.
  - cbn. rewrite Rabs_R0. lra.
  - cbn [fold_right length]. rewrite S_INR.
    eapply Rle_trans; [apply Rabs_triang|].
    assert (Rabs v <= c) by (apply H; left; reflexivity).
    assert (Rabs (fold_right Rplus 0 l) <= INR (length l) * c)
      by (apply IH; intros w Hw; apply H; right; exact Hw).
    lra.
Qed.

(* every entry of a pairwise contraction is bounded by K * max|x| * max|y|, K the number
   of products summed into one output entry (the contracted volume) *)
Lemma bil_entry_bound : forall (t : bil) x y K v,
  (forall row, In row t -> (length row <= K)%nat) ->
  In v (R_bil t x y) -> Rabs v <= INR K * (R_maxabs x * R_maxabs y).
Proof.
  intros t x y K v HK Hv. unfold R_bil, bil_apply in Hv.
  apply in_map_iff in Hv. destruct Hv as [row [Ev Hrow]]. subst v.
  pose proof (R_maxabs_nonneg x) as Hx. pose proof (R_maxabs_nonneg y) as Hy.
  eapply Rle_trans.
  - apply fsum_abs_bound with (c := R_maxabs x * R_maxabs y).
    intros w Hw. apply in_map_iff in Hw. destruct Hw as [[i j] [Ew _]]. subst w. cbn [fst snd].
    rewrite Rabs_mult. apply Rmult_le_compat; try apply Rabs_pos; apply R_maxabs_nth.
  - rewrite map_length. apply Rmult_le_compat_r.
    + apply Rmult_le_pos; assumption.
    + apply le_INR. apply HK. exact Hrow.
Qed.

Lemma bil_maxabs_bound : forall (t : bil) x y K,
  (forall row, In row t -> (length row <= K)%nat) ->
  R_maxabs (R_bil t x y) <= INR K * (R_maxabs x * R_maxabs y).
Proof.
  intros t x y K HK.
  assert (H0 : 0 <= INR K * (R_maxabs x * R_maxabs y)).
  { apply Rmult_le_pos; [apply pos_INR | apply Rmult_le_pos; apply R_maxabs_nonneg]. }
  assert (G : forall z, (forall v, In v z -> Rabs v <= INR K * (R_maxabs x * R_maxabs y)) ->
              R_maxabs z <= INR K * (R_maxabs x * R_maxabs y)).
  { induction z as [|w z IH]; intro H.
    - unfold R_maxabs, maxabs. cbn. exact H0.
    - rewrite R_maxabs_cons. apply Rmax_lub.
      + apply H. left. reflexivity.
      + apply IH. intros v Hv. apply H. right. exact Hv. }
  apply G. intros v Hv. eapply bil_entry_bound; eassumption.
Qed.

(* the float64 range statement, over the reals: operands of magnitude at most 10^100
   (raw inputs in 1e-100..1e100, or mantissas, whose magnitude is 1) and a contracted
   volume of at most 10^100 give entries of magnitude at most 10^300 < 1.79e308 *)
Lemma bil_in_range : forall (t : bil) x y K,
  (forall row, In row t -> (length row <= K)%nat) ->
  INR K <= 10 ^ 100 -> R_maxabs x <= 10 ^ 100 -> R_maxabs y <= 10 ^ 100 ->
  R_maxabs (R_bil t x y) <= 10 ^ 300.
Proof.
  intros t x y K HK Hk Hx Hy.
  eapply Rle_trans; [apply bil_maxabs_bound; exact HK|].
  replace (10 ^ 300) with (10 ^ 100 * (10 ^ 100 * 10 ^ 100)).
  - pose proof (R_maxabs_nonneg x). pose proof (R_maxabs_nonneg y).
    apply Rmult_le_compat; try apply pos_INR; try assumption.
    + apply Rmult_le_pos; assumption.
    + apply Rmult_le_compat; assumption.
  - rewrite <- !pow_add. reflexivity.
Qed.

(* ------------------------------------------------------------------ *)
(* add_maybe_exponent_stripped and gather_slices                        *)
Lemma R_mscale_r_1 : forall m, R_mscale_r m 1 = m.
Proof.
  intros [x|c]; unfold R_mscale_r, mscale_r, scale_r.
  - f_equal. rewrite <- (map_id x) at 2. apply map_ext. intro. ring.
  - f_equal. ring.
Qed.

Lemma R_mscale_r_mul : forall m a b, R_mscale_r (R_mscale_r m a) b = R_mscale_r m (a * b).
Proof.
  intros [x|c] a b; unfold R_mscale_r, mscale_r, scale_r.
  - f_equal. rewrite map_map. apply map_ext. intro. ring.
  - f_equal. ring.
Qed.

Lemma vadd_scale_r : forall x y a,
  map (fun v => v * a) (R_vadd x y) = R_vadd (map (fun v => v * a) x) (map (fun v => v * a) y).
Proof.
  induction x as [|v x IH]; intros [|w y] a; unfold R_vadd in *; cbn [vadd map]; try reflexivity.
  f_equal; [ring | apply IH].
Qed.

Lemma R_mscale_r_madd : forall m1 m2 a,
  R_mscale_r (R_madd m1 m2) a = R_madd (R_mscale_r m1 a) (R_mscale_r m2 a).
Proof.
  intros [x|c] [y|d] a; unfold R_mscale_r, R_madd, mscale_r, madd, scale_r; f_equal.
  - apply vadd_scale_r.
  - rewrite !map_map. apply map_ext. intro. ring.
  - rewrite !map_map. apply map_ext. intro. ring.
  - ring.
Qed.

Lemma add_stripped_value : forall x y, R_value (R_add x y) = R_madd (R_value x) (R_value y).
Proof.
  intros x y.
  assert (G : forall xm xe ym ye,
    R_mscale_r (R_madd (R_mscale_r xm (pow10 (xe - Rmax xe ye)))
                       (R_mscale_r ym (pow10 (ye - Rmax xe ye)))) (pow10 (Rmax xe ye)) =
    R_madd (R_mscale_r xm (pow10 xe)) (R_mscale_r ym (pow10 ye))).
  { intros. rewrite R_mscale_r_madd, !R_mscale_r_mul, !pow10_diff. reflexivity. }
  destruct x as [xm|xm xe], y as [ym|ym ye]; unfold R_add, add_maybe, rnever; cbn [R_value].
  - reflexivity.
  - fold R_mscale_r R_madd. rewrite G, pow10_0, R_mscale_r_1. reflexivity.
  - fold R_mscale_r R_madd. rewrite G, pow10_0, R_mscale_r_1. reflexivity.
  - fold R_mscale_r R_madd. apply G.
Qed.

Lemma fold_add_value : forall rest s,
  R_value (fold_left R_add rest s) = fold_left R_madd (map R_value rest) (R_value s).
Proof.
  induction rest as [|t rest IH]; intro s; cbn [fold_left map].
  - reflexivity.
  - rewrite IH, add_stripped_value. reflexivity.
Qed.

Lemma gather_sum_value : forall s rest r,
  R_gather_sum (s :: rest) = Some r ->
  R_value r = fold_left R_madd (map R_value rest) (R_value s).
Proof.
  intros s rest r H. unfold R_gather_sum, gather_sum in H. injection H as E. subst r.
  apply fold_add_value.
Qed.

(* grouping slices into output chunks commutes with taking values *)
Fixpoint vchunk_add (k : nat) (v : mant R) (chunks : list (nat * mant R)) : list (nat * mant R) :=
  match chunks with
  | [] => [(k, v)]
  | (k', c) :: rest => if Nat.eqb k' k then (k', R_madd c v) :: rest
                       else (k', c) :: vchunk_add k v rest
  end.
Definition vgroup (keyed : list (nat * mant R)) : list (nat * mant R) :=
  fold_left (fun chunks kv => vchunk_add (fst kv) (snd kv) chunks) keyed [].
Definition kvalue (ks : nat * sval R R) : nat * mant R := (fst ks, R_value (snd ks)).

Lemma chunk_add_value : forall k s chunks,
  map kvalue (chunk_add R R Rplus Rmult rnever 0 Rmax (fun a b => pow10 (a - b)) k s chunks) =
  vchunk_add k (R_value s) (map kvalue chunks).
Proof.
  intros k s chunks. induction chunks as [|[k' c] chunks IH]; cbn [chunk_add map vchunk_add].
  - reflexivity.
  - unfold kvalue at 2. cbn [fst snd]. destruct (Nat.eqb k' k).
    + cbn [map]. unfold kvalue at 1. cbn [fst snd]. fold R_add.
      rewrite add_stripped_value. reflexivity.
    + cbn [map]. rewrite IH. reflexivity.
Qed.

Lemma group_chunks_value : forall keyed,
  map kvalue (R_group keyed) = vgroup (map kvalue keyed).
Proof.
  intro keyed. unfold R_group, group_chunks, vgroup.
  assert (G : forall acc,
    map kvalue (fold_left (fun chunks ks =>
       chunk_add R R Rplus Rmult rnever 0 Rmax (fun a b => pow10 (a - b)) (fst ks) (snd ks) chunks) keyed acc) =
    fold_left (fun chunks kv => vchunk_add (fst kv) (snd kv) chunks) (map kvalue keyed) (map kvalue acc)).
  { induction keyed as [|ks keyed IH]; intro acc; cbn [fold_left map].
    - reflexivity.
    - rewrite IH, chunk_add_value. reflexivity. }
  apply (G []).
Qed.

(* the common-exponent rescaling before stacking: every rescaled chunk times 10^emax is
   the value of the chunk *)
Lemma exps_of_strip : forall (chunks : list (nat * sval R R)) es,
  exps_of R R chunks = Some es ->
  Forall (fun kc => exists m e, snd kc = Strip m e) chunks.
Proof.
  induction chunks as [|[k c] chunks IH]; intros es H; cbn [exps_of fold_right] in H.
  - constructor.
  - fold (exps_of R R chunks) in H. cbn [snd] in H.
    destruct c as [m|m e]; [discriminate|].
    destruct (exps_of R R chunks) as [l|] eqn:X; [|discriminate].
    constructor; [exists m, e; reflexivity | eapply IH; reflexivity].
Qed.

Lemma gather_stack_value : forall b chunks res em,
  R_gather_stack b chunks = Some (res, Some em) ->
  map (fun km => (fst km, R_mscale_r (snd km) (pow10 em))) res = map kvalue chunks.
Proof.
  intros b chunks res em H. unfold R_gather_stack, gather_stack in H.
  destruct chunks as [|[k0 c0] chunks0] eqn:EC; [discriminate|].
  destruct c0 as [m0|m0 e0].
  - destruct (forallb _ _); discriminate.
  - rewrite <- EC in *.
    destruct (exps_of R R chunks) as [es|] eqn:X; [|discriminate].
    destruct (pymax_list R Rmax es) as [em'|]; [|discriminate].
    match type of H with (if ?c then _ else _) = _ => destruct c end; [discriminate|].
    injection H as Eres Eem. subst res em'.
    pose proof (exps_of_strip _ _ X) as Hs. clear X EC.
    rewrite map_map. apply map_ext_in. intros [k c] Hin. cbn [fst snd].
    rewrite Forall_forall in Hs. destruct (Hs _ Hin) as [m [e E]]. cbn [snd] in E. subst c.
    unfold kvalue, rnever. cbn [fst snd R_value]. fold R_mscale_r.
    rewrite R_mscale_r_mul, pow10_diff. reflexivity.
Qed.

Lemma gather_stack_plain : forall b chunks res,
  R_gather_stack b chunks = Some (res, None) -> res = map kvalue chunks.
Proof.
  intros b chunks res H. unfold R_gather_stack, gather_stack in H.
  destruct chunks as [|[k0 c0] chunks0] eqn:EC; [discriminate|].
  destruct c0 as [m0|m0 e0].
  - rewrite <- EC in *.
    destruct (forallb _ chunks) eqn:A; [|discriminate].
    injection H as E. subst res. rewrite forallb_forall in A.
    apply map_ext_in. intros [k c] Hin. specialize (A _ Hin). cbn [snd fst] in *.
    destruct c; [reflexivity | discriminate].
  - rewrite <- EC in *.
    destruct (exps_of R R chunks); [|discriminate].
    destruct (pymax_list R Rmax l); [|discriminate].
    match type of H with (if ?c then _ else _) = _ => destruct c end; discriminate.
Qed.

(* the exponent returned with the stack is the largest chunk exponent, so no rescaling
   factor exceeds 1 (nothing can overflow in `mi * 10 ** (ei - emax)`) *)
Lemma fold_Rmax_ge_init : forall l x, x <= fold_left Rmax l x.
Proof.
  induction l as [|y l IH]; intro x; cbn [fold_left]; [lra|].
  eapply Rle_trans; [apply (Rmax_l x y) | apply IH].
Qed.

Lemma fold_Rmax_ge_In : forall l x e, In e l -> e <= fold_left Rmax l x.
Proof.
  induction l as [|y l IH]; intros x e H; cbn [fold_left]; [destruct H|].
  destruct H as [H|H].
  - subst y. eapply Rle_trans; [apply (Rmax_r x e) | apply fold_Rmax_ge_init].
  - apply IH; exact H.
Qed.

Lemma exps_of_In : forall (chunks : list (nat * sval R R)) es k m e,
  exps_of R R chunks = Some es -> In (k, Strip m e) chunks -> In e es.
Proof.
  induction chunks as [|[k' c] chunks IH]; intros es k m e H Hin; [destruct Hin|].
  cbn [exps_of fold_right] in H. fold (exps_of R R chunks) in H. cbn [snd] in H.
  destruct c as [m'|m' e']; [discriminate|].
  destruct (exps_of R R chunks) as [l|] eqn:X; [|discriminate].
  injection H as E. subst es. destruct Hin as [Hin|Hin].
  - injection Hin as _ _ Ee. subst e'. left. reflexivity.
  - right. eapply IH; [reflexivity | exact Hin].
Qed.

Lemma pow10_le_1 : forall x, x <= 0 -> pow10 x <= 1.
Proof.
  intros x H. rewrite <- pow10_0. unfold pow10. apply Rle_Rpower; lra.
Qed.

Lemma stack_factors_le_1 : forall b chunks res em k m e,
  R_gather_stack b chunks = Some (res, Some em) -> In (k, Strip m e) chunks ->
  e <= em /\ pow10 (e - em) <= 1.
Proof.
  intros b chunks res em k m e H Hin. unfold R_gather_stack, gather_stack in H.
  destruct chunks as [|[k0 c0] chunks0] eqn:EC; [discriminate|].
  destruct c0 as [m0|m0 e0].
  - destruct (forallb _ _); discriminate.
  - rewrite <- EC in *.
    destruct (exps_of R R chunks) as [es|] eqn:X; [|discriminate].
    destruct (pymax_list R Rmax es) as [em'|] eqn:P; [|discriminate].
    match type of H with (if ?c then _ else _) = _ => destruct c end; [discriminate|].
    injection H as _ Eem. subst em'.
    pose proof (exps_of_In _ _ _ _ _ X Hin) as Hes.
    assert (L : e <= em).
    { unfold pymax_list in P. destruct es as [|x r]; [discriminate|].
      injection P as P. subst em. destruct Hes as [Hes|Hes].
      - subst x. apply fold_Rmax_ge_init.
      - apply fold_Rmax_ge_In. exact Hes. }
    split; [exact L | apply pow10_le_1; lra].
Qed.

(* ------------------------------------------------------------------ *)
(* end-to-end corollaries                                               *)
Lemma scale_r_scale : forall x a, scale_r R Rmult x a = R_scale a x.
Proof. intros. unfold scale_r, R_scale, scale. apply map_ext. intro. ring. Qed.

Lemma R_value_strip_arr : forall m e, R_value (Strip (MArr m) e) = MArr (R_scale (pow10 e) m).
Proof. intros. cbn [R_value]. unfold R_mscale_r, mscale_r. rewrite scale_r_scale. reflexivity. Qed.

(* end to end for a sliced contraction without sliced output index: if no slice meets a zero
   factor, the gathered (mantissa, exponent) denotes the sum of the plain slice contractions *)
Lemma sliced_sum_value : forall g g' prog slices ms r,
  guard_ok g -> Forall homog_instr prog ->
  Forall2 (fun arrs me => wf_prog R prog (seq 0 (length arrs)) = true /\
                          R_core g true true prog arrs = Done (fst me) (Some (snd me))) slices ms ->
  R_gather_sum (map (fun me => Strip (MArr (fst me)) (snd me)) ms) = Some r ->
  exists ps, Forall2 (fun arrs p => R_core g' false false prog arrs = Done p None) slices ps /\
             match ps with
             | [] => False
             | p :: rest => R_value r = fold_left R_madd (map (fun x => MArr x) rest) (MArr p)
             end.
Proof.
  intros g g' prog slices ms r Hg Hh HF Hr.
  exists (map (fun me => R_scale (pow10 (snd me)) (fst me)) ms). split.
  - clear Hr. induction HF as [|arrs me slices ms [Hwf Hrun] HF IH]; cbn [map]; constructor.
    + destruct (strip_value_cz g g' prog arrs (fst me) (snd me) Hg Hh Hwf Hrun) as [H _]. exact H.
    + exact IH.
  - destruct ms as [|me ms]; [discriminate|]. cbn [map] in *.
    rewrite (gather_sum_value _ _ _ Hr). rewrite R_value_strip_arr. f_equal.
    rewrite !map_map. apply map_ext. intros [m e]. cbn [fst snd]. apply R_value_strip_arr.
Qed.

(* interface._wrap_strip_exponent_final: (fn(x), 0.0) denotes fn(x) *)
Lemma single_term_value : forall u x, R_value (single_term_stripped R R 0 u x) = MArr (u x).
Proof.
  intros. unfold single_term_stripped. rewrite R_value_strip_arr, pow10_0, R_scale_1. reflexivity.
Qed.

(* ------------------------------------------------------------------ *)
(* witnesses in the exact-IEEE instance (finding strip-zero-slice).  The `pre_fix_` ones are
   HISTORICAL: they are about the model instance with pt = false, i.e. the definitions of the code
   before fix commit 150ba09; zero_slice_with_fix is about pt = true, the current code. *)
Definition zs_prog : list (instr xq) := [pair_step 2 0 1 [[(0,0)];[(0,1)];[(1,0)];[(1,1)]]%N].
Definition zs_slices : list (list (list xq)) :=
  [ [[q 1 1; q 2 1]; [q 1 1; q 2 1]];  [[q 0 1; q 0 1]; [q 3 1; q 4 1]] ].

Lemma pre_fix_zero_slice_refuted : exists prog slices r s,
  X_wf prog [0;1]%nat = true /\
  X_sum false false false prog slices = Some (Plain (MArr r)) /\
  forallb x_nonzero_finite r = true /\
  X_sum false true false prog slices = Some s /\
  x_value_ok (Plain (MArr r)) s = false /\
  s = Strip (MArr [XNaN; XNaN; XNaN; XNaN]) (XF 4).
Proof.
  exists zs_prog, zs_slices, [XF 1; XF 2; XF 2; XF 4], (Strip (MArr [XNaN; XNaN; XNaN; XNaN]) (XF 4)).
  vm_compute. repeat split; reflexivity.
Qed.

Lemma pre_fix_zero_slice_check_zero : 
  x_value_ok (Plain (MArr [XF 1; XF 2; XF 2; XF 4]))
             (match X_sum false true true zs_prog zs_slices with Some s => s | None => Plain (MScal XNaN) end) = true /\
  X_sum false true true zs_prog [nth 1 zs_slices []; nth 1 zs_slices []; nth 0 zs_slices []] =
     Some (Strip (MArr [XNaN; XNaN; XNaN; XNaN]) (XF 4)) /\
  X_stack false true true false zs_prog [0;1]%nat zs_slices = None.
Proof. vm_compute. repeat split; reflexivity. Qed.

Lemma zero_slice_with_fix :
  let ok o := x_value_ok (Plain (MArr [XF 1; XF 2; XF 2; XF 4]))
                         (match o with Some s => s | None => Plain (MScal XNaN) end) in
  let z := nth 1 zs_slices [] in let nz := nth 0 zs_slices [] in
  ok (X_sum true true false zs_prog zs_slices) = true /\
  ok (X_sum true true true zs_prog zs_slices) = true /\
  ok (X_sum true true false zs_prog [z; z; nz]) = true /\
  ok (X_sum true true true zs_prog [z; z; nz]) = true /\
  X_stack true true false false zs_prog [0;1]%nat zs_slices =
    Some ([(0%nat, MArr [XF (1#4); XF (1#2); XF (1#2); XF 1]); (1%nat, MArr [XF 0; XF 0; XF 0; XF 0])], Some (XF 4)) /\
  X_stack true true true false zs_prog [0;1]%nat zs_slices = None.
Proof. vm_compute. repeat split; reflexivity. Qed.

(* ================================================================== *)
(* The fixed semantics (instance 3): no hypothesis about zero factors  *)
Definition zero (x : list R) : Prop := Forall (fun v => v = 0) x.

Lemma zero_scale0 : forall x, zero x -> x = R_scale 0 x.
Proof.
  intros x H. unfold R_scale, scale. induction H as [|v x Hv H IH]; cbn [map]; [reflexivity|].
  rewrite <- IH. subst v. f_equal. ring.
Qed.

Lemma scale0_zero : forall x, zero (R_scale 0 x).
Proof.
  intro x. unfold R_scale, scale, zero. apply Forall_forall. intros v Hv.
  apply in_map_iff in Hv. destruct Hv as [w [E _]]. subst v. ring.
Qed.

Lemma zero_scale : forall a x, zero x -> zero (R_scale a x).
Proof.
  intros a x H. unfold R_scale, scale, zero in *. rewrite Forall_forall in *. intros v Hv.
  apply in_map_iff in Hv. destruct Hv as [w [E Hw]]. subst v. rewrite (H w Hw). ring.
Qed.

Lemma scale_zero_any : forall a b x, zero x -> R_scale a x = R_scale b x.
Proof.
  intros a b x H. unfold R_scale, scale. apply map_ext_in. intros v Hv.
  unfold zero in H. rewrite Forall_forall in H. rewrite (H v Hv). ring.
Qed.

Lemma zero_maxabs : forall x, zero x -> R_maxabs x = 0.
Proof.
  intros x H. induction H as [|v x Hv H IH].
  - reflexivity.
  - rewrite R_maxabs_cons, IH. subst v. rewrite Rabs_R0. apply Rmax_left. lra.
Qed.

Lemma maxabs_zero : forall x, R_maxabs x = 0 -> zero x.
Proof.
  intros x H. unfold zero. apply Forall_forall. intros v Hv.
  pose proof (R_maxabs_In v x Hv) as L. rewrite H in L.
  pose proof (Rabs_pos v). destruct (Req_dec v 0) as [E|E]; [exact E|].
  pose proof (Rabs_pos_lt v E). lra.
Qed.

Lemma homog2_zero_l : forall b x y, homog2 b -> zero x -> zero (b x y).
Proof.
  intros b x y Hb Hx. rewrite (zero_scale0 x Hx). rewrite <- (R_scale_1 y) at 1.
  rewrite Hb. replace (0 * 1) with 0 by ring. apply scale0_zero.
Qed.

Lemma homog2_zero_r : forall b x y, homog2 b -> zero y -> zero (b x y).
Proof.
  intros b x y Hb Hy. rewrite (zero_scale0 y Hy). rewrite <- (R_scale_1 x) at 1.
  rewrite Hb. replace (1 * 0) with 0 by ring. apply scale0_zero.
Qed.

Lemma homog1_zero : forall u x, homog1 u -> zero x -> zero (u x).
Proof.
  intros u x Hu Hx. rewrite (zero_scale0 x Hx), Hu. apply scale0_zero.
Qed.

Lemma rguard_fix_pos : forall f, 0 <= f -> 0 < rguard_fix f.
Proof.
  intros f H. unfold rguard_fix, ris0. destruct (Req_EM_T f 0); lra.
Qed.

Lemma rguard_fix_0 : rguard_fix 0 = 1.
Proof. unfold rguard_fix, ris0. destruct (Req_EM_T 0 0); lra. Qed.

(* register file facts *)
Lemma tget_tset_same : forall k v (d : temps_t R), tget R k (tset R k v d) = Some v.
Proof.
  intros k v d. induction d as [|[k' w] d IH]; cbn [tset tget].
  - rewrite Nat.eqb_refl. reflexivity.
  - destruct (Nat.eqb k' k) eqn:E; cbn [tget]; rewrite E; [reflexivity | exact IH].
Qed.

Lemma tget_tset_other : forall k k' v (d : temps_t R), k <> k' ->
  tget R k (tset R k' v d) = tget R k d.
Proof.
  intros k k' v d Hne. induction d as [|[k2 w] d IH]; cbn [tset tget].
  - destruct (Nat.eqb k' k) eqn:E; [apply Nat.eqb_eq in E; congruence | reflexivity].
  - destruct (Nat.eqb k2 k') eqn:E; cbn [tget].
    + apply Nat.eqb_eq in E. subst k2.
      destruct (Nat.eqb k' k) eqn:E2; [apply Nat.eqb_eq in E2; congruence | reflexivity].
    + destruct (Nat.eqb k2 k); [reflexivity | exact IH].
Qed.

Lemma tpop_tget_same : forall l (d : temps_t R) x d', tpop R l d = Some (x, d') -> tget R l d = Some x.
Proof.
  intros l d. induction d as [|[k w] d IH]; cbn [tpop tget]; intros x d' H; [discriminate|].
  destruct (Nat.eqb k l); [injection H as E _; subst; reflexivity|].
  destruct (tpop R l d) as [[x0 r0]|]; [|discriminate].
  injection H as E _. subst x0. eapply IH. reflexivity.
Qed.

Lemma tpop_tget_other : forall l k (d : temps_t R) x d', tpop R l d = Some (x, d') -> k <> l ->
  tget R k d' = tget R k d.
Proof.
  intros l k d. induction d as [|[k2 w] d IH]; cbn [tpop tget]; intros x d' H Hne; [discriminate|].
  destruct (Nat.eqb k2 l) eqn:E.
  - apply Nat.eqb_eq in E. subst k2. injection H as _ E2. subst d'.
    destruct (Nat.eqb l k) eqn:E3; [apply Nat.eqb_eq in E3; congruence | reflexivity].
  - destruct (tpop R l d) as [[x0 r0]|] eqn:P; [|discriminate].
    injection H as _ E2. subst d'. cbn [tget].
    destruct (Nat.eqb k2 k); [reflexivity | eapply IH; [reflexivity | exact Hne]].
Qed.

Definition zreg (ts : temps_t R) (k : nat) : Prop := exists z, tget R k ts = Some z /\ zero z.

(* unfolding equations of the fixed-semantics run *)
Lemma T_run_nil : forall strip cz temps e last,
  T_run strip cz [] temps e last =
  match last with None => Raised | Some p => Done p (if strip then Some e else None) end.
Proof. reflexivity. Qed.

Lemma T_run_pre : forall strip cz p u rest temps e last,
  T_run strip cz (IPre p u :: rest) temps e last =
  match tget R p temps with
  | None => Raised
  | Some x => T_run strip cz rest (tset R p (u x) temps) e last
  end.
Proof. reflexivity. Qed.

Lemma T_run_pair : forall strip cz p l r b rest temps e last,
  T_run strip cz (IPair p l r b :: rest) temps e last =
  match tpop R l temps with
  | None => Raised
  | Some (xl, t1) =>
      match tpop R r t1 with
      | None => Raised
      | Some (xr, t2) =>
          if strip then
            if cz && ris0 (R_maxabs (b xl xr)) then ZeroExit
            else T_run strip cz rest
                       (tset R p (R_divs (b xl xr) (rguard_fix (R_maxabs (b xl xr)))) t2)
                       (er_add e (er_log (R_maxabs (b xl xr))))
                       (Some (R_divs (b xl xr) (rguard_fix (R_maxabs (b xl xr)))))
          else T_run strip cz rest (tset R p (b xl xr) t2) e (Some (b xl xr))
      end
  end.
Proof. reflexivity. Qed.

(* the plain (strip = false) run does not look at the exponent carrier: instance 3 and the
   R instance agree on it *)
Lemma T_run_plain : forall g prog temps e e' last cz,
  match T_run false cz prog temps e last, R_run g false cz prog temps e' last with
  | Done m None, Done m' None => m = m'
  | Raised, Raised => True
  | _, _ => False
  end.
Proof.
  intros g prog. induction prog as [|i prog IH]; intros temps e e' last cz.
  - rewrite T_run_nil, R_run_nil. destruct last; [reflexivity | exact I].
  - destruct i as [p u | p l r b].
    + rewrite T_run_pre, R_run_pre. destruct (tget R p temps); [apply IH | exact I].
    + rewrite T_run_pair, R_run_pair.
      destruct (tpop R l temps) as [[xl t1]|]; [|exact I].
      destruct (tpop R r t1) as [[xr t2]|]; [|exact I]. apply IH.
Qed.

(* exponent part of the invariant: finite exponent = log of the product of the live scales;
   exponent -inf = some live register is exactly zero, positioned so that the returned
   array (the last pairwise result) is zero at the end *)
Definition exp_inv (sc : nat -> R) (ts : temps_t R) (pl : nat) (ls : option (list R)) (e : er) : Prop :=
  match e with
  | EFin r => pow10 r = prodk sc (keys ts)
  | ENInf => (zreg ts pl /\ exists y, ls = Some y /\ zero y) \/ (exists k, k <> pl /\ zreg ts k)
  end.

Definition last_ok' (sc : nat -> R) (ks : list nat) (pl : nat) (lp ls : option (list R)) : Prop :=
  match ls, lp with
  | None, None => True
  | Some y, Some x => In pl ks /\ x = R_scale (sc pl) y
  | _, _ => False
  end.

Lemma zreg_memb : forall ts k, zreg ts k -> memb k (keys ts) = true.
Proof. intros ts k [z [G _]]. eapply tget_memb; exact G. Qed.

Lemma run_rel_total : forall g' prog sc tp ts e pl lp ls m e' cz ep,
  Forall homog_instr prog ->
  wf_prog R prog (keys ts) = true ->
  rel sc tp ts -> (forall k, 0 < sc k) ->
  exp_inv sc ts pl ls e ->
  last_ok' sc (keys ts) pl lp ls ->
  T_run true false prog ts e ls = Done m (Some e') ->
  R_run g' false cz prog tp ep lp = Done (R_scale (p10 e') m) None.
Proof.
  intros g' prog. induction prog as [|i prog IH];
    intros sc tp ts e pl lp ls m e' cz ep Hh Hwf Hrel Hpos He Hlast Hrun.
  - rewrite T_run_nil in Hrun. rewrite R_run_nil. cbn [wf_prog] in Hwf. apply Nat.eqb_eq in Hwf.
    destruct ls as [y|]; [|discriminate]. injection Hrun as Ey Ee. subst y e'.
    destruct lp as [x|]; [|destruct Hlast].
    destruct Hlast as [Hin Hx].
    destruct (keys ts) as [|k0 [|k1 ks]] eqn:K; try discriminate.
    destruct Hin as [Hin|[]]. subst k0. rewrite Hx. f_equal.
    destruct e as [r|]; cbn [p10 exp_inv] in *.
    + f_equal. rewrite He, K. cbn [prodk]. ring.
    + destruct He as [[_ [y [Ey Zy]]] | [k [Hne Zk]]].
      * injection Ey as Ey. subst y. apply scale_zero_any. exact Zy.
      * exfalso. apply zreg_memb in Zk. rewrite K in Zk. cbn in Zk.
        rewrite orb_false_r in Zk. apply Nat.eqb_eq in Zk. congruence.
  - inversion Hh as [|i' prog' Hi Hprog]; subst i' prog'.
    destruct i as [p u | p l r b].
    + (* single-term step *)
      rewrite T_run_pre in Hrun. rewrite R_run_pre. cbn [wf_prog] in Hwf.
      apply andb_true_iff in Hwf. destruct Hwf as [Hm Hwf].
      destruct (tget R p ts) as [y|] eqn:G; [|discriminate].
      rewrite (rel_tget _ _ _ _ _ Hrel G).
      cbn [homog_instr] in Hi. rewrite Hi.
      assert (K : keys (tset R p (u y) ts) = keys ts) by (apply keys_tset_in; exact Hm).
      eapply IH with (sc := sc) (ts := tset R p (u y) ts) (pl := pl); try eassumption.
      * rewrite K. exact Hwf.
      * apply rel_tset; [exact Hrel | reflexivity].
      * destruct e as [r|]; cbn [exp_inv] in *; [rewrite K; exact He|].
        assert (Z : forall k, zreg ts k -> zreg (tset R p (u y) ts) k).
        { intros k [z [Gz Zz]]. destruct (Nat.eq_dec k p) as [E|E].
          - subst k. rewrite G in Gz. injection Gz as Gz. subst z.
            exists (u y). split; [apply tget_tset_same | apply homog1_zero; assumption].
          - exists z. split; [rewrite tget_tset_other by exact E; exact Gz | exact Zz]. }
        destruct He as [[Zp Hy] | [k [Hne Zk]]]; [left; split; [apply Z; exact Zp | exact Hy]|].
        right. exists k. split; [exact Hne | apply Z; exact Zk].
      * rewrite K. exact Hlast.
    + (* pairwise contraction *)
      rewrite T_run_pair in Hrun. rewrite R_run_pair. cbn [wf_prog] in Hwf.
      destruct (tpop R l ts) as [[yl t1]|] eqn:Pl; [|discriminate].
      destruct (tpop R r t1) as [[yr t2]|] eqn:Pr; [|discriminate].
      destruct (rel_tpop _ _ _ _ _ _ Hrel Pl) as [tp1 [Pl' [Rel1 K1]]].
      destruct (rel_tpop _ _ _ _ _ _ Rel1 Pr) as [tp2 [Pr' [Rel2 K2]]].
      rewrite Pl', Pr'. rewrite K1, K2 in Hwf.
      apply andb_true_iff in Hwf. destruct Hwf as [Hfresh Hwf].
      apply negb_true_iff in Hfresh.
      cbn [andb] in Hrun.
      set (pa := b yl yr) in *. set (f := R_maxabs pa) in *.
      assert (Hf0 : 0 <= f) by apply R_maxabs_nonneg.
      pose proof (rguard_fix_pos f Hf0) as Hg.
      cbn [homog_instr] in Hi. rewrite Hi.
      set (v := sc l * sc r * rguard_fix f).
      assert (Hv : 0 < v).
      { unfold v. apply Rmult_lt_0_compat; [apply Rmult_lt_0_compat; apply Hpos | exact Hg]. }
      assert (Hpa : R_scale (sc l * sc r) pa = R_scale (upd sc p v p) (R_divs pa (rguard_fix f))).
      { unfold upd. rewrite Nat.eqb_refl, R_divs_scale, R_scale_scale. f_equal.
        unfold v. field. lra. }
      assert (Kn : keys (tset R p (R_divs pa (rguard_fix f)) t2) = keys t2 ++ [p])
        by (apply keys_tset_notin; exact Hfresh).
      (* a register other than l, r that is zero before the step is still there, and is not p *)
      assert (Zkeep : forall k, k <> l -> k <> r -> zreg ts k ->
                k <> p /\ zreg (tset R p (R_divs pa (rguard_fix f)) t2) k).
      { intros k Hl Hr [z [Gz Zz]].
        assert (G2 : tget R k t2 = Some z).
        { rewrite (tpop_tget_other _ _ _ _ _ Pr Hr), (tpop_tget_other _ _ _ _ _ Pl Hl). exact Gz. }
        assert (Hkp : k <> p).
        { intro E. subst k. apply tget_memb in G2. congruence. }
        split; [exact Hkp|]. exists z. split; [rewrite tget_tset_other by exact Hkp; exact G2 | exact Zz]. }
      (* a zero operand makes the product zero *)
      assert (Zcons : forall k, zreg ts k -> k = l \/ k = r -> zero pa).
      { intros k [z [Gz Zz]] [E|E].
        - subst k. rewrite (tpop_tget_same _ _ _ _ Pl) in Gz. injection Gz as Gz. subst z.
          apply homog2_zero_l; assumption.
        - destruct (Nat.eq_dec k l) as [El|El].
          + rewrite El in Gz. rewrite (tpop_tget_same _ _ _ _ Pl) in Gz. injection Gz as Gz. subst z.
            apply homog2_zero_l; assumption.
          + subst k. rewrite <- (tpop_tget_other _ _ _ _ _ Pl El) in Gz.
            rewrite (tpop_tget_same _ _ _ _ Pr) in Gz. injection Gz as Gz. subst z.
            apply homog2_zero_r; assumption. }
      eapply IH with (sc := upd sc p v) (ts := tset R p (R_divs pa (rguard_fix f)) t2) (pl := p);
        try eassumption.
      * rewrite Kn. exact Hwf.
      * apply rel_tset; [apply rel_upd; assumption | exact Hpa].
      * intro k. unfold upd. destruct (Nat.eqb k p); [exact Hv | apply Hpos].
      * (* exponent invariant *)
        unfold er_log, ris0. destruct (Req_EM_T f 0) as [Ef|Ef].
        -- (* the product is exactly zero: exponent -inf, the new register is zero *)
           assert (Zpa : zero (R_divs pa (rguard_fix f))).
           { rewrite R_divs_scale. apply zero_scale. apply maxabs_zero. exact Ef. }
           replace (er_add e ENInf) with ENInf by (destruct e; reflexivity).
           cbn [exp_inv]. left. split.
           ++ exists (R_divs pa (rguard_fix f)). split; [apply tget_tset_same | exact Zpa].
           ++ eexists. split; [reflexivity | exact Zpa].
        -- destruct e as [rr|]; cbn [er_add exp_inv] in *.
           ++ rewrite Kn, prodk_app, prodk_upd by assumption. cbn [prodk]. unfold upd at 1.
              rewrite Nat.eqb_refl.
              assert (Hfp : 0 < f) by lra.
              rewrite pow10_plus, pow10_log10, He by exact Hfp.
              rewrite (prodk_rem1 sc _ _ _ K1), (prodk_rem1 sc _ _ _ K2). unfold v.
              unfold rguard_fix, ris0. destruct (Req_EM_T f 0); [contradiction | ring].
           ++ (* already -inf and the product is not zero: the zero register was not consumed *)
              right.
              assert (Hk : exists k, zreg ts k).
              { destruct He as [[Zp _] | [k [_ Zk]]]; eauto. }
              destruct Hk as [k Zk].
              destruct (Nat.eq_dec k l) as [El|El];
                [exfalso; apply Ef; apply zero_maxabs; eapply Zcons; eauto|].
              destruct (Nat.eq_dec k r) as [Er|Er];
                [exfalso; apply Ef; apply zero_maxabs; eapply Zcons; eauto|].
              destruct (Zkeep k El Er Zk) as [Hkp Zk']. exists k. split; assumption.
      * rewrite Kn. cbn [last_ok']. split; [apply in_or_app; right; left; reflexivity | exact Hpa].
Qed.

Definition ones_sc : nat -> R := fun _ => 1.

Lemma strip_value_total : forall g' prog arrays m e,
  Forall homog_instr prog ->
  wf_prog R prog (seq 0 (length arrays)) = true ->
  T_core true false prog arrays = Done m (Some e) ->
  R_core g' false false prog arrays = Done (R_scale (p10 e) m) None.
Proof.
  intros g' prog arrays m e Hh Hwf Hrun. unfold T_core, R_core, contract_core in *.
  fold T_run in Hrun. fold (R_run g').
  eapply run_rel_total with (sc := fun _ => 1) (pl := 0%nat); try eassumption.
  - rewrite keys_combine_seq. exact Hwf.
  - apply rel_refl_ones.
  - intro. lra.
  - cbn [exp_inv]. rewrite pow10_0, prodk_ones. reflexivity.
  - exact I.
Qed.

(* ------------------------------------------------------------------ *)
(* fixed semantics: add_maybe_exponent_stripped / gather_slices with -inf exponents *)
Lemma R_mscale_r_0 : forall m c, R_mscale_r (R_mscale_r m 0) c = R_mscale_r m 0.
Proof. intros. rewrite R_mscale_r_mul. f_equal. ring. Qed.

Lemma T_add_core : forall xm xe ym ye,
  T_value (if er_isninf (er_max xe ye) then Strip (R_madd xm ym) (er_max xe ye)
           else Strip (R_madd (R_mscale_r xm (er_pow xe (er_max xe ye)))
                              (R_mscale_r ym (er_pow ye (er_max xe ye)))) (er_max xe ye)) =
  R_madd (R_mscale_r xm (p10 xe)) (R_mscale_r ym (p10 ye)).
Proof.
  intros xm xe ym ye. destruct xe as [a|], ye as [b|]; cbn [er_max er_isninf T_value p10 er_pow].
  - rewrite R_mscale_r_madd, !R_mscale_r_mul, !pow10_diff. reflexivity.
  - rewrite R_mscale_r_madd, !R_mscale_r_mul, pow10_diff. do 2 f_equal. ring.
  - rewrite R_mscale_r_madd, !R_mscale_r_mul, pow10_diff. f_equal. f_equal. ring.
  - apply R_mscale_r_madd.
Qed.

Lemma T_add_value : forall x y, T_value (T_add x y) = R_madd (T_value x) (T_value y).
Proof.
  intros x y. destruct x as [xm|xm xe], y as [ym|ym ye]; unfold T_add, add_maybe.
  - reflexivity.
  - fold R_mscale_r R_madd. rewrite T_add_core. cbn [T_value p10]. rewrite pow10_0, R_mscale_r_1. reflexivity.
  - fold R_mscale_r R_madd. rewrite T_add_core. cbn [T_value p10]. rewrite pow10_0, R_mscale_r_1. reflexivity.
  - fold R_mscale_r R_madd. apply T_add_core.
Qed.

Lemma T_fold_add_value : forall rest s,
  T_value (fold_left T_add rest s) = fold_left R_madd (map T_value rest) (T_value s).
Proof.
  induction rest as [|t rest IH]; intro s; cbn [fold_left map]; [reflexivity|].
  rewrite IH, T_add_value. reflexivity.
Qed.

Lemma T_gather_sum_value : forall s rest r,
  T_gather_sum (s :: rest) = Some r ->
  T_value r = fold_left R_madd (map T_value rest) (T_value s).
Proof.
  intros s rest r H. unfold T_gather_sum, gather_sum in H. injection H as E. subst r.
  apply T_fold_add_value.
Qed.

Definition tkvalue (ks : nat * sval R er) : nat * mant R := (fst ks, T_value (snd ks)).

Lemma T_chunk_add_value : forall k s chunks,
  map tkvalue (chunk_add R er Rplus Rmult er_isninf (EFin 0) er_max er_pow k s chunks) =
  vchunk_add k (T_value s) (map tkvalue chunks).
Proof.
  intros k s chunks. induction chunks as [|[k' c] chunks IH]; cbn [chunk_add map vchunk_add].
  - reflexivity.
  - unfold tkvalue at 2. cbn [fst snd]. destruct (Nat.eqb k' k).
    + cbn [map]. unfold tkvalue at 1. cbn [fst snd]. fold T_add. rewrite T_add_value. reflexivity.
    + cbn [map]. rewrite IH. reflexivity.
Qed.

Lemma T_group_value : forall keyed, map tkvalue (T_group keyed) = vgroup (map tkvalue keyed).
Proof.
  intro keyed. unfold T_group, group_chunks, vgroup.
  assert (G : forall acc,
    map tkvalue (fold_left (fun chunks ks =>
       chunk_add R er Rplus Rmult er_isninf (EFin 0) er_max er_pow (fst ks) (snd ks) chunks) keyed acc) =
    fold_left (fun chunks kv => vchunk_add (fst kv) (snd kv) chunks) (map tkvalue keyed) (map tkvalue acc)).
  { induction keyed as [|ks keyed IH]; intro acc; cbn [fold_left map]; [reflexivity|].
    rewrite IH, T_chunk_add_value. reflexivity. }
  apply (G []).
Qed.

Lemma er_max_ninf : forall a b, er_max a b = ENInf -> a = ENInf /\ b = ENInf.
Proof. intros [a|] [b|]; cbn [er_max]; intro H; try discriminate; split; reflexivity. Qed.

Lemma fold_er_max_ninf : forall l x, fold_left er_max l x = ENInf ->
  x = ENInf /\ forall e, In e l -> e = ENInf.
Proof.
  induction l as [|y l IH]; intros x H; cbn [fold_left] in H.
  - split; [exact H | intros e []].
  - destruct (IH _ H) as [Hxy Hl]. destruct (er_max_ninf _ _ Hxy) as [Hx Hy].
    split; [exact Hx|]. intros e [E|E]; [rewrite <- E; exact Hy | apply Hl; exact E].
Qed.

Lemma T_exps_of_strip : forall (chunks : list (nat * sval R er)) es,
  exps_of R er chunks = Some es ->
  forall kc, In kc chunks -> exists m e, snd kc = Strip m e /\ In e es.
Proof.
  induction chunks as [|[k c] chunks IH]; intros es H kc Hin; [destruct Hin|].
  cbn [exps_of fold_right] in H. fold (exps_of R er chunks) in H. cbn [snd] in H.
  destruct c as [m|m e]; [discriminate|].
  destruct (exps_of R er chunks) as [l|] eqn:X; [|discriminate].
  injection H as E. subst es. destruct Hin as [Hin|Hin].
  - subst kc. exists m, e. split; [reflexivity | left; reflexivity].
  - destruct (IH l eq_refl kc Hin) as [m' [e' [E1 E2]]]. exists m', e'. split; [exact E1 | right; exact E2].
Qed.

(* the rescaling before stacking, all cases: finite emax, and emax = -inf (every chunk zero) *)
Lemma T_gather_stack_value : forall b chunks res em,
  T_gather_stack b chunks = Some (res, Some em) ->
  map (fun km => (fst km, R_mscale_r (snd km) (p10 em))) res = map tkvalue chunks.
Proof.
  intros b chunks res em H. unfold T_gather_stack, gather_stack in H.
  destruct chunks as [|[k0 c0] chunks0] eqn:EC; [discriminate|].
  destruct c0 as [m0|m0 e0].
  - destruct (forallb _ _); discriminate.
  - rewrite <- EC in *.
    destruct (exps_of R er chunks) as [es|] eqn:X; [|discriminate].
    destruct (pymax_list er er_max es) as [em'|] eqn:P; [|discriminate].
    match type of H with (if ?c then _ else _) = _ => destruct c end; [discriminate|].
    injection H as Eres Eem. subst res em'.
    pose proof (T_exps_of_strip _ _ X) as Hs. clear X EC.
    rewrite map_map. apply map_ext_in. intros [k c] Hin. cbn [fst snd].
    destruct (Hs _ Hin) as [m [e [E Hes]]]. cbn [snd] in E. subst c.
    unfold tkvalue. cbn [fst snd T_value]. f_equal.
    destruct em as [M|]; cbn [er_isninf p10].
    + destruct e as [a|]; cbn [er_pow p10].
      * rewrite R_mscale_r_mul, pow10_diff. reflexivity.
      * apply R_mscale_r_0.
    + (* emax = -inf: every chunk exponent is -inf *)
      unfold pymax_list in P. destruct es as [|x r]; [discriminate|]. injection P as P.
      destruct (fold_er_max_ninf _ _ P) as [Hx Hr].
      assert (e = ENInf) by (destruct Hes as [E|E]; [rewrite <- E; exact Hx | apply Hr; exact E]).
      subst e. reflexivity.
Qed.

(* ------------------------------------------------------------------ *)
(* end to end, fixed semantics, all slices (zero ones included)         *)
Lemma T_value_strip_arr : forall m e, T_value (Strip (MArr m) e) = MArr (R_scale (p10 e) m).
Proof. intros. cbn [T_value]. unfold R_mscale_r, mscale_r. rewrite scale_r_scale. reflexivity. Qed.

Definition strip_of (me : list R * er) : sval R er := Strip (MArr (fst me)) (snd me).
Definition plain_of (me : list R * er) : list R := R_scale (p10 (snd me)) (fst me).

Lemma slices_plain_total : forall g' prog slices ms,
  Forall homog_instr prog ->
  Forall2 (fun arrs me => wf_prog R prog (seq 0 (length arrs)) = true /\
                          T_core true false prog arrs = Done (fst me) (Some (snd me))) slices ms ->
  Forall2 (fun arrs p => R_core g' false false prog arrs = Done p None) slices (map plain_of ms).
Proof.
  intros g' prog slices ms Hh HF.
  induction HF as [|arrs me slices ms [Hwf Hrun] HF IH]; cbn [map]; constructor; [|exact IH].
  apply strip_value_total; assumption.
Qed.

Lemma sliced_sum_value_total : forall g' prog slices ms r,
  Forall homog_instr prog ->
  Forall2 (fun arrs me => wf_prog R prog (seq 0 (length arrs)) = true /\
                          T_core true false prog arrs = Done (fst me) (Some (snd me))) slices ms ->
  T_gather_sum (map strip_of ms) = Some r ->
  exists ps, Forall2 (fun arrs p => R_core g' false false prog arrs = Done p None) slices ps /\
             match ps with
             | [] => False
             | p :: rest => T_value r = fold_left R_madd (map (fun x => MArr x) rest) (MArr p)
             end.
Proof.
  intros g' prog slices ms r Hh HF Hr.
  exists (map plain_of ms). split; [apply slices_plain_total; assumption|].
  destruct ms as [|me ms]; [discriminate|]. cbn [map] in *.
  rewrite (T_gather_sum_value _ _ _ Hr). unfold strip_of at 2. rewrite T_value_strip_arr. f_equal.
  rewrite !map_map. apply map_ext. intros [m e]. unfold strip_of. cbn [fst snd]. apply T_value_strip_arr.
Qed.

Lemma tkvalue_combine : forall (kl : list nat) ms,
  map tkvalue (combine kl (map strip_of ms)) = combine kl (map (fun x => MArr x) (map plain_of ms)).
Proof.
  induction kl as [|k kl IH]; intros [|me ms]; cbn [combine map]; try reflexivity.
  rewrite IH. f_equal. unfold tkvalue, strip_of. cbn [fst snd]. rewrite T_value_strip_arr. reflexivity.
Qed.

Lemma sliced_stack_value_total : forall g' b prog slices ms (keys : list nat) res em,
  Forall homog_instr prog ->
  Forall2 (fun arrs me => wf_prog R prog (seq 0 (length arrs)) = true /\
                          T_core true false prog arrs = Done (fst me) (Some (snd me))) slices ms ->
  T_gather_stack b (T_group (combine keys (map strip_of ms))) = Some (res, Some em) ->
  exists ps, Forall2 (fun arrs p => R_core g' false false prog arrs = Done p None) slices ps /\
             map (fun km => (fst km, R_mscale_r (snd km) (p10 em))) res =
             vgroup (combine keys (map (fun x => MArr x) ps)).
Proof.
  intros g' b prog slices ms keys res em Hh HF H.
  exists (map plain_of ms). split; [apply slices_plain_total; assumption|].
  rewrite (T_gather_stack_value _ _ _ _ H), T_group_value, tkvalue_combine. reflexivity.
Qed.

(* "whenever that result is non-zero": a denoted value with a non-zero entry has a finite exponent *)
Lemma nonzero_value_finite_exponent : forall m e v,
  In v (R_scale (p10 e) m) -> v <> 0 -> exists x, e = EFin x.
Proof.
  intros m e v Hin Hv. destruct e as [x|]; [exists x; reflexivity|].
  exfalso. apply Hv. cbn [p10] in Hin. pose proof (scale0_zero m) as Z.
  unfold zero in Z. rewrite Forall_forall in Z. apply Z. exact Hin.
Qed.

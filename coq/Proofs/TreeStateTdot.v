(* TreeStateTdot.v -- C02, the tensordot execution path read off the STATE: for every node the
   Contractor runs tensordot(l, r, cached tensordot_axes) + transpose(cached tensordot_perm) when
   prefer_einsum is false and the cached can_dot is True, else einsum with the cached orders.  In a
   state satisfying InvC, (A) and (B) whose orders are all cached this mixed execution holds, at
   every node, the same array as the pure einsum path srun_sub (any admissible axis orders, i.e.
   also after sort_contraction_indices); hence the same value theorem. *)
From Coq Require Import Lia ZifyBool Permutation.
From Ctg Require Import Base Net Einsum Program BaseFacts NetFacts SumOver TreeEval ProgramFacts TdotFacts
                        TreeState TreeStateFacts TreeStateInv TreeStatePre TreeStateProg TreeStateValue
                        TreeStateRec TreeStateRecipes TreeStateReady.
Open Scope nat_scope.

(* ---- the state's recipe functions are Program.v's ---- *)
Lemma td_axes_eq li ri : forall i, TreeState.td_axes li ri i = tdot_axes_from i li ri.
Proof.
  induction li as [|x li IH]; intros i; cbn [TreeState.td_axes tdot_axes_from]; [reflexivity|].
  rewrite IH. reflexivity.
Qed.
Section SortEq.
Variable k : ix -> Z.
Let g (j : ix) : Z * ix := (k j, j).
Let le' (a b : ix) : bool := (k a <=? k b)%Z.
Lemma insert_map x : forall acc, insert_by z_le (g x) (map g acc) = map g (insert_by le' x acc).
Proof.
  induction acc as [|y acc IH]; cbn [map insert_by]; [reflexivity|].
  change (z_le (g y) (g x)) with (le' y x). destruct (le' y x); cbn [map]; [rewrite IH|]; reflexivity.
Qed.
Lemma sort_map l : forall acc, fold_left (fun a x => insert_by z_le x a) (map g l) (map g acc)
                               = map g (fold_left (fun a x => insert_by le' x a) l acc).
Proof.
  induction l as [|x l IH]; intros acc; cbn [map fold_left]; [reflexivity|]. rewrite insert_map. apply IH.
Qed.
Lemma td_sort_eq l : map snd (sort_by z_le (map g l)) = sort_by le' l.
Proof.
  unfold sort_by. change (@nil (Z * ix)) with (map g []). rewrite sort_map, map_map. cbn [g snd]. apply map_id.
Qed.
End SortEq.
Lemma td_perm_eq li ri pi : TreeState.td_perm li ri pi = TdotFacts.td_perm li ri pi.
Proof.
  unfold TreeState.td_perm, TdotFacts.td_perm, td_inds, sort_key1. rewrite td_sort_eq. reflexivity.
Qed.

(* ---- the mixed execution, driven by the caches ---- *)
Section Exec.
Variable n : net.
Variable s : tstate.
Variable arr : nat -> ptensor.
Variable e0 : env.
Variable pe : bool.                      (* prefer_einsum *)
Notation dim := (dim n).
Notation sl := (sliced s).

(* tensordot is used iff prefer_einsum is off, the cached can_dot is True and the two tensordot
   recipes are cached (they are, after extract_contractions: extract_caches_td) *)
Definition use_td (p : node) : option ((list nat * list nat) * option (list nat)) :=
  if pe then None else
  match rd i_can_dot s p, rd i_tdaxes s p, rd i_tdperm s p with
  | Some true, Some a, Some pm => Some (a, pm)
  | _, _, _ => None
  end.
Definition snode_exec (t l r : tree) (L R : sarr) : sarr :=
  match use_td (node_of t) with
  | Some (a, pm) => let X := tdot L R (fst a) (snd a) in
                    match pm with Some q => transpose X q | None => X end
  | None => (map dim (cinds s t), einsum2 n e0 (cinds s l) (cinds s r) (cinds s t) (snd L) (snd R))
  end.
Fixpoint srun_x (t : tree) : sarr :=
  match t with
  | Leaf k => leaf_sarr n sl arr e0 k
  | Node l r => snode_exec t l r (srun_x l) (srun_x r)
  end.
End Exec.

Lemma tset_eqb_sound a b : TreeState.set_eqb a b = true -> forall j, In j a <-> In j b.
Proof.
  unfold TreeState.set_eqb, subset. intros H. apply andb_true_iff in H. destruct H as [H1 H2].
  rewrite forallb_forall in H1, H2. intros j. split; intros Hj; apply memb_In; auto.
Qed.
Lemma tsymdiff_in a b j : In j (TreeState.symdiff a b) <-> (In j a /\ ~ In j b) \/ (In j b /\ ~ In j a).
Proof. change (TreeState.symdiff a b) with (Program.symdiff a b). apply in_symdiff. Qed.

Section OneStateX.
Variable n : net.
Notation N := (NN n).
Hypothesis HN : 2 <= N.
Hypothesis Hout : NoDup (output n).
Variable s : tstate.
Hypothesis HI : InvC n s.
Hypothesis HA : PA n s.
Hypothesis HB : PB s.
Hypothesis Hsorted : sorted_keys_b s = true.
Hypothesis Hfilled : forall p l r, nget p (children s) = Some (l, r) -> filled3 s p l r.
Variable arr : nat -> ptensor.
Variable e0 : env.
Variable pe : bool.
Notation dim := (dim n).
Notation sl := (sliced s).

Lemma inds_facts q v : rd i_inds s q = Some v ->
  NoDup v /\ exists lg, rd i_legs s q = Some lg /\ forall j, In j v <-> In j (lkeys lg).
Proof.
  intros H. destruct (rd_Some _ _ _ _ H) as (i & Hi & Hv). destruct (HA q i Hi) as [_ A2].
  destruct (A2 eq_refl v Hv) as (lg & El & Hen). split; [|exists lg; split; [unfold rd; rewrite Hi; exact El|apply (enum_in n q v lg Hen)]].
  assert (NDl : NoDup (lkeys lg)).
  { destruct HI as [(_&_&H3&_) _]. destruct (H3 q i Hi) as [_ (B&_)]. specialize (B lg El). unfold legs_ok in B.
    destruct (Nat.eqb (length q) N); [apply B|apply B]. }
  unfold enum_ok in Hen. destruct (is_lr n q); [subst v; exact NDl|apply Hen].
Qed.

Lemma sub_x_eq : forall f nd t, tree_of f (children s) nd = Some t -> ss nd ->
  rd i_inds s nd <> None -> good_node n nd ->
  node_of t = nd /\
  sarr_eq (srun_x n s arr e0 pe t) (map dim (cinds s t), srun_sub n s arr e0 t).
Proof.
  induction f as [|f IH]; intros nd t H Hs Hinds HG; [discriminate|].
  pose proof (tree_of_perm n s HI (S f) nd t H) as HPm. pose proof (node_of_eq n HN t nd Hs HPm) as Eno.
  split; [exact Eno|]. cbn [tree_of] in H.
  destruct (rd i_inds s nd) as [x|] eqn:Ex; [|congruence]. destruct (rd_Some _ _ _ _ Ex) as (i & Hi & Hx).
  destruct (Nat.eqb_spec (length nd) 1) as [E1|E1].
  - injection H as <-. cbn [srun_x srun_sub]. rewrite leaf_sarr_spec. cbn [inds_sub].
    destruct (HA nd i Hi) as [A1 A2]. destruct (A2 eq_refl x Hx) as (lg & El & Hen).
    unfold enum_ok, is_lr in Hen. apply Nat.eqb_eq in E1. rewrite E1 in Hen. cbn [orb] in Hen. subst x.
    destruct (A1 lg El) as [B1 _]. apply Nat.eqb_eq in E1. 
    assert (Ec : cinds s (Leaf (hd 0 nd)) = lkeys (leaf_legs n sl (hd 0 nd))).
    { unfold cinds. change (node_of (Leaf (hd 0 nd))) with [hd 0 nd]. rewrite <- (len1 nd E1), Ex, (B1 E1). reflexivity. }
    rewrite Ec. split; [reflexivity|intros; reflexivity].
  - destruct (nget nd (children s)) as [[l r]|] eqn:E; [|discriminate].
    destruct (tree_of f (children s) l) as [a|] eqn:Ea; [|discriminate].
    destruct (tree_of f (children s) r) as [b|] eqn:Eb; [|discriminate]. injection H as <-.
    destruct (sorted_entry n HN s Hsorted nd l r E) as (_ & Sl & Sr). destruct (Hfilled nd l r E) as (_ & Fl & Fr).
    destruct (entry_good n s nd l r HI E) as (_ & Gl & Gr).
    destruct (IH l a Ea Sl Fl Gl) as (Na & (SAs & SAv)). destruct (IH r b Eb Sr Fr Gr) as (Nb & (SBs & SBv)).
    cbn [fst snd] in SAs, SAv, SBs, SBv.
    set (A := srun_x n s arr e0 pe a) in *. set (B := srun_x n s arr e0 pe b) in *.
    set (li := cinds s a) in *. set (ri := cinds s b) in *. set (pi := cinds s (Node a b)) in *.
    assert (Eli : rd i_inds s l = Some li).
    { unfold li, cinds. rewrite Na. destruct (rd i_inds s l); [reflexivity|congruence]. }
    assert (Eri : rd i_inds s r = Some ri).
    { unfold ri, cinds. rewrite Nb. destruct (rd i_inds s r); [reflexivity|congruence]. }
    assert (Epi : x = pi) by (unfold pi, cinds; rewrite Eno, Ex; reflexivity).
    (* the einsum with the mixed operands is the einsum with the pure ones *)
    assert (Hcong : sarr_eq (map dim pi, einsum2 n e0 li ri pi (snd A) (snd B))
                            (map dim pi, srun_sub n s arr e0 (Node a b))).
    { split; [reflexivity|]. intros pos _. cbn [snd srun_sub]. fold li ri pi. apply einsum2_cong.
      - intros p Hp. apply SAv. rewrite SAs, map_length. exact Hp.
      - intros p Hp. apply SBv. rewrite SBs, map_length. exact Hp. }
    cbn [srun_x]. fold A B. unfold snode_exec. rewrite Eno. fold li ri pi.
    destruct (use_td s pe nd) as [[ax pm]|] eqn:Eu; [|exact Hcong].
    eapply sarr_eq_trans; [|exact Hcong].
    unfold use_td in Eu. destruct pe; [discriminate|].
    destruct (rd i_can_dot s nd) as [[|]|] eqn:Ecd; try discriminate.
    destruct (rd i_tdaxes s nd) as [ax'|] eqn:Eax; [|discriminate].
    destruct (rd i_tdperm s nd) as [pm'|] eqn:Epm; [|discriminate]. injection Eu as <- <-.
    unfold rd in Ecd, Eax, Epm. rewrite Hi in Ecd, Eax, Epm.
    destruct (HB nd i Hi l r E) as (B1 & _ & B3 & B4).
    destruct (B1 ax' Eax) as (li' & ri' & El' & Er' & ->). rewrite Eli in El'. rewrite Eri in Er'. injection El' as <-. injection Er' as <-.
    destruct (B3 pm' Epm) as (li' & ri' & pi' & El' & Er' & Ep' & ->). rewrite Eli in El'. rewrite Eri in Er'. rewrite Hx, Epi in Ep'.
    injection El' as <-. injection Er' as <-. injection Ep' as <-.
    destruct (B4 true Ecd) as (sp & sl' & sr & Esp & Esl & Esr & Hcd). symmetry in Hcd.
    destruct (inds_facts l li Eli) as (NDl & lgl & Egl & Hkl). destruct (inds_facts r ri Eri) as (NDr & lgr & Egr & Hkr).
    destruct (inds_facts nd pi ltac:(rewrite <- Epi; exact Ex)) as (NDp & lgp & Egp & Hkp).
    rewrite Esl in Egl. rewrite Esr in Egr. unfold rd in Egp. rewrite Hi, Esp in Egp. injection Egl as <-. injection Egr as <-. injection Egp as <-.
    assert (Hpi : forall j, In j pi <-> In j (Program.symdiff li ri)).
    { intros j. rewrite Hkp, (tset_eqb_sound _ _ Hcd j), tsymdiff_in, in_symdiff, Hkl, Hkr. tauto. }
    rewrite td_axes_eq, td_perm_eq.
    assert (EA : A = (map dim li, snd A)) by (rewrite <- SAs; apply surjective_pairing).
    assert (EB : B = (map dim ri, snd B)) by (rewrite <- SBs; apply surjective_pairing).
    rewrite EA, EB. cbn [snd].
    destruct (tdot_transpose_is_einsum n e0 li ri pi (snd A) (snd B) NDl NDr NDp Hpi) as [Hshape Hval].
    cbv zeta in Hshape, Hval. split.
    + cbn [fst]. exact Hshape.
    + intros pos Hp. rewrite Hshape, map_length in Hp. cbn [snd]. apply Hval, Hp.
Qed.

(* value and axis order of the program actually executed, for either prefer_einsum *)
Theorem srun_x_correct l r : err s = false -> wf_net_b n = true -> preproc_complete_b n s = true ->
  tree_of (tfuel s) (children s) (seq 0 N) = Some (Node l r) ->
  fst (srun_x n s arr e0 pe (Node l r)) = map dim (filter (fun j => negb (memb j (removed sl))) (output n)) /\
  forall e, agree_removed sl e0 e ->
    snd (srun_x n s arr e0 pe (Node l r)) (map e (filter (fun j => negb (memb j (removed sl))) (output n)))
    = einsum_spec n sl arr e.
Proof.
  intros He Hwf Hpp Ht.
  pose proof (ready_state n HN s HI HA Hsorted Hfilled l r He Hwf Hpp Ht) as Hready.
  assert (Groot : good_node n (seq 0 N)).
  { split; [split; [apply seq_NoDup|intros k Hk; apply in_seq in Hk; lia]|]. destruct N; [lia|discriminate]. }
  assert (Froot : rd i_inds s (seq 0 N) <> None).
  { unfold tfuel in Ht. replace (length (children s) + 2) with (S (length (children s) + 1)) in Ht by lia.
    cbn [tree_of] in Ht. rewrite seq_length in Ht. destruct (Nat.eqb_spec N 1); [lia|].
    destruct (nget (seq 0 N) (children s)) as [[lc rc]|] eqn:E; [|discriminate]. apply (Hfilled _ lc rc E). }
  destruct (sub_x_eq _ _ _ Ht (ss_seq n HN N 0) Froot Groot) as (Eno & Hs & Hv). cbn [fst snd] in Hs, Hv.
  assert (Ec : cinds s (Node l r) = filter (fun j => negb (memb j (removed sl))) (output n)).
  { unfold cinds. rewrite Eno. destruct (rd i_inds s (seq 0 N)) as [x|] eqn:Ex; [|congruence].
    destruct (rd_Some _ _ _ _ Ex) as (i & Hi & Hx). destruct (HA _ i Hi) as [A1 A2]. destruct (A2 eq_refl x Hx) as (lg & El & Hen).
    unfold enum_ok, is_lr in Hen. rewrite seq_length, Nat.eqb_refl, orb_true_r in Hen. subst x.
    destruct (A1 lg El) as [_ B2]. rewrite B2 by apply seq_length. apply root_keys. }
  rewrite Ec in Hs. split; [exact Hs|]. intros e Ha.
  rewrite Hv by (rewrite Hs, !map_length; reflexivity).
  apply (state_value n s arr e0 l r Hready e Ha).
Qed.
End OneStateX.

(* ---- after extract_contractions with prefer_einsum = False the three tensordot recipes of every
        visited node whose can_dot is True are cached: use_td is exactly "can_dot" ---- *)
Section Caches.
Variable n : net.
Notation N := (NN n).
Hypothesis HN : 2 <= N.
Hypothesis Hout : NoDup (output n).

Definition td_cached (s : tstate) (p : node) : Prop :=
  rd i_can_dot s p <> None /\
  (rd i_can_dot s p = Some true -> rd i_tdaxes s p <> None /\ rd i_tdperm s p <> None).
Lemma mrl_field {A} (fld : ninfo -> option A) s s' p :
  (forall LV q i j, Rm LV q i j -> forall e, fld i = Some e -> fld j = Some e) ->
  mrl n s s' -> forall e, rd fld s p = Some e -> rd fld s' p = Some e.
Proof.
  intros HF (A1&_) e H. destruct (rd_Some _ _ _ _ H) as (i & Hi & Hv).
  destruct (irel_nget _ _ _ A1 p i Hi) as (i' & Hi' & Hr). unfold rd. rewrite Hi'. apply (HF _ _ _ _ Hr e Hv).
Qed.
Lemma mrl_cd s s' p e : mrl n s s' -> rd i_can_dot s p = Some e -> rd i_can_dot s' p = Some e.
Proof. intros HM. apply (mrl_field i_can_dot); [intros LV q i j (_&R&_); exact R|exact HM]. Qed.
Lemma mrl_ax s s' p : mrl n s s' -> rd i_tdaxes s p <> None -> rd i_tdaxes s' p <> None.
Proof.
  intros HM H. destruct (rd i_tdaxes s p) as [a|] eqn:E; [|congruence].
  rewrite (mrl_field i_tdaxes s s' p (fun LV q i j '(conj _ (conj _ (conj R _))) => R) HM a E). discriminate.
Qed.
Lemma mrl_pm s s' p : mrl n s s' -> rd i_tdperm s p <> None -> rd i_tdperm s' p <> None.
Proof.
  intros HM H. destruct (rd i_tdperm s p) as [a|] eqn:E; [|congruence].
  rewrite (mrl_field i_tdperm s s' p (fun LV q i j '(conj _ (conj _ (conj _ (conj R _)))) => R) HM a E). discriminate.
Qed.
Lemma mrl_td_cached s s' p : mrl n s s' -> td_cached s p -> td_cached s' p.
Proof.
  intros HM [H1 H2]. unfold td_cached. destruct (rd i_can_dot s p) as [b|] eqn:Ec; [|congruence].
  rewrite (mrl_cd s s' p b HM Ec). split; [discriminate|]. intros [= ->]. destruct (H2 eq_refl) as [Ha Hp].
  split; [apply (mrl_ax s s' p HM Ha)|apply (mrl_pm s s' p HM Hp)].
Qed.
Lemma getter_cached {A} (fld : ninfo -> option A) (w : option A -> ninfo -> ninfo) nd v s :
  (forall i, fld (w (Some v) i) = Some v) -> err (upd_info nd (w (Some v)) s) = false ->
  rd fld (upd_info nd (w (Some v)) s) nd = Some v.
Proof.
  intros Hw He. destruct (upd_err _ _ _ He) as [_ Hk]. destruct (nget nd (info s)) as [i|] eqn:E; [|congruence].
  rewrite (rd_upd_same fld nd _ s i E). apply Hw.
Qed.
Lemma g_can_dot_cached s p : nget p (children s) <> None -> err (fst (g_can_dot n s p)) = false ->
  rd i_can_dot (fst (g_can_dot n s p)) p = Some (snd (g_can_dot n s p)).
Proof.
  intros Hch. unfold g_can_dot. destruct (rd i_can_dot s p) as [b|] eqn:E; [intros _; exact E|].
  destruct (nget p (children s)) as [[l r]|]; [|congruence].
  destruct (g_legs n s p) as [s1 sp]. destruct (g_legs n s1 l) as [s2 sl]. destruct (g_legs n s2 r) as [s3 sr]. cbn [fst snd].
  apply (getter_cached i_can_dot w_can_dot). reflexivity.
Qed.
Lemma g_tdaxes_cached s p : nget p (children s) <> None -> err (fst (g_tdaxes n s p)) = false ->
  rd i_tdaxes (fst (g_tdaxes n s p)) p <> None.
Proof.
  intros Hch. unfold g_tdaxes. destruct (rd i_tdaxes s p) as [b|] eqn:E; [intros _; cbn [fst]; congruence|].
  destruct (nget p (children s)) as [[l r]|]; [|congruence].
  destruct (g_inds n s l) as [s1 li]. destruct (g_inds n s1 r) as [s2 ri]. cbn [fst snd]. intros He.
  rewrite (getter_cached i_tdaxes w_tdaxes p _ s2 (fun _ => eq_refl) He). discriminate.
Qed.
Lemma g_tdperm_cached s p : nget p (children s) <> None -> err (fst (g_tdperm n s p)) = false ->
  rd i_tdperm (fst (g_tdperm n s p)) p <> None.
Proof.
  intros Hch. unfold g_tdperm. destruct (rd i_tdperm s p) as [b|] eqn:E; [intros _; cbn [fst]; congruence|].
  destruct (nget p (children s)) as [[l r]|]; [|congruence].
  destruct (g_inds n s l) as [s1 li]. destruct (g_inds n s1 r) as [s2 ri]. destruct (g_inds n s2 p) as [s3 pi]. cbn [fst snd]. intros He.
  rewrite (getter_cached i_tdperm w_tdperm p _ s3 (fun _ => eq_refl) He). discriminate.
Qed.

Lemma extract_step_td s p lr l r : GoodSt n s -> nget p (children s) = Some (l, r) ->
  err (extract_step n false s (p, lr)) = false -> td_cached (extract_step n false s (p, lr)) p.
Proof.
  intros (HI&HA&HP) E. destruct (entry_good n s p l r HI E) as (Gp&_&_). unfold extract_step. cbn [fst].
  assert (Hch : nget p (children s) <> None) by congruence.
  pose proof (g_can_dot_cached s p Hch) as C1.
  destruct (g_can_dot_A n HN s p HI HA Gp) as [A1 M1]. pose proof (inv_g_can_dot n HN Hout s p HI Gp) as I1.
  destruct (g_can_dot n s p) as [s1 cd]. cbn [fst snd] in *.
  assert (E1 : nget p (children s1) <> None) by (destruct M1 as (_&Ec&_); rewrite Ec; exact Hch).
  destruct cd; cbn [negb].
  - destruct (g_tdaxes_A n HN Hout s1 p I1 A1 Gp) as [A2 M2]. pose proof (inv_g_tdaxes n HN Hout s1 p I1 Gp) as I2.
    pose proof (g_tdaxes_cached s1 p E1) as C2. set (s2 := fst (g_tdaxes n s1 p)) in *.
    assert (E2 : nget p (children s2) <> None) by (destruct M2 as (_&Ec&_); rewrite Ec; exact E1).
    destruct (g_tdperm_A n HN Hout s2 p I2 A2 Gp) as [A3 M3]. pose proof (g_tdperm_cached s2 p E2) as C3.
    intros He. pose proof (mrl_err n _ _ M3 He) as He2. pose proof (mrl_err n _ _ M2 He2) as He1.
    unfold td_cached. rewrite (mrl_cd _ _ p true M3 (mrl_cd _ _ p true M2 (C1 He1))). split; [discriminate|]. intros _.
    split; [apply (mrl_ax _ _ p M3 (C2 He2))|apply C3, He].
  - destruct (g_eq_A n HN Hout s1 p I1 A1 Gp) as [A2 M2]. intros He. pose proof (mrl_err n _ _ M2 He) as He1.
    unfold td_cached. rewrite (mrl_cd _ _ p false M2 (C1 He1)). split; [discriminate|intros H; discriminate].
Qed.
Theorem extract_caches_td nodes : forall s, GoodSt n s -> (forall e, In e nodes -> nget (fst e) (children s) <> None) ->
  err (extract n false nodes s) = false -> forall e, In e nodes -> td_cached (extract n false nodes s) (fst e).
Proof.
  unfold extract. induction nodes as [|[p lr] nodes IH]; intros s HG Hn He e Hin; [contradiction|]. cbn [fold_left] in *.
  pose proof (Hn _ (or_introl eq_refl)) as Hp. cbn [fst] in Hp.
  destruct (nget p (children s)) as [[l r]|] eqn:E; [|congruence].
  destruct (extract_step_ok n HN Hout false s p lr l r HG E) as (G1&M1&_). set (s1 := extract_step n false s (p, lr)) in *.
  assert (Ec1 : children s1 = children s) by apply M1.
  assert (Hn1 : forall e0, In e0 nodes -> nget (fst e0) (children s1) <> None) by (intros e0 H0; rewrite Ec1; apply Hn; right; exact H0).
  destruct (extract_ok n HN Hout false nodes s1 G1 Hn1) as (_&M2&_). unfold extract in M2.
  destruct Hin as [<-|Hin]; [|apply (IH s1 G1 Hn1 He e Hin)].
  cbn [fst]. apply (mrl_td_cached s1 _ p M2). apply (extract_step_td s p lr l r HG E). apply (mrl_err n _ _ M2 He).
Qed.
End Caches.

(* ProcessorTreeFacts.v -- the processor's tracked flops over a whole SSA path are the tree's
   total_flops: every node the processor holds carries the tree's legs of the corresponding
   subtree (under the renaming label -> processor index), each contraction adds the tree's flops
   of the new node, and the nodes created along the path are the internal nodes of the final tree.
   Composed with fixed_run_eq_unsimplified_checked: what random-greedy reports (simplify_batch +
   contractions with batch_factor) = total_flops of the tree built from the path.
   (owner: builder c18c20) *)
From Coq Require Import Lia Permutation Sorted.
From Ctg Require Import Base Net HGraph Simulators Compressed BaseFacts NetFacts HGraphFacts
                        SimulatorsFacts CompressedFacts HGraphTreeFacts CompressedExactFacts.

(* ---------- the nodes an SSA path creates are the internal nodes of the final tree ---------- *)
Definition forest_nodes (F : list (nat * tree)) : list tree := flat_map (fun kt => post_sub (snd kt)) F.

Lemma find_del_perm_nodes i : forall F u, find_tree i F = Some u ->
  Permutation (forest_nodes F) (post_sub u ++ forest_nodes (del_tree i F)).
Proof.
  induction F as [|[k u'] F IH]; intros u H; cbn in H; [discriminate|].
  cbn [del_tree]. destruct (k =? i).
  - inversion H; subst. reflexivity.
  - cbn [forest_nodes flat_map snd]. fold (forest_nodes F). fold (forest_nodes (del_tree i F)).
    rewrite (IH u H). rewrite !app_assoc. apply Permutation_app_tail, Permutation_app_comm.
Qed.

Lemma replay_nodes path : forall nxt F F', ssa_replay nxt F path = Some F' ->
  Permutation (forest_nodes F') (forest_nodes F ++ replay_trees nxt F path).
Proof.
  induction path as [|[i j] path IH]; intros nxt F F' H; cbn in H.
  - inversion H; subst. cbn. rewrite app_nil_r. reflexivity.
  - destruct (Nat.eqb_spec i j) as [|Hij]; [discriminate|].
    destruct (find_tree i F) as [ti|] eqn:Ei; [|discriminate].
    destruct (find_tree j F) as [tj|] eqn:Ej; [|discriminate].
    cbn [replay_trees]. rewrite Ei, Ej. rewrite (IH _ _ _ H).
    cbn [forest_nodes flat_map snd post_sub]. fold (forest_nodes (del_tree j (del_tree i F))).
    rewrite (find_del_perm_nodes i F ti Ei).
    assert (Ej' : find_tree j (del_tree i F) = Some tj) by (rewrite find_del_other; assumption).
    rewrite (find_del_perm_nodes j (del_tree i F) tj Ej').
    set (R := forest_nodes (del_tree j (del_tree i F))). set (T := replay_trees _ _ path).
    transitivity (post_sub ti ++ post_sub tj ++ Node ti tj :: R ++ T).
    + rewrite <- !app_assoc. cbn [Datatypes.app]. reflexivity.
    + rewrite <- !app_assoc. apply Permutation_app_head, Permutation_app_head. apply Permutation_middle.
Qed.

Lemma forest_nodes_leaves N : forall s, forest_nodes (map (fun i => (i, Leaf i)) (seq s N)) = [].
Proof. induction N as [|N IH]; intros s; cbn; [reflexivity|apply IH]. Qed.

Lemma ssa_tree_nodes N path t : ssa_tree N path = Some t ->
  Permutation (post_sub t) (replay_trees N (map (fun i => (i, Leaf i)) (seq 0 N)) path).
Proof.
  unfold ssa_tree. destruct (ssa_replay N _ path) as [F'|] eqn:E; [|discriminate].
  destruct F' as [|[k t'] [|? ?]]; try discriminate. intros H. inversion H; subst.
  apply replay_nodes in E. rewrite forest_nodes_leaves in E. cbn [forest_nodes flat_map snd Datatypes.app] in E.
  rewrite app_nil_r in E. exact E.
Qed.

Lemma traverse_snd_all t : map snd (traverse_dfs t) = post_sub t.
Proof. destruct t as [k|l r]; [reflexivity|apply traverse_dfs_snd]. Qed.

Lemma total_flops_post_sub n t : total_flops n [] t = zsum (map (node_flops n []) (post_sub t)).
Proof.
  unfold total_flops, sum_flops. change (multiplicity n []) with 1%Z. rewrite Z.mul_1_l, <- traverse_snd_all, map_map. reflexivity.
Qed.

Lemma zsum_perm_l l1 l2 : Permutation l1 l2 -> zsum l1 = zsum l2.
Proof. induction 1; rewrite ?zsum_cons in *; try lia. Qed.

Lemma pcontract_pos ap il : forall jl, pos il -> pos jl -> pos (pcontract ap il jl).
Proof.
  induction il as [|[i ic] il IHi]; intros jl Pi Pj.
  - rewrite pc_nil_l. exact Pj.
  - assert (Pi' : pos il) by (intros kv H; apply Pi; right; exact H).
    induction jl as [|[j jc] jl IHj].
    + rewrite pc_nil_r. exact Pi.
    + assert (Pj' : pos jl) by (intros kv H; apply Pj; right; exact H).
      rewrite pc_cons. destruct (i <? j); [|destruct (j <? i)].
      * intros kv [<-|H]; [apply (Pi (i, ic)); left; reflexivity|apply (IHi _ Pi' Pj), H].
      * intros kv [<-|H]; [apply (Pj (j, jc)); left; reflexivity|apply (IHj Pj'), H].
      * intros kv H. apply in_app_or in H. destruct H as [H|H]; [|apply (IHi _ Pi' Pj'), H].
        destruct (ic + jc =? papp_of ap i); [destruct H|]. destruct H as [<-|[]]. cbn.
        pose proof (Pi (i, ic) (or_introl eq_refl)). cbn in H. lia.
Qed.

(* ---------- legs under the renaming label -> processor index ---------- *)
Section Renamed.
Variable n : net.
Variable rho : ix -> nat.
Variable app : list nat.
Variable szs : list Z.
Notation U := (universe n).
Hypothesis Hinj : forall e1 e2, In e1 U -> In e2 U -> rho e1 = rho e2 -> e1 = e2.
Hypothesis Happ : forall e, In e U -> papp_of app (rho e) = appear n e.
Hypothesis Hsz : forall e, In e U -> psize_of szs (rho e) = zget e (szd n).

Record LR (A : legs) (il : plegs) : Prop := {
  lr_sorted : ssorted il;
  lr_pos : pos il;
  lr_img : forall j, In j (lkeys il) -> exists e, In e U /\ j = rho e;
  lr_cnt : forall e, In e U -> lget0 (rho e) il = lget0 e A
}.

Lemma lr_wfl A il : LR A il -> wfl il.
Proof. intros H. split; [apply ssorted_nodup, (lr_sorted A il H)|apply (lr_pos A il H)]. Qed.

Lemma lr_keys A il : LR A il -> wfl A -> incl (lkeys A) U ->
  forall j, In j (lkeys il) <-> exists e, In e (lkeys A) /\ j = rho e.
Proof.
  intros H WA HA j. split.
  - intros Hj. destruct (lr_img A il H j Hj) as (e & He & ->). exists e. split; [|reflexivity].
    apply (wfl_key_pos e A WA). rewrite <- (lr_cnt A il H e He). apply (wfl_key_pos (rho e) il (lr_wfl A il H)), Hj.
  - intros (e & He & ->). apply (wfl_key_pos (rho e) il (lr_wfl A il H)).
    rewrite (lr_cnt A il H e (HA e He)). apply (wfl_key_pos e A WA), He.
Qed.

Lemma nodup_map_inj (l : list ix) : NoDup l -> incl l U -> NoDup (map rho l).
Proof.
  induction l as [|x l IH]; intros ND Hi; cbn; [constructor|].
  inversion ND as [|? ? Hx ND']; subst. constructor.
  - intros H. apply in_map_iff in H. destruct H as (y & E & Hy). apply Hx.
    rewrite (Hinj x y); [exact Hy|apply Hi; left; reflexivity|apply Hi; right; exact Hy|symmetry; exact E].
  - apply IH; [exact ND'|]. intros y Hy. apply Hi. right; exact Hy.
Qed.

(* compute_flops on the processor's legs = the tree's flops *)
Lemma lr_flops A B il jl : LR A il -> LR B jl -> wfl A -> wfl B -> incl (lkeys A) U -> incl (lkeys B) U ->
  pflops szs il jl = size_of (szd n) (lkeys (legs_union2 A B)).
Proof.
  intros Hi Hj WA WB HA HB. rewrite pflops_is_union_product.
  set (V := lkeys (legs_union2 A B)).
  assert (NV : NoDup V) by (apply legs_union2_nodup, WA).
  assert (HV : incl V U).
  { intros e He. unfold V in He. apply legs_union2_in in He. destruct He; [apply HA|apply HB]; assumption. }
  assert (E : size_of (szd n) V = pprod szs (map rho V)).
  { unfold size_of, pprod. rewrite map_map. f_equal. apply map_ext_in. intros e He. symmetry. apply Hsz, HV, He. }
  rewrite E. apply pprod_perm. apply NoDup_Permutation.
  - apply union_keys_nodup; apply ssorted_nodup; [apply (lr_sorted A il Hi)|apply (lr_sorted B jl Hj)].
  - apply nodup_map_inj; assumption.
  - intros j. rewrite union_keys_in, (lr_keys A il Hi WA HA j), (lr_keys B jl Hj WB HB j), in_map_iff. unfold V. split.
    + intros [(e & He & ->)|(e & He & ->)]; exists e; (split; [reflexivity|]); apply legs_union2_in; tauto.
    + intros (e & <- & He). apply legs_union2_in in He. destruct He; [left|right]; exists e; tauto.
Qed.

End Renamed.

(* ---------- the run ---------- *)
Section ProcRun.
Variable n : net.
Variable rho : ix -> nat.
Variable app : list nat.
Variable szs : list Z.
Notation U := (universe n).
Hypothesis Hinj : forall e1 e2, In e1 U -> In e2 U -> rho e1 = rho e2 -> e1 = e2.
Hypothesis Happ : forall e, In e U -> papp_of app (rho e) = appear n e.
Hypothesis Hsz : forall e, In e U -> psize_of szs (rho e) = zget e (szd n).

Notation LRt u il := (LR n rho (sub_legs n [] u) il).

Lemma sub_legs_universe u : inrange n (leaves u) -> incl (lkeys (sub_legs n [] u)) U.
Proof.
  intros IR e He. apply (sub_legs_keys n [] u e IR) in He. apply (cnt_pos_in_universe n [] (leaves u)). lia.
Qed.

Lemma sub_legs_count_lt u e : inrange n (leaves u) -> lget0 e (sub_legs n [] u) = 0 \/ lget0 e (sub_legs n [] u) < appear n e.
Proof.
  intros IR. destruct (sub_legs_spec n [] u IR) as [_ G]. rewrite G. unfold spec_count.
  destruct (Nat.ltb_spec (cnt n [] (leaves u) e) (appear n e)); [right; assumption|left; reflexivity].
Qed.

Lemma sub_legs_sum_le l r e : inrange n (leaves l ++ leaves r) ->
  lget0 e (sub_legs n [] l) + lget0 e (sub_legs n [] r) <= appear n e.
Proof.
  intros IR. destruct (sub_legs_spec n [] l (inrange_app_l n _ _ IR)) as [_ Gl].
  destruct (sub_legs_spec n [] r (inrange_app_r n _ _ IR)) as [_ Gr]. rewrite Gl, Gr.
  pose proof (cnt_le_appear n [] _ e IR) as H. rewrite (cnt_app n []) in H. unfold spec_count.
  destruct (_ <? _), (_ <? _); lia.
Qed.

Lemma lrt_below u il : inrange n (leaves u) -> LRt u il -> below app il.
Proof.
  intros IR H [j c] Hin. cbn [fst snd].
  assert (Hj : In j (lkeys il)) by (apply (in_map fst) in Hin; exact Hin).
  destruct (lr_img _ _ _ _ H j Hj) as (e & He & ->).
  assert (Ec : lget0 (rho e) il = c).
  { unfold lget0. rewrite (in_lget (rho e) c il (ssorted_nodup _ (lr_sorted _ _ _ _ H)) Hin). reflexivity. }
  rewrite (lr_cnt _ _ _ _ H e He) in Ec. rewrite (Happ e He).
  pose proof (lr_pos _ _ _ _ H (rho e, c) Hin) as Hp. cbn in Hp.
  destruct (sub_legs_count_lt u e IR); lia.
Qed.

(* one contraction: the new node carries the parent's legs *)
Lemma lrt_contract l r il jl : inrange n (leaves l ++ leaves r) -> LRt l il -> LRt r jl ->
  LRt (Node l r) (pcontract app il jl).
Proof.
  intros IR Hi Hj.
  pose proof (inrange_app_l n _ _ IR) as IRl. pose proof (inrange_app_r n _ _ IR) as IRr.
  assert (Hle : forall j, lget0 j il + lget0 j jl <= papp_of app j).
  { intros j. destruct (in_dec Nat.eq_dec j (lkeys il)) as [Hin|Hn].
    - destruct (lr_img _ _ _ _ Hi j Hin) as (e & He & ->).
      rewrite (lr_cnt _ _ _ _ Hi e He), (lr_cnt _ _ _ _ Hj e He), (Happ e He). apply sub_legs_sum_le, IR.
    - destruct (in_dec Nat.eq_dec j (lkeys jl)) as [Hin|Hn'].
      + destruct (lr_img _ _ _ _ Hj j Hin) as (e & He & ->).
        rewrite (lr_cnt _ _ _ _ Hi e He), (lr_cnt _ _ _ _ Hj e He), (Happ e He). apply sub_legs_sum_le, IR.
      + rewrite (lget0_notin j il Hn), (lget0_notin j jl Hn'). lia. }
  destruct (pcontract_spec app il jl (lr_sorted _ _ _ _ Hi) (lr_sorted _ _ _ _ Hj)
              (lrt_below l il IRl Hi) (lrt_below r jl IRr Hj) Hle) as (S' & B' & G').
  assert (Himg : forall j, In j (lkeys (pcontract app il jl)) -> exists e, In e U /\ j = rho e).
  { intros j Hin. apply pcontract_keys in Hin. destruct Hin as [H|H]; [apply (lr_img _ _ _ _ Hi j H)|apply (lr_img _ _ _ _ Hj j H)]. }
  constructor.
  - exact S'.
  - apply pcontract_pos; [apply (lr_pos _ _ _ _ Hi)|apply (lr_pos _ _ _ _ Hj)].
  - exact Himg.
  - intros e He. rewrite G'. unfold merged_count.
    rewrite (lr_cnt _ _ _ _ Hi e He), (lr_cnt _ _ _ _ Hj e He), (Happ e He).
    cbn [sub_legs].
    destruct (sub_legs_spec n [] l IRl) as [Wl _]. destruct (sub_legs_spec n [] r IRr) as [Wr _].
    assert (Wu : wfl (legs_union2 (sub_legs n [] l) (sub_legs n [] r))) by (apply wfl_legs_union2; [exact Wl|apply Wr]).
    rewrite lget0_filter by apply Wu.
    pose proof (legs_union2_get (sub_legs n [] l) (sub_legs n [] r) e (proj1 Wr)) as G. unfold lget0 in G at 1.
    pose proof (sub_legs_sum_le l r e IR) as Hs.
    destruct (lget e (legs_union2 (sub_legs n [] l) (sub_legs n [] r))) as [v|] eqn:E; cbn [fst snd].
    + subst v.
      repeat match goal with
             | |- context [?x =? ?y] => destruct (Nat.eqb_spec x y)
             | |- context [?x <? ?y] => destruct (Nat.ltb_spec x y)
             end; unfold Net.appear in *; lia.
    + rewrite <- G. destruct (0 =? appear n e); reflexivity.
Qed.

(* the processor state represents a forest *)
Record PRep (p : proc) (F : list (nat * tree)) : Prop := {
  pr_app : papp p = app; pr_szs : pszs p = szs;
  pr_track : ptrack p = true; pr_fix : pfix p = true; pr_batch : pbatch p = 1%Z;
  pr_nd : NoDup (akeys (pnodes p));
  pr_fnd : NoDup (fkeys F);
  pr_lt : forall k, In k (fkeys F) -> k < pssa p;
  pr_part : Permutation (forest_leaves F) (seq 0 (NN n));
  pr_legs : forall k u, In (k, u) F -> LRt u (pget p k)
}.

Theorem proc_replay_flops path : forall p F F', PRep p F -> ssa_replay (pssa p) F path = Some F' ->
  pflops_acc (run_path p path) =
  (pflops_acc p + zsum (map (node_flops n []) (replay_trees (pssa p) F path)))%Z.
Proof.
  induction path as [|[i j] path IH]; intros p F F' R Hs.
  - unfold run_path. cbn. lia.
  - cbn [ssa_replay] in Hs. destruct (Nat.eqb_spec i j) as [|Hij]; [discriminate|].
    destruct (find_tree i F) as [ti|] eqn:Ei; [|discriminate].
    destruct (find_tree j F) as [tj|] eqn:Ej; [|discriminate].
    pose proof (find_tree_in i F ti Ei) as Hi. pose proof (find_tree_in j F tj Ej) as Hj.
    destruct (forest_sem n F i j ti tj (pr_fnd p F R) (pr_part p F R) Hi Hj Hij) as (IRS & IRt & Pall & Hrest & _).
    cbn zeta in *.
    pose proof (inrange_app_l n _ _ IRS) as IRi. pose proof (inrange_app_r n _ _ IRS) as IRj.
    pose proof (pr_legs p F R i ti Hi) as Li. pose proof (pr_legs p F R j tj Hj) as Lj.
    destruct (proc_contract_fields p i j Hij (pr_nd p F R)) as (G1 & N1 & X1 & A1 & S1 & T1 & F1 & B1). cbn zeta in *.
    set (p' := fst (proc_contract i j p)) in *.
    assert (R' : PRep p' ((pssa p, Node ti tj) :: del_tree j (del_tree i F))).
    { pose proof (nodup_del_tree i F (pr_fnd p F R)) as NDF1.
      assert (Hfr : forall k, In k (fkeys (del_tree j (del_tree i F))) <-> In k (fkeys F) /\ k <> i /\ k <> j).
      { intros k. rewrite (fkeys_del_tree j _ k NDF1), (fkeys_del_tree i F k (pr_fnd p F R)). tauto. }
      constructor.
      - rewrite A1. apply (pr_app p F R).
      - rewrite S1. apply (pr_szs p F R).
      - rewrite T1. apply (pr_track p F R).
      - rewrite F1. apply (pr_fix p F R).
      - rewrite B1. apply (pr_batch p F R).
      - exact N1.
      - change (fkeys ((pssa p, Node ti tj) :: del_tree j (del_tree i F))) with (pssa p :: fkeys (del_tree j (del_tree i F))).
        constructor; [|apply nodup_del_tree, NDF1]. rewrite Hfr. intros [H _]. apply (pr_lt p F R) in H. lia.
      - intros k. change (fkeys ((pssa p, Node ti tj) :: del_tree j (del_tree i F))) with (pssa p :: fkeys (del_tree j (del_tree i F))).
        rewrite X1. intros [<-|H]; [lia|]. apply Hfr in H. destruct H as [H _]. apply (pr_lt p F R) in H. lia.
      - cbn [forest_leaves flat_map snd leaves]. fold (forest_leaves (del_tree j (del_tree i F))). symmetry. exact Pall.
      - intros k u [E|Hin].
        + inversion E; subst k u. rewrite G1, Nat.eqb_refl, (pr_app p F R). apply lrt_contract; assumption.
        + apply Hrest in Hin. destruct Hin as (HinF & Hki & Hkj). rewrite G1.
          assert (Hlt : k < pssa p) by (apply (pr_lt p F R); unfold fkeys; apply in_map_iff; exists (k, u); tauto).
          destruct (Nat.eqb_spec k (pssa p)); [lia|]. destruct (Nat.eqb_spec k i); [contradiction|].
          destruct (Nat.eqb_spec k j); [contradiction|]. cbn [orb]. apply (pr_legs p F R k u HinF). }
    unfold run_path in *. cbn [map fst snd proc_run fold_left proc_step]. fold p'.
    change (fold_left proc_step (map (fun ij => OpContract (fst ij) (snd ij)) path) p') with
           (proc_run p' (map (fun ij => OpContract (fst ij) (snd ij)) path)).
    rewrite (IH p' _ F' R'); [|rewrite X1; exact Hs]. rewrite X1.
    cbn [replay_trees]. rewrite Ei, Ej. cbn [map]. rewrite zsum_cons.
    unfold p'. rewrite (fixed_contract_adds p i j (pr_track p F R) (pr_fix p F R) Hij), (pr_batch p F R), (pr_szs p F R).
    assert (Efl : pflops szs (pget p i) (pget p j) = node_flops n [] (Node ti tj)).
    { unfold node_flops. cbn [involved].
      apply (lr_flops n rho szs Hinj Hsz _ _ _ _ Li Lj).
      - apply (sub_legs_spec n [] ti IRi).
      - apply (sub_legs_spec n [] tj IRj).
      - apply sub_legs_universe, IRi.
      - apply sub_legs_universe, IRj. }
    rewrite Efl. lia.
Qed.

End ProcRun.

(* ---------- the initial processor, checked by a boolean; the final composition ---------- *)
Definition rho_of (p : proc) (e : ix) : nat := match aget e (pmap p) with Some j => j | None => 0 end.

Definition leaf_lr_b (n : net) (p : proc) (k : nat) : bool :=
  let il := pget p k in let rho := rho_of p in
  ssorted_b il && forallb (fun kv : nat * nat => Nat.ltb 0 (snd kv)) il &&
  forallb (fun kv : nat * nat => memb (fst kv) (map rho (universe n))) il &&
  forallb (fun e => Nat.eqb (lget0 (rho e) il) (lget0 e (leaf_legs n [] k))) (universe n).

Definition init_lr_b (n : net) (p : proc) : bool :=
  let rho := rho_of p in
  nodup_nat_b (map rho (universe n)) &&
  forallb (fun e => Nat.eqb (papp_of (papp p) (rho e)) (appear n e) &&
                    Z.eqb (psize_of (pszs p) (rho e)) (zget e (szd n))) (universe n) &&
  forallb (leaf_lr_b n p) (seq 0 (NN n)) &&
  Nat.eqb (pssa p) (NN n) && Z.eqb (pflops_acc p) 0.

Lemma nodup_map_injective {A} (f : A -> nat) (l : list A) : NoDup (map f l) ->
  forall x y, In x l -> In y l -> f x = f y -> x = y.
Proof.
  induction l as [|a l IH]; intros ND x y Hx Hy E; [destruct Hx|].
  cbn in ND. inversion ND as [|? ? Hn ND']; subst.
  destruct Hx as [<-|Hx], Hy as [<-|Hy].
  - reflexivity.
  - exfalso. apply Hn. rewrite E. apply in_map, Hy.
  - exfalso. apply Hn. rewrite <- E. apply in_map, Hx.
  - apply IH; assumption.
Qed.

Theorem rgreedy_reports_tree_flops n path t :
  let p0 := proc_init_fixed n true in
  proc_ok_b p0 = true -> present_b (batch_indices p0) p0 path = true -> init_lr_b n p0 = true ->
  ssa_tree (NN n) path = Some t ->
  reported_flops_gen true n path = total_flops n [] t.
Proof.
  cbn zeta. set (p0 := proc_init_fixed n true). intros Hok Hpres Hinit Ht.
  assert (E1 : reported_flops_gen true n path = pflops_acc (run_path (proc_simplify_batch p0) path)) by reflexivity.
  rewrite E1, (fixed_run_eq_unsimplified_checked p0 path Hok Hpres).
  unfold init_lr_b in Hinit. rewrite !andb_true_iff in Hinit. destruct Hinit as [[[[Hnd Hsz] Hleaf] Hssa] Hacc].
  apply nodup_nat_b_sound in Hnd. apply Nat.eqb_eq in Hssa. apply Z.eqb_eq in Hacc.
  rewrite forallb_forall in Hsz, Hleaf.
  set (rho := rho_of p0) in *.
  assert (Hinj : forall e1 e2, In e1 (universe n) -> In e2 (universe n) -> rho e1 = rho e2 -> e1 = e2)
    by (apply nodup_map_injective, Hnd).
  assert (Happ : forall e, In e (universe n) -> papp_of (papp p0) (rho e) = appear n e).
  { intros e He. specialize (Hsz e He). apply andb_true_iff in Hsz. apply Nat.eqb_eq, Hsz. }
  assert (Hszs : forall e, In e (universe n) -> psize_of (pszs p0) (rho e) = zget e (szd n)).
  { intros e He. specialize (Hsz e He). apply andb_true_iff in Hsz. apply Z.eqb_eq, Hsz. }
  unfold proc_ok_b in Hok. rewrite !andb_true_iff in Hok. destruct Hok as [[[[[[Ht0 Hf0] Hb0] _] Hn0] _] _].
  apply Z.eqb_eq in Hb0. apply nodup_nat_b_sound in Hn0.
  set (F0 := map (fun i => (i, Leaf i)) (seq 0 (NN n))).
  assert (Hfk : fkeys F0 = seq 0 (NN n)) by (unfold fkeys, F0; rewrite map_map; cbn [fst]; apply map_id).
  assert (R0 : PRep n rho (papp p0) (pszs p0) p0 F0).
  { constructor; try reflexivity; try assumption.
    - rewrite Hfk. apply seq_NoDup.
    - intros k Hk. rewrite Hfk in Hk. apply in_seq in Hk. lia.
    - unfold F0. rewrite forest_leaves_init. reflexivity.
    - intros k u Hin. unfold F0 in Hin. apply in_map_iff in Hin. destruct Hin as (i & E & Hi). injection E as <- <-.
      specialize (Hleaf i Hi). unfold leaf_lr_b in Hleaf. rewrite !andb_true_iff in Hleaf.
      destruct Hleaf as [[[Hs Hp] Himg] Hc]. rewrite forallb_forall in Hp, Himg, Hc.
      constructor.
      + apply ssorted_b_sound, Hs.
      + intros kv Hkv. apply Nat.ltb_lt, (Hp kv Hkv).
      + intros j Hj. unfold lkeys in Hj. apply in_map_iff in Hj. destruct Hj as (kv & <- & Hkv).
        specialize (Himg kv Hkv). apply memb_In, in_map_iff in Himg. destruct Himg as (e & E' & He). exists e. split; [exact He|symmetry; exact E'].
      + intros e He. cbn [sub_legs]. apply Nat.eqb_eq, (Hc e He). }
  pose proof Ht as Htree. unfold ssa_tree in Ht. fold F0 in Ht. destruct (ssa_replay (NN n) F0 path) as [F'|] eqn:Er; [|discriminate].
  assert (Er' : ssa_replay (pssa p0) F0 path = Some F') by (rewrite Hssa; exact Er).
  rewrite (proc_replay_flops n rho (papp p0) (pszs p0) Hinj Happ Hszs path p0 F0 F' R0 Er'), Hacc, Hssa, Z.add_0_l.
  pose proof Htree as Ht'.
  rewrite total_flops_post_sub. apply zsum_perm_l, Permutation_map. symmetry. apply (ssa_tree_nodes (NN n) path t Ht').
Qed.

(* ---------- simplify_single_terms gives the tree's leaf legs, for ANY input term ---------- *)
Theorem simplified_is_leaf_legs (n : net) (rho : ix -> nat) (ap : list nat) (k : nat) (l : plegs) :
  k < NN n -> nd_from 0 l -> pos l ->
  (forall j, In j (lkeys l) -> exists e, In e (universe n) /\ j = rho e) ->
  (forall e, In e (universe n) -> papp_of ap (rho e) = appear n e) ->
  (forall e, In e (universe n) -> pcount (rho e) l = occ (nth k (inputs n) []) e) ->
  LR n rho (leaf_legs n [] k) (compute_simplified ap l).
Proof.
  intros Hk Hnd Hp Himg Happ Hcnt.
  destruct (compute_simplified_spec ap l Hnd Hp) as (S & P & K & G). cbn zeta in *.
  assert (Hin : forall j, 0 < pcount j l -> In j (lkeys l)).
  { clear. induction l as [|[k c] l IH]; cbn; intros j H; [lia|].
    destruct (Nat.eqb_spec k j) as [->|]; [left; reflexivity|right; apply IH; lia]. }
  constructor.
  - exact S.
  - exact P.
  - intros j Hj. apply Himg, Hin, K, Hj.
  - intros e He. rewrite G, (Happ e He), (Hcnt e He), (leaf_legs_get n [] k e Hk).
    unfold spec_count. cbn [cnt]. rewrite term_sl_nil, Nat.add_0_r.
    assert (Hle : cnt n [] [k] e <= appear n e).
    { apply cnt_le_appear. split; [repeat constructor; cbn; tauto|intros ? [<-|[]]; exact Hk]. }
    cbn [cnt] in Hle. rewrite term_sl_nil, Nat.add_0_r in Hle.
    destruct (Nat.eqb_spec (occ (nth k (inputs n) []) e) (appear n e));
      destruct (Nat.ltb_spec (occ (nth k (inputs n) []) e) (appear n e)); lia.
Qed.

(* BMMFacts.v -- lemmas about Model/BMM.v and Model/ArrayOps.v *)
From Coq Require Import Lia ZArith List Bool Arith PeanoNat.
From Ctg Require Import Base BMM ArrayOps.
Import ListNotations.

Lemma nprod_cons x l : nprod (x :: l) = x * nprod l.
Proof. reflexivity. Qed.
Lemma nprod_app l1 l2 : nprod (l1 ++ l2) = nprod l1 * nprod l2.
Proof.
  induction l1 as [|x l1 IH]; [cbn [app]; change (nprod []) with 1; lia|].
  cbn [app]. rewrite !nprod_cons, IH. lia.
Qed.

(* ================================================================== *)
(* row-major index arithmetic: ravel / unravel / all_idx / tget / tbuild / reshape / transpose *)


Definition valid_idx (s idx : list nat) : Prop := Forall2 lt idx s.

Lemma nprod_nil : nprod [] = 1.
Proof. reflexivity. Qed.

(* ---------- generic list helpers ---------- *)

Lemma nth_map_lt {A B} (f : A -> B) (l : list A) (k : nat) (d : A) (d' : B) :
  k < length l -> nth k (map f l) d' = f (nth k l d).
Proof.
  revert k. induction l as [|x l IH]; intros k Hk; cbn [length] in Hk; [lia|].
  destruct k as [|k]; cbn [map nth]; [reflexivity|]. apply IH. lia.
Qed.

Lemma flat_map_length_const {A B} (f : A -> list B) (l : list A) (n : nat) :
  (forall a, In a l -> length (f a) = n) -> length (flat_map f l) = length l * n.
Proof.
  induction l as [|x l IH]; intros Hf; cbn [flat_map length]; [reflexivity|].
  rewrite app_length, Hf by (left; reflexivity).
  rewrite IH by (intros a Ha; apply Hf; right; exact Ha).
  cbn [Nat.mul]. reflexivity.
Qed.

(* ---------- 1 ---------- *)

Lemma all_idx_length : forall s, length (all_idx s) = nprod s.
Proof.
  induction s as [|d s IH]; [reflexivity|].
  cbn [all_idx]. rewrite nprod_cons.
  rewrite (flat_map_length_const _ _ (nprod s)).
  - rewrite seq_length. reflexivity.
  - intros a _. rewrite map_length. exact IH.
Qed.

(* ---------- 2 ---------- *)

Lemma ravel_lt : forall s idx, valid_idx s idx -> ravel s idx < nprod s.
Proof.
  intros s idx H. unfold valid_idx in H.
  induction H as [|i d idx s Hid Hrest IH].
  - cbn [ravel]. rewrite nprod_nil. lia.
  - cbn [ravel]. rewrite nprod_cons. nia.
Qed.

(* ---------- 3 ---------- *)

Lemma unravel_valid : forall s k, k < nprod s -> valid_idx s (unravel s k).
Proof.
  unfold valid_idx.
  induction s as [|d s IH]; intros k Hk; cbn [unravel]; [constructor|].
  rewrite nprod_cons in Hk.
  assert (HP : nprod s <> 0) by nia.
  constructor.
  - apply Nat.div_lt_upper_bound; [exact HP|]. lia.
  - apply IH. apply Nat.mod_upper_bound. exact HP.
Qed.

(* ---------- 4 ---------- *)

Lemma ravel_unravel : forall s k, k < nprod s -> ravel s (unravel s k) = k.
Proof.
  induction s as [|d s IH]; intros k Hk.
  - rewrite nprod_nil in Hk. cbn [unravel ravel]. lia.
  - rewrite nprod_cons in Hk.
    assert (HP : nprod s <> 0) by nia.
    cbn [unravel ravel].
    rewrite IH by (apply Nat.mod_upper_bound; exact HP).
    pose proof (Nat.div_mod k (nprod s) HP) as Hdm.
    rewrite (Nat.mul_comm (k / nprod s)). lia.
Qed.

(* ---------- 5 ---------- *)

Lemma unravel_ravel : forall s idx, valid_idx s idx -> unravel s (ravel s idx) = idx.
Proof.
  intros s idx H. unfold valid_idx in H.
  induction H as [|i d idx s Hid Hrest IH]; [reflexivity|].
  cbn [ravel unravel].
  assert (Hr : ravel s idx < nprod s) by (apply ravel_lt; exact Hrest).
  assert (HP : nprod s <> 0) by lia.
  rewrite Nat.div_add_l by exact HP.
  rewrite (Nat.div_small _ _ Hr).
  rewrite (Nat.add_comm (i * nprod s) (ravel s idx)), Nat.mod_add by exact HP.
  rewrite (Nat.mod_small _ _ Hr).
  rewrite IH. f_equal. lia.
Qed.

(* ---------- 6 ---------- *)

Lemma nth_flat_map_blocks (L : list (list nat)) :
  forall d a k, k < d * length L ->
    nth k (flat_map (fun i => map (cons i) L) (seq a d)) [] =
    (a + k / length L) :: nth (k mod length L) L [].
Proof.
  induction d as [|d IH]; intros a k Hk; [lia|].
  assert (HP : length L <> 0) by nia.
  cbn [seq flat_map].
  destruct (Nat.lt_ge_cases k (length L)) as [Hlt|Hge].
  - rewrite app_nth1 by (rewrite map_length; exact Hlt).
    rewrite (nth_map_lt (cons a) L k [] []) by exact Hlt.
    rewrite (Nat.div_small _ _ Hlt), (Nat.mod_small _ _ Hlt).
    f_equal. lia.
  - rewrite app_nth2 by (rewrite map_length; exact Hge).
    rewrite map_length.
    remember (k - length L) as k' eqn:Ek'.
    assert (Hk' : k = 1 * length L + k') by lia.
    rewrite IH by nia.
    rewrite Hk'.
    rewrite Nat.div_add_l by exact HP.
    rewrite (Nat.add_comm (1 * length L) k'), Nat.mod_add by exact HP.
    f_equal. lia.
Qed.

Lemma all_idx_nth : forall s k, k < nprod s -> nth k (all_idx s) [] = unravel s k.
Proof.
  induction s as [|d s IH]; intros k Hk.
  - rewrite nprod_nil in Hk. assert (k = 0) by lia. subst k. reflexivity.
  - rewrite nprod_cons in Hk.
    assert (HP : nprod s <> 0) by nia.
    cbn [all_idx unravel].
    rewrite nth_flat_map_blocks by (rewrite all_idx_length; exact Hk).
    rewrite all_idx_length.
    rewrite IH by (apply Nat.mod_upper_bound; exact HP).
    reflexivity.
Qed.

(* ---------- 7 ---------- *)

Lemma in_all_idx : forall s idx, In idx (all_idx s) <-> valid_idx s idx.
Proof.
  unfold valid_idx.
  induction s as [|d s IH]; intros idx.
  - cbn [all_idx In]. split.
    + intros [H|[]]. subst idx. constructor.
    + intros H. inversion H. left. reflexivity.
  - cbn [all_idx]. rewrite in_flat_map. split.
    + intros [i [Hi Hin]]. apply in_map_iff in Hin.
      destruct Hin as [idx' [Heq Hin']]. subst idx.
      apply in_seq in Hi. constructor; [lia|]. apply IH. exact Hin'.
    + intros H. inversion H as [|i d' idx' s' Hid Hrest]. subst.
      exists i. split; [apply in_seq; lia|].
      apply in_map. apply IH. exact Hrest.
Qed.

(* ---------- 8 ---------- *)

Lemma all_idx_nodup : forall s, NoDup (all_idx s).
Proof.
  intros s. apply (NoDup_nth (all_idx s) []).
  intros i j Hi Hj Heq.
  rewrite all_idx_length in Hi, Hj.
  rewrite !all_idx_nth in Heq by assumption.
  rewrite <- (ravel_unravel s i Hi), <- (ravel_unravel s j Hj), Heq.
  reflexivity.
Qed.

(* ---------- 9 ---------- *)

Lemma tget_tbuild : forall s f idx, valid_idx s idx -> tget (tbuild s f) idx = f idx.
Proof.
  intros s f idx H.
  unfold tget, tbuild, tshape, tdata. cbn [fst snd].
  assert (Hr : ravel s idx < nprod s) by (apply ravel_lt; exact H).
  rewrite (nth_map_lt f (all_idx s) (ravel s idx) [] 0%Z)
    by (rewrite all_idx_length; exact Hr).
  rewrite all_idx_nth by exact Hr.
  rewrite unravel_ravel by exact H.
  reflexivity.
Qed.

(* ---------- 10 ---------- *)

Lemma tbuild_wf : forall s f, wf_tensor (tbuild s f) = true.
Proof.
  intros s f. unfold wf_tensor, tbuild, tshape, tdata. cbn [fst snd].
  rewrite map_length, all_idx_length. apply Nat.eqb_refl.
Qed.

(* ---------- 11 ---------- *)

Lemma ravel_app : forall s1 s2 i1 i2, length i1 = length s1 ->
  ravel (s1 ++ s2) (i1 ++ i2) = ravel s1 i1 * nprod s2 + ravel s2 i2.
Proof.
  induction s1 as [|d s1 IH]; intros s2 i1 i2 Hlen.
  - destruct i1 as [|i i1]; [|cbn [length] in Hlen; lia].
    cbn [app]. cbn [ravel]. lia.
  - destruct i1 as [|i i1]; cbn [length] in Hlen; [lia|].
    cbn [app]. cbn [ravel].
    rewrite IH by lia. rewrite nprod_app. lia.
Qed.

(* ---------- 12 ---------- *)

Lemma unravel_app : forall s1 s2 k, k < nprod (s1 ++ s2) -> 0 < nprod s2 ->
  unravel (s1 ++ s2) k = unravel s1 (k / nprod s2) ++ unravel s2 (k mod nprod s2).
Proof.
  induction s1 as [|d s1 IH]; intros s2 k Hk H2.
  - cbn [app] in *. cbn [unravel app]. rewrite Nat.mod_small by exact Hk. reflexivity.
  - cbn [app] in *. rewrite nprod_cons, nprod_app in Hk.
    assert (HP2 : nprod s2 <> 0) by lia.
    assert (HP1 : nprod s1 <> 0) by nia.
    cbn [unravel app]. rewrite nprod_app.
    assert (Hm : k mod (nprod s1 * nprod s2) < nprod (s1 ++ s2)).
    { rewrite nprod_app. apply Nat.mod_upper_bound. nia. }
    rewrite IH by assumption.
    rewrite (Nat.mul_comm (nprod s1) (nprod s2)).
    rewrite Nat.div_div by assumption.
    rewrite Nat.mod_mul_r by assumption.
    f_equal. f_equal.
    + f_equal.
      rewrite (Nat.mul_comm (nprod s2)), Nat.div_add by exact HP2.
      rewrite Nat.div_small by (apply Nat.mod_upper_bound; exact HP2). lia.
    + f_equal.
      rewrite (Nat.mul_comm (nprod s2)), Nat.mod_add by exact HP2.
      apply Nat.mod_mod. exact HP2.
Qed.

(* ---------- 13 ---------- *)

Lemma tget_reshape : forall t s t' idx, reshape t s = Some t' -> wf_tensor t = true ->
  valid_idx s idx -> tget t' idx = tget t (unravel (tshape t) (ravel s idx)).
Proof.
  intros t s t' idx Hre Hwf Hv.
  unfold reshape in Hre.
  destruct (Nat.eqb (nprod s) (length (tdata t))) eqn:E; [|discriminate].
  inversion Hre; subst t'. clear Hre.
  apply Nat.eqb_eq in E. unfold wf_tensor in Hwf. apply Nat.eqb_eq in Hwf.
  unfold tget. unfold tshape at 1. unfold tdata at 1. cbn [fst snd].
  assert (Hr : ravel s idx < nprod (tshape t)).
  { rewrite <- Hwf, <- E. apply ravel_lt. exact Hv. }
  rewrite ravel_unravel by exact Hr. reflexivity.
Qed.

(* ---------- 14 ---------- *)

Lemma tbuild_ext : forall s f g, (forall idx, valid_idx s idx -> f idx = g idx) ->
  tbuild s f = tbuild s g.
Proof.
  intros s f g H. unfold tbuild. f_equal.
  apply map_ext_in. intros idx Hin. apply H. apply in_all_idx. exact Hin.
Qed.

(* ---------- 15 ---------- *)

Lemma tensor_ext : forall t1 t2, wf_tensor t1 = true -> wf_tensor t2 = true ->
  tshape t1 = tshape t2 ->
  (forall idx, valid_idx (tshape t1) idx -> tget t1 idx = tget t2 idx) -> t1 = t2.
Proof.
  intros [s1 d1] [s2 d2] Hw1 Hw2 Hs Hget.
  unfold wf_tensor, tshape, tdata in *. cbn [fst snd] in *.
  subst s2. apply Nat.eqb_eq in Hw1. apply Nat.eqb_eq in Hw2.
  f_equal.
  apply (nth_ext d1 d2 0%Z 0%Z); [lia|].
  intros k Hk. rewrite Hw1 in Hk.
  specialize (Hget (unravel s1 k) (unravel_valid s1 k Hk)).
  unfold tget, tshape, tdata in Hget. cbn [fst snd] in Hget.
  rewrite ravel_unravel in Hget by exact Hk. exact Hget.
Qed.

(* ---------- 16 / 17 ---------- *)

Lemma transpose_shape : forall t p t', transpose t p = Some t' ->
  tshape t' = dims_at (tshape t) p.
Proof.
  intros t p t' H. unfold transpose in H.
  destruct (is_perm p (length (tshape t))); [|discriminate].
  inversion H. reflexivity.
Qed.

Lemma tget_transpose : forall t p t' idx, transpose t p = Some t' ->
  valid_idx (tshape t') idx ->
  tget t' idx = tget t (map (fun j => nth (pos_in j p) idx 0) (seq 0 (length (tshape t)))).
Proof.
  intros t p t' idx H Hv.
  rewrite (transpose_shape t p t' H) in Hv.
  unfold transpose in H.
  destruct (is_perm p (length (tshape t))); [|discriminate].
  inversion H; subst t'. clear H.
  rewrite tget_tbuild by exact Hv. reflexivity.
Qed.

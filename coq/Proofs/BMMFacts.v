(* BMMFacts.v -- lemmas about Model/BMM.v and Model/ArrayOps.v *)
From Coq Require Import Lia ZArith List Bool Arith PeanoNat Permutation Sorted.
From Ctg Require Import Base BMM ArrayOps BaseFacts.
Import ListNotations.

Lemma nprod_cons x l : nprod (x :: l) = x * nprod l.
Proof. reflexivity. Qed.
Lemma nprod_app l1 l2 : nprod (l1 ++ l2) = nprod l1 * nprod l2.
Proof.
  induction l1 as [|x l1 IH]; [cbn [app]; change (nprod []) with 1; lia|].
  cbn [app]. rewrite !nprod_cons, IH. lia.
Qed.

(* ================================================================== *)
(* row-major index arithmetic: ravel / unravel / all_idx / tget / tbuild / reshape / transpose *)


Definition valid_idx (s idx : list nat) : Prop := Forall2 lt idx s.

Lemma nprod_nil : nprod [] = 1.
Proof. reflexivity. Qed.

(* ---------- generic list helpers ---------- *)

Lemma nth_map_lt {A B} (f : A -> B) (l : list A) (k : nat) (d : A) (d' : B) :
  k < length l -> nth k (map f l) d' = f (nth k l d).
Proof.
  revert k. induction l as [|x l IH]; intros k Hk; cbn [length] in Hk; [lia|].
  destruct k as [|k]; cbn [map nth]; [reflexivity|]. apply IH. lia.
Qed.

Lemma flat_map_length_const {A B} (f : A -> list B) (l : list A) (n : nat) :
  (forall a, In a l -> length (f a) = n) -> length (flat_map f l) = length l * n.
Proof.
  induction l as [|x l IH]; intros Hf; cbn [flat_map length]; [reflexivity|].
  rewrite app_length, Hf by (left; reflexivity).
  rewrite IH by (intros a Ha; apply Hf; right; exact Ha).
  cbn [Nat.mul]. reflexivity.
Qed.

(* ---------- 1 ---------- *)

Lemma all_idx_length : forall s, length (all_idx s) = nprod s.
Proof.
  induction s as [|d s IH]; [reflexivity|].
  cbn [all_idx]. rewrite nprod_cons.
  rewrite (flat_map_length_const _ _ (nprod s)).
  - rewrite seq_length. reflexivity.
  - intros a _. rewrite map_length. exact IH.
Qed.

(* ---------- 2 ---------- *)

Lemma ravel_lt : forall s idx, valid_idx s idx -> ravel s idx < nprod s.
Proof.
  intros s idx H. unfold valid_idx in H.
  induction H as [|i d idx s Hid Hrest IH].
  - cbn [ravel]. rewrite nprod_nil. lia.
  - cbn [ravel]. rewrite nprod_cons. nia.
Qed.

(* ---------- 3 ---------- *)

Lemma unravel_valid : forall s k, k < nprod s -> valid_idx s (unravel s k).
Proof.
  unfold valid_idx.
  induction s as [|d s IH]; intros k Hk; cbn [unravel]; [constructor|].
  rewrite nprod_cons in Hk.
  assert (HP : nprod s <> 0) by nia.
  constructor.
  - apply Nat.div_lt_upper_bound; [exact HP|]. lia.
  - apply IH. apply Nat.mod_upper_bound. exact HP.
Qed.

(* ---------- 4 ---------- *)

Lemma ravel_unravel : forall s k, k < nprod s -> ravel s (unravel s k) = k.
Proof.
  induction s as [|d s IH]; intros k Hk.
  - rewrite nprod_nil in Hk. cbn [unravel ravel]. lia.
  - rewrite nprod_cons in Hk.
    assert (HP : nprod s <> 0) by nia.
    cbn [unravel ravel].
    rewrite IH by (apply Nat.mod_upper_bound; exact HP).
    pose proof (Nat.div_mod k (nprod s) HP) as Hdm.
    rewrite (Nat.mul_comm (k / nprod s)). lia.
Qed.

(* ---------- 5 ---------- *)

Lemma unravel_ravel : forall s idx, valid_idx s idx -> unravel s (ravel s idx) = idx.
Proof.
  intros s idx H. unfold valid_idx in H.
  induction H as [|i d idx s Hid Hrest IH]; [reflexivity|].
  cbn [ravel unravel].
  assert (Hr : ravel s idx < nprod s) by (apply ravel_lt; exact Hrest).
  assert (HP : nprod s <> 0) by lia.
  rewrite Nat.div_add_l by exact HP.
  rewrite (Nat.div_small _ _ Hr).
  rewrite (Nat.add_comm (i * nprod s) (ravel s idx)), Nat.mod_add by exact HP.
  rewrite (Nat.mod_small _ _ Hr).
  rewrite IH. f_equal. lia.
Qed.

(* ---------- 6 ---------- *)

Lemma nth_flat_map_blocks (L : list (list nat)) :
  forall d a k, k < d * length L ->
    nth k (flat_map (fun i => map (cons i) L) (seq a d)) [] =
    (a + k / length L) :: nth (k mod length L) L [].
Proof.
  induction d as [|d IH]; intros a k Hk; [lia|].
  assert (HP : length L <> 0) by nia.
  cbn [seq flat_map].
  destruct (Nat.lt_ge_cases k (length L)) as [Hlt|Hge].
  - rewrite app_nth1 by (rewrite map_length; exact Hlt).
    rewrite (nth_map_lt (cons a) L k [] []) by exact Hlt.
    rewrite (Nat.div_small _ _ Hlt), (Nat.mod_small _ _ Hlt).
    f_equal. lia.
  - rewrite app_nth2 by (rewrite map_length; exact Hge).
    rewrite map_length.
    remember (k - length L) as k' eqn:Ek'.
    assert (Hk' : k = 1 * length L + k') by lia.
    rewrite IH by nia.
    rewrite Hk'.
    rewrite Nat.div_add_l by exact HP.
    rewrite (Nat.add_comm (1 * length L) k'), Nat.mod_add by exact HP.
    f_equal. lia.
Qed.

Lemma all_idx_nth : forall s k, k < nprod s -> nth k (all_idx s) [] = unravel s k.
Proof.
  induction s as [|d s IH]; intros k Hk.
  - rewrite nprod_nil in Hk. assert (k = 0) by lia. subst k. reflexivity.
  - rewrite nprod_cons in Hk.
    assert (HP : nprod s <> 0) by nia.
    cbn [all_idx unravel].
    rewrite nth_flat_map_blocks by (rewrite all_idx_length; exact Hk).
    rewrite all_idx_length.
    rewrite IH by (apply Nat.mod_upper_bound; exact HP).
    reflexivity.
Qed.

(* ---------- 7 ---------- *)

Lemma in_all_idx : forall s idx, In idx (all_idx s) <-> valid_idx s idx.
Proof.
  unfold valid_idx.
  induction s as [|d s IH]; intros idx.
  - cbn [all_idx In]. split.
    + intros [H|[]]. subst idx. constructor.
    + intros H. inversion H. left. reflexivity.
  - cbn [all_idx]. rewrite in_flat_map. split.
    + intros [i [Hi Hin]]. apply in_map_iff in Hin.
      destruct Hin as [idx' [Heq Hin']]. subst idx.
      apply in_seq in Hi. constructor; [lia|]. apply IH. exact Hin'.
    + intros H. inversion H as [|i d' idx' s' Hid Hrest]. subst.
      exists i. split; [apply in_seq; lia|].
      apply in_map. apply IH. exact Hrest.
Qed.

(* ---------- 8 ---------- *)

Lemma all_idx_nodup : forall s, NoDup (all_idx s).
Proof.
  intros s. apply (NoDup_nth (all_idx s) []).
  intros i j Hi Hj Heq.
  rewrite all_idx_length in Hi, Hj.
  rewrite !all_idx_nth in Heq by assumption.
  rewrite <- (ravel_unravel s i Hi), <- (ravel_unravel s j Hj), Heq.
  reflexivity.
Qed.

(* ---------- 9 ---------- *)

Lemma tget_tbuild : forall s f idx, valid_idx s idx -> tget (tbuild s f) idx = f idx.
Proof.
  intros s f idx H.
  unfold tget, tbuild, tshape, tdata. cbn [fst snd].
  assert (Hr : ravel s idx < nprod s) by (apply ravel_lt; exact H).
  rewrite (nth_map_lt f (all_idx s) (ravel s idx) [] 0%Z)
    by (rewrite all_idx_length; exact Hr).
  rewrite all_idx_nth by exact Hr.
  rewrite unravel_ravel by exact H.
  reflexivity.
Qed.

(* ---------- 10 ---------- *)

Lemma tbuild_wf : forall s f, wf_tensor (tbuild s f) = true.
Proof.
  intros s f. unfold wf_tensor, tbuild, tshape, tdata. cbn [fst snd].
  rewrite map_length, all_idx_length. apply Nat.eqb_refl.
Qed.

(* ---------- 11 ---------- *)

Lemma ravel_app : forall s1 s2 i1 i2, length i1 = length s1 ->
  ravel (s1 ++ s2) (i1 ++ i2) = ravel s1 i1 * nprod s2 + ravel s2 i2.
Proof.
  induction s1 as [|d s1 IH]; intros s2 i1 i2 Hlen.
  - destruct i1 as [|i i1]; [|cbn [length] in Hlen; lia].
    cbn [app]. cbn [ravel]. lia.
  - destruct i1 as [|i i1]; cbn [length] in Hlen; [lia|].
    cbn [app]. cbn [ravel].
    rewrite IH by lia. rewrite nprod_app. lia.
Qed.

(* ---------- 12 ---------- *)

Lemma unravel_app : forall s1 s2 k, k < nprod (s1 ++ s2) -> 0 < nprod s2 ->
  unravel (s1 ++ s2) k = unravel s1 (k / nprod s2) ++ unravel s2 (k mod nprod s2).
Proof.
  induction s1 as [|d s1 IH]; intros s2 k Hk H2.
  - cbn [app] in *. cbn [unravel app]. rewrite Nat.mod_small by exact Hk. reflexivity.
  - cbn [app] in *. rewrite nprod_cons, nprod_app in Hk.
    assert (HP2 : nprod s2 <> 0) by lia.
    assert (HP1 : nprod s1 <> 0) by nia.
    cbn [unravel app]. rewrite nprod_app.
    assert (Hm : k mod (nprod s1 * nprod s2) < nprod (s1 ++ s2)).
    { rewrite nprod_app. apply Nat.mod_upper_bound. nia. }
    rewrite IH by assumption.
    rewrite (Nat.mul_comm (nprod s1) (nprod s2)).
    rewrite Nat.div_div by assumption.
    rewrite Nat.mod_mul_r by assumption.
    f_equal. f_equal.
    + f_equal.
      rewrite (Nat.mul_comm (nprod s2)), Nat.div_add by exact HP2.
      rewrite Nat.div_small by (apply Nat.mod_upper_bound; exact HP2). lia.
    + f_equal.
      rewrite (Nat.mul_comm (nprod s2)), Nat.mod_add by exact HP2.
      apply Nat.mod_mod. exact HP2.
Qed.

(* ---------- 13 ---------- *)

Lemma tget_reshape : forall t s t' idx, reshape t s = Some t' -> wf_tensor t = true ->
  valid_idx s idx -> tget t' idx = tget t (unravel (tshape t) (ravel s idx)).
Proof.
  intros t s t' idx Hre Hwf Hv.
  unfold reshape in Hre.
  destruct (Nat.eqb (nprod s) (length (tdata t))) eqn:E; [|discriminate].
  inversion Hre; subst t'. clear Hre.
  apply Nat.eqb_eq in E. unfold wf_tensor in Hwf. apply Nat.eqb_eq in Hwf.
  unfold tget. unfold tshape at 1. unfold tdata at 1. cbn [fst snd].
  assert (Hr : ravel s idx < nprod (tshape t)).
  { rewrite <- Hwf, <- E. apply ravel_lt. exact Hv. }
  rewrite ravel_unravel by exact Hr. reflexivity.
Qed.

(* ---------- 14 ---------- *)

Lemma tbuild_ext : forall s f g, (forall idx, valid_idx s idx -> f idx = g idx) ->
  tbuild s f = tbuild s g.
Proof.
  intros s f g H. unfold tbuild. f_equal.
  apply map_ext_in. intros idx Hin. apply H. apply in_all_idx. exact Hin.
Qed.

(* ---------- 15 ---------- *)

Lemma tensor_ext : forall t1 t2, wf_tensor t1 = true -> wf_tensor t2 = true ->
  tshape t1 = tshape t2 ->
  (forall idx, valid_idx (tshape t1) idx -> tget t1 idx = tget t2 idx) -> t1 = t2.
Proof.
  intros [s1 d1] [s2 d2] Hw1 Hw2 Hs Hget.
  unfold wf_tensor, tshape, tdata in *. cbn [fst snd] in *.
  subst s2. apply Nat.eqb_eq in Hw1. apply Nat.eqb_eq in Hw2.
  f_equal.
  apply (nth_ext d1 d2 0%Z 0%Z); [lia|].
  intros k Hk. rewrite Hw1 in Hk.
  specialize (Hget (unravel s1 k) (unravel_valid s1 k Hk)).
  unfold tget, tshape, tdata in Hget. cbn [fst snd] in Hget.
  rewrite ravel_unravel in Hget by exact Hk. exact Hget.
Qed.

(* ---------- 16 / 17 ---------- *)

Lemma transpose_shape : forall t p t', transpose t p = Some t' ->
  tshape t' = dims_at (tshape t) p.
Proof.
  intros t p t' H. unfold transpose in H.
  destruct (is_perm p (length (tshape t))); [|discriminate].
  inversion H. reflexivity.
Qed.

Lemma tget_transpose : forall t p t' idx, transpose t p = Some t' ->
  valid_idx (tshape t') idx ->
  tget t' idx = tget t (map (fun j => nth (pos_in j p) idx 0) (seq 0 (length (tshape t)))).
Proof.
  intros t p t' idx H Hv.
  rewrite (transpose_shape t p t' H) in Hv.
  unfold transpose in H.
  destruct (is_perm p (length (tshape t))); [|discriminate].
  inversion H; subst t'. clear H.
  rewrite tget_tbuild by exact Hv. reflexivity.
Qed.

(* ================================================================== *)
(* PART 2: structure of the plan parsers (all inputs) *)


(* the labels of an operand that carry a dimension different from 1, in order, with repeats *)
Definition nonsing (l : list (nat * nat)) : list nat :=
  map fst (filter (fun p => negb (Nat.eqb (snd p) 1)) l).

(* ================================================================== *)
(* generic list helpers                                                *)
Lemma NoDup_app_intro {A} (l1 l2 : list A) :
  NoDup l1 -> NoDup l2 -> (forall x, In x l1 -> ~ In x l2) -> NoDup (l1 ++ l2).
Proof.
  induction l1 as [|a l1 IH]; intros N1 N2 Hd; cbn [app]; [exact N2|].
  inversion N1 as [|? ? Hn N1']; subst. constructor.
  - rewrite in_app_iff. intros [H|H]; [exact (Hn H)|].
    apply (Hd a); [left; reflexivity|exact H].
  - apply IH; [exact N1'|exact N2|]. intros x Hx. apply Hd. right; exact Hx.
Qed.

Lemma NoDup_app_elim {A} (l1 l2 : list A) :
  NoDup (l1 ++ l2) -> NoDup l1 /\ NoDup l2 /\ (forall x, In x l1 -> ~ In x l2).
Proof.
  induction l1 as [|a l1 IH]; cbn [app]; intros N.
  - split; [constructor|]. split; [exact N|]. intros x [].
  - inversion N as [|? ? Hn N']; subst. destruct (IH N') as (N1 & N2 & Hd).
    rewrite in_app_iff in Hn. split; [|split].
    + constructor; [tauto|exact N1].
    + exact N2.
    + intros x [<-|Hx]; [tauto|apply Hd, Hx].
Qed.

Lemma pf_list_eqb_eq : forall l1 l2 : list nat, eqb l1 l2 = true -> l1 = l2.
Proof.
  induction l1 as [|x l1 IH]; intros [|y l2] H; try reflexivity; try discriminate H.
  change (Nat.eqb x y && eqb l1 l2 = true) in H.
  apply andb_true_iff in H. destruct H as [H1 H2].
  apply Nat.eqb_eq in H1. subst y. f_equal. apply IH, H2.
Qed.

(* ================================================================== *)
(* A. unique                                                           *)
Lemma unique_acc_in x l : forall seen,
  In x (unique_acc seen l) <-> In x l /\ ~ In x seen.
Proof.
  induction l as [|y l IH]; intros seen; cbn [unique_acc].
  - cbn [In]. tauto.
  - destruct (memb y seen) eqn:E.
    + apply memb_In in E. rewrite IH. cbn [In]. split; [tauto|].
      intros [[->|H] Hn]; tauto.
    + apply memb_false in E. cbn [In]. rewrite IH. cbn [In].
      destruct (Nat.eq_dec y x) as [->|Hne]; tauto.
Qed.

Lemma unique_acc_nodup l : forall seen, NoDup (unique_acc seen l).
Proof.
  induction l as [|y l IH]; intros seen; cbn [unique_acc]; [constructor|].
  destruct (memb y seen) eqn:E; [apply IH|].
  constructor; [|apply IH].
  rewrite unique_acc_in. cbn [In]. tauto.
Qed.

Lemma unique_in x l : In x (unique l) <-> In x l.
Proof. unfold unique. rewrite unique_acc_in. cbn [In]. tauto. Qed.

Lemma unique_nodup l : NoDup (unique l).
Proof. apply unique_acc_nodup. Qed.

(* ================================================================== *)
(* B. index classification of the two scanning loops                   *)
Definition P_bat (b_term out : str) (ix : nat) : bool := memb ix b_term && memb ix out.
Definition P_con (b_term out : str) (ix : nat) : bool := memb ix b_term && negb (memb ix out).
Definition P_keep (b_term out : str) (ix : nat) : bool := negb (memb ix b_term) && memb ix out.
Definition P_bkeep (a_term out : str) (ix : nat) : bool := negb (memb ix a_term) && memb ix out.

Lemma nonsing_cons_one ix d r : Nat.eqb d 1 = true -> nonsing ((ix, d) :: r) = nonsing r.
Proof. intros E. unfold nonsing. cbn [filter snd]. rewrite E. reflexivity. Qed.

Lemma nonsing_cons_big ix d r : Nat.eqb d 1 = false -> nonsing ((ix, d) :: r) = ix :: nonsing r.
Proof. intros E. unfold nonsing. cbn [filter snd]. rewrite E. reflexivity. Qed.

Lemma nonsing_in_term ix t s : In ix (nonsing (combine t s)) -> In ix t.
Proof.
  unfold nonsing. intros H. apply in_map_iff in H. destruct H as ([i d] & E & H).
  cbn [fst] in E. subst i. apply filter_In in H. destruct H as [H _].
  apply in_combine_l in H. exact H.
Qed.

Lemma scan_a_spec b_term out l : forall bat con keep sizes sing seen bat' con' keep' sizes' sing',
  scan_a b_term out l bat con keep sizes sing seen = Some (bat', con', keep', sizes', sing') ->
  bat' = bat ++ filter (P_bat b_term out) (unique_acc seen (nonsing l)) /\
  con' = con ++ filter (P_con b_term out) (unique_acc seen (nonsing l)) /\
  keep' = keep ++ filter (P_keep b_term out) (unique_acc seen (nonsing l)).
Proof.
  induction l as [|[ix d] r IH]; intros bat con keep sizes sing seen bat' con' keep' sizes' sing' H;
    cbn [scan_a] in H.
  - inversion H; subst. cbn. rewrite !app_nil_r. auto.
  - destruct (Nat.eqb d 1) eqn:Ed.
    + rewrite (nonsing_cons_one ix d r Ed). eapply IH. exact H.
    + rewrite (nonsing_cons_big ix d r Ed). cbn [unique_acc].
      destruct (negb (Nat.eqb (lget0 ix match lget ix sizes with Some _ => sizes | None => lset ix d sizes end) d));
        [discriminate H|].
      destruct (memb ix seen) eqn:Es; [eapply IH; exact H|].
      cbn [filter]. unfold P_bat at 1, P_con at 1, P_keep at 1.
      destruct (memb ix b_term) eqn:Eb; destruct (memb ix out) eqn:Eo; cbn [andb negb];
        apply IH in H; destruct H as (H1 & H2 & H3); subst bat' con' keep';
        rewrite <- ?app_assoc; cbn [app]; auto.
Qed.

Lemma scan_b_spec a_term out l : forall keep sizes sing seen keep' sizes' sing',
  scan_b a_term out l keep sizes sing seen = Some (keep', sizes', sing') ->
  keep' = keep ++ filter (P_bkeep a_term out) (unique_acc seen (nonsing l)).
Proof.
  induction l as [|[ix d] r IH]; intros keep sizes sing seen keep' sizes' sing' H;
    cbn [scan_b] in H.
  - inversion H; subst. cbn. rewrite app_nil_r. reflexivity.
  - destruct (Nat.eqb d 1) eqn:Ed.
    + rewrite (nonsing_cons_one ix d r Ed). eapply IH. exact H.
    + rewrite (nonsing_cons_big ix d r Ed). cbn [unique_acc].
      destruct (negb (Nat.eqb (lget0 ix match lget ix sizes with Some _ => sizes | None => lset ix d sizes end) d));
        [discriminate H|].
      destruct (memb ix seen) eqn:Es; [eapply IH; exact H|].
      cbn [filter]. unfold P_bkeep at 1.
      destruct (negb (memb ix a_term) && memb ix out) eqn:Ep;
        apply IH in H; subst keep'; rewrite <- ?app_assoc; cbn [app]; reflexivity.
Qed.

(* ================================================================== *)
(* C. classify                                                          *)
Lemma classify_partition a_term shape_a b_term shape_b out c :
  classify a_term shape_a b_term shape_b out = Some c ->
  let A := nonsing (combine a_term shape_a) in
  let B := nonsing (combine b_term shape_b) in
  c_bat c = filter (P_bat b_term out) (unique A) /\
  c_con c = filter (P_con b_term out) (unique A) /\
  c_akeep c = filter (P_keep b_term out) (unique A) /\
  c_bkeep c = filter (P_bkeep a_term out) (unique B).
Proof.
  unfold classify. intros H.
  destruct (scan_a b_term out (combine a_term shape_a) [] [] [] [] [] [])
    as [[[[[bat con] akeep] sizes] sing]|] eqn:Ea; [|discriminate H].
  destruct (scan_b a_term out (combine b_term shape_b) [] sizes sing [])
    as [[[bkeep sizes'] sing']|] eqn:Eb; [|discriminate H].
  inversion H; subst c. cbn [c_bat c_con c_akeep c_bkeep].
  apply scan_a_spec in Ea. destruct Ea as (H1 & H2 & H3).
  apply scan_b_spec in Eb. cbn [app] in *. unfold unique. auto.
Qed.

Lemma classify_in a_term shape_a b_term shape_b out c :
  classify a_term shape_a b_term shape_b out = Some c ->
  let A := nonsing (combine a_term shape_a) in
  let B := nonsing (combine b_term shape_b) in
  forall ix,
  (In ix (c_bat c) <-> In ix A /\ In ix b_term /\ In ix out) /\
  (In ix (c_con c) <-> In ix A /\ In ix b_term /\ ~ In ix out) /\
  (In ix (c_akeep c) <-> In ix A /\ ~ In ix b_term /\ In ix out) /\
  (In ix (c_bkeep c) <-> In ix B /\ ~ In ix a_term /\ In ix out).
Proof.
  intros H A B ix. apply classify_partition in H. cbv zeta in H.
  destruct H as (H1 & H2 & H3 & H4). rewrite H1, H2, H3, H4.
  fold A B. rewrite !filter_In, !unique_in.
  unfold P_bat, P_con, P_keep, P_bkeep.
  rewrite !andb_true_iff, !negb_true_iff, !memb_In, !memb_false. tauto.
Qed.

Lemma classify_nodup a_term shape_a b_term shape_b out c :
  classify a_term shape_a b_term shape_b out = Some c ->
  NoDup (c_bat c ++ c_con c ++ c_akeep c ++ c_bkeep c).
Proof.
  intros H. pose proof (classify_in _ _ _ _ _ _ H) as Hin. cbv zeta in Hin.
  apply classify_partition in H. cbv zeta in H.
  destruct H as (H1 & H2 & H3 & H4).
  apply NoDup_app_intro; [| apply NoDup_app_intro; [| apply NoDup_app_intro | ] | ].
  - rewrite H1. apply NoDup_filter, unique_nodup.
  - rewrite H2. apply NoDup_filter, unique_nodup.
  - rewrite H3. apply NoDup_filter, unique_nodup.
  - rewrite H4. apply NoDup_filter, unique_nodup.
  - intros x Hx Hx'. apply Hin in Hx. apply Hin in Hx'.
    destruct Hx as (HA & _). apply nonsing_in_term in HA. tauto.
  - intros x Hx Hx'. apply in_app_iff in Hx'. apply Hin in Hx.
    destruct Hx as (HA & Hb & Ho). destruct Hx' as [Hx'|Hx']; apply Hin in Hx'; [tauto|].
    apply nonsing_in_term in HA. tauto.
  - intros x Hx Hx'. rewrite !in_app_iff in Hx'. apply Hin in Hx.
    destruct Hx as (HA & Hb & Ho).
    destruct Hx' as [Hx'|[Hx'|Hx']]; apply Hin in Hx'; try tauto.
    apply nonsing_in_term in HA. tauto.
Qed.

Lemma classify_cover a_term shape_a b_term shape_b out c :
  classify a_term shape_a b_term shape_b out = Some c ->
  forall ix, In ix (nonsing (combine a_term shape_a)) ->
  In ix (c_bat c ++ c_con c ++ c_akeep c) \/ (~ In ix b_term /\ ~ In ix out).
Proof.
  intros H ix HA. pose proof (classify_in _ _ _ _ _ _ H ix) as Hin. cbv zeta in Hin.
  rewrite !in_app_iff. destruct Hin as (H1 & H2 & H3 & _). rewrite H1, H2, H3.
  destruct (in_dec Nat.eq_dec ix b_term); destruct (in_dec Nat.eq_dec ix out); tauto.
Qed.

Lemma classify_cover_b a_term shape_a b_term shape_b out c :
  classify a_term shape_a b_term shape_b out = Some c ->
  forall ix, In ix (nonsing (combine b_term shape_b)) ->
  In ix a_term \/ In ix (c_bkeep c) \/ ~ In ix out.
Proof.
  intros H ix HB. pose proof (classify_in _ _ _ _ _ _ H ix) as Hin. cbv zeta in Hin.
  destruct Hin as (_ & _ & _ & H4). rewrite H4.
  destruct (in_dec Nat.eq_dec ix a_term); destruct (in_dec Nat.eq_dec ix out); tauto.
Qed.

(* ================================================================== *)
(* D. index_all                                                         *)
Lemma pf_find_pos_some j s : forall p, find_pos j s = Some p -> p < length s /\ nth p s 0 = j.
Proof.
  induction s as [|x s IH]; intros p H; cbn [find_pos] in H; [discriminate H|].
  destruct (Nat.eqb_spec x j) as [->|Hne].
  - inversion H; subst p. cbn. split; [lia|reflexivity].
  - destruct (find_pos j s) as [q|] eqn:E; [|discriminate H].
    inversion H; subst p. destruct (IH q eq_refl) as [H1 H2]. cbn [length nth]. split; [lia|exact H2].
Qed.

Lemma pf_find_pos_none j s : find_pos j s = None -> ~ In j s.
Proof.
  induction s as [|x s IH]; cbn [find_pos In]; [tauto|].
  destruct (Nat.eqb_spec x j) as [->|Hne]; [discriminate|].
  destruct (find_pos j s); [discriminate|]. intros _ [H|H]; [congruence|]. apply IH; [reflexivity|exact H].
Qed.

Lemma pf_find_pos_in j s : In j s -> exists p, find_pos j s = Some p.
Proof.
  intros H. destruct (find_pos j s) as [p|] eqn:E; [exists p; reflexivity|].
  exfalso. apply (pf_find_pos_none j s E H).
Qed.

Lemma index_all_spec s l : forall p, index_all s l = Some p ->
  length p = length l /\ Forall (fun k => k < length s) p /\ map (fun k => nth k s 0) p = l.
Proof.
  induction l as [|x l IH]; intros p H; cbn [index_all] in H.
  - inversion H; subst p. cbn. auto.
  - destruct (find_pos x s) as [q|] eqn:Eq; [|discriminate H].
    destruct (index_all s l) as [ps|] eqn:El; [|discriminate H].
    inversion H; subst p. destruct (IH ps eq_refl) as (H1 & H2 & H3).
    apply pf_find_pos_some in Eq. destruct Eq as [Hq1 Hq2].
    cbn [length map]. split; [lia|]. split; [constructor; assumption|]. rewrite Hq2, H3. reflexivity.
Qed.

Lemma index_all_incl s l p : index_all s l = Some p -> incl l s.
Proof.
  intros H x Hx. apply index_all_spec in H. destruct H as (_ & HF & Hm).
  rewrite <- Hm in Hx. apply in_map_iff in Hx. destruct Hx as (k & <- & Hk).
  rewrite Forall_forall in HF. apply nth_In, HF, Hk.
Qed.

Lemma index_all_total s l : incl l s -> exists p, index_all s l = Some p.
Proof.
  induction l as [|x l IH]; intros Hi; cbn [index_all]; [exists []; reflexivity|].
  destruct (pf_find_pos_in x s) as [q Hq]; [apply Hi; left; reflexivity|].
  destruct IH as [ps Hps]; [intros y Hy; apply Hi; right; exact Hy|].
  rewrite Hq, Hps. eexists; reflexivity.
Qed.

Lemma index_all_nodup s l p : index_all s l = Some p -> NoDup l -> NoDup p.
Proof.
  intros H N. apply index_all_spec in H. destruct H as (_ & _ & Hm).
  rewrite <- Hm in N. apply NoDup_map_inv in N. exact N.
Qed.

Lemma pf_is_perm_intro p n : NoDup p -> Forall (fun k => k < n) p -> length p = n -> is_perm p n = true.
Proof.
  intros N HF HL. unfold is_perm. rewrite HL, Nat.eqb_refl. cbn [andb].
  apply forallb_forall. intros j Hj. apply memb_In.
  assert (Hi : incl (seq 0 n) p).
  { apply NoDup_length_incl; [exact N|rewrite seq_length; lia|].
    intros k Hk. rewrite Forall_forall in HF. apply in_seq. specialize (HF k Hk). lia. }
  apply Hi, Hj.
Qed.

Lemma index_all_is_perm s l p : index_all s l = Some p -> NoDup l -> length l = length s ->
  is_perm p (length s) = true.
Proof.
  intros H N HL. pose proof (index_all_nodup _ _ _ H N) as Np.
  apply index_all_spec in H. destruct H as (H1 & H2 & _).
  apply pf_is_perm_intro; [exact Np|exact H2|lia].
Qed.

(* ================================================================== *)
(* E. group_shape                                                       *)
Lemma group_shape_prod sizes groups s : group_shape sizes groups = Some s ->
  nprod s = nprod (map (fun ix => lget0 ix sizes) (concat groups)).
Proof.
  unfold group_shape. destruct (existsb _ groups); [|discriminate].
  intros H. inversion H; subst s. clear H.
  induction groups as [|g gs IH]; [reflexivity|].
  cbn [map concat]. rewrite map_app, nprod_app, nprod_cons, IH. reflexivity.
Qed.

Lemma nprod_repeat_one n : nprod (repeat 1 n) = 1.
Proof. induction n as [|n IH]; [reflexivity|]. cbn [repeat]. rewrite nprod_cons, IH. reflexivity. Qed.

(* ================================================================== *)
(* F. the plan of parse_bmm_terms (non-pure branch)                     *)
Theorem bmm_plan_shapes a_term shape_a b_term shape_b out c eq_a eq_b nsa nsb nsab perm_ab pure :
  classify a_term shape_a b_term shape_b out = Some c ->
  c_con c <> [] ->
  parse_bmm_terms a_term shape_a b_term shape_b out
    = Some (eq_a, (eq_b, (nsa, (nsb, (nsab, (perm_ab, pure)))))) ->
  pure = false /\
  let sz := fun ix => lget0 ix (c_sizes c) in
  (forall s, nsa = Some s -> nprod s = nprod (map sz (c_bat c ++ c_akeep c ++ c_con c))) /\
  (forall s, nsb = Some s -> nprod s = nprod (map sz (c_bat c ++ c_con c ++ c_bkeep c))) /\
  (forall s, nsab = Some s -> nprod s = nprod (map sz (c_bat c ++ c_akeep c ++ c_bkeep c))).
Proof.
  intros Hc Hcon H. unfold parse_bmm_terms in H.
  destruct (negb (Nat.eqb (length a_term) (length shape_a))); [discriminate H|].
  destruct (negb (Nat.eqb (length b_term) (length shape_b))); [discriminate H|].
  rewrite Hc in H.
  destruct (c_con c) as [|c0 cl] eqn:Econ; [congruence|]. clear Hcon.
  destruct (c_bat c) as [|b0 bl] eqn:Ebat; cbv beta iota zeta in H;
  (destruct (index_all _ out) as [p|] eqn:Ep; [|discriminate H]);
  inversion H; subst; clear H; (split; [reflexivity|]); cbv zeta; (split; [|split]); intros s Hs.
  - apply group_shape_prod in Hs. rewrite Hs. cbn [concat app]. rewrite ?app_nil_r. reflexivity.
  - apply group_shape_prod in Hs. rewrite Hs. cbn [concat app]. rewrite ?app_nil_r. reflexivity.
  - destruct (_ || _) in Hs; [|discriminate Hs]. inversion Hs; subst s.
    rewrite nprod_app, nprod_repeat_one. cbn [concat app map]. rewrite ?app_nil_r. lia.
  - apply group_shape_prod in Hs. rewrite Hs. cbn [concat]. rewrite ?app_nil_r. reflexivity.
  - apply group_shape_prod in Hs. rewrite Hs. cbn [concat]. rewrite ?app_nil_r. reflexivity.
  - destruct (_ || _) in Hs; [|discriminate Hs]. inversion Hs; subst s.
    rewrite nprod_app, nprod_repeat_one. cbn [concat]. rewrite ?app_nil_r. cbn [app map]. lia.
Qed.

Lemma index_all_perm_full s l p : index_all s l = Some p -> NoDup l -> NoDup s -> incl s l ->
  map (fun k => nth k s 0) p = l /\ is_perm p (length s) = true.
Proof.
  intros H Nl Ns Hi. split; [apply index_all_spec in H; tauto|].
  apply (index_all_is_perm s l p H Nl).
  pose proof (index_all_incl _ _ _ H) as Hi'.
  pose proof (NoDup_incl_length Nl Hi'). pose proof (NoDup_incl_length Ns Hi). lia.
Qed.

Lemma classify_produced_incl a_term shape_a b_term shape_b out c :
  classify a_term shape_a b_term shape_b out = Some c ->
  incl (filter (fun ix => memb ix (c_sing c)) out ++ c_bat c ++ c_akeep c ++ c_bkeep c) out.
Proof.
  intros Hc x Hx. pose proof (classify_in _ _ _ _ _ _ Hc x) as Hin. cbv zeta in Hin.
  rewrite !in_app_iff in Hx. destruct Hx as [Hx|[Hx|[Hx|Hx]]].
  - apply filter_In in Hx. tauto.
  - apply Hin in Hx. tauto.
  - apply Hin in Hx. tauto.
  - apply Hin in Hx. tauto.
Qed.

Theorem bmm_plan_perm a_term shape_a b_term shape_b out c eq_a eq_b nsa nsb nsab perm_ab pure :
  classify a_term shape_a b_term shape_b out = Some c ->
  c_con c <> [] ->
  parse_bmm_terms a_term shape_a b_term shape_b out
    = Some (eq_a, (eq_b, (nsa, (nsb, (nsab, (perm_ab, pure)))))) ->
  let produced := filter (fun ix => memb ix (c_sing c)) out ++ c_bat c ++ c_akeep c ++ c_bkeep c in
  NoDup out -> NoDup produced ->
  exists p, index_all produced out = Some p /\
    (perm_ab = None -> p = seq 0 (length p)) /\
    (forall q, perm_ab = Some q -> q = p) /\
    map (fun k => nth k produced 0) p = out /\
    is_perm p (length produced) = true.
Proof.
  intros Hc Hcon H. pose proof (classify_produced_incl _ _ _ _ _ _ Hc) as Hincl.
  unfold parse_bmm_terms in H.
  destruct (negb (Nat.eqb (length a_term) (length shape_a))); [discriminate H|].
  destruct (negb (Nat.eqb (length b_term) (length shape_b))); [discriminate H|].
  rewrite Hc in H.
  destruct (c_con c) as [|c0 cl] eqn:Econ; [congruence|]. clear Hcon.
  destruct (c_bat c) as [|b0 bl] eqn:Ebat; cbv beta iota zeta in H |- *; intros No Np;
  (destruct (index_all _ out) as [p|] eqn:Ep; [|discriminate H]); exists p;
  inversion H; subst; clear H; (split; [reflexivity|]);
  (split; [|split]).
  - destruct (eqb p (seq 0 (length p))) eqn:E; [intros _; apply pf_list_eqb_eq, E|discriminate].
  - intros q. destruct (eqb p (seq 0 (length p))); [discriminate|]. intros Hq; inversion Hq; reflexivity.
  - apply index_all_perm_full; assumption.
  - destruct (eqb p (seq 0 (length p))) eqn:E; [intros _; apply pf_list_eqb_eq, E|discriminate].
  - intros q. destruct (eqb p (seq 0 (length p))); [discriminate|]. intros Hq; inversion Hq; reflexivity.
  - apply index_all_perm_full; assumption.
Qed.

(* ================================================================== *)
(* G. scan_single (first loop of _parse_einsum_single)                  *)
Lemma pf_count_cons x y r : count x (y :: r) = (if Nat.eqb x y then 1 else 0) + count x r.
Proof. unfold count. cbn [filter]. destruct (Nat.eqb x y); reflexivity. Qed.

Lemma scan_single_sum_gen out lhs : forall dg sm seen,
  (forall x, In x dg -> In x seen) ->
  snd (scan_single lhs out dg sm seen)
    = sm ++ filter (fun j => negb (memb j out)) (unique_acc seen lhs).
Proof.
  induction lhs as [|ix r IH]; intros dg sm seen Hinv; cbn [scan_single unique_acc].
  - cbn. rewrite app_nil_r. reflexivity.
  - destruct (memb ix dg) eqn:Ed.
    + apply memb_In in Ed. apply Hinv in Ed. apply memb_In in Ed. rewrite Ed. apply IH, Hinv.
    + destruct (memb ix seen) eqn:Es.
      * apply IH. intros x Hx. apply in_app_iff in Hx.
        destruct Hx as [Hx|[<-|[]]]; [apply Hinv, Hx|apply memb_In, Es].
      * rewrite IH by (intros x Hx; right; apply Hinv, Hx). cbn [filter].
        destruct (memb ix out); cbn [negb]; [reflexivity|]. rewrite <- app_assoc. reflexivity.
Qed.

Lemma scan_single_sum lhs out :
  snd (scan_single lhs out [] [] []) = filter (fun j => negb (memb j out)) (unique lhs).
Proof. rewrite scan_single_sum_gen by (intros x []). reflexivity. Qed.

Lemma scan_single_diag_gen out x lhs : forall dg sm seen,
  (forall y, In y dg -> In y seen) ->
  (In x (fst (scan_single lhs out dg sm seen)) <->
   In x dg \/ (In x seen /\ 1 <= count x lhs) \/ 2 <= count x lhs).
Proof.
  induction lhs as [|ix r IH]; intros dg sm seen Hinv; cbn [scan_single].
  - cbn [fst]. change (count x []) with 0. intuition lia.
  - rewrite pf_count_cons. destruct (memb ix dg) eqn:Ed.
    + rewrite IH by exact Hinv. apply memb_In in Ed.
      destruct (Nat.eqb_spec x ix) as [->|Hne]; [tauto|]. cbn [Nat.add]. tauto.
    + apply memb_false in Ed. destruct (memb ix seen) eqn:Es.
      * apply memb_In in Es. rewrite IH.
        2:{ intros y Hy. apply in_app_iff in Hy. destruct Hy as [Hy|[<-|[]]]; [apply Hinv, Hy|exact Es]. }
        rewrite in_app_iff. cbn [In].
        destruct (Nat.eqb_spec x ix) as [->|Hne]; [intuition lia|].
        cbn [Nat.add]. intuition congruence.
      * apply memb_false in Es. rewrite IH by (intros y Hy; right; apply Hinv, Hy).
        cbn [In].
        destruct (Nat.eqb_spec x ix) as [->|Hne]; [intuition lia|].
        cbn [Nat.add]. intuition congruence.
Qed.

Lemma scan_single_diag_in lhs out ix :
  In ix (fst (scan_single lhs out [] [] [])) <-> 2 <= count ix lhs.
Proof. rewrite scan_single_diag_gen by (intros y []). cbn [In]. tauto. Qed.

Lemma scan_single_diag_nodup_gen out lhs : forall dg sm seen,
  NoDup dg -> NoDup (fst (scan_single lhs out dg sm seen)).
Proof.
  induction lhs as [|ix r IH]; intros dg sm seen N; cbn [scan_single]; [exact N|].
  destruct (memb ix dg) eqn:Ed; [apply IH, N|].
  destruct (memb ix seen); [|apply IH, N].
  apply IH. apply NoDup_app_intro; [exact N|constructor; [intros []|constructor]|].
  intros x Hx [<-|[]]. apply memb_false in Ed. exact (Ed Hx).
Qed.

Lemma scan_single_diag_nodup lhs out : NoDup (fst (scan_single lhs out [] [] [])).
Proof. apply scan_single_diag_nodup_gen. constructor. Qed.

(* ================================================================== *)
(* H. parse_single_core: label bookkeeping                              *)
Lemma pf_diag_fold_none sizes l : fold_left (diag_step sizes) l None = None.
Proof. induction l as [|a l IH]; [reflexivity|]. cbn [fold_left diag_step]. exact IH. Qed.

Lemma pf_diag_fold_lhs sizes l : forall sels lhs sels' lhs',
  fold_left (diag_step sizes) l (Some (sels, lhs)) = Some (sels', lhs') ->
  lhs' = fold_left (fun l ixd => diag_lhs ixd l) l lhs.
Proof.
  induction l as [|ixd l IH]; intros sels lhs sels' lhs' H; cbn [fold_left] in *.
  - inversion H; reflexivity.
  - cbn [diag_step] in H.
    destruct (lget ixd sizes) as [n|]; [|rewrite pf_diag_fold_none in H; discriminate H].
    apply IH in H. exact H.
Qed.

Theorem parse_single_core_labels lhs out shape dsel sax perm :
  parse_single_core lhs out shape = Some (dsel, (sax, perm)) ->
  (perm = None -> labels_after_sum lhs out = out) /\
  (forall p, perm = Some p -> map (fun k => nth k (labels_after_sum lhs out) 0) p = out).
Proof.
  unfold parse_single_core, labels_after_sum, labels_after_diag.
  destruct (scan_single lhs out [] [] []) as [dg sm]. cbn [fst snd]. intros H.
  match type of H with match ?X with _ => _ end = _ =>
    destruct X as [[diag_sels lhs1]|] eqn:E1; [|discriminate H] end.
  assert (Hl1 : lhs1 = fold_left (fun l ixd => diag_lhs ixd l) (rev dg) lhs).
  { destruct dg as [|d0 dg'].
    - inversion E1; reflexivity.
    - match type of E1 with match ?X with _ => _ end = _ =>
        destruct X as [[sels l']|] eqn:Ef; [|discriminate E1] end.
      inversion E1; subst. apply pf_diag_fold_lhs in Ef. exact Ef. }
  rewrite <- Hl1. clear E1 Hl1.
  match type of H with match ?X with _ => _ end = _ =>
    destruct X as [[sum_axes lhs2]|] eqn:E2; [|discriminate H] end.
  assert (Hl2 : lhs2 = fold_left (fun l ix => remove_all ix l) sm lhs1).
  { destruct sm as [|s0 sm'].
    - inversion E2; reflexivity.
    - destruct (index_all lhs1 (s0 :: sm')) as [ax|]; [|discriminate E2].
      inversion E2; reflexivity. }
  rewrite <- Hl2. clear E2 Hl2.
  destruct (eqb lhs2 out) eqn:Ee.
  - inversion H; subst. split; [intros _; apply pf_list_eqb_eq, Ee|discriminate].
  - destruct (index_all lhs2 out) as [p|] eqn:Ep; [|discriminate H].
    inversion H; subst. split; [discriminate|]. intros q Hq. inversion Hq; subst q.
    apply index_all_spec in Ep. tauto.
Qed.

(* ================================================================== *)
(* PART 3: getter semantics of the kernels and of the reference; first semantic theorems *)


(* ================================================================== *)
(* 0. small generic helpers                                            *)

Lemma sf_zsum_single v : zsum [v] = v.
Proof. unfold zsum. cbn [fold_left]. lia. Qed.

Lemma sf_zsum_nil : zsum [] = 0%Z.
Proof. reflexivity. Qed.

Lemma sf_zprodl_nil : zprodl [] = 1%Z.
Proof. reflexivity. Qed.

Lemma sf_zprodl_cons a l : zprodl (a :: l) = (a * zprodl l)%Z.
Proof. reflexivity. Qed.

Lemma sf_zprodl_single a : zprodl [a] = a.
Proof. rewrite sf_zprodl_cons, sf_zprodl_nil. lia. Qed.

Lemma sf_zprodl_pair a b : zprodl [a; b] = (a * b)%Z.
Proof. rewrite !sf_zprodl_cons, sf_zprodl_nil. lia. Qed.

Lemma sf_flat_map_single {A B} (f : A -> B) (l : list A) :
  flat_map (fun a => [f a]) l = map f l.
Proof. induction l as [|a l IH]; cbn [flat_map map app]; [reflexivity|]. rewrite IH. reflexivity. Qed.

Lemma sf_filter_nil {A} (f : A -> bool) (l : list A) :
  (forall x, In x l -> f x = false) -> filter f l = [].
Proof.
  induction l as [|a l IH]; intros H; cbn [filter]; [reflexivity|].
  rewrite (H a) by (left; reflexivity). apply IH. intros x Hx. apply H. right. exact Hx.
Qed.

Lemma sf_filter_all {A} (f : A -> bool) (l : list A) :
  (forall x, In x l -> f x = true) -> filter f l = l.
Proof.
  induction l as [|a l IH]; intros H; cbn [filter]; [reflexivity|].
  rewrite (H a) by (left; reflexivity). f_equal. apply IH. intros x Hx. apply H. right. exact Hx.
Qed.

Lemma sf_valid_idx_length s idx : valid_idx s idx -> length idx = length s.
Proof. intros H. unfold valid_idx in H. induction H; cbn [length]; [reflexivity|]. f_equal. assumption. Qed.

Lemma sf_valid_idx_nil idx : valid_idx [] idx -> idx = [].
Proof. intros H. inversion H. reflexivity. Qed.

Lemma sf_valid_idx_cons d s idx : valid_idx (d :: s) idx ->
  exists i idx', idx = i :: idx' /\ i < d /\ valid_idx s idx'.
Proof. intros H. inversion H; subst. eexists. eexists. split; [reflexivity|]. split; assumption. Qed.

Lemma sf_all_idx_nil : all_idx [] = [[]].
Proof. reflexivity. Qed.

Lemma sf_all_idx_one d : all_idx [d] = map (fun l => [l]) (seq 0 d).
Proof. cbn [all_idx map]. apply sf_flat_map_single. Qed.

(* find_pos / pos_in *)
Lemma sf_find_pos_some j s : forall p, find_pos j s = Some p -> p < length s /\ nth p s 0 = j.
Proof.
  induction s as [|x s IH]; intros p H; cbn [find_pos] in H; [discriminate H|].
  destruct (Nat.eqb_spec x j) as [->|Hne].
  - inversion H; subst p. cbn. split; [lia|reflexivity].
  - destruct (find_pos j s) as [q|] eqn:E; [|discriminate H].
    inversion H; subst p. destruct (IH q eq_refl) as [H1 H2]. cbn [length nth]. split; [lia|exact H2].
Qed.

Lemma sf_find_pos_none j s : find_pos j s = None -> ~ In j s.
Proof.
  induction s as [|x s IH]; cbn [find_pos In]; [tauto|].
  destruct (Nat.eqb_spec x j) as [->|Hne]; [discriminate|].
  destruct (find_pos j s); [discriminate|]. intros _ [H|H]; [congruence|]. apply IH; [reflexivity|exact H].
Qed.

Lemma sf_find_pos_in j s : In j s -> exists p, find_pos j s = Some p.
Proof.
  intros H. destruct (find_pos j s) as [p|] eqn:E; [exists p; reflexivity|].
  exfalso. apply (sf_find_pos_none j s E H).
Qed.

Lemma sf_find_pos_notin j s : ~ In j s -> find_pos j s = None.
Proof.
  intros H. destruct (find_pos j s) as [p|] eqn:E; [|reflexivity].
  exfalso. apply H. apply sf_find_pos_some in E. destruct E as [E1 E2]. rewrite <- E2. apply nth_In, E1.
Qed.

Lemma sf_find_pos_map_inj (f : nat -> nat) j l :
  (forall x, In x l -> f x = f j -> x = j) ->
  find_pos (f j) (map f l) = find_pos j l.
Proof.
  induction l as [|x l IH]; intros H; cbn [map find_pos]; [reflexivity|].
  destruct (Nat.eqb_spec (f x) (f j)) as [E|E].
  - rewrite (H x (or_introl eq_refl) E), Nat.eqb_refl. reflexivity.
  - destruct (Nat.eqb_spec x j) as [->|E']; [congruence|].
    rewrite IH by (intros y Hy; apply H; right; exact Hy). reflexivity.
Qed.

Lemma sf_pos_in_map_inj (f : nat -> nat) j l :
  (forall x, In x l -> f x = f j -> x = j) ->
  pos_in (f j) (map f l) = pos_in j l.
Proof. intros H. unfold pos_in. rewrite sf_find_pos_map_inj by exact H. reflexivity. Qed.

Lemma sf_pos_in_lt j l : In j l -> pos_in j l < length l /\ nth (pos_in j l) l 0 = j.
Proof.
  intros H. destruct (sf_find_pos_in j l H) as [p Hp]. unfold pos_in. rewrite Hp.
  apply sf_find_pos_some. exact Hp.
Qed.

Lemma sf_pos_in_nth l : NoDup l -> forall k, k < length l -> pos_in (nth k l 0) l = k.
Proof.
  intros ND k Hk. destruct (sf_pos_in_lt (nth k l 0) l (nth_In l 0 Hk)) as [H1 H2].
  rewrite (NoDup_nth l 0) in ND. apply ND; assumption.
Qed.

(* unique on a duplicate-free list *)
Lemma sf_unique_acc_id l : forall seen, NoDup l -> (forall x, In x l -> ~ In x seen) ->
  unique_acc seen l = l.
Proof.
  induction l as [|x l IH]; intros seen ND Hd; cbn [unique_acc]; [reflexivity|].
  inversion ND as [|? ? Hn ND']; subst.
  assert (E : memb x seen = false) by (apply memb_false, Hd; left; reflexivity).
  rewrite E. f_equal. apply IH; [exact ND'|].
  intros y Hy [<-|Hs]; [exact (Hn Hy)|]. apply (Hd y); [right; exact Hy|exact Hs].
Qed.

Lemma sf_unique_id l : NoDup l -> unique l = l.
Proof. intros ND. unfold unique. apply sf_unique_acc_id; [exact ND|]. intros x _ []. Qed.

Lemma sf_unique_acc_in x l : forall seen,
  In x (unique_acc seen l) <-> In x l /\ ~ In x seen.
Proof.
  induction l as [|y l IH]; intros seen; cbn [unique_acc].
  - cbn [In]. tauto.
  - destruct (memb y seen) eqn:E.
    + apply memb_In in E. rewrite IH. cbn [In]. split; [tauto|].
      intros [[->|H] Hn]; tauto.
    + apply memb_false in E. cbn [In]. rewrite IH. cbn [In].
      destruct (Nat.eq_dec y x) as [->|Hne]; tauto.
Qed.

Lemma sf_unique_acc_nodup l : forall seen, NoDup (unique_acc seen l).
Proof.
  induction l as [|y l IH]; intros seen; cbn [unique_acc]; [constructor|].
  destruct (memb y seen) eqn:E; [apply IH|].
  constructor; [|apply IH].
  rewrite sf_unique_acc_in. cbn [In]. tauto.
Qed.

Lemma sf_unique_in x l : In x (unique l) <-> In x l.
Proof. unfold unique. rewrite sf_unique_acc_in. cbn [In]. tauto. Qed.

Lemma sf_unique_nodup l : NoDup (unique l).
Proof. apply sf_unique_acc_nodup. Qed.

(* is_perm *)
Lemma sf_is_perm_elim p n : is_perm p n = true ->
  length p = n /\ NoDup p /\ (forall q, In q p <-> q < n).
Proof.
  unfold is_perm. intros H. apply andb_true_iff in H. destruct H as [HL HF].
  apply Nat.eqb_eq in HL. rewrite forallb_forall in HF.
  assert (Hi : incl (seq 0 n) p).
  { intros j Hj. apply memb_In, HF, Hj. }
  assert (ND : NoDup p).
  { apply (@NoDup_incl_NoDup _ (seq 0 n) p); [apply seq_NoDup|rewrite seq_length; lia|exact Hi]. }
  split; [exact HL|]. split; [exact ND|].
  intros q. split.
  - intros Hq.
    assert (Hi' : incl p (seq 0 n)).
    { apply NoDup_length_incl; [apply seq_NoDup|rewrite seq_length; lia|exact Hi]. }
    apply Hi', in_seq in Hq. lia.
  - intros Hq. apply Hi, in_seq. lia.
Qed.

Lemma sf_is_perm_intro p n : NoDup p -> Forall (fun k => k < n) p -> length p = n -> is_perm p n = true.
Proof.
  intros N HF HL. unfold is_perm. rewrite HL, Nat.eqb_refl. cbn [andb].
  apply forallb_forall. intros j Hj. apply memb_In.
  assert (Hi : incl (seq 0 n) p).
  { apply NoDup_length_incl; [exact N|rewrite seq_length; lia|].
    intros k Hk. rewrite Forall_forall in HF. apply in_seq. specialize (HF k Hk). lia. }
  apply Hi, Hj.
Qed.

Lemma sf_nodupb_NoDup l : nodupb l = true <-> NoDup l.
Proof.
  induction l as [|x l IH]; cbn [nodupb].
  - split; [constructor|reflexivity].
  - rewrite andb_true_iff, negb_true_iff, memb_false, IH. split.
    + intros [H1 H2]. constructor; assumption.
    + intros H. inversion H; subst. split; assumption.
Qed.

(* ================================================================== *)
(* 1. getter characterisations of the kernels                          *)

Definition sf_kept (r : nat) (axes : list nat) : list nat :=
  filter (fun j => negb (memb j axes)) (seq 0 r).

Lemma sum_axes_some t axes :
  nodupb axes = true -> Forall (fun a => a < length (tshape t)) axes ->
  sum_axes t axes =
  Some (tbuild (dims_at (tshape t) (sf_kept (length (tshape t)) axes))
               (fun oidx => zsum (map (fun sidx => tget t (assemble (length (tshape t)) (sf_kept (length (tshape t)) axes) oidx axes sidx))
                                      (all_idx (dims_at (tshape t) axes))))).
Proof.
  intros H1 H2. unfold sum_axes. rewrite H1. cbn [andb].
  assert (E : forallb (fun a => Nat.ltb a (length (tshape t))) axes = true).
  { apply forallb_forall. intros a Ha. apply Nat.ltb_lt. rewrite Forall_forall in H2. apply H2, Ha. }
  rewrite E. reflexivity.
Qed.

Lemma tget_sum_axes t axes t' :
  sum_axes t axes = Some t' ->
  tshape t' = dims_at (tshape t) (sf_kept (length (tshape t)) axes) /\
  wf_tensor t' = true /\
  forall oidx, valid_idx (tshape t') oidx ->
    tget t' oidx =
    zsum (map (fun sidx => tget t (assemble (length (tshape t)) (sf_kept (length (tshape t)) axes) oidx axes sidx))
              (all_idx (dims_at (tshape t) axes))).
Proof.
  intros H. unfold sum_axes in H.
  destruct (nodupb axes && forallb (fun a => Nat.ltb a (length (tshape t))) axes); [|discriminate H].
  inversion H; subst t'; clear H.
  split; [reflexivity|]. split; [apply tbuild_wf|].
  intros oidx Hv. unfold sf_kept. rewrite tget_tbuild by exact Hv. reflexivity.
Qed.

Lemma matmul2_some x y m k n :
  tshape x = [m; k] -> tshape y = [k; n] ->
  matmul x y = Some (tbuild [m; n] (fun idx =>
     zsum (map (fun l => (tget x [nth 0%nat idx 0%nat; l] * tget y [l; nth 1%nat idx 0%nat])%Z) (seq 0 k)))).
Proof.
  intros Hx Hy. unfold matmul. rewrite Hx, Hy. cbv beta iota. rewrite Nat.eqb_refl. reflexivity.
Qed.

Lemma tget_matmul2 x y m k n :
  tshape x = [m; k] -> tshape y = [k; n] ->
  exists t', matmul x y = Some t' /\ tshape t' = [m; n] /\ wf_tensor t' = true /\
    forall i j, i < m -> j < n ->
      tget t' [i; j] = zsum (map (fun l => (tget x [i; l] * tget y [l; j])%Z) (seq 0 k)).
Proof.
  intros Hx Hy. eexists. split; [apply (matmul2_some x y m k n Hx Hy)|].
  split; [reflexivity|]. split; [apply tbuild_wf|].
  intros i j Hi Hj. rewrite tget_tbuild; [reflexivity|].
  constructor; [exact Hi|]. constructor; [exact Hj|]. constructor.
Qed.

Lemma matmul3_some x y b m k n :
  tshape x = [b; m; k] -> tshape y = [b; k; n] ->
  matmul x y = Some (tbuild [b; m; n] (fun idx =>
     zsum (map (fun l => (tget x [nth 0%nat idx 0%nat; nth 1%nat idx 0%nat; l] * tget y [nth 0%nat idx 0%nat; l; nth 2%nat idx 0%nat])%Z) (seq 0 k)))).
Proof.
  intros Hx Hy. unfold matmul. rewrite Hx, Hy. cbv beta iota. rewrite !Nat.eqb_refl. reflexivity.
Qed.

Lemma tget_matmul3 x y b m k n :
  tshape x = [b; m; k] -> tshape y = [b; k; n] ->
  exists t', matmul x y = Some t' /\ tshape t' = [b; m; n] /\ wf_tensor t' = true /\
    forall c i j, c < b -> i < m -> j < n ->
      tget t' [c; i; j] = zsum (map (fun l => (tget x [c; i; l] * tget y [c; l; j])%Z) (seq 0 k)).
Proof.
  intros Hx Hy. eexists. split; [apply (matmul3_some x y b m k n Hx Hy)|].
  split; [reflexivity|]. split; [apply tbuild_wf|].
  intros c i j Hc Hi Hj. rewrite tget_tbuild; [reflexivity|].
  constructor; [exact Hc|]. constructor; [exact Hi|]. constructor; [exact Hj|]. constructor.
Qed.

Lemma tget_multiply x y t' :
  multiply x y = Some t' ->
  bcast_shape (tshape x) (tshape y) = Some (tshape t') /\ wf_tensor t' = true /\
  forall idx, valid_idx (tshape t') idx ->
    tget t' idx = (tget x (clip (tshape x) idx) * tget y (clip (tshape y) idx))%Z.
Proof.
  unfold multiply. destruct (bcast_shape (tshape x) (tshape y)) as [s|] eqn:E; [|discriminate].
  intros H. inversion H; subst t'; clear H.
  split; [reflexivity|]. split; [apply tbuild_wf|].
  intros idx Hv. rewrite tget_tbuild by exact Hv. reflexivity.
Qed.

Lemma adv_index_nil t sel t' :
  adv_index t sel = Some t' -> adv_positions sel = [] -> t' = t.
Proof.
  intros H Ha. unfold adv_index in H.
  destruct (negb (Nat.eqb (length sel) (length (tshape t)))); [discriminate H|].
  rewrite Ha in H. inversion H. reflexivity.
Qed.

Lemma tget_adv_index t sel t' a0 adv' :
  adv_index t sel = Some t' -> adv_positions sel = a0 :: adv' ->
  let adv := a0 :: adv' in
  let sl := slice_positions sel in
  let n := hd 0 (map (fun j => match nth j sel None with Some n => n | None => 0 end) adv) in
  let dpos := if eqb adv (seq a0 (length adv)) then a0 else 0 in
  length sel = length (tshape t) /\
  tshape t' = insert_at dpos n (dims_at (tshape t) sl) /\
  wf_tensor t' = true /\
  forall idx, valid_idx (tshape t') idx ->
    tget t' idx =
    tget t (map (fun j => if memb j adv then nth dpos idx 0
                          else nth (pos_in j sl) (remove_at dpos idx) 0)
                (seq 0 (length (tshape t)))).
Proof.
  intros H Ha adv sl n dpos. unfold adv_index in H.
  destruct (Nat.eqb (length sel) (length (tshape t))) eqn:EL; cbn [negb] in H; [|discriminate H].
  apply Nat.eqb_eq in EL.
  rewrite Ha in H.
  destruct (negb (forallb (Nat.eqb (hd 0 (map (fun j => match nth j sel None with Some n => n | None => 0 end) (a0 :: adv'))))
                          (map (fun j => match nth j sel None with Some n => n | None => 0 end) (a0 :: adv')))); [discriminate H|].
  destruct (negb (forallb (fun j => Nat.leb (hd 0 (map (fun j => match nth j sel None with Some n => n | None => 0 end) (a0 :: adv')))
                                          (nth j (tshape t) 0)) (a0 :: adv'))); [discriminate H|].
  inversion H; subst t'; clear H.
  split; [exact EL|]. split; [reflexivity|]. split; [apply tbuild_wf|].
  intros idx Hv. rewrite tget_tbuild by exact Hv. reflexivity.
Qed.

Lemma transpose_wf t p t' : transpose t p = Some t' -> wf_tensor t' = true.
Proof.
  unfold transpose. destruct (is_perm p (length (tshape t))); [|discriminate].
  intros H. inversion H. apply tbuild_wf.
Qed.

Lemma reshape_wf t s t' : reshape t s = Some t' -> wf_tensor t' = true /\ tshape t' = s.
Proof.
  unfold reshape. destruct (Nat.eqb (nprod s) (length (tdata t))) eqn:E; [|discriminate].
  intros H. inversion H; subst t'. apply Nat.eqb_eq in E.
  split; [|reflexivity]. unfold wf_tensor, tshape, tdata. cbn [fst snd].
  apply Nat.eqb_eq. symmetry. exact E.
Qed.

(* ================================================================== *)
(* 2. getter form of the reference einsum                              *)

Definition sf_inner (terms : list str) (out : str) : list nat :=
  filter (fun j => negb (memb j out)) (unique (concat terms)).

Lemma einsum_ref_shape terms out ops :
  tshape (einsum_ref terms out ops) = map (elook (label_sizes terms ops)) out.
Proof. reflexivity. Qed.

Lemma einsum_ref_wf terms out ops : wf_tensor (einsum_ref terms out ops) = true.
Proof. unfold einsum_ref. cbv zeta. apply tbuild_wf. Qed.

Lemma tget_einsum_ref terms out ops oidx :
  valid_idx (map (elook (label_sizes terms ops)) out) oidx ->
  tget (einsum_ref terms out ops) oidx =
  zsum (map (fun iidx =>
               zprodl (map (fun to => tget (snd to)
                                           (map (elook (combine out oidx ++ combine (sf_inner terms out) iidx)) (fst to)))
                           (combine terms ops)))
            (all_idx (map (elook (label_sizes terms ops)) (sf_inner terms out)))).
Proof.
  intros Hv. unfold einsum_ref, sf_inner. cbv zeta. rewrite tget_tbuild by exact Hv. reflexivity.
Qed.

(* ================================================================== *)
(* 3. environment lookups                                              *)

Lemma elook_app_l e1 e2 j : In j (map fst e1) -> elook (e1 ++ e2) j = elook e1 j.
Proof.
  induction e1 as [|[k v] e1 IH]; cbn [map In app elook fst]; [tauto|].
  intros H. destruct (Nat.eqb_spec k j) as [E|E]; [reflexivity|].
  apply IH. destruct H as [H|H]; [congruence|exact H].
Qed.

Lemma elook_app_r e1 e2 j : ~ In j (map fst e1) -> elook (e1 ++ e2) j = elook e2 j.
Proof.
  induction e1 as [|[k v] e1 IH]; cbn [map In app elook fst]; [reflexivity|].
  intros H. destruct (Nat.eqb_spec k j) as [E|E]; [tauto|].
  apply IH. tauto.
Qed.

Lemma sf_in_combine_fst (ks vs : list nat) j : In j (map fst (combine ks vs)) -> In j ks.
Proof.
  intros H. apply in_map_iff in H. destruct H as [[a b] [E H]]. cbn [fst] in E. subst a.
  apply in_combine_l in H. exact H.
Qed.

Lemma sf_map_fst_combine (ks vs : list nat) : length vs = length ks -> map fst (combine ks vs) = ks.
Proof.
  revert vs. induction ks as [|k ks IH]; intros [|v vs] H; cbn [length] in H; try lia; cbn [combine map fst]; [reflexivity|].
  f_equal. apply IH. lia.
Qed.

Lemma elook_combine_pos ks : forall vs j, In j ks -> length vs = length ks ->
  elook (combine ks vs) j = nth (pos_in j ks) vs 0.
Proof.
  unfold pos_in.
  induction ks as [|k ks IH]; intros vs j Hin HL; [destruct Hin|].
  destruct vs as [|v vs]; cbn [length] in HL; [lia|].
  cbn [combine elook find_pos].
  destruct (Nat.eqb_spec k j) as [E|E]; [reflexivity|].
  destruct Hin as [Hin|Hin]; [congruence|].
  rewrite IH by (try exact Hin; lia).
  destruct (sf_find_pos_in j ks Hin) as [p Hp]. rewrite Hp. reflexivity.
Qed.

Lemma elook_combine_nth ks vs k : NoDup ks -> k < length ks -> length vs = length ks ->
  elook (combine ks vs) (nth k ks 0) = nth k vs 0.
Proof.
  intros ND Hk HL. rewrite elook_combine_pos by (try apply nth_In; assumption).
  rewrite sf_pos_in_nth by assumption. reflexivity.
Qed.

(* ================================================================== *)
(* 4. matrix multiplication is the einsum                              *)

Ltac sf_eqb_step :=
  match goal with
  | |- context [Nat.eqb ?a ?a] => rewrite (Nat.eqb_refl a)
  | |- context [Nat.eqb ?a ?b] =>
      let H := fresh "Hneq" in
      assert (H : Nat.eqb a b = false) by (apply Nat.eqb_neq; congruence);
      rewrite H; clear H
  end.
Ltac sf_eqb :=
  repeat (cbn [unique_acc memb existsb filter orb andb negb map elook combine app fst snd concat nth];
          sf_eqb_step);
  cbn [unique_acc memb existsb filter orb andb negb map elook combine app fst snd concat nth].

Theorem matmul2_is_einsum x y m kk n i j k :
  i <> j -> i <> k -> j <> k ->
  tshape x = [m; kk] -> tshape y = [kk; n] ->
  matmul x y = Some (einsum_ref [[i; k]; [k; j]] [i; j] [x; y]).
Proof.
  intros Hij Hik Hjk Hx Hy.
  rewrite (matmul2_some x y m kk n Hx Hy). f_equal.
  assert (Hsz : label_sizes [[i; k]; [k; j]] [x; y] = [(i, m); (k, kk); (k, kk); (j, n)]).
  { unfold label_sizes. cbn [combine map fst snd concat]. rewrite Hx, Hy. reflexivity. }
  assert (Hin : sf_inner [[i; k]; [k; j]] [i; j] = [k]).
  { unfold sf_inner, unique. sf_eqb. reflexivity. }
  apply tensor_ext.
  - apply tbuild_wf.
  - apply einsum_ref_wf.
  - rewrite einsum_ref_shape, Hsz. unfold tbuild, tshape. cbn [fst]. sf_eqb. reflexivity.
  - intros idx Hv. change (valid_idx [m; n] idx) in Hv.
    destruct (sf_valid_idx_cons _ _ _ Hv) as (i0 & r1 & -> & Hi0 & Hv1).
    destruct (sf_valid_idx_cons _ _ _ Hv1) as (j0 & r2 & -> & Hj0 & Hv2).
    apply sf_valid_idx_nil in Hv2. subst r2.
    rewrite tget_tbuild by exact Hv.
    rewrite tget_einsum_ref by (rewrite Hsz; sf_eqb; exact Hv).
    rewrite Hin, Hsz. sf_eqb.
    rewrite sf_all_idx_one, map_map.
    f_equal. apply map_ext. intros l.
    sf_eqb. rewrite sf_zprodl_pair. reflexivity.
Qed.

Theorem matmul3_is_einsum x y bb m kk n b i j k :
  b <> i -> b <> j -> b <> k -> i <> j -> i <> k -> j <> k ->
  tshape x = [bb; m; kk] -> tshape y = [bb; kk; n] ->
  matmul x y = Some (einsum_ref [[b; i; k]; [b; k; j]] [b; i; j] [x; y]).
Proof.
  intros Hbi Hbj Hbk Hij Hik Hjk Hx Hy.
  rewrite (matmul3_some x y bb m kk n Hx Hy). f_equal.
  assert (Hsz : label_sizes [[b; i; k]; [b; k; j]] [x; y] =
                [(b, bb); (i, m); (k, kk); (b, bb); (k, kk); (j, n)]).
  { unfold label_sizes. cbn [combine map fst snd concat]. rewrite Hx, Hy. reflexivity. }
  assert (Hin : sf_inner [[b; i; k]; [b; k; j]] [b; i; j] = [k]).
  { unfold sf_inner, unique. sf_eqb. reflexivity. }
  apply tensor_ext.
  - apply tbuild_wf.
  - apply einsum_ref_wf.
  - rewrite einsum_ref_shape, Hsz. unfold tbuild, tshape. cbn [fst]. sf_eqb. reflexivity.
  - intros idx Hv. change (valid_idx [bb; m; n] idx) in Hv.
    destruct (sf_valid_idx_cons _ _ _ Hv) as (c0 & r0 & -> & Hc0 & Hv0).
    destruct (sf_valid_idx_cons _ _ _ Hv0) as (i0 & r1 & -> & Hi0 & Hv1).
    destruct (sf_valid_idx_cons _ _ _ Hv1) as (j0 & r2 & -> & Hj0 & Hv2).
    apply sf_valid_idx_nil in Hv2. subst r2.
    rewrite tget_tbuild by exact Hv.
    rewrite tget_einsum_ref by (rewrite Hsz; sf_eqb; exact Hv).
    rewrite Hin, Hsz. sf_eqb.
    rewrite sf_all_idx_one, map_map.
    f_equal. apply map_ext. intros l.
    sf_eqb. rewrite sf_zprodl_pair. reflexivity.
Qed.

(* ================================================================== *)
(* 5. a pure transposition is the einsum                               *)

Lemma sf_label_sizes_single lhs t : label_sizes [lhs] [t] = combine lhs (tshape t).
Proof. unfold label_sizes. cbn [combine map fst snd concat]. apply app_nil_r. Qed.

Lemma sf_dims_at_elook lhs s ps :
  NoDup lhs -> length lhs = length s -> Forall (fun q => q < length lhs) ps ->
  map (elook (combine lhs s)) (map (fun q => nth q lhs 0) ps) = dims_at s ps.
Proof.
  intros ND HL HF. unfold dims_at. rewrite map_map. apply map_ext_in. intros q Hq.
  rewrite Forall_forall in HF.
  apply elook_combine_nth; [exact ND|apply HF, Hq|symmetry; exact HL].
Qed.

Theorem transpose_is_einsum t lhs p :
  NoDup lhs -> length lhs = length (tshape t) -> is_perm p (length lhs) = true ->
  transpose t p = Some (einsum_ref [lhs] (map (fun q => nth q lhs 0) p) [t]).
Proof.
  intros ND HL Hp.
  destruct (sf_is_perm_elim _ _ Hp) as (HLp & NDp & Hpin).
  unfold transpose. rewrite <- HL, Hp. f_equal.
  set (out := map (fun q => nth q lhs 0) p).
  assert (HF : Forall (fun q => q < length lhs) p).
  { apply Forall_forall. intros q Hq. apply Hpin, Hq. }
  assert (Hin : sf_inner [lhs] out = []).
  { unfold sf_inner. apply sf_filter_nil. intros x Hx. apply (proj1 (sf_unique_in _ _)) in Hx.
    cbn [concat] in Hx. rewrite app_nil_r in Hx.
    apply negb_false_iff, memb_In. destruct (In_nth lhs x 0 Hx) as (q & Hq & <-).
    unfold out. apply in_map_iff. exists q. split; [reflexivity|]. apply Hpin, Hq. }
  assert (Hsh : map (elook (label_sizes [lhs] [t])) out = dims_at (tshape t) p).
  { rewrite sf_label_sizes_single. unfold out. apply sf_dims_at_elook; assumption. }
  apply tensor_ext.
  - apply tbuild_wf.
  - apply einsum_ref_wf.
  - rewrite einsum_ref_shape, Hsh. reflexivity.
  - intros idx Hv. change (valid_idx (dims_at (tshape t) p) idx) in Hv.
    rewrite tget_tbuild by exact Hv.
    rewrite tget_einsum_ref by (rewrite Hsh; exact Hv).
    rewrite Hin. cbn [map]. rewrite sf_all_idx_nil. cbn [map combine].
    rewrite sf_zsum_single, sf_zprodl_single. cbn [fst snd]. rewrite app_nil_r.
    f_equal.
    apply (nth_ext _ _ 0 0).
    + rewrite !map_length, seq_length. reflexivity.
    + intros k Hk. rewrite map_length, seq_length in Hk.
      rewrite (nth_map_lt _ (seq 0 (length lhs)) k 0 0) by (rewrite seq_length; exact Hk).
      rewrite seq_nth by exact Hk. cbn [Nat.add].
      rewrite (nth_map_lt (elook (combine out idx)) lhs k 0 0) by exact Hk.
      rewrite elook_combine_pos.
      * unfold out. rewrite (sf_pos_in_map_inj (fun q => nth q lhs 0) k p); [reflexivity|].
        intros q Hq E. rewrite (NoDup_nth lhs 0) in ND.
        apply ND; [apply Hpin, Hq|exact Hk|exact E].
      * unfold out. apply in_map_iff. exists k. split; [reflexivity|apply Hpin, Hk].
      * rewrite (sf_valid_idx_length _ _ Hv). unfold out, dims_at. rewrite !map_length. reflexivity.
Qed.

(* ================================================================== *)
(* 6. summing axes is the einsum                                       *)

Lemma sf_sorted_nodup l : StronglySorted lt l -> NoDup l.
Proof.
  induction 1 as [|a l HS IH HF]; constructor; [|exact IH].
  intros Hin. rewrite Forall_forall in HF. specialize (HF a Hin). lia.
Qed.

Lemma sf_sorted_ext l1 : forall l2, StronglySorted lt l1 -> StronglySorted lt l2 ->
  (forall x, In x l1 <-> In x l2) -> l1 = l2.
Proof.
  induction l1 as [|a l1 IH]; intros [|b l2] S1 S2 H.
  - reflexivity.
  - exfalso. apply (proj2 (H b)). left; reflexivity.
  - exfalso. apply (proj1 (H a)). left; reflexivity.
  - inversion S1 as [|? ? S1' F1]; subst. inversion S2 as [|? ? S2' F2]; subst.
    rewrite Forall_forall in F1. rewrite Forall_forall in F2.
    assert (Eab : a = b).
    { destruct (proj1 (H a) (or_introl eq_refl)) as [E|E]; [congruence|].
      destruct (proj2 (H b) (or_introl eq_refl)) as [E'|E']; [congruence|].
      specialize (F1 b E'). specialize (F2 a E). lia. }
    subst b. f_equal. apply IH; try assumption.
    intros x. split; intros Hx.
    + destruct (proj1 (H x) (or_intror Hx)) as [E|E]; [|exact E].
      subst x. specialize (F1 a Hx). lia.
    + destruct (proj2 (H x) (or_intror Hx)) as [E|E]; [|exact E].
      subst x. specialize (F2 a Hx). lia.
Qed.

Lemma sf_seq_sorted n : forall a, StronglySorted lt (seq a n).
Proof.
  induction n as [|n IH]; intros a; cbn [seq]; constructor; [apply IH|].
  apply Forall_forall. intros x Hx. apply in_seq in Hx. lia.
Qed.

Lemma sf_filter_sorted (f : nat -> bool) l : StronglySorted lt l -> StronglySorted lt (filter f l).
Proof.
  induction 1 as [|a l HS IH HF]; cbn [filter]; [constructor|].
  destruct (f a); [|exact IH]. constructor; [exact IH|].
  rewrite Forall_forall in HF. apply Forall_forall. intros x Hx. apply filter_In in Hx. apply HF, Hx.
Qed.

Lemma sf_kept_in r axes k : In k (sf_kept r axes) <-> k < r /\ ~ In k axes.
Proof.
  unfold sf_kept. rewrite filter_In, in_seq, negb_true_iff, memb_false.
  split; intros [H1 H2]; (split; [lia|exact H2]).
Qed.

Lemma sf_kept_lt r axes : Forall (fun q => q < r) (sf_kept r axes).
Proof. apply Forall_forall. intros q Hq. apply sf_kept_in in Hq. tauto. Qed.

Lemma sf_summed_sorted r axes : StronglySorted lt axes -> Forall (fun a => a < r) axes ->
  filter (fun j => negb (memb j (sf_kept r axes))) (seq 0 r) = axes.
Proof.
  intros S HF. apply sf_sorted_ext; [apply sf_filter_sorted, sf_seq_sorted|exact S|].
  intros x. rewrite filter_In, in_seq, negb_true_iff, memb_false, sf_kept_in.
  rewrite Forall_forall in HF. split.
  - intros [H1 H2]. destruct (in_dec Nat.eq_dec x axes) as [Hi|Hn]; [exact Hi|].
    exfalso. apply H2. split; [lia|exact Hn].
  - intros Hx. specialize (HF x Hx). split; [lia|]. intros [_ Hn]. exact (Hn Hx).
Qed.

Lemma sf_map_nth_seq (l : list nat) : map (fun q => nth q l 0) (seq 0 (length l)) = l.
Proof.
  apply (nth_ext _ _ 0 0).
  - rewrite map_length, seq_length. reflexivity.
  - intros k Hk. rewrite map_length, seq_length in Hk.
    rewrite (nth_map_lt _ (seq 0 (length l)) k 0 0) by (rewrite seq_length; exact Hk).
    rewrite seq_nth by exact Hk. reflexivity.
Qed.

Lemma sf_filter_map {A B} (f : B -> bool) (g : A -> B) (l : list A) :
  filter f (map g l) = map g (filter (fun a => f (g a)) l).
Proof.
  induction l as [|a l IH]; cbn [map filter]; [reflexivity|].
  destruct (f (g a)); cbn [map]; rewrite IH; reflexivity.
Qed.

Lemma sf_filter_labels lhs (f g : nat -> bool) :
  (forall q, q < length lhs -> f (nth q lhs 0) = g q) ->
  filter f lhs = map (fun q => nth q lhs 0) (filter g (seq 0 (length lhs))).
Proof.
  intros H.
  transitivity (filter f (map (fun q => nth q lhs 0) (seq 0 (length lhs)))).
  - f_equal. symmetry. apply sf_map_nth_seq.
  - rewrite sf_filter_map. f_equal. apply filter_ext_in. intros q Hq. apply in_seq in Hq.
    apply H. lia.
Qed.

Lemma sf_in_map_nth lhs ps k :
  NoDup lhs -> k < length lhs -> Forall (fun q => q < length lhs) ps ->
  (In (nth k lhs 0) (map (fun q => nth q lhs 0) ps) <-> In k ps).
Proof.
  intros ND Hk HF. rewrite Forall_forall in HF. rewrite in_map_iff. split.
  - intros (q & E & Hq). rewrite (NoDup_nth lhs 0) in ND.
    assert (q = k) by (apply ND; [apply HF, Hq|exact Hk|exact E]). subst q. exact Hq.
  - intros Hin. exists k. split; [reflexivity|exact Hin].
Qed.

Lemma sf_memb_map_nth lhs ps k :
  NoDup lhs -> k < length lhs -> Forall (fun q => q < length lhs) ps ->
  memb (nth k lhs 0) (map (fun q => nth q lhs 0) ps) = memb k ps.
Proof.
  intros ND Hk HF. apply Bool.eq_iff_eq_true. rewrite !memb_In. apply sf_in_map_nth; assumption.
Qed.

Lemma sf_pos_in_map_nth lhs ps k :
  NoDup lhs -> k < length lhs -> Forall (fun q => q < length lhs) ps ->
  pos_in (nth k lhs 0) (map (fun q => nth q lhs 0) ps) = pos_in k ps.
Proof.
  intros ND Hk HF. apply (sf_pos_in_map_inj (fun q => nth q lhs 0) k ps).
  intros q Hq E. rewrite Forall_forall in HF. rewrite (NoDup_nth lhs 0) in ND.
  apply ND; [apply HF, Hq|exact Hk|exact E].
Qed.

Theorem sum_axes_is_einsum t lhs axes :
  NoDup lhs -> length lhs = length (tshape t) ->
  StronglySorted lt axes -> Forall (fun a => a < length lhs) axes ->
  sum_axes t axes =
  Some (einsum_ref [lhs] (map (fun q => nth q lhs 0) (sf_kept (length lhs) axes)) [t]).
Proof.
  intros ND HL HS HF.
  rewrite sum_axes_some; [|apply sf_nodupb_NoDup, sf_sorted_nodup, HS|rewrite <- HL; exact HF].
  rewrite <- HL. f_equal.
  set (r := length lhs) in *.
  set (kept := sf_kept r axes).
  set (out := map (fun q => nth q lhs 0) kept).
  assert (HFk : Forall (fun q => q < r) kept) by apply sf_kept_lt.
  assert (Hin : sf_inner [lhs] out = map (fun q => nth q lhs 0) axes).
  { unfold sf_inner. cbn [concat]. rewrite app_nil_r, sf_unique_id by exact ND.
    rewrite (sf_filter_labels lhs _ (fun q => negb (memb q kept))).
    - fold r. unfold kept. rewrite sf_summed_sorted by assumption. reflexivity.
    - intros q Hq. f_equal. unfold out. apply sf_memb_map_nth; assumption. }
  assert (Hsh : map (elook (label_sizes [lhs] [t])) out = dims_at (tshape t) kept).
  { rewrite sf_label_sizes_single. unfold out. apply sf_dims_at_elook; assumption. }
  assert (Hsh2 : map (elook (label_sizes [lhs] [t])) (map (fun q => nth q lhs 0) axes) = dims_at (tshape t) axes).
  { rewrite sf_label_sizes_single. apply sf_dims_at_elook; assumption. }
  apply tensor_ext.
  - apply tbuild_wf.
  - apply einsum_ref_wf.
  - rewrite einsum_ref_shape, Hsh. reflexivity.
  - intros oidx Hv. change (valid_idx (dims_at (tshape t) kept) oidx) in Hv.
    rewrite tget_tbuild by exact Hv.
    rewrite tget_einsum_ref by (rewrite Hsh; exact Hv).
    rewrite Hin, Hsh2. f_equal. apply map_ext_in. intros sidx Hs. apply in_all_idx in Hs.
    cbn [map combine]. rewrite sf_zprodl_single. cbn [fst snd].
    f_equal.
    assert (HLo : length oidx = length out).
    { rewrite (sf_valid_idx_length _ _ Hv). unfold out, dims_at. rewrite !map_length. reflexivity. }
    assert (HLs : length sidx = length (map (fun q => nth q lhs 0) axes)).
    { rewrite (sf_valid_idx_length _ _ Hs). unfold dims_at. rewrite !map_length. reflexivity. }
    unfold assemble.
    apply (nth_ext _ _ 0 0).
    + rewrite !map_length, seq_length. reflexivity.
    + intros k Hk. rewrite map_length, seq_length in Hk.
      rewrite (nth_map_lt _ (seq 0 r) k 0 0) by (rewrite seq_length; exact Hk).
      rewrite seq_nth by exact Hk. cbn [Nat.add].
      rewrite (nth_map_lt (elook _) lhs k 0 0) by exact Hk.
      destruct (in_dec Nat.eq_dec k kept) as [Hik|Hnk].
      * destruct (sf_find_pos_in k kept Hik) as [p Hp]. rewrite Hp.
        rewrite elook_app_l.
        2:{ rewrite sf_map_fst_combine by exact HLo. unfold out. apply sf_in_map_nth; assumption. }
        rewrite elook_combine_pos;
          [|unfold out; apply sf_in_map_nth; assumption|exact HLo].
        unfold out. rewrite sf_pos_in_map_nth by assumption.
        unfold pos_in. rewrite Hp. reflexivity.
      * rewrite (sf_find_pos_notin k kept Hnk).
        assert (Hia : In k axes).
        { destruct (in_dec Nat.eq_dec k axes) as [Hi|Hn]; [exact Hi|].
          exfalso. apply Hnk. apply sf_kept_in. split; assumption. }
        destruct (sf_find_pos_in k axes Hia) as [p Hp]. rewrite Hp.
        rewrite elook_app_r.
        2:{ intros Hc. apply sf_in_combine_fst in Hc. unfold out in Hc.
            apply sf_in_map_nth in Hc; try assumption. exact (Hnk Hc). }
        rewrite elook_combine_pos;
          [|apply sf_in_map_nth; assumption|exact HLs].
        rewrite sf_pos_in_map_nth by assumption.
        unfold pos_in. rewrite Hp. reflexivity.
Qed.

(* boolean form of the sortedness condition *)
Fixpoint sf_incrb (l : list nat) : bool :=
  match l with
  | a :: ((b :: _) as r) => Nat.ltb a b && sf_incrb r
  | _ => true
  end.

Lemma sf_incrb_Sorted l : sf_incrb l = true -> Sorted lt l.
Proof.
  induction l as [|a l IH]; intros H; [constructor|].
  destruct l as [|b l]; [constructor; constructor|].
  cbn [sf_incrb] in H. apply andb_true_iff in H. destruct H as [H1 H2]. apply Nat.ltb_lt in H1.
  constructor; [apply IH, H2|constructor; exact H1].
Qed.

Lemma sf_incrb_sorted l : sf_incrb l = true -> StronglySorted lt l.
Proof.
  intros H. apply Sorted_StronglySorted; [intros x y z; apply Nat.lt_trans|apply sf_incrb_Sorted, H].
Qed.

Corollary sum_axes_is_einsum_b t lhs axes :
  NoDup lhs -> length lhs = length (tshape t) ->
  sf_incrb axes = true -> forallb (fun a => Nat.ltb a (length lhs)) axes = true ->
  sum_axes t axes =
  Some (einsum_ref [lhs] (map (fun q => nth q lhs 0) (sf_kept (length lhs) axes)) [t]).
Proof.
  intros ND HL HS HF. apply sum_axes_is_einsum; [exact ND|exact HL|apply sf_incrb_sorted, HS|].
  apply Forall_forall. intros a Ha. rewrite forallb_forall in HF. apply Nat.ltb_lt, HF, Ha.
Qed.

(* ================================================================== *)
(* PART 4: bounded exhaustive sweeps *)


(* ================================================================== *)
(* BOUNDED, EXHAUSTIVE sweeps (vm_compute + forallb_forall)            *)

(* all strings over `syms` of length <= r *)
Fixpoint terms_upto (syms : list nat) (r : nat) : list str :=
  match r with
  | 0 => [[]]
  | S r' => [] :: flat_map (fun t => map (fun c => c :: t) syms) (terms_upto syms r')
  end.
(* all lists over `vals` of length exactly n *)
Fixpoint lists_exact (vals : list nat) (n : nat) : list (list nat) :=
  match n with
  | 0 => [[]]
  | S n' => flat_map (fun t => map (fun c => c :: t) vals) (lists_exact vals n')
  end.
(* all duplicate-free outputs made of labels that occur in `present` *)
Definition outs_for (syms : list nat) (present : str) : list str :=
  filter (fun o => nodupb o && forallb (fun c => memb c present) o) (terms_upto syms (length syms)).

Lemma terms_upto_complete syms r t :
  length t <= r -> Forall (fun c => In c syms) t -> In t (terms_upto syms r).
Proof.
  revert t. induction r as [|r IH]; intros t Hlen Hall.
  - destruct t; [left; reflexivity | cbn in Hlen; lia].
  - destruct t as [|c t]; [left; reflexivity|].
    right. apply in_flat_map. exists t. split.
    + apply IH; [cbn in Hlen; lia | inversion Hall; assumption].
    + apply in_map_iff. exists c. split; [reflexivity | inversion Hall; assumption].
Qed.

Lemma lists_exact_complete vals n t :
  length t = n -> Forall (fun c => In c vals) t -> In t (lists_exact vals n).
Proof.
  revert t. induction n as [|n IH]; intros t Hlen Hall.
  - destruct t; [left; reflexivity | discriminate].
  - destruct t as [|c t]; [discriminate|].
    cbn [lists_exact]. apply in_flat_map. exists t. split.
    + apply IH; [cbn in Hlen; lia | inversion Hall; assumption].
    + apply in_map_iff. exists c. split; [reflexivity | inversion Hall; assumption].
Qed.

Lemma nodupb_true l : NoDup l -> nodupb l = true.
Proof.
  induction 1 as [|x l Hx Hnd IH]; [reflexivity|].
  cbn [nodupb]. rewrite IH, andb_true_r. apply negb_true_iff. apply memb_false. exact Hx.
Qed.

Lemma NoDup_incl_length_le (l syms : list nat) : NoDup l -> incl l syms -> length l <= length syms.
Proof. intros Hnd Hincl. apply NoDup_incl_length; assumption. Qed.

Lemma outs_for_complete syms present o :
  NoDup o -> incl o present -> incl o syms -> In o (outs_for syms present).
Proof.
  intros Hnd Hp Hs. unfold outs_for. apply filter_In. split.
  - apply terms_upto_complete.
    + apply NoDup_incl_length_le; assumption.
    + apply Forall_forall. intros c Hc. apply Hs, Hc.
  - rewrite nodupb_true by assumption. cbn [andb]. apply forallb_forall.
    intros c Hc. apply memb_In. apply Hp, Hc.
Qed.

(* the probe entries: a_i = 256^i, b_j = 256^(|a| * j).  If both sides of an equation are
   bilinear forms  sum_ij c_ij a_i b_j  with natural coefficients c_ij < 256, equality at the
   probe determines every c_ij (base-256 digits). *)
Definition PB : Z := 256%Z.
Definition probe_a (sa : list nat) : tensor :=
  (sa, map (fun i => Z.pow PB (Z.of_nat i)) (seq 0 (nprod sa))).
Definition probe_b (sa sb : list nat) : tensor :=
  (sb, map (fun j => Z.pow PB (Z.of_nat (nprod sa * j))) (seq 0 (nprod sb))).
(* the shape of a term under a size assignment szs (k-th entry = size of the k-th symbol) *)
Definition shape_of (syms szs : list nat) (t : str) : list nat :=
  map (fun c => nth (pos_in c syms) szs 0) t.
Definition eq2 (ta tb out : str) : str := ta ++ [COMMA] ++ tb ++ [ARROW] ++ out.
Definition eq1 (ta out : str) : str := ta ++ [ARROW] ++ out.

Definition check2 (syms : list nat) (ta tb out : str) (szs : list nat) : bool :=
  let a := probe_a (shape_of syms szs ta) in
  let b := probe_b (shape_of syms szs ta) (shape_of syms szs tb) in
  eqb (einsum2 (eq2 ta tb out) a b) (Some (einsum_ref [ta; tb] out [a; b])).

Definition sweep2 (syms : list nat) (r : nat) (vals : list nat) : bool :=
  forallb (fun ta => forallb (fun tb => forallb (fun out => forallb (fun szs => check2 syms ta tb out szs)
     (lists_exact vals (length syms))) (outs_for syms (ta ++ tb))) (terms_upto syms r)) (terms_upto syms r).

Definition check1 (syms : list nat) (ta out : str) (szs : list nat) : bool :=
  let a := probe_a (shape_of syms szs ta) in
  eqb (einsum_single (eq1 ta out) a) (Some (einsum_ref [ta] out [a])).
Definition sweep1 (syms : list nat) (r : nat) (vals : list nat) : bool :=
  forallb (fun ta => forallb (fun out => forallb (fun szs => check1 syms ta out szs)
     (lists_exact vals (length syms))) (outs_for syms ta)) (terms_upto syms r).

(* decidable equality of option tensor reflected *)
Lemma list_eqb_eq {A} (e : A -> A -> bool) (He : forall x y, e x y = true -> x = y) :
  forall l1 l2, list_eqb e l1 l2 = true -> l1 = l2.
Proof.
  induction l1 as [|x l1 IH]; intros [|y l2] H; cbn in H; try discriminate; [reflexivity|].
  apply andb_true_iff in H. destruct H as [H1 H2]. f_equal; [apply He, H1 | apply IH, H2].
Qed.
Lemma tensor_eqb_eq (t1 t2 : tensor) : eqb t1 t2 = true -> t1 = t2.
Proof.
  destruct t1 as [s1 d1], t2 as [s2 d2]. unfold eqb, Eqb_prod. cbn [fst snd]. intros H.
  apply andb_true_iff in H. destruct H as [H1 H2]. f_equal.
  - apply (list_eqb_eq Nat.eqb); [intros x y; apply Nat.eqb_eq | exact H1].
  - apply (list_eqb_eq Z.eqb); [intros x y; apply Z.eqb_eq | exact H2].
Qed.
Lemma otensor_eqb_eq (o1 o2 : option tensor) : eqb o1 o2 = true -> o1 = o2.
Proof.
  destruct o1 as [t1|], o2 as [t2|]; cbn; intros H; try discriminate; [|reflexivity].
  f_equal. apply tensor_eqb_eq, H.
Qed.

Lemma sweep2_sound syms r vals :
  sweep2 syms r vals = true ->
  forall ta tb out szs,
    length ta <= r -> length tb <= r ->
    Forall (fun c => In c syms) ta -> Forall (fun c => In c syms) tb ->
    NoDup out -> incl out (ta ++ tb) ->
    length szs = length syms -> Forall (fun d => In d vals) szs ->
    let a := probe_a (shape_of syms szs ta) in
    let b := probe_b (shape_of syms szs ta) (shape_of syms szs tb) in
    einsum2 (eq2 ta tb out) a b = Some (einsum_ref [ta; tb] out [a; b]).
Proof.
  intros Hs ta tb out szs La Lb Fa Fb Hnd Hincl Lz Fz a b.
  unfold sweep2 in Hs. rewrite forallb_forall in Hs.
  specialize (Hs ta (terms_upto_complete syms r ta La Fa)). rewrite forallb_forall in Hs.
  specialize (Hs tb (terms_upto_complete syms r tb Lb Fb)). rewrite forallb_forall in Hs.
  assert (Ho : In out (outs_for syms (ta ++ tb))).
  { apply outs_for_complete; [assumption | assumption |].
    intros c Hc. apply Hincl in Hc. apply in_app_or in Hc.
    rewrite Forall_forall in Fa, Fb. destruct Hc as [Hc|Hc]; [apply Fa, Hc | apply Fb, Hc]. }
  specialize (Hs out Ho). rewrite forallb_forall in Hs.
  specialize (Hs szs (lists_exact_complete vals (length syms) szs Lz Fz)).
  apply otensor_eqb_eq. exact Hs.
Qed.

Lemma sweep1_sound syms r vals :
  sweep1 syms r vals = true ->
  forall ta out szs,
    length ta <= r -> Forall (fun c => In c syms) ta ->
    NoDup out -> incl out ta ->
    length szs = length syms -> Forall (fun d => In d vals) szs ->
    let a := probe_a (shape_of syms szs ta) in
    einsum_single (eq1 ta out) a = Some (einsum_ref [ta] out [a]).
Proof.
  intros Hs ta out szs La Fa Hnd Hincl Lz Fz a.
  unfold sweep1 in Hs. rewrite forallb_forall in Hs.
  specialize (Hs ta (terms_upto_complete syms r ta La Fa)). rewrite forallb_forall in Hs.
  assert (Ho : In out (outs_for syms ta)).
  { apply outs_for_complete; [assumption | assumption |].
    intros c Hc. apply Hincl in Hc. rewrite Forall_forall in Fa. apply Fa, Hc. }
  specialize (Hs out Ho). rewrite forallb_forall in Hs.
  specialize (Hs szs (lists_exact_complete vals (length syms) szs Lz Fz)).
  apply otensor_eqb_eq. exact Hs.
Qed.

Lemma sweep2_box_3_3 : sweep2 [4;5;6] 3 [1;2] = true.
Proof. vm_compute. reflexivity. Qed.
Lemma sweep2_box_3_2 : sweep2 [4;5;6] 2 [1;2;3] = true.
Proof. vm_compute. reflexivity. Qed.
Lemma sweep1_box_3_4 : sweep1 [4;5;6] 4 [1;2;3] = true.
Proof. vm_compute. reflexivity. Qed.

Theorem einsum2_bounded_3_3 : forall ta tb out szs,
    length ta <= 3 -> length tb <= 3 ->
    Forall (fun c => In c [4;5;6]) ta -> Forall (fun c => In c [4;5;6]) tb ->
    NoDup out -> incl out (ta ++ tb) ->
    length szs = 3 -> Forall (fun d => In d [1;2]) szs ->
    let a := probe_a (shape_of [4;5;6] szs ta) in
    let b := probe_b (shape_of [4;5;6] szs ta) (shape_of [4;5;6] szs tb) in
    einsum2 (eq2 ta tb out) a b = Some (einsum_ref [ta; tb] out [a; b]).
Proof. exact (sweep2_sound [4;5;6] 3 [1;2] sweep2_box_3_3). Qed.

Theorem einsum2_bounded_3_2 : forall ta tb out szs,
    length ta <= 2 -> length tb <= 2 ->
    Forall (fun c => In c [4;5;6]) ta -> Forall (fun c => In c [4;5;6]) tb ->
    NoDup out -> incl out (ta ++ tb) ->
    length szs = 3 -> Forall (fun d => In d [1;2;3]) szs ->
    let a := probe_a (shape_of [4;5;6] szs ta) in
    let b := probe_b (shape_of [4;5;6] szs ta) (shape_of [4;5;6] szs tb) in
    einsum2 (eq2 ta tb out) a b = Some (einsum_ref [ta; tb] out [a; b]).
Proof. exact (sweep2_sound [4;5;6] 2 [1;2;3] sweep2_box_3_2). Qed.

Theorem einsum1_bounded_3_4 : forall ta out szs,
    length ta <= 4 -> Forall (fun c => In c [4;5;6]) ta ->
    NoDup out -> incl out ta ->
    length szs = 3 -> Forall (fun d => In d [1;2;3]) szs ->
    let a := probe_a (shape_of [4;5;6] szs ta) in
    einsum_single (eq1 ta out) a = Some (einsum_ref [ta] out [a]).
Proof. exact (sweep1_sound [4;5;6] 4 [1;2;3] sweep1_box_3_4). Qed.


(* tensordot: every pair of duplicate-free, in-range, equally long axis lists *)
Definition zs (l : list nat) : list Z := map Z.of_nat l.
Definition check_td (sa sb xa xb : list nat) : bool :=
  let a := probe_a sa in
  let b := probe_b sa sb in
  if Nat.eqb (length xa) (length xb) && eqb (dims_at sa xa) (dims_at sb xb) then
    eqb (tensordot (AxPair (zs xa) (zs xb)) a b) (Some (tensordot_ref xa xb a b))
  else true.
Definition axes_for (r : nat) : list (list nat) := outs_for (seq 0 r) (seq 0 r).
Definition sweep_td (r : nat) (vals : list nat) : bool :=
  forallb (fun sa => forallb (fun sb => forallb (fun xa => forallb (fun xb => check_td sa sb xa xb)
     (axes_for (length sb))) (axes_for (length sa))) (terms_upto vals r)) (terms_upto vals r).

Definition check_td_int (sa sb : list nat) (n : nat) : bool :=
  let a := probe_a sa in
  let b := probe_b sa sb in
  let xa := seq (length sa - n) n in
  let xb := seq 0 n in
  if Nat.leb n (length sa) && Nat.leb n (length sb) && eqb (dims_at sa xa) (dims_at sb xb) then
    eqb (tensordot (AxInt n) a b) (Some (tensordot_ref xa xb a b))
  else true.
Definition sweep_td_int (r : nat) (vals : list nat) : bool :=
  forallb (fun sa => forallb (fun sb => forallb (fun n => check_td_int sa sb n) (seq 0 (S r)))
     (terms_upto vals r)) (terms_upto vals r).

Lemma axes_for_complete r x : NoDup x -> Forall (fun j => j < r) x -> In x (axes_for r).
Proof.
  intros Hnd Hall. unfold axes_for.
  assert (Hincl : incl x (seq 0 r)).
  { intros j Hj. rewrite Forall_forall in Hall. apply in_seq. specialize (Hall j Hj). lia. }
  apply outs_for_complete; assumption.
Qed.

Lemma sweep_td_sound r vals :
  sweep_td r vals = true ->
  forall sa sb xa xb,
    length sa <= r -> length sb <= r ->
    Forall (fun d => In d vals) sa -> Forall (fun d => In d vals) sb ->
    NoDup xa -> NoDup xb -> Forall (fun j => j < length sa) xa -> Forall (fun j => j < length sb) xb ->
    length xa = length xb -> dims_at sa xa = dims_at sb xb ->
    let a := probe_a sa in let b := probe_b sa sb in
    tensordot (AxPair (zs xa) (zs xb)) a b = Some (tensordot_ref xa xb a b).
Proof.
  intros Hs sa sb xa xb La Lb Fa Fb Na Nb Ra Rb Hlen Hd a b.
  unfold sweep_td in Hs. rewrite forallb_forall in Hs.
  specialize (Hs sa (terms_upto_complete vals r sa La Fa)). rewrite forallb_forall in Hs.
  specialize (Hs sb (terms_upto_complete vals r sb Lb Fb)). rewrite forallb_forall in Hs.
  specialize (Hs xa (axes_for_complete _ xa Na Ra)). rewrite forallb_forall in Hs.
  specialize (Hs xb (axes_for_complete _ xb Nb Rb)).
  unfold check_td in Hs. rewrite Hlen, Nat.eqb_refl, Hd in Hs.
  assert (E : eqb (dims_at sb xb) (dims_at sb xb) = true).
  { generalize (dims_at sb xb). intros l. induction l as [|x l IH]; [reflexivity|].
    unfold eqb, Eqb_list in *. cbn [list_eqb]. rewrite IH, andb_true_r. apply Nat.eqb_refl. }
  rewrite E in Hs. cbn [andb] in Hs. apply otensor_eqb_eq. exact Hs.
Qed.

Lemma sweep_td_box : sweep_td 3 [1;2] = true.
Proof. vm_compute. reflexivity. Qed.
Lemma sweep_td_int_box : sweep_td_int 3 [1;2] = true.
Proof. vm_compute. reflexivity. Qed.

Theorem tensordot_bounded_3 : forall sa sb xa xb,
    length sa <= 3 -> length sb <= 3 ->
    Forall (fun d => In d [1;2]) sa -> Forall (fun d => In d [1;2]) sb ->
    NoDup xa -> NoDup xb -> Forall (fun j => j < length sa) xa -> Forall (fun j => j < length sb) xb ->
    length xa = length xb -> dims_at sa xa = dims_at sb xb ->
    let a := probe_a sa in let b := probe_b sa sb in
    tensordot (AxPair (zs xa) (zs xb)) a b = Some (tensordot_ref xa xb a b).
Proof. exact (sweep_td_sound 3 [1;2] sweep_td_box). Qed.

Theorem tensordot_int_bounded_3 : forall sa sb n,
    In sa (terms_upto [1;2] 3) -> In sb (terms_upto [1;2] 3) -> n <= 3 ->
    check_td_int sa sb n = true.
Proof.
  intros sa sb n Ha Hb Hn. pose proof sweep_td_int_box as Hs.
  unfold sweep_td_int in Hs. rewrite forallb_forall in Hs. specialize (Hs sa Ha).
  rewrite forallb_forall in Hs. specialize (Hs sb Hb). rewrite forallb_forall in Hs.
  apply Hs. apply in_seq. lia.
Qed.

(* the faithful model of _parse_tensordot_axes_to_matmul mishandles a negative axis of b:
   axis -1 of a rank-1 array is its axis 0, yet the model (like the code) contracts nothing *)
Theorem tensordot_negative_axes_refuted :
  exists a b : tensor,
    wf_tensor a = true /\ wf_tensor b = true /\
    tensordot (AxPair [0%Z] [(-1)%Z]) a b <> Some (tensordot_ref [0] [0] a b) /\
    tensordot (AxPair [0%Z] [0%Z]) a b = Some (tensordot_ref [0] [0] a b).
Proof.
  exists ([2], [1%Z; 2%Z]), ([2], [3%Z; 4%Z]).
  split; [reflexivity|]. split; [reflexivity|]. split; [|vm_compute; reflexivity].
  vm_compute. intros H. discriminate H.
Qed.
